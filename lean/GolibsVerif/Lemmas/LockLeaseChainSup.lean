import GolibsVerif.Lemmas.LockLeaseChainDef
/- Lock lease (C05), part 5: the chain invariant is preserved by the renewal steps -/
namespace Lock
theorem Chain.step_fire {c : Cfg} {s : St} (tm : Timer) (_htm : tm ∈ s.armed)
    (hne' : ∀ u ∈ s.sups, u.await ≠ some tm.id)
    (ho : Own s) (hf : Fresh s) (hd : Dist s) (hl : Lnk c s) (h : Chain c s) :
    Chain c { s with armed := s.armed.filter (· ≠ tm), sups := { l := tm.l, ver := tm.ver, pc := .load } :: s.sups } := by
  obtain ⟨h1, h2, h3⟩ := h
  obtain ⟨o1, o2, o3⟩ := ho
  obtain ⟨f1, f2, f3, f4, f5, f6⟩ := hf
  obtain ⟨d1, d2, d3, d4, d5, d6⟩ := hd
  obtain ⟨l1, l2, l3, l4⟩ := hl
  constructor
  · intro g r hg hr
    rcases h1 g r hg hr with ⟨t, ht, hv⟩ | ⟨u, hu, hv⟩
    · by_cases e : t = tm
      · right; exact ⟨_, List.mem_cons_self, by simp [e ▸ hv]⟩
      · left; exact ⟨t, by simp [ht, e], hv⟩
    · right; exact ⟨u, List.mem_cons_of_mem _ hu, hv⟩
  · grind
  · grind

theorem Chain.step_load {c : Cfg} {s : St} (u : Sup) (hu : u ∈ s.sups) (hp : u.pc = .load)
    (ho : Own s) (hf : Fresh s) (hd : Dist s) (hl : Lnk c s) (h : Chain c s) :
    Chain c { s with sups := { u with pc := .cas (s.future u.l) } :: s.sups.erase u } := by
  obtain ⟨h1, h2, h3⟩ := h
  obtain ⟨o1, o2, o3⟩ := ho
  obtain ⟨f1, f2, f3, f4, f5, f6⟩ := hf
  obtain ⟨d1, d2, d3, d4, d5, d6⟩ := hd
  obtain ⟨l1, l2, l3, l4⟩ := hl
  have hme := fun (a b : Sup) => List.Nodup.mem_erase_iff (a := a) (b := b) d3
  have := Sup.of_load hp
  have K : ∀ g r, s.holds g = true → s.lrec = some r →
      (∀ t ∈ s.armed, t.ver = r.ver → t.l = c.lk g) ∧ (∀ u ∈ s.sups, u.foot = some r.ver → u.l = c.lk g) := by
    intro g r hg hr
    obtain ⟨r', e, ho⟩ := o2 g (Or.inl hg)
    exact l4 r g hr (by grind)
  constructor
  · intro g r hg hr
    rcases h1 g r hg hr with ⟨t, ht, hv⟩ | ⟨u0, hu0, hv⟩
    · left; exact ⟨t, ht, hv⟩
    · right
      by_cases e : u0 = u
      · exact ⟨_, List.mem_cons_self, by grind⟩
      · exact ⟨u0, List.mem_cons_of_mem _ ((hme _ _).2 ⟨e, hu0⟩), hv⟩
  · grind
  · grind

theorem Chain.step_casOk {c : Cfg} {s : St} (u : Sup) (fut : Option Nat) (r : Rec) (hu : u ∈ s.sups) (hp : u.pc = .cas fut)
    (hr : s.lrec = some r) (hv : r.ver = u.ver)
    (ho : Own s) (hf : Fresh s) (hd : Dist s) (hl : Lnk c s) (h : Chain c s) :
    Chain c { s with lrec := some { r with ver := s.nextVer }, nextVer := s.nextVer + 1, sups := { u with pc := .arm fut s.nextVer } :: s.sups.erase u } := by
  obtain ⟨h1, h2, h3⟩ := h
  obtain ⟨o1, o2, o3⟩ := ho
  obtain ⟨f1, f2, f3, f4, f5, f6⟩ := hf
  obtain ⟨d1, d2, d3, d4, d5, d6⟩ := hd
  obtain ⟨l1, l2, l3, l4⟩ := hl
  have hme := fun (a b : Sup) => List.Nodup.mem_erase_iff (a := a) (b := b) d3
  have := Sup.of_cas hp
  have K : ∀ g r, s.holds g = true → s.lrec = some r →
      (∀ t ∈ s.armed, t.ver = r.ver → t.l = c.lk g) ∧ (∀ u ∈ s.sups, u.foot = some r.ver → u.l = c.lk g) := by
    intro g r hg hr
    obtain ⟨r', e, ho⟩ := o2 g (Or.inl hg)
    exact l4 r g hr (by grind)
  constructor
  · intro g r' hg hr'
    right; exact ⟨_, List.mem_cons_self, by grind⟩
  · grind
  · grind [→ Sup.of_arm]

theorem Chain.step_casDef {c : Cfg} {s : St} (u : Sup) (fut : Option Nat) (_hu : u ∈ s.sups) (hp : u.pc = .cas fut)
    (hr : s.lrec = none ∨ ∃ r, s.lrec = some r ∧ r.ver ≠ u.ver)
    (ho : Own s) (hf : Fresh s) (hd : Dist s) (hl : Lnk c s) (h : Chain c s) :
    Chain c { s with sups := s.sups.erase u } := by
  obtain ⟨h1, h2, h3⟩ := h
  obtain ⟨o1, o2, o3⟩ := ho
  obtain ⟨f1, f2, f3, f4, f5, f6⟩ := hf
  obtain ⟨d1, d2, d3, d4, d5, d6⟩ := hd
  obtain ⟨l1, l2, l3, l4⟩ := hl
  have hme := fun (a b : Sup) => List.Nodup.mem_erase_iff (a := a) (b := b) d3
  have := Sup.of_cas hp
  constructor
  · intro g r hg hr'
    rcases h1 g r hg hr' with ⟨t, ht, hv⟩ | ⟨u0, hu0, hv⟩
    · left; exact ⟨t, ht, hv⟩
    · right
      exact ⟨u0, (hme _ _).2 ⟨by grind, hu0⟩, hv⟩
  · grind
  · grind

theorem Chain.step_arm {c : Cfg} {s : St} (u : Sup) (fut : Option Nat) (nv : Nat) (hu : u ∈ s.sups) (hp : u.pc = .arm fut nv)
    (ho : Own s) (hf : Fresh s) (hd : Dist s) (hl : Lnk c s) (h : Chain c s) :
    Chain c { s with armed := { id := s.nextTimer, l := u.l, ver := nv } :: s.armed, nextTimer := s.nextTimer + 1, sups := { u with pc := .swap fut s.nextTimer } :: s.sups.erase u } := by
  obtain ⟨h1, h2, h3⟩ := h
  obtain ⟨o1, o2, o3⟩ := ho
  obtain ⟨f1, f2, f3, f4, f5, f6⟩ := hf
  obtain ⟨d1, d2, d3, d4, d5, d6⟩ := hd
  obtain ⟨l1, l2, l3, l4⟩ := hl
  have hme := fun (a b : Sup) => List.Nodup.mem_erase_iff (a := a) (b := b) d3
  have := Sup.of_arm hp
  have K : ∀ g r, s.holds g = true → s.lrec = some r →
      (∀ t ∈ s.armed, t.ver = r.ver → t.l = c.lk g) ∧ (∀ u ∈ s.sups, u.foot = some r.ver → u.l = c.lk g) := by
    intro g r hg hr
    obtain ⟨r', e, ho⟩ := o2 g (Or.inl hg)
    exact l4 r g hr (by grind)
  constructor
  · intro g r hg hr
    rcases h1 g r hg hr with ⟨t, ht, hv⟩ | ⟨u0, hu0, hv⟩
    · left; exact ⟨t, List.mem_cons_of_mem _ ht, hv⟩
    · by_cases e : u0 = u
      · left; exact ⟨_, List.mem_cons_self, by grind⟩
      · right; exact ⟨u0, List.mem_cons_of_mem _ ((hme _ _).2 ⟨e, hu0⟩), hv⟩
  · intro g r hg hr u' hu'
    have h2' := h2 g r hg hr
    rcases List.mem_cons.1 hu' with rfl | hu'
    · have h2u := h2' u hu
      clear h1 h2 h3 h2'
      constructor
      · grind
      · grind
    · obtain ⟨hne, hm⟩ := (hme _ _).1 hu'
      have h2u := h2' u' hm
      have := f3 u' hm
      clear h1 h2 h3 h2'
      constructor
      · grind
      · grind
  · intro g r hg hr u' hu' hl' hfu
    have h3' := h3 g r hg hr
    rcases List.mem_cons.1 hu' with rfl | hu'
    · have h3u := h3' u hu
      clear h1 h2 h3 h3'
      constructor
      · grind
      · intro tn htn
        exact ⟨_, List.mem_cons_self, by grind⟩
    · obtain ⟨hne, hm⟩ := (hme _ _).1 hu'
      have h3u := h3' u' hm hl' hfu
      refine ⟨h3u.1, ?_⟩
      intro tn htn
      obtain ⟨t, ht, e1, e2⟩ := h3u.2 tn htn
      exact ⟨t, List.mem_cons_of_mem _ ht, e1, e2⟩

theorem Chain.step_swapOk {c : Cfg} {s : St} (u : Sup) (fut : Option Nat) (tn : Nat) (hu : u ∈ s.sups) (hp : u.pc = .swap fut tn)
    (he : s.future u.l = fut)
    (ho : Own s) (hf : Fresh s) (hd : Dist s) (hl : Lnk c s) (h : Chain c s) :
    Chain c { s with future := upd s.future u.l (some tn), sups := s.sups.erase u } := by
  obtain ⟨h1, h2, h3⟩ := h
  obtain ⟨o1, o2, o3⟩ := ho
  obtain ⟨f1, f2, f3, f4, f5, f6⟩ := hf
  obtain ⟨d1, d2, d3, d4, d5, d6⟩ := hd
  obtain ⟨l1, l2, l3, l4⟩ := hl
  have hme := fun (a b : Sup) => List.Nodup.mem_erase_iff (a := a) (b := b) d3
  have := Sup.of_swap hp
  have K : ∀ g r, s.holds g = true → s.lrec = some r →
      (∀ t ∈ s.armed, t.ver = r.ver → t.l = c.lk g) ∧ (∀ u ∈ s.sups, u.foot = some r.ver → u.l = c.lk g) := by
    intro g r hg hr
    obtain ⟨r', e, ho⟩ := o2 g (Or.inl hg)
    exact l4 r g hr (by grind)
  constructor
  · intro g r hg hr
    rcases h1 g r hg hr with ⟨t, ht, hv⟩ | ⟨u0, hu0, hv⟩
    · left; exact ⟨t, ht, hv⟩
    · right; exact ⟨u0, (hme _ _).2 ⟨by grind, hu0⟩, hv⟩
  · grind [upd]
  · grind [upd]

theorem Chain.step_swapFail {c : Cfg} {s : St} (u : Sup) (fut : Option Nat) (tn : Nat) (hu : u ∈ s.sups) (hp : u.pc = .swap fut tn)
    (he : s.future u.l ≠ fut)
    (ho : Own s) (hf : Fresh s) (hd : Dist s) (hl : Lnk c s) (h : Chain c s) :
    Chain c { s with armed := s.armed.filter (·.id ≠ tn), sups := s.sups.erase u } := by
  obtain ⟨h1, h2, h3⟩ := h
  obtain ⟨o1, o2, o3⟩ := ho
  obtain ⟨f1, f2, f3, f4, f5, f6⟩ := hf
  obtain ⟨d1, d2, d3, d4, d5, d6⟩ := hd
  obtain ⟨l1, l2, l3, l4⟩ := hl
  have hme := fun (a b : Sup) => List.Nodup.mem_erase_iff (a := a) (b := b) d3
  have := Sup.of_swap hp
  have K : ∀ g r, s.holds g = true → s.lrec = some r →
      (∀ t ∈ s.armed, t.ver = r.ver → t.l = c.lk g) ∧ (∀ u ∈ s.sups, u.foot = some r.ver → u.l = c.lk g) := by
    intro g r hg hr
    obtain ⟨r', e, ho⟩ := o2 g (Or.inl hg)
    exact l4 r g hr (by grind)
  constructor
  · intro g r hg hr
    rcases h1 g r hg hr with ⟨t, ht, hv⟩ | ⟨u0, hu0, hv⟩
    · left
      refine ⟨t, ?_, hv⟩
      have a1 := (h2 g r hg hr u hu).2 tn this.2.1
      have a2 := l3 u hu tn this.2.1 t ht
      have a3 := (K g r hg hr).1 t ht hv
      refine List.mem_filter.2 ⟨ht, ?_⟩
      simp only [ne_eq, decide_not, Bool.not_eq_eq_eq_not, Bool.not_true, decide_eq_false_iff_not]
      intro e
      have b1 := a1 ⟨t, ht, e, hv⟩
      rw [this.2.2] at b1
      have b2 := a2 e
      apply he
      rw [← b2, a3]
      exact (Option.some.inj b1).symm
    · right; exact ⟨u0, (hme _ _).2 ⟨by grind, hu0⟩, hv⟩
  · grind [upd]
  · grind [upd]

end Lock
