import GolibsVerif.Lemmas.WaitersBasic
/-
Observable effect of the model's primitives (`notify`, `leave`, `live`, `setW`) in terms of
`getEntry`, `getRec`, membership in `closed`, `ws[i]?`, `parkedOn`.
-/
namespace Waiters

def TKeys (s : St) : Prop := (s.table.map (·.1)).Nodup

/-! ### setW -/

@[simp] theorem setW_recs (s : St) (i : Nat) (w : W) : (setW s i w).recs = s.recs := rfl
@[simp] theorem setW_table (s : St) (i : Nat) (w : W) : (setW s i w).table = s.table := rfl
@[simp] theorem setW_closed (s : St) (i : Nat) (w : W) : (setW s i w).closed = s.closed := rfl
@[simp] theorem setW_nextCh (s : St) (i : Nat) (w : W) : (setW s i w).nextCh = s.nextCh := rfl
@[simp] theorem getEntry_setW (s : St) (i : Nat) (w : W) (k : String) : getEntry (setW s i w) k = getEntry s k := rfl
@[simp] theorem getRec_setW (s : St) (i : Nat) (w : W) (k : String) : getRec (setW s i w) k = getRec s k := rfl

theorem setW_get (s : St) (i j : Nat) (w w' : W) (h : s.ws[i]? = some w) :
    (setW s i w').ws[j]? = if j = i then some w' else s.ws[j]? := by
  have hi : i < s.ws.length := by
    rcases Nat.lt_or_ge i s.ws.length with h' | h'
    · exact h'
    · simp [List.getElem?_eq_none h'] at h
  simp only [setW, List.getElem?_set]
  by_cases hji : j = i
  · subst hji; simp [hi]
  · have : ¬ i = j := fun e => hji e.symm
    simp [hji, this]

theorem parkedOn_congr (s t : St) (h : t.ws = s.ws) (c : Nat) : parkedOn t c = parkedOn s c := by
  simp [parkedOn, h]

/-! ### notify -/

@[simp] theorem notify_ws (s : St) (k : String) : (notify s k).ws = s.ws := by
  unfold notify; split <;> rfl
@[simp] theorem notify_recs (s : St) (k : String) : (notify s k).recs = s.recs := by
  unfold notify; split <;> rfl
@[simp] theorem notify_nextCh (s : St) (k : String) : (notify s k).nextCh = s.nextCh := by
  unfold notify; split <;> rfl
@[simp] theorem getRec_notify (s : St) (k k' : String) : getRec (notify s k) k' = getRec s k' := by
  simp [getRec]

theorem getEntry_notify (s : St) (k k' : String) :
    getEntry (notify s k) k' = if k' = k then none else getEntry s k' := by
  unfold notify; split
  · rename_i h
    by_cases hk : k' = k
    · subst hk; simp [h]
    · simp [hk]
  · simp only [getEntry_eq]; exact lookup_filter_ne _ _ _

theorem mem_closed_notify (s : St) (k : String) (c : Nat) :
    c ∈ (notify s k).closed ↔ c ∈ s.closed ∨ ∃ n, getEntry s k = some (c, n) := by
  unfold notify; split
  · rename_i h; simp [h]
  · rename_i ch n h
    simp only [List.mem_cons, h, Option.some.injEq, Prod.mk.injEq]
    constructor
    · rintro (rfl | h') <;> simp_all
    · rintro (h' | ⟨n', rfl, _⟩) <;> simp_all

theorem tkeys_notify (s : St) (k : String) (h : TKeys s) : TKeys (notify s k) := by
  unfold notify; split
  · exact h
  · exact keys_filter_nodup _ _ h

/-! ### live -/

theorem live_cases (s : St) (k : String) :
    (getRec s k = none ∧ live s k = (s, none)) ∨
    (∃ r, getRec s k = some r ∧ r.expired = true ∧
      live s k = (notify { s with recs := s.recs.filter (·.1 != k) } k, none)) ∨
    (∃ r, getRec s k = some r ∧ r.expired = false ∧ live s k = (s, some r.ver)) := by
  unfold live
  cases h : getRec s k with
  | none => simp
  | some r => cases he : r.expired <;> simp [he]

/-! ### leave -/

theorem leave_cases (s : St) (k : String) (c : Nat) :
    ((∀ n, getEntry s k ≠ some (c, n)) ∧ leave s k c = s) ∨
    (∃ n, getEntry s k = some (c, n) ∧ n - 1 = 0 ∧
      leave s k c = { s with closed := c :: s.closed, table := s.table.filter (·.1 != k) }) ∨
    (∃ n, getEntry s k = some (c, n) ∧ n - 1 ≠ 0 ∧
      leave s k c = { s with table := s.table.map fun e => if e.1 == k then (k, c, n - 1) else e }) := by
  unfold leave
  cases h : getEntry s k with
  | none => simp
  | some e =>
    obtain ⟨c', n⟩ := e
    by_cases hc : c' = c
    · subst hc
      by_cases hn : n - 1 = 0 <;> simp [hn]
    · simp [hc]

end Waiters
