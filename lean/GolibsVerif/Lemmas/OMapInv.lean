import GolibsVerif.Lemmas.OMapBasic
/-
Chain invariants of the ordered-map model and their preservation by the three elementary chain
transformations (replace a node, unlink a node, turn the sentinel into an entry and append a new
sentinel).
-/
set_option linter.unusedSimpArgs false
namespace OMap

/-- ids strictly ascending along the chain -/
def Asc (c : List Node) : Prop := c.Pairwise (fun a b => a.id < b.id)

theorem forall_mid {P : Node → Prop} {pre suf : List Node} {n : Node} :
    (∀ x ∈ pre ++ n :: suf, P x) ↔ (∀ x ∈ pre, P x) ∧ P n ∧ (∀ x ∈ suf, P x) := by
  rw [List.forall_mem_append, List.forall_mem_cons]

theorem exists_mid {P : Node → Prop} {pre suf : List Node} {n : Node} :
    (∃ x ∈ pre ++ n :: suf, P x) ↔ (∃ x ∈ pre, P x) ∨ P n ∨ (∃ x ∈ suf, P x) := by
  simp [List.mem_append, List.mem_cons, or_and_right, exists_or]

theorem forall_app {P : Node → Prop} {pre suf : List Node} :
    (∀ x ∈ pre ++ suf, P x) ↔ (∀ x ∈ pre, P x) ∧ (∀ x ∈ suf, P x) := List.forall_mem_append

theorem exists_app {P : Node → Prop} {pre suf : List Node} :
    (∃ x ∈ pre ++ suf, P x) ↔ (∃ x ∈ pre, P x) ∨ (∃ x ∈ suf, P x) := by
  simp [List.mem_append, or_and_right, exists_or]

theorem asc_mid {pre suf : List Node} {n : Node} :
    Asc (pre ++ n :: suf) ↔ Asc pre ∧ Asc suf ∧ (∀ x ∈ pre, x.id < n.id) ∧ (∀ x ∈ suf, n.id < x.id) ∧
      (∀ x ∈ pre, ∀ y ∈ suf, x.id < y.id) := by
  unfold Asc
  rw [List.pairwise_append, List.pairwise_cons]
  simp only [List.mem_cons, forall_eq_or_imp]
  constructor
  · rintro ⟨h1, ⟨h2, h3⟩, h4⟩
    exact ⟨h1, h3, fun x hx => (h4 x hx).1, h2, fun x hx => (h4 x hx).2⟩
  · rintro ⟨h1, h2, h3, h4, h5⟩
    exact ⟨h1, ⟨h4, h2⟩, fun x hx => ⟨h3 x hx, h5 x hx⟩⟩

theorem asc_app {pre suf : List Node} :
    Asc (pre ++ suf) ↔ Asc pre ∧ Asc suf ∧ (∀ x ∈ pre, ∀ y ∈ suf, x.id < y.id) := by
  unfold Asc; rw [List.pairwise_append]

/-- structural part: ascending ids, the sentinel (state `.last`) is the node with the largest id `L` -/
structure Str (c : List Node) (L : Nat) : Prop where
  asc : Asc c
  last_mem : ∃ x ∈ c, x.id = L
  le_last : ∀ x ∈ c, x.id ≤ L
  last_state : ∀ x ∈ c, (x.st = .last ↔ x.id = L)

/-- chain invariant w.r.t. a head pointer `hd`, sentinel id `L` and a reference-count function -/
structure CS (c : List Node) (hd L : Nat) (rc : Nat → Int) : Prop extends Str c L where
  head_mem : ∃ x ∈ c, x.id = hd
  head_le : ∀ x ∈ c, hd ≤ x.id
  pinned : ∀ x ∈ c, x.st = .deleted → 0 < x.refCnt
  refc : ∀ x ∈ c, x.refCnt = rc x.id
  valid : ∀ y, rc y ≠ 0 → ∃ x ∈ c, x.id = y

theorem Str.replace {pre suf : List Node} {n n' : Node} {L : Nat}
    (h : Str (pre ++ n :: suf) L) (hid : n'.id = n.id) (hst : n'.st = .last ↔ n.st = .last) :
    Str (pre ++ n' :: suf) L := by
  obtain ⟨h1, h2, h3, h4⟩ := h
  rw [asc_mid] at h1
  rw [exists_mid] at h2
  rw [forall_mid] at h3 h4
  refine ⟨?_, ?_, ?_, ?_⟩
  · rw [asc_mid, hid]; exact h1
  · rw [exists_mid, hid]; exact h2
  · rw [forall_mid, hid]; exact h3
  · rw [forall_mid, hid, hst]; exact h4

theorem Str.unlink {pre suf : List Node} {n : Node} {L : Nat}
    (h : Str (pre ++ n :: suf) L) (hst : n.st ≠ .last) :
    Str (pre ++ suf) L := by
  obtain ⟨h1, h2, h3, h4⟩ := h
  rw [asc_mid] at h1
  rw [exists_mid] at h2
  rw [forall_mid] at h3 h4
  refine ⟨?_, ?_, ?_, ?_⟩
  · rw [asc_app]; exact ⟨h1.1, h1.2.1, h1.2.2.2.2⟩
  · rw [exists_app]
    rcases h2 with h2 | h2 | h2
    · exact Or.inl h2
    · exact absurd (h4.2.1.mpr h2) hst
    · exact Or.inr h2
  · rw [forall_app]; exact ⟨h3.1, h3.2.2⟩
  · rw [forall_app]; exact ⟨h4.1, h4.2.2⟩

/-- a non-sentinel node has a successor -/
theorem Str.suf_ne_nil {pre suf : List Node} {n : Node} {L : Nat}
    (h : Str (pre ++ n :: suf) L) (hst : n.st ≠ .last) : suf ≠ [] := by
  obtain ⟨h1, h2, h3, h4⟩ := h
  rw [asc_mid] at h1
  rw [exists_mid] at h2
  rw [forall_mid] at h3 h4
  rintro rfl
  rcases h2 with ⟨x, hx, hxl⟩ | h2 | ⟨x, hx, _⟩
  · have := h1.2.2.1 x hx; have := h3.2.1; omega
  · exact hst (h4.2.1.mpr h2)
  · simp at hx

theorem CS.replace {pre suf : List Node} {n n' : Node} {hd L : Nat} {rc rc' : Nat → Int}
    (h : CS (pre ++ n :: suf) hd L rc) (hid : n'.id = n.id) (hst : n'.st = .last ↔ n.st = .last)
    (hpin : n'.st = .deleted → 0 < n'.refCnt) (hrc : n'.refCnt = rc' n.id)
    (hrc' : ∀ y, y ≠ n.id → rc' y = rc y) : CS (pre ++ n' :: suf) hd L rc' := by
  obtain ⟨hs, h1, h2, h3, h4, h5⟩ := h
  have hasc := asc_mid.mp hs.asc
  rw [exists_mid] at h1
  rw [forall_mid] at h2 h3 h4
  refine ⟨hs.replace hid hst, ?_, ?_, ?_, ?_, ?_⟩
  · rw [exists_mid, hid]; exact h1
  · rw [forall_mid, hid]; exact h2
  · rw [forall_mid]; exact ⟨h3.1, hpin, h3.2.2⟩
  · rw [forall_mid, hid]
    refine ⟨fun x hx => ?_, hrc, fun x hx => ?_⟩
    · rw [h4.1 x hx, hrc']; have := hasc.2.2.1 x hx; omega
    · rw [h4.2.2 x hx, hrc']; have := hasc.2.2.2.1 x hx; omega
  · intro y hy
    rw [exists_mid, hid]
    by_cases hyn : y = n.id
    · exact Or.inr (Or.inl hyn.symm)
    · rw [hrc' y hyn] at hy
      exact exists_mid.mp (h5 y hy)

theorem asc_ne_pre {pre suf : List Node} {n : Node} (h : Asc (pre ++ n :: suf)) :
    ∀ x ∈ pre, x.id ≠ n.id := by
  intro x hx; have := (asc_mid.mp h).2.2.1 x hx; omega

theorem asc_ne_suf {pre suf : List Node} {n : Node} (h : Asc (pre ++ n :: suf)) :
    ∀ x ∈ suf, x.id ≠ n.id := by
  intro x hx; have := (asc_mid.mp h).2.2.2.1 x hx; omega

theorem CS.unlink {pre suf : List Node} {n : Node} {hd hd' L : Nat} {rc rc' : Nat → Int}
    (h : CS (pre ++ n :: suf) hd L rc) (hst : n.st ≠ .last)
    (hrc0 : rc' n.id = 0) (hrc' : ∀ y, y ≠ n.id → rc' y = rc y)
    (hhd1 : pre = [] → suf.head?.map (·.id) = some hd') (hhd2 : pre ≠ [] → hd' = hd) :
    CS (pre ++ suf) hd' L rc' := by
  obtain ⟨hs, h1, h2, h3, h4, h5⟩ := h
  have hasc := asc_mid.mp hs.asc
  rw [exists_mid] at h1
  rw [forall_mid] at h2 h3 h4
  refine ⟨hs.unlink hst, ?_, ?_, ?_, ?_, ?_⟩
  · cases pre with
    | nil =>
      cases suf with
      | nil => simp at hhd1
      | cons g r =>
        have : g.id = hd' := by simpa using hhd1 rfl
        exact ⟨g, by simp, this⟩
    | cons a pre' =>
      rw [hhd2 (by simp), exists_app]
      rcases h1 with h1 | h1 | ⟨x, hx, hxl⟩
      · exact Or.inl h1
      · have := hasc.2.2.1 a (by simp); have := h2.1 a (by simp); omega
      · have := hasc.2.2.2.2 a (by simp) x hx; have := h2.1 a (by simp); omega
  · cases pre with
    | nil =>
      cases suf with
      | nil => simp at hhd1
      | cons g r =>
        have hg : g.id = hd' := by simpa using hhd1 rfl
        have := List.pairwise_cons.mp hasc.2.1
        intro x hx
        simp only [List.nil_append, List.mem_cons] at hx
        rcases hx with rfl | hx
        · omega
        · have := this.1 x hx; omega
    | cons a pre' =>
      rw [hhd2 (by simp), forall_app]; exact ⟨h2.1, h2.2.2⟩
  · rw [forall_app]; exact ⟨h3.1, h3.2.2⟩
  · rw [forall_app]
    refine ⟨fun x hx => ?_, fun x hx => ?_⟩
    · rw [h4.1 x hx, hrc']; have := hasc.2.2.1 x hx; omega
    · rw [h4.2.2 x hx, hrc']; have := hasc.2.2.2.1 x hx; omega
  · intro y hy
    have hyn : y ≠ n.id := by rintro rfl; exact hy hrc0
    rw [hrc' y hyn] at hy
    rcases exists_mid.mp (h5 y hy) with h | h | h
    · exact exists_app.mpr (Or.inl h)
    · exact absurd h.symm hyn
    · exact exists_app.mpr (Or.inr h)

/-- the sentinel is physically the final node -/
theorem Str.decomp_last {c : List Node} {L : Nat} (h : Str c L) :
    ∃ init l, c = init ++ [l] ∧ l.id = L ∧ l.st = .last ∧ (∀ x ∈ init, x.id < L) := by
  obtain ⟨h1, ⟨x, hx, hxl⟩, h3, h4⟩ := h
  rcases List.eq_nil_or_concat c with rfl | ⟨init, l, rfl⟩
  · simp at hx
  · rw [List.concat_eq_append] at *
    have hasc := (asc_mid (suf := [])).mp h1
    have hl : l.id = L := by
      rcases List.mem_append.mp hx with hx | hx
      · have := hasc.2.2.1 x hx; have := h3 l (by simp); omega
      · simp at hx; rw [← hx]; exact hxl
    refine ⟨init, l, rfl, hl, (h4 l (by simp)).mpr hl, ?_⟩
    intro y hy; have := hasc.2.2.1 y hy; omega

theorem Str.getLast {c : List Node} {L : Nat} (h : Str c L) : c.getLast?.map (·.id) = some L := by
  obtain ⟨init, l, rfl, hl, _, _⟩ := h.decomp_last
  simp [hl]

theorem Str.nodup {c : List Node} {L : Nat} (h : Str c L) : (c.map (·.id)).Nodup := by
  rw [List.nodup_iff_pairwise_ne, List.pairwise_map]
  exact List.Pairwise.imp (fun hab => Nat.ne_of_lt hab) h.asc

theorem CS.head {c : List Node} {hd L : Nat} {rc : Nat → Int} (h : CS c hd L rc) :
    c.head?.map (·.id) = some hd := by
  obtain ⟨x, hx, hxh⟩ := h.head_mem
  cases c with
  | nil => simp at hx
  | cons a r =>
    simp only [List.head?_cons, Option.map_some, Option.some.injEq]
    rcases List.mem_cons.mp hx with rfl | hx
    · exact hxh
    · have := (List.pairwise_cons.mp h.asc).1 x hx
      have := h.head_le a (by simp); omega

/-- effect of `Add` on the chain: the sentinel becomes the entry, a new sentinel is appended -/
theorem CS.add {c : List Node} {hd L : Nat} {rc : Nat → Int} (h : CS c hd L rc) (k v : Nat) :
    CS (updNode c L (fun n => { n with st := .ok, key := k, val := v }) ++
        [{ id := L + 1, st := .last, refCnt := 0, key := 0, val := 0 }]) hd (L + 1) rc ∧
    okl (updNode c L (fun n => { n with st := .ok, key := k, val := v }) ++
        [{ id := L + 1, st := .last, refCnt := 0, key := 0, val := 0 }]) = okl c ++ [(L, k, v)] := by
  obtain ⟨init, l, rfl, hl, hlst, hinit⟩ := h.toStr.decomp_last
  obtain ⟨hs, h1, h2, h3, h4, h5⟩ := h
  have hasc := (asc_mid (suf := [])).mp hs.asc
  have hupd : updNode (init ++ [l]) L (fun n => { n with st := .ok, key := k, val := v }) =
      init ++ [{ l with st := .ok, key := k, val := v }] := by
    rw [← hl]; exact updNode_mid (asc_ne_pre hs.asc) (by simp)
  rw [hupd, List.append_assoc]
  simp only [List.cons_append, List.nil_append]
  rw [exists_mid] at h1
  rw [forall_mid] at h2 h3 h4
  have hls := hs.last_state
  rw [forall_mid] at hls
  refine ⟨⟨⟨?_, ?_, ?_, ?_⟩, ?_, ?_, ?_, ?_, ?_⟩, ?_⟩
  · rw [asc_mid]
    refine ⟨hasc.1, by simp [Asc], hasc.2.2.1, by simp [hl], ?_⟩
    intro x hx y hy; simp at hy; subst hy; have := hinit x hx; simp; omega
  · rw [exists_mid]; exact Or.inr (Or.inr ⟨_, List.mem_cons_self, rfl⟩)
  · rw [forall_mid]
    refine ⟨fun x hx => ?_, by simp [hl], by simp⟩
    have := hinit x hx; omega
  · rw [forall_mid]
    refine ⟨fun x hx => ?_, by simp [hl], by simp⟩
    have := hinit x hx
    have := (hls.1 x hx)
    constructor
    · intro hxs; have := this.mp hxs; omega
    · intro hxs; omega
  · rw [exists_mid]
    rcases h1 with h1 | h1 | h1
    · exact Or.inl h1
    · exact Or.inr (Or.inl h1)
    · simp at h1
  · rw [forall_mid]; refine ⟨h2.1, h2.2.1, ?_⟩
    intro x hx; simp at hx; subst hx; have := h2.2.1; simp; omega
  · rw [forall_mid]; refine ⟨h3.1, by simp, by simp⟩
  · rw [forall_mid]; refine ⟨h4.1, h4.2.1, ?_⟩
    intro x hx; simp at hx; subst hx; simp
    have : rc (L + 1) = 0 := by
      apply Classical.byContradiction; intro hne
      obtain ⟨y, hy, hyl⟩ := h5 (L + 1) hne
      have := hs.le_last y hy; omega
    exact this.symm
  · intro y hy
    rcases exists_mid.mp (h5 y hy) with h | h | h
    · exact exists_mid.mpr (Or.inl h)
    · exact exists_mid.mpr (Or.inr (Or.inl h))
    · simp at h
  · rw [okl_append, okl_append, okl_cons_ok rfl, okl_cons_not (by simp), okl_cons_not (by simp [hlst])]
    simp [hl]

end OMap
