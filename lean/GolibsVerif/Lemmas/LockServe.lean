import GolibsVerif.Lemmas.Lock
/-
Constructive continuations for C04Live ("AG EF served"): from every reachable fault-free state an
acquiring caller can be driven to hold the lock.  Phase lemmas of the form
`Reach s → … → ∃ t, Run s t ∧ (frame facts)`, chained with `Run.trans`.
-/
namespace Lock

/-- finite sequences of fault-free steps under the lease assumption -/
inductive Run (c : Cfg) : St → St → Prop
  | refl (s : St) : Run c s s
  | step {s t u : St} : Step c false false s t → Run c t u → Run c s u

theorem Run.trans {c : Cfg} {s t u : St} (h₁ : Run c s t) (h₂ : Run c t u) : Run c s u := by
  induction h₁ with
  | refl _ => exact h₂
  | step hs _ ih => exact Run.step hs (ih h₂)

theorem Run.one {c : Cfg} {s t : St} (h : Step c false false s t) : Run c s t :=
  Run.step h (Run.refl t)

theorem Run.reach {c : Cfg} {s t : St} (h : Run c s t) (hr : Reach c false false s) :
    Reach c false false t := by
  induction h with
  | refl _ => exact hr
  | step hs _ ih => exact ih (Reach.step hr hs)

/-- the caller is inside Lock / LockWithCtx (before the outcome is decided) -/
def Acq (s : St) (g : G) : Prop :=
  s.pc g = .lSelect ∨ s.pc g = .lCtxCheck ∨ s.pc g = .lCreate ∨ ∃ v, s.pc g = .lWait v

/-- between `s` and `t` the caller `g` held the lock -/
def Served (c : Cfg) (s t : St) (g : G) : Prop :=
  ∃ u, Run c s u ∧ Run c u t ∧ u.holds g = true

theorem Served.pre {c : Cfg} {s s' t : St} {g : G} (h : Run c s s') (hs : Served c s' t g) : Served c s t g := by
  obtain ⟨u, h₁, h₂, hu⟩ := hs
  exact ⟨u, h.trans h₁, h₂, hu⟩

theorem Served.post {c : Cfg} {s t t' : St} {g : G} (hs : Served c s t g) (h : Run c t t') : Served c s t' g := by
  obtain ⟨u, h₁, h₂, hu⟩ := hs
  exact ⟨u, h₁, h₂.trans h, hu⟩

/-- frame: only goroutine `g` moved (no call of anybody else, no environment step) -/
structure Only (g : G) (s t : St) : Prop where
  done : t.done = s.done
  ctx : t.ctxDone = s.ctxDone
  pc : ∀ g', g' ≠ g → t.pc g' = s.pc g'
  holds : ∀ g', g' ≠ g → t.holds g' = s.holds g'

theorem Only.refl (g : G) (s : St) : Only g s s := ⟨rfl, rfl, fun _ _ => rfl, fun _ _ => rfl⟩

theorem Only.trans {g : G} {s t u : St} (h₁ : Only g s t) (h₂ : Only g t u) : Only g s u :=
  ⟨h₂.done.trans h₁.done, h₂.ctx.trans h₁.ctx, fun g' h => (h₂.pc g' h).trans (h₁.pc g' h),
    fun g' h => (h₂.holds g' h).trans (h₁.holds g' h)⟩

/-- `g`'s current activity has been driven to completion: back at idle, not holding, token returned -/
def Fin (c : Cfg) (g : G) (s t : St) : Prop :=
  Run c s t ∧ Only g s t ∧ t.pc g = .idle ∧ t.holds g = false ∧ t.token (c.lk g) = true

theorem Fin.cons {c : Cfg} {g : G} {s s' t : St} (hs : Step c false false s s') (ho : Only g s s')
    (hf : Fin c g s' t) : Fin c g s t :=
  ⟨Run.step hs hf.1, ho.trans hf.2.1, hf.2.2⟩

theorem not_holds_of_pc (c : Cfg) (s : St) (hr : Reach c false false s) (g : G) (hp : s.pc g ≠ .idle) :
    s.holds g = false := by
  cases hh : s.holds g with
  | false => rfl
  | true => exact absurd ((Reach_Inv c false s hr).idle g hh) hp

macro "only_tac" : tactic =>
  `(tactic| (constructor <;> intros <;> simp_all [upd]))

/-! ### finishing an Unlock -/

theorem fin_uToken (c : Cfg) (s : St) (g : G) (hr : Reach c false false s) (hp : s.pc g = .uToken) :
    ∃ t, Fin c g s t ∧ t.lrec = s.lrec := by
  have hh := not_holds_of_pc c s hr g (by simp [hp])
  refine ⟨_, ⟨Run.one (Step.uToken s g hp), ?_, ?_, ?_, ?_⟩, rfl⟩
  · only_tac
  · simp [upd]
  · simpa using hh
  · simp [upd]

theorem fin_uDelete (c : Cfg) (s : St) (g : G) (hr : Reach c false false s) (hp : s.pc g = .uDelete) :
    ∃ t, Fin c g s t ∧ t.lrec = none := by
  have st := Step.uDeleteEffect (c := c) (weak := false) (faults := false) s g hp
  obtain ⟨t, hf, hl⟩ := fin_uToken c _ g (Reach.step hr st) (by simp [upd])
  refine ⟨t, Fin.cons st ?_ hf, by simpa using hl⟩
  only_tac

theorem fin_uCancel (c : Cfg) (s : St) (g : G) (hr : Reach c false false s) (hp : s.pc g = .uCancel) :
    ∃ t, Fin c g s t ∧ t.lrec = none := by
  have st := Step.uCancel (c := c) (weak := false) (faults := false) s g hp
  obtain ⟨t, hf, hl⟩ := fin_uDelete c _ g (Reach.step hr st) (by simp [upd])
  refine ⟨t, Fin.cons st ?_ hf, hl⟩
  only_tac

theorem fin_holds (c : Cfg) (s : St) (g : G) (hr : Reach c false false s) (hh : s.holds g = true) :
    ∃ t, Fin c g s t ∧ t.lrec = none := by
  have hi := Reach_Inv c false s hr
  have st := Step.callUnlock (c := c) (weak := false) (faults := false) s g (hi.idle g hh) hh
    (hi.cnt1 g (Or.inl hh))
  obtain ⟨t, hf, hl⟩ := fin_uCancel c _ g (Reach.step hr st) (by simp [upd])
  refine ⟨t, Fin.cons st ?_ hf, hl⟩
  only_tac

/-! ### the failure paths -/

theorem fin_lFail (c : Cfg) (s : St) (g : G) (hr : Reach c false false s) (hp : s.pc g = .lFail) :
    ∃ t, Fin c g s t ∧ t.lrec = s.lrec := by
  have hh := not_holds_of_pc c s hr g (by simp [hp])
  refine ⟨_, ⟨Run.one (Step.lFail s g hp), ?_, ?_, ?_, ?_⟩, rfl⟩
  · only_tac
  · simp [upd]
  · simpa using hh
  · simp [upd]

theorem fin_tFail (c : Cfg) (s : St) (g : G) (hr : Reach c false false s) (hp : s.pc g = .tFail) :
    ∃ t, Fin c g s t ∧ t.lrec = s.lrec := by
  have hh := not_holds_of_pc c s hr g (by simp [hp])
  refine ⟨_, ⟨Run.one (Step.tFail s g hp), ?_, ?_, ?_, ?_⟩, rfl⟩
  · only_tac
  · simp [upd]
  · simpa using hh
  · simp [upd]

/-! ### acquiring once the record is gone -/

theorem acq_lCreate (c : Cfg) (s : St) (g : G) (hp : s.pc g = .lCreate) (hn : s.lrec = none) :
    ∃ u, Run c s u ∧ Only g s u ∧ u.holds g = true := by
  refine ⟨_, Run.one (Step.lCreateOk s g hp hn), ?_, by simp [upd]⟩
  only_tac

theorem acq_lCtxCheck (c : Cfg) (s : St) (g : G) (hp : s.pc g = .lCtxCheck) (hn : s.lrec = none)
    (hc : s.ctxDone g = false) :
    ∃ u, Run c s u ∧ Only g s u ∧ u.holds g = true := by
  have st := Step.lCtxOk (c := c) (weak := false) (faults := false) s g hp hc
  obtain ⟨u, hr, ho, hu⟩ := acq_lCreate c { s with pc := upd s.pc g .lCreate } g (by simp [upd]) hn
  refine ⟨u, Run.step st hr, Only.trans ?_ ho, hu⟩
  only_tac

theorem acq_lWait (c : Cfg) (s : St) (g : G) (v : Nat) (hp : s.pc g = .lWait v) (hn : s.lrec = none)
    (hc : s.ctxDone g = false) :
    ∃ u, Run c s u ∧ Only g s u ∧ u.holds g = true := by
  have st := Step.lWaitRet (c := c) (weak := false) (faults := false) s g v false (by simp) hp
    (Or.inr (Or.inr (Or.inl hn)))
  obtain ⟨u, hr, ho, hu⟩ := acq_lCreate c
    { s with pc := upd s.pc g (if s.ctxDone g then .lFail else .lCreate) } g (by simp [upd, hc]) hn
  refine ⟨u, Run.step st hr, Only.trans ?_ ho, hu⟩
  only_tac

/-- past the select, record gone, context live: the caller acquires -/
theorem acq_sec (c : Cfg) (s : St) (g : G)
    (hp : s.pc g = .lCtxCheck ∨ s.pc g = .lCreate ∨ ∃ v, s.pc g = .lWait v) (hn : s.lrec = none)
    (hc : s.ctxDone g = false) :
    ∃ u, Run c s u ∧ Only g s u ∧ u.holds g = true := by
  rcases hp with hp | hp | ⟨v, hp⟩
  · exact acq_lCtxCheck c s g hp hn hc
  · exact acq_lCreate c s g hp hn
  · exact acq_lWait c s g v hp hn hc

/-- … and then unlocks -/
theorem finish_acq (c : Cfg) (s : St) (g : G) (hr : Reach c false false s)
    (hp : s.pc g = .lCtxCheck ∨ s.pc g = .lCreate ∨ ∃ v, s.pc g = .lWait v) (hn : s.lrec = none)
    (hc : s.ctxDone g = false) :
    ∃ t, Fin c g s t ∧ t.lrec = none ∧ Served c s t g := by
  obtain ⟨u, hru, hou, hu⟩ := acq_sec c s g hp hn hc
  obtain ⟨t, hf, hl⟩ := fin_holds c u g (hru.reach hr) hu
  exact ⟨t, ⟨hru.trans hf.1, hou.trans hf.2.1, hf.2.2⟩, hl, u, hru, hf.1, hu⟩

/-- at the select with the token available: take it, acquire, unlock -/
theorem finish_sel (c : Cfg) (s : St) (g : G) (hr : Reach c false false s) (hd : ∀ p, s.done p = false)
    (hp : s.pc g = .lSelect) (ht : s.token (c.lk g) = true) (hn : s.lrec = none)
    (hc : s.ctxDone g = false) :
    ∃ t, Fin c g s t ∧ t.lrec = none ∧ Served c s t g := by
  have st := Step.lSelToken (c := c) (weak := false) (faults := false) s g hp ht (hd _)
    ((Reach_Inv c false s hr).tokCnt _ ht)
  obtain ⟨t, hf, hl, hs⟩ := finish_acq c _ g (Reach.step hr st) (Or.inl (by simp [upd]))
    (by simpa using hn) (by simpa using hc)
  refine ⟨t, Fin.cons st ?_ hf, hl, hs.pre (Run.one st)⟩
  only_tac

/-- any goroutine inside a Locker's section can be driven out of it once the record is gone;
an acquiring caller with a live context is served on the way -/
theorem finish_sec (c : Cfg) (s : St) (g : G) (hr : Reach c false false s) (hn : s.lrec = none)
    (hp : (s.pc g).sec = true) :
    ∃ t, Fin c g s t ∧ t.lrec = none ∧ (Acq s g → s.ctxDone g = false → Served c s t g) := by
  cases hpc : s.pc g with
  | idle => simp [hpc] at hp
  | lSelect => simp [hpc] at hp
  | tSelect => simp [hpc] at hp
  | lCtxCheck =>
    cases hc : s.ctxDone g with
    | false =>
      obtain ⟨t, hf, hl, hs⟩ := finish_acq c s g hr (Or.inl hpc) hn hc
      exact ⟨t, hf, hl, fun _ _ => hs⟩
    | true =>
      have st := Step.lCtxErr (c := c) (weak := false) (faults := false) s g hpc hc
      obtain ⟨t, hf, hl⟩ := fin_lFail c _ g (Reach.step hr st) (by simp [upd])
      refine ⟨t, Fin.cons st ?_ hf, by simpa [hn] using hl, fun _ h => by simp at h⟩
      only_tac
  | lCreate =>
    cases hc : s.ctxDone g with
    | false =>
      obtain ⟨t, hf, hl, hs⟩ := finish_acq c s g hr (Or.inr (Or.inl hpc)) hn hc
      exact ⟨t, hf, hl, fun _ _ => hs⟩
    | true =>
      have st := Step.lCreateCtxErr (c := c) (weak := false) (faults := false) s g hpc hc
      obtain ⟨t, hf, hl⟩ := fin_lFail c _ g (Reach.step hr st) (by simp [upd])
      refine ⟨t, Fin.cons st ?_ hf, by simpa [hn] using hl, fun _ h => by simp at h⟩
      only_tac
  | lWait v =>
    cases hc : s.ctxDone g with
    | false =>
      obtain ⟨t, hf, hl, hs⟩ := finish_acq c s g hr (Or.inr (Or.inr ⟨v, hpc⟩)) hn hc
      exact ⟨t, hf, hl, fun _ _ => hs⟩
    | true =>
      have st := Step.lWaitRet (c := c) (weak := false) (faults := false) s g v false (by simp) hpc
        (Or.inr (Or.inl hc))
      obtain ⟨t, hf, hl⟩ := fin_lFail c _ g (Reach.step hr st) (by simp [upd, hc])
      refine ⟨t, Fin.cons st ?_ hf, by simpa [hn] using hl, fun _ h => by simp at h⟩
      only_tac
  | lFail =>
    obtain ⟨t, hf, hl⟩ := fin_lFail c s g hr hpc
    exact ⟨t, hf, hl.trans hn, fun ha _ => by simp [Acq, hpc] at ha⟩
  | tFail =>
    obtain ⟨t, hf, hl⟩ := fin_tFail c s g hr hpc
    exact ⟨t, hf, hl.trans hn, fun ha _ => by simp [Acq, hpc] at ha⟩
  | tCreate =>
    have st := Step.tCreateOk (c := c) (weak := false) (faults := false) s g hpc hn
    obtain ⟨t, hf, hl⟩ := fin_holds c _ g (Reach.step hr st) (by simp [upd])
    refine ⟨t, Fin.cons st ?_ hf, hl, fun ha _ => by simp [Acq, hpc] at ha⟩
    only_tac
  | uCancel =>
    obtain ⟨t, hf, hl⟩ := fin_uCancel c s g hr hpc
    exact ⟨t, hf, hl, fun ha _ => by simp [Acq, hpc] at ha⟩
  | uDelete =>
    obtain ⟨t, hf, hl⟩ := fin_uDelete c s g hr hpc
    exact ⟨t, hf, hl, fun ha _ => by simp [Acq, hpc] at ha⟩
  | uToken =>
    obtain ⟨t, hf, hl⟩ := fin_uToken c s g hr hpc
    exact ⟨t, hf, hl.trans hn, fun ha _ => by simp [Acq, hpc] at ha⟩

/-! ### composable frame -/

/-- between `s` and `t` goroutine `g` was either left alone or driven to the end of its call
(and, if it was an acquiring caller with a live context, it held the lock on the way) -/
def Fr (c : Cfg) (s t : St) (g : G) : Prop :=
  (t.pc g = s.pc g ∧ t.holds g = s.holds g) ∨
  (t.pc g = .idle ∧ t.holds g = false ∧ (Acq s g → s.ctxDone g = false → Served c s t g))

theorem Fr.refl (c : Cfg) (s : St) (g : G) : Fr c s s g := Or.inl ⟨rfl, rfl⟩

theorem Fr.trans {c : Cfg} {s t u : St} {g : G} (h₁ : Fr c s t g) (h₂ : Fr c t u g)
    (r₁ : Run c s t) (r₂ : Run c t u) (hc : t.ctxDone = s.ctxDone) : Fr c s u g := by
  rcases h₁ with ⟨p₁, q₁⟩ | ⟨p₁, q₁, s₁⟩
  · rcases h₂ with ⟨p₂, q₂⟩ | ⟨p₂, q₂, s₂⟩
    · exact Or.inl ⟨p₂.trans p₁, q₂.trans q₁⟩
    · refine Or.inr ⟨p₂, q₂, fun ha hcd => (s₂ ?_ (by rw [hc]; exact hcd)).pre r₁⟩
      simpa [Acq, p₁] using ha
  · rcases h₂ with ⟨p₂, q₂⟩ | ⟨p₂, q₂, _⟩
    · exact Or.inr ⟨p₂.trans p₁, q₂.trans q₁, fun ha hcd => (s₁ ha hcd).post r₂⟩
    · exact Or.inr ⟨p₂, q₂, fun ha hcd => (s₁ ha hcd).post r₂⟩

theorem Fr.of_fin {c : Cfg} {s t : St} {g : G} (hf : Fin c g s t)
    (hs : Acq s g → s.ctxDone g = false → Served c s t g) (g' : G) : Fr c s t g' := by
  by_cases h : g' = g
  · subst h; exact Or.inr ⟨hf.2.2.1, hf.2.2.2.1, hs⟩
  · exact Or.inl ⟨hf.2.1.pc g' h, hf.2.1.holds g' h⟩

/-- a phase: a run that touches neither `done` nor any context and leaves every goroutine alone
or finishes its call -/
structure Phase (c : Cfg) (s t : St) : Prop where
  run : Run c s t
  done : t.done = s.done
  ctx : t.ctxDone = s.ctxDone
  fr : ∀ g, Fr c s t g

theorem Phase.refl (c : Cfg) (s : St) : Phase c s s := ⟨Run.refl s, rfl, rfl, Fr.refl c s⟩

theorem Phase.trans {c : Cfg} {s t u : St} (h₁ : Phase c s t) (h₂ : Phase c t u) : Phase c s u :=
  ⟨h₁.run.trans h₂.run, h₂.done.trans h₁.done, h₂.ctx.trans h₁.ctx,
    fun g => (h₁.fr g).trans (h₂.fr g) h₁.run h₂.run h₁.ctx⟩

theorem Phase.of_fin {c : Cfg} {s t : St} {g : G} (hf : Fin c g s t)
    (hs : Acq s g → s.ctxDone g = false → Served c s t g) : Phase c s t :=
  ⟨hf.1, hf.2.1.done, hf.2.1.ctx, Fr.of_fin hf hs⟩

theorem Phase.done_false {c : Cfg} {s t : St} (h : Phase c s t) (hd : ∀ p, s.done p = false) :
    ∀ p, t.done p = false := by
  intro p; rw [h.done]; exact hd p

/-- phase 1: the record's live owner finishes its Unlock -/
theorem clear (c : Cfg) (s : St) (hr : Reach c false false s) :
    ∃ t, Phase c s t ∧ t.lrec = none := by
  cases hl : s.lrec with
  | none => exact ⟨s, Phase.refl c s, hl⟩
  | some r =>
    obtain ⟨h, _, hh⟩ := Reach_ILive c s hr r hl
    have hi := Reach_Inv c false s hr
    rcases hh with hh | hh | hh
    · obtain ⟨t, hf, ht⟩ := fin_holds c s h hr hh
      exact ⟨t, Phase.of_fin hf (fun ha _ => by simp [Acq, hi.idle h hh] at ha), ht⟩
    · obtain ⟨t, hf, ht⟩ := fin_uCancel c s h hr hh
      exact ⟨t, Phase.of_fin hf (fun ha _ => by simp [Acq, hh] at ha), ht⟩
    · obtain ⟨t, hf, ht⟩ := fin_uDelete c s h hr hh
      exact ⟨t, Phase.of_fin hf (fun ha _ => by simp [Acq, hh] at ha), ht⟩

/-- phase 2: with the record gone, the Locker of a caller standing at the select is freed -/
theorem free_token (c : Cfg) (s : St) (hr : Reach c false false s) (hd : ∀ p, s.done p = false)
    (hn : s.lrec = none) (g : G) (hp : s.pc g = .lSelect) :
    ∃ t, Phase c s t ∧ t.lrec = none ∧ t.token (c.lk g) = true ∧ t.pc g = .lSelect := by
  cases ht : s.token (c.lk g) with
  | true => exact ⟨s, Phase.refl c s, hn, ht, hp⟩
  | false =>
    have hi := Reach_Inv c false s hr
    rcases hi.tokBack _ ht with h | ⟨g₂, hlk, hs⟩
    · rw [hd] at h; cases h
    · have hsec : (s.pc g₂).sec = true := by
        rcases hs with hs | hs
        · obtain ⟨r, hr', _⟩ := hi.own g₂ (Or.inl hs)
          rw [hn] at hr'; cases hr'
        · exact hs
      have hne : g ≠ g₂ := by
        intro h; subst h; rw [hp] at hsec; simp at hsec
      obtain ⟨t, hf, hl, hsv⟩ := finish_sec c s g₂ hr hn hsec
      refine ⟨t, Phase.of_fin hf hsv, hl, ?_, ?_⟩
      · rw [← hlk]; exact hf.2.2.2.2
      · rw [hf.2.1.pc g hne]; exact hp

/-- serve one acquiring caller and let it unlock; everybody else is left alone or finished -/
theorem serve_one (c : Cfg) (s : St) (hr : Reach c false false s) (hd : ∀ p, s.done p = false)
    (g : G) (ha : Acq s g) (hc : s.ctxDone g = false) :
    ∃ t, Phase c s t ∧ t.pc g = .idle ∧ t.holds g = false ∧ Served c s t g := by
  obtain ⟨s₁, ph₁, hn₁⟩ := clear c s hr
  have hr₁ := ph₁.run.reach hr
  have hd₁ := ph₁.done_false hd
  rcases ph₁.fr g with ⟨hp₁, _⟩ | ⟨hp₁, hh₁, hs₁⟩
  · have hc₁ : s₁.ctxDone g = false := by rw [ph₁.ctx]; exact hc
    have ha₁ : Acq s₁ g := by simpa [Acq, hp₁] using ha
    rcases ha₁ with hsel | hrest
    · obtain ⟨s₂, ph₂, hn₂, ht₂, hp₂⟩ := free_token c s₁ hr₁ hd₁ hn₁ g hsel
      have hr₂ := ph₂.run.reach hr₁
      have hd₂ := ph₂.done_false hd₁
      have hc₂ : s₂.ctxDone g = false := by rw [ph₂.ctx]; exact hc₁
      obtain ⟨t, hf, _, hsv⟩ := finish_sel c s₂ g hr₂ hd₂ hp₂ ht₂ hn₂ hc₂
      have ph₃ : Phase c s₂ t := Phase.of_fin hf (fun _ _ => hsv)
      exact ⟨t, ph₁.trans (ph₂.trans ph₃), hf.2.2.1, hf.2.2.2.1, hsv.pre (ph₁.run.trans ph₂.run)⟩
    · obtain ⟨t, hf, _, hsv⟩ := finish_acq c s₁ g hr₁ hrest hn₁ hc₁
      have ph₃ : Phase c s₁ t := Phase.of_fin hf (fun _ _ => hsv)
      exact ⟨t, ph₁.trans ph₃, hf.2.2.1, hf.2.2.2.1, hsv.pre ph₁.run⟩
  · exact ⟨s₁, ph₁, hp₁, hh₁, hs₁ ha hc⟩

/-- a goroutine that is idle and not holding at the start of a phase is so at its end
(a phase never makes a call step) -/
theorem Fr.idle_stays {c : Cfg} {s t : St} {g : G} (h : Fr c s t g) (hp : s.pc g = .idle)
    (hh : s.holds g = false) : t.pc g = .idle ∧ t.holds g = false := by
  rcases h with ⟨p, q⟩ | ⟨p, q, _⟩
  · exact ⟨p.trans hp, q.trans hh⟩
  · exact ⟨p, q⟩

/-- serve a whole list of acquiring callers one after the other, each unlocking before the next -/
theorem serve_all (c : Cfg) (gs : List G) : ∀ (s : St), Reach c false false s → (∀ p, s.done p = false) →
    ∃ t, Phase c s t ∧ ∀ g ∈ gs, Acq s g → s.ctxDone g = false →
      t.pc g = .idle ∧ t.holds g = false ∧ Served c s t g := by
  induction gs with
  | nil => intro s _ _; exact ⟨s, Phase.refl c s, fun _ h => by simp at h⟩
  | cons g gs ih =>
    intro s hr hd
    by_cases hg : Acq s g ∧ s.ctxDone g = false
    · obtain ⟨s₁, ph₁, hp₁, hh₁, hs₁⟩ := serve_one c s hr hd g hg.1 hg.2
      obtain ⟨t, ph₂, hall⟩ := ih s₁ (ph₁.run.reach hr) (ph₁.done_false hd)
      have hg' : ∀ g', s₁.pc g' = .idle → s₁.holds g' = false → Served c s s₁ g' →
          t.pc g' = .idle ∧ t.holds g' = false ∧ Served c s t g' := fun g' hp hh hs =>
        ⟨((ph₂.fr g').idle_stays hp hh).1, ((ph₂.fr g').idle_stays hp hh).2, hs.post ph₂.run⟩
      refine ⟨t, ph₁.trans ph₂, ?_⟩
      intro g' hm ha hc
      rcases List.mem_cons.1 hm with rfl | hm
      · exact hg' g' hp₁ hh₁ hs₁
      · rcases ph₁.fr g' with ⟨p, _⟩ | ⟨p, q, sv⟩
        · obtain ⟨a, b, sv⟩ := hall g' hm (by simpa [Acq, p] using ha) (by rw [ph₁.ctx]; exact hc)
          exact ⟨a, b, sv.pre ph₁.run⟩
        · exact hg' g' p q (sv ha hc)
    · obtain ⟨t, ph, hall⟩ := ih s hr hd
      refine ⟨t, ph, ?_⟩
      intro g' hm ha hc
      rcases List.mem_cons.1 hm with rfl | hm
      · exact absurd ⟨ha, hc⟩ hg
      · exact hall g' hm ha hc

end Lock
