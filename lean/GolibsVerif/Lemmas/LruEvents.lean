import GolibsVerif.Lemmas.LruSim
/-
Bookkeeping of create / delete callbacks of `EC` (C08.delete_callback_exactly_once), phrased with
`List.count` so that composition is plain arithmetic.
-/
namespace Lru

def pv (e : Entry) : Nat × Nat := (e.pk, e.v)

theorem createdOk_append : ∀ (l₁ l₂ : List Ev), createdOk (l₁ ++ l₂) = createdOk l₁ ++ createdOk l₂
  | [], _ => rfl
  | .create _ (some _) :: rest, l₂ => by simp [createdOk, createdOk_append rest l₂]
  | .create _ none :: rest, l₂ => by simp [createdOk, createdOk_append rest l₂]
  | .delete _ _ :: rest, l₂ => by simp [createdOk, createdOk_append rest l₂]

theorem deleted_append : ∀ (l₁ l₂ : List Ev), deleted (l₁ ++ l₂) = deleted l₁ ++ deleted l₂
  | [], _ => rfl
  | .create _ _ :: rest, l₂ => by simp [deleted, deleted_append rest l₂]
  | .delete _ _ :: rest, l₂ => by simp [deleted, deleted_append rest l₂]

theorem createdOk_deletes (l : List Entry) : createdOk (l.map fun e => Ev.delete e.pk e.v) = [] := by
  induction l with
  | nil => rfl
  | cons x xs ih => simpa [createdOk] using ih

theorem deleted_deletes (l : List Entry) : deleted (l.map fun e => Ev.delete e.pk e.v) = l.map pv := by
  induction l with
  | nil => rfl
  | cons x xs ih => simpa [deleted, pv] using ih

/-- the balance equation of one call: created + resident before = deleted + resident after -/
def Bal (s : EC) (out : EC × Res × List Ev) : Prop :=
  ∀ a : Nat × Nat, (createdOk out.2.2).count a + (s.items.map pv).count a =
    (deleted out.2.2).count a + (out.1.items.map pv).count a

theorem getOrCreate_bal (c : Cfg) {s : EC} (hk : s.items.Pairwise (fun a b => a.k ≠ b.k)) (pk : Nat) :
    Bal s (s.getOrCreate c pk) := by
  intro x
  unfold EC.getOrCreate
  simp only
  cases hf : findK s.items (c.km pk) with
  | some e =>
    obtain ⟨hke, a, b, hab, ha, hb⟩ := find_split (f := Entry.k) hk hf
    simp only [hab, eraseK, filter_ne_split (f := Entry.k) hke ha hb]
    simp only [createdOk, deleted, List.map_append, List.map_cons, List.map_nil, List.count_append,
      List.count_cons, List.count_nil]
    omega
  | none =>
    have hne : ∀ y ∈ s.items, y.k ≠ c.km pk := by
      intro y hy; simpa using (List.find?_eq_none.1 hf) y hy
    simp only
    cases hcr : c.cr pk s.calls with
    | none => simp [createdOk, deleted]
    | some v =>
      simp only
      split
      · cases hitems : s.items with
        | nil =>
          simp [createdOk, deleted, eraseK]
        | cons f rest =>
          rw [hitems] at hk hne
          have hkk := List.pairwise_cons.1 hk
          have hfk : f.k ≠ c.km pk := hne f List.mem_cons_self
          have hrest : rest.filter (fun y => y.k != f.k) = rest :=
            filter_ne_self (f := Entry.k) (fun y hy => (hkk.1 y hy).symm)
          simp only [List.cons_append, eraseK, List.filter_cons, List.filter_append, hrest]
          simp [createdOk, deleted, pv, Ne.symm hfk, List.count_cons, List.count_append]
          omega
      · simp [createdOk, deleted, pv, List.count_append]
        omega

theorem remove_bal (c : Cfg) {s : EC} (hk : s.items.Pairwise (fun a b => a.k ≠ b.k)) (pk : Nat) :
    Bal s (s.remove c pk) := by
  intro x
  unfold EC.remove
  simp only
  cases hf : findK s.items (c.km pk) with
  | none => simp [createdOk, deleted]
  | some e =>
    obtain ⟨hke, a, b, hab, ha, hb⟩ := find_split (f := Entry.k) hk hf
    simp only [hab, eraseK, filter_ne_split (f := Entry.k) hke ha hb]
    simp only [createdOk, deleted, List.map_append, List.map_cons, List.count_append,
      List.count_cons, List.count_nil, pv]
    omega

theorem clear_bal (s : EC) : Bal s s.clear := by
  intro x
  unfold EC.clear
  simp [createdOk_deletes, deleted_deletes]

theorem Rel.keys {c s r} (h : Rel c s r) : s.items.Pairwise (fun a b => a.k ≠ b.k) := by
  have := h.inv.2
  rwa [List.Nodup, List.pairwise_map] at this

theorem getOrCreateExp_bal {c : Cfg} (hc : 1 ≤ c.cap) {s : EC} {r : Ref} (h : Rel c s r)
    (now pk : Nat) : Bal s (s.getOrCreateExp c now pk) := by
  have h1 := getOrCreate_sim hc h pk
  have b1 := getOrCreate_bal c h.keys pk
  unfold EC.getOrCreateExp
  rcases hs1 : s.getOrCreate c pk with ⟨s1, res1, ev1⟩
  rw [hs1] at h1 b1
  cases res1 with
  | val v =>
    simp only
    by_cases hexp : c.expOf v < now
    · simp only [if_pos hexp]
      have h2 := remove_sim h1.1 pk
      have b2 := remove_bal c h1.1.keys pk
      rcases hs2 : s1.remove c pk with ⟨s2, res2, ev2⟩
      rw [hs2] at h2 b2
      have b3 := getOrCreate_bal c h2.1.keys pk
      rcases hs3 : s2.getOrCreate c pk with ⟨s3, res3, ev3⟩
      rw [hs3] at b3
      intro x
      have e1 := b1 x; have e2 := b2 x; have e3 := b3 x
      simp only [createdOk_append, deleted_append, List.count_append] at e1 e2 e3 ⊢
      omega
    · simp only [if_neg hexp]
      exact b1
  | err => exact b1
  | b x => exact b1
  | num n => exact b1

theorem step_bal {c : Cfg} (hc : 1 ≤ c.cap) {s : EC} {r : Ref} (h : Rel c s r) (op : Op) :
    Bal s (s.step c op) := by
  cases op with
  | getOrCreate pk => exact getOrCreate_bal c h.keys pk
  | remove pk => exact remove_bal c h.keys pk
  | clear => exact clear_bal s
  | getOrCreateExp now pk => exact getOrCreateExp_bal hc h now pk

theorem run_bal {c : Cfg} (hc : 1 ≤ c.cap) (ops : List Op) : ∀ {s : EC} {r : Ref}, Rel c s r →
    ∀ a : Nat × Nat, (createdOk (events (runI c s ops).2)).count a + (s.items.map pv).count a =
      (deleted (events (runI c s ops).2)).count a + ((runI c s ops).1.items.map pv).count a := by
  induction ops with
  | nil => intro s r _ a; simp [runI, events, createdOk, deleted]
  | cons op ops ih =>
    intro s r h a
    have hs := step_sim hc h op
    have b1 : (createdOk (s.step c op).2.2).count a + (s.items.map pv).count a =
        (deleted (s.step c op).2.2).count a + ((s.step c op).1.items.map pv).count a :=
      step_bal hc h op a
    rcases hst : s.step c op with ⟨s1, r1, ev1⟩
    rw [hst] at hs b1
    have b2 := ih hs.1 a
    simp only [runI, hst, events, List.map_cons, List.flatten_cons, createdOk_append, deleted_append,
      List.count_append] at b1 b2 ⊢
    omega

end Lru
