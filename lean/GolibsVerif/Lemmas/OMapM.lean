import GolibsVerif.Lemmas.OMapOps
/-
Specifications of the map-level operations `next`, `getValue`, `release`, `iterator`, `itNext`
under the chain invariant `CS` with one reference "in flight".
-/
set_option linter.unusedSimpArgs false
namespace OMap

theorem mem_id_unique {c : List Node} (ha : Asc c) {x y : Node} (hx : x ∈ c) (hy : y ∈ c)
    (h : x.id = y.id) : x = y := by
  induction c with
  | nil => simp at hx
  | cons a c ih =>
    have hp := List.pairwise_cons.mp ha
    rcases List.mem_cons.mp hx with hx1 | hx1 <;> rcases List.mem_cons.mp hy with hy1 | hy1
    · rw [hx1, hy1]
    · have := hp.1 y hy1; rw [hx1] at h; omega
    · have := hp.1 x hx1; rw [hy1] at h; omega
    · exact ih hp.2 hx1 hy1

theorem findNode_mem {c : List Node} {p : Nat} {n : Node} (h : findNode c p = some n) :
    n ∈ c ∧ n.id = p := by
  obtain ⟨pre, suf, rfl, hid, _⟩ := findNode_split h
  exact ⟨by simp, hid⟩

theorem findNode_of_mem_asc {c : List Node} (ha : Asc c) {x : Node} (hx : x ∈ c) :
    findNode c x.id = some x := by
  obtain ⟨n, hn⟩ := findNode_of_mem ⟨x, hx, rfl⟩
  obtain ⟨h1, h2⟩ := findNode_mem hn
  rw [hn, mem_id_unique ha h1 hx h2]

/-- in-flight reference-count function -/
def plus (r : Nat → Int) (p : Nat) : Nat → Int := fun y => r y + if y = p then 1 else 0

theorem next_spec {m : M} {p : Nat} {n : Node} {r : Nat → Int} (hf : findNode m.chain p = some n)
    (hs : CS m.chain m.head m.last (plus r p)) :
    ∃ m' q, m.next p = some (m', q) ∧ CS m'.chain m'.head m'.last (plus r q) ∧
      okl m'.chain = okl m.chain ∧ Same m m' ∧
      (∃ x ∈ m'.chain, x.id = q ∧ x.st ≠ .deleted) ∧
      (n.st = .last → m' = m ∧ q = p) ∧
      (n.st ≠ .last → p < q ∧ ∀ t ∈ okl m.chain, (p < t.1 ↔ q ≤ t.1)) := by
  obtain ⟨pre, suf, hc, hid, _⟩ := findNode_split hf
  subst hid
  have hlen : suf.length < m.chain.length + 1 := by rw [hc]; simp; omega
  exact nextLoop_spec suf pre n m _ r hc hs hlen

theorem next_isSome {m : M} {p L : Nat} (hf : (findNode m.chain p).isSome) (hs : Str m.chain L) :
    (m.next p).isSome := by
  obtain ⟨n, hn⟩ := Option.isSome_iff_exists.mp hf
  obtain ⟨pre, suf, hc, hid, _⟩ := findNode_split hn
  subst hid
  have hlen : suf.length < m.chain.length + 1 := by rw [hc]; simp; omega
  exact nextLoop_isSome suf pre n m _ hc hs hlen

theorem getValue_spec {m : M} {p : Nat} {n : Node} {r : Nat → Int} (hf : findNode m.chain p = some n)
    (hs : CS m.chain m.head m.last (plus r p)) :
    ∃ m' q n', m.getValue p = some (m', q) ∧ CS m'.chain m'.head m'.last (plus r q) ∧
      okl m'.chain = okl m.chain ∧ Same m m' ∧
      findNode m'.chain q = some n' ∧ n'.st ≠ .deleted ∧ p ≤ q ∧
      (∀ t ∈ okl m.chain, (p ≤ t.1 ↔ q ≤ t.1)) := by
  unfold M.getValue
  rw [hf]
  by_cases hd : n.st = .deleted
  · simp only [hd, if_true]
    obtain ⟨m', q, hrun, hcs, hok, hsame, ⟨x, hx, hxq, hxd⟩, _, hlt⟩ := next_spec hf hs
    have hlt' := hlt (by rw [hd]; simp)
    refine ⟨m', q, x, hrun, hcs, hok, hsame, ?_, hxd, by omega, ?_⟩
    · rw [← hxq]; exact findNode_of_mem_asc hcs.asc hx
    · intro t ht
      have h1 := hlt'.2 t ht
      obtain ⟨y, hy, hyok, rfl⟩ := mem_okl.mp ht
      obtain ⟨hn1, hn2⟩ := findNode_mem hf
      have hne : y.id ≠ p := by
        intro he
        have := mem_id_unique hs.asc hy hn1 (he.trans hn2.symm)
        rw [this, hd] at hyok; simp at hyok
      simp only at h1 ⊢
      rw [← h1]; omega
  · simp only [hd, if_false]
    exact ⟨m, p, n, rfl, hs, rfl, Same.rfl' m, hf, hd, Nat.le_refl _, fun _ _ => Iff.rfl⟩

theorem release_spec {m : M} {p : Nat} {n : Node} {r : Nat → Int} (hf : findNode m.chain p = some n)
    (hs : CS m.chain m.head m.last (plus r p)) :
    ∃ m', m.release p = some m' ∧ CS m'.chain m'.head m'.last r ∧
      okl m'.chain = okl m.chain ∧ Same m m' := by
  obtain ⟨pre, suf, hc, hid, hpre⟩ := findNode_split hf
  subst hid
  have hs' := hs; rw [hc] at hs'
  have hsuf := asc_ne_suf hs'.asc
  unfold M.release
  simp only [hc, findNode_mid hpre, updNode_mid hpre hsuf]
  have hrc := (forall_mid.mp hs'.refc).2.1
  simp only [plus, if_true] at hrc
  by_cases hd : n.st = .deleted
  · rw [if_pos hd]
    have hst : n.st ≠ .last := by rw [hd]; simp
    obtain ⟨g, suf', rfl⟩ : ∃ g suf', suf = g :: suf' := by
      cases suf with
      | nil => exact absurd rfl (hs'.toStr.suf_ne_nil hst)
      | cons g s => exact ⟨g, s, rfl⟩
    obtain ⟨hcs, hok⟩ := hs'.dec hst (decOf_decR n)
    by_cases h0 : n.refCnt - 1 = 0
    · have hdel : ({ m with chain := pre ++ { n with refCnt := n.refCnt - 1 } :: g :: suf' } : M).delete n.id
          = some ({ m with chain := pre ++ g :: suf' }, if pre = [] then some g.id else none) :=
        delete_unlink (m := { m with chain := pre ++ { n with refCnt := n.refCnt - 1 } :: g :: suf' })
          (n := { n with refCnt := n.refCnt - 1 }) rfl hpre hsuf hst h0
      rw [hdel]
      have hdl : decR n = [] := by simp [decR, hd, h0]
      rw [hdl] at hcs hok
      simp only [List.append_nil, and_true] at hcs hok
      refine ⟨_, rfl, ?_, ?_, ?_⟩
      · by_cases hp : pre = [] <;> simpa [M.setHead, hp] using hcs
      · by_cases hp : pre = [] <;> simpa [M.setHead, hp, hc] using hok
      · by_cases hp : pre = [] <;> simp [M.setHead, hp, Same]
    · have hdel : ({ m with chain := pre ++ { n with refCnt := n.refCnt - 1 } :: g :: suf' } : M).delete n.id
          = some ({ m with chain := pre ++ { n with refCnt := n.refCnt - 1, st := .deleted, val := 0 } :: g :: suf' }, none) :=
        delete_mark (m := { m with chain := pre ++ { n with refCnt := n.refCnt - 1 } :: g :: suf' })
          (n := { n with refCnt := n.refCnt - 1 }) rfl hpre hsuf hst h0
      rw [hdel]
      have hdl : decR n = [{ n with refCnt := n.refCnt - 1, st := .deleted, val := 0 }] := by
        simp [decR, hd, h0]
      rw [hdl] at hcs hok
      simp only [List.append_assoc, List.cons_append, List.nil_append, reduceCtorEq, and_false,
        if_false] at hcs hok
      exact ⟨_, rfl, by simpa [M.setHead] using hcs, by simpa [M.setHead, hc] using hok,
        by simp [M.setHead, Same]⟩
  · rw [if_neg hd]
    refine ⟨_, rfl, ?_, ?_, by simp [Same]⟩
    · apply hs'.replace (n' := { n with refCnt := n.refCnt - 1 }) rfl Iff.rfl
      · intro h; exact absurd h hd
      · show n.refCnt - 1 = r n.id; omega
      · intro y hy; simp [plus, hy]
    · show okl (pre ++ { n with refCnt := n.refCnt - 1 } :: suf) = okl (pre ++ n :: suf)
      apply okl_mid_congr
      by_cases hok : n.st = .ok
      · left; exact ⟨hok, hok, rfl, rfl, rfl⟩
      · right; exact ⟨hok, hok⟩

theorem iterator_spec {m : M} {r : Nat → Int} (hs : CS m.chain m.head m.last r) :
    ∃ c', m.iterator = some ({ m with chain := c', its := m.its ++ [(m.nextIt, m.head)],
                                      nextIt := m.nextIt + 1 }, m.nextIt) ∧
      CS c' m.head m.last (plus r m.head) ∧ okl c' = okl m.chain := by
  obtain ⟨x, hx, hxh⟩ := hs.head_mem
  have hf := findNode_of_mem_asc hs.asc hx
  rw [hxh] at hf
  obtain ⟨pre, suf, hc, hid, hpre⟩ := findNode_split hf
  have hs' := hs; rw [hc] at hs'
  have hsuf := asc_ne_suf hs'.asc
  have e : updNode (pre ++ x :: suf) m.head (fun n => { n with refCnt := n.refCnt + 1 }) =
      pre ++ incN x :: suf := by rw [← hid]; exact updNode_mid hpre hsuf
  unfold M.iterator
  rw [hf]
  refine ⟨_, rfl, ?_, ?_⟩
  · rw [hc, e]
    have := hs'.inc; rw [hid] at this; exact this
  · rw [hc, e]
    exact okl_inc _ _ _

theorem itNext_spec {m : M} {p : Nat} {n : Node} {r : Nat → Int} (hf : findNode m.chain p = some n)
    (hs : CS m.chain m.head m.last (plus r p)) :
    ∃ m' q e, m.itNext p = some (m', q, e) ∧ CS m'.chain m'.head m'.last (plus r q) ∧
      okl m'.chain = okl m.chain ∧ Same m m' ∧ p ≤ q ∧
      ((e = none ∧ ∀ t ∈ okl m.chain, ¬ p ≤ t.1) ∨
       (∃ p1 k v, e = some (k, v) ∧ (p1, k, v) ∈ okl m.chain ∧
          (∀ t ∈ okl m.chain, (p ≤ t.1 ↔ p1 ≤ t.1)) ∧ p1 < q ∧
          ∀ t ∈ okl m.chain, (p1 < t.1 ↔ q ≤ t.1))) := by
  obtain ⟨m1, p1, n1, hgv, hcs1, hok1, hsame1, hf1, hnd1, hle1, hA⟩ := getValue_spec hf hs
  obtain ⟨m2, p2, hnx, hcs2, hok2, hsame2, _, hlast, hnl⟩ := next_spec hf1 hcs1
  obtain ⟨hn1mem, hn1id⟩ := findNode_mem hf1
  unfold M.itNext
  simp only [hgv, hf1, hnx]
  by_cases hst : n1.st = .last
  · obtain ⟨rfl, rfl⟩ := hlast hst
    refine ⟨_, _, _, rfl, hcs2, hok1, hsame1, hle1, Or.inl ⟨by simp [hst], ?_⟩⟩
    intro t ht hpt
    have h1 := (hA t ht).mp hpt
    rw [← hok1] at ht
    obtain ⟨y, hy, hyok, rfl⟩ := mem_okl.mp ht
    have h2 := hcs1.le_last y hy
    have h3 := (hcs1.last_state n1 hn1mem).mp hst
    have h4 : y.id = n1.id := by simp only at h1; omega
    have := mem_id_unique hcs1.asc hy hn1mem h4
    rw [this, hst] at hyok; simp at hyok
  · have hok : n1.st = .ok := by
      cases h : n1.st <;> simp_all
    have hnl' := hnl hst
    refine ⟨_, _, _, rfl, hcs2, hok2.trans hok1, hsame1.trans hsame2, by omega, Or.inr ?_⟩
    refine ⟨p1, n1.key, n1.val, by simp [hst], ?_, hA, hnl'.1, ?_⟩
    · rw [← hok1, ← hn1id]; exact mem_okl.mpr ⟨n1, hn1mem, hok, rfl⟩
    · intro t ht; rw [← hok1] at ht; exact hnl'.2 t ht

end OMap
