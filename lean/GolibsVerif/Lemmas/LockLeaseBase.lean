import GolibsVerif.Model.Lock
/-
Lock lease (C05), part 1: ownership and freshness invariants of the fault-free system.
-/
namespace Lock

/-- the record version a renewal activity is "carrying" (it will CAS with it, or arm a timer for it) -/
def Sup.foot (u : Sup) : Option Nat :=
  match u.pc with | .load => some u.ver | .cas _ => some u.ver | .arm _ nv => some nv | .swap _ _ => none
/-- the timer a supportTimeout has armed but not yet tried to install in `future` -/
def Sup.await (u : Sup) : Option Nat :=
  match u.pc with | .swap _ tn => some tn | _ => none
/-- the value of `future` loaded by a supportTimeout -/
def Sup.fut (u : Sup) : Option (Option Nat) :=
  match u.pc with | .load => none | .cas f => some f | .arm f _ => some f | .swap f _ => some f

@[simp, grind =] theorem Sup.foot_load (l v) : Sup.foot ⟨l, v, .load⟩ = some v := rfl
@[simp, grind =] theorem Sup.foot_cas (l v f) : Sup.foot ⟨l, v, .cas f⟩ = some v := rfl
@[simp, grind =] theorem Sup.foot_arm (l v f nv) : Sup.foot ⟨l, v, .arm f nv⟩ = some nv := rfl
@[simp, grind =] theorem Sup.foot_swap (l v f tn) : Sup.foot ⟨l, v, .swap f tn⟩ = none := rfl
@[simp, grind =] theorem Sup.await_load (l v) : Sup.await ⟨l, v, .load⟩ = none := rfl
@[simp, grind =] theorem Sup.await_cas (l v f) : Sup.await ⟨l, v, .cas f⟩ = none := rfl
@[simp, grind =] theorem Sup.await_arm (l v f nv) : Sup.await ⟨l, v, .arm f nv⟩ = none := rfl
@[simp, grind =] theorem Sup.await_swap (l v f tn) : Sup.await ⟨l, v, .swap f tn⟩ = some tn := rfl
@[simp, grind =] theorem Sup.fut_load (l v) : Sup.fut ⟨l, v, .load⟩ = none := rfl
@[simp, grind =] theorem Sup.fut_cas (l v f) : Sup.fut ⟨l, v, .cas f⟩ = some f := rfl
@[simp, grind =] theorem Sup.fut_arm (l v f nv) : Sup.fut ⟨l, v, .arm f nv⟩ = some f := rfl
@[simp, grind =] theorem Sup.fut_swap (l v f tn) : Sup.fut ⟨l, v, .swap f tn⟩ = some f := rfl

theorem Sup.of_load {u : Sup} (h : u.pc = .load) : u.foot = some u.ver ∧ u.await = none ∧ u.fut = none := by
  simp [Sup.foot, Sup.await, Sup.fut, h]
theorem Sup.of_cas {u : Sup} {f} (h : u.pc = .cas f) : u.foot = some u.ver ∧ u.await = none ∧ u.fut = some f := by
  simp [Sup.foot, Sup.await, Sup.fut, h]
theorem Sup.of_arm {u : Sup} {f nv} (h : u.pc = .arm f nv) : u.foot = some nv ∧ u.await = none ∧ u.fut = some f := by
  simp [Sup.foot, Sup.await, Sup.fut, h]
theorem Sup.of_swap {u : Sup} {f tn} (h : u.pc = .swap f tn) : u.foot = none ∧ u.await = some tn ∧ u.fut = some f := by
  simp [Sup.foot, Sup.await, Sup.fut, h]

structure Fresh (s : St) : Prop where
  t_fresh : ∀ t ∈ s.armed, t.id < s.nextTimer ∧ t.ver < s.nextVer
  foot_fresh : ∀ u ∈ s.sups, ∀ v, u.foot = some v → v < s.nextVer
  await_fresh : ∀ u ∈ s.sups, ∀ tn, u.await = some tn → tn < s.nextTimer
  fut_fresh : ∀ u ∈ s.sups, ∀ i, u.fut = some (some i) → i < s.nextTimer
  future_fresh : ∀ l i, s.future l = some i → i < s.nextTimer
  rec_fresh : ∀ r, s.lrec = some r → r.ver < s.nextVer

theorem Fresh.init : Fresh St.init := by
  constructor <;> simp [St.init]

theorem Fresh.step {c : Cfg} {s t : St} (hs : Step c false false s t) (h : Fresh s) : Fresh t := by
  obtain ⟨h1, h2, h3, h4, h5, h6⟩ := h
  cases hs
  case supSwap u fut tn hu hp =>
    have := Sup.of_swap hp
    split <;> constructor <;> grind [upd, List.mem_of_mem_erase]
  case supLoad u hu hp =>
    have := Sup.of_load hp
    constructor <;> grind [upd, List.mem_of_mem_erase]
  case supCasOk u fut r hu hp hr hv =>
    have := Sup.of_cas hp
    constructor <;> grind [upd, List.mem_of_mem_erase]
  case supCasDefinitive u fut hu hp hr =>
    have := Sup.of_cas hp
    constructor <;> grind [upd, List.mem_of_mem_erase]
  case supArm u fut nv hu hp =>
    have := Sup.of_arm hp
    constructor <;> grind [upd, List.mem_of_mem_erase]
  all_goals first | exact ⟨h1, h2, h3, h4, h5, h6⟩ | (constructor <;> grind [upd, List.mem_of_mem_erase])

structure Own (s : St) : Prop where
  hold_idle : ∀ g, s.holds g = true → s.pc g = .idle
  owner : ∀ g, (s.holds g = true ∨ s.pc g = .uCancel ∨ s.pc g = .uDelete) → ∃ r, s.lrec = some r ∧ r.owner = some g
  rec_owned : ∀ r, s.lrec = some r → ∃ g, r.owner = some g ∧ (s.holds g = true ∨ s.pc g = .uCancel ∨ s.pc g = .uDelete)

theorem Own.init : Own St.init := by
  constructor <;> simp [St.init]

theorem Own.step {c : Cfg} {s t : St} (hs : Step c false false s t) (h : Own s) : Own t := by
  obtain ⟨h1, h2, h3⟩ := h
  cases hs
  case supSwap u fut tn hu hp => split <;> exact ⟨h1, h2, h3⟩
  all_goals constructor <;> simp_all [upd, mayExpire] <;> grind

end Lock
