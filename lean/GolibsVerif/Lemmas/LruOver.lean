import GolibsVerif.Model.LruOver
import GolibsVerif.Lemmas.OMap
/-!
Helper lemmas for Props/C11Lru.lean.

* Part 1 (syntactic): the map calls reported by `calls` / `clearLoop` / `lstep` / `lrun` are exactly
  the calls performed: `runI false m tr = some (m', _)`.
* Part 2 (semantic): every LRU operation, started in a map state related (`Sim`) to a Spec state with
  no open iterator, is defined and ends in such a state again; the number of live entries stays
  `≤ cap`; Clear leaves no live entry.
-/
set_option linter.unusedSimpArgs false
namespace LruOver
open OMap

/-! ### Part 1: the reported trace is the executed trace -/

theorem calls_eq_runI (m : M) (ops : List Op) : calls m ops = runI false m ops := by
  induction ops generalizing m with
  | nil => rfl
  | cons op ops ih =>
    simp only [calls, runI]
    cases m.step false op with
    | none => rfl
    | some r => obtain ⟨m1, o⟩ := r; simp only [ih]; rfl

theorem runI_append {m m1 m2 : M} {a b : List Op} {o1 o2 : List Out}
    (h1 : runI false m a = some (m1, o1)) (h2 : runI false m1 b = some (m2, o2)) :
    runI false m (a ++ b) = some (m2, o1 ++ o2) := by
  induction a generalizing m o1 with
  | nil =>
    simp only [runI, Option.some.injEq, Prod.mk.injEq] at h1
    obtain ⟨rfl, rfl⟩ := h1
    simpa using h2
  | cons op a ih =>
    simp only [runI] at h1
    cases hs : m.step false op with
    | none => simp [hs] at h1
    | some r =>
      obtain ⟨m', o⟩ := r
      simp only [hs] at h1
      cases hr : runI false m' a with
      | none => simp [hr] at h1
      | some r2 =>
        obtain ⟨m'', os⟩ := r2
        simp only [hr, Option.some.injEq, Prod.mk.injEq] at h1
        obtain ⟨rfl, rfl⟩ := h1
        have := ih hr
        simp only [List.cons_append, runI, hs, this]

/-- `tr` run on `m` ends in `m'` -/
def Runs (m : M) (tr : List Op) (m' : M) : Prop := ∃ outs, runI false m tr = some (m', outs)

theorem Runs.nil (m : M) : Runs m [] m := ⟨[], rfl⟩

theorem Runs.append {m m1 m2 : M} {a b : List Op} (h1 : Runs m a m1) (h2 : Runs m1 b m2) :
    Runs m (a ++ b) m2 := by
  obtain ⟨o1, h1⟩ := h1
  obtain ⟨o2, h2⟩ := h2
  exact ⟨_, runI_append h1 h2⟩

theorem Runs.one {m m1 : M} {op : Op} {o : Out} (h : m.step false op = some (m1, o)) :
    Runs m [op] m1 := ⟨[o], by simp [runI, h]⟩

theorem Runs.cons {m m1 m2 : M} {op : Op} {o : Out} {tr : List Op}
    (h : m.step false op = some (m1, o)) (h2 : Runs m1 tr m2) : Runs m (op :: tr) m2 :=
  (Runs.one h).append h2

theorem Runs.calls {m m1 : M} {ops : List Op} {os : List Out} (h : calls m ops = some (m1, os)) :
    Runs m ops m1 := ⟨os, by rw [← calls_eq_runI]; exact h⟩

theorem clearLoop_runs : ∀ (fuel : Nat) (m : M) (h : Nat) (m' : M) (tr : List Op),
    clearLoop fuel m h = some (m', tr) → Runs m tr m' := by
  intro fuel
  induction fuel with
  | zero =>
    intro m h m' tr hc
    simp only [clearLoop, Option.some.injEq, Prod.mk.injEq] at hc
    obtain ⟨rfl, rfl⟩ := hc
    exact Runs.nil _
  | succ fuel ih =>
    intro m h m' tr hc
    unfold clearLoop at hc
    split at hc
    · simp at hc
    · rename_i m1 h1
      split at hc
      · simp at hc
      · rename_i m2 k v h2
        split at hc
        · simp at hc
        · rename_i m3 o3 h3
          cases hl : clearLoop fuel m3 h with
          | none => simp [hl] at hc
          | some r =>
            obtain ⟨m4, tr4⟩ := r
            simp only [hl, Option.map_some, Option.some.injEq, Prod.mk.injEq] at hc
            obtain ⟨rfl, rfl⟩ := hc
            exact Runs.cons h1 (Runs.cons h2 (Runs.cons h3 (ih _ _ _ _ hl)))
      · rename_i m2 o2 _ h2
        cases hl : clearLoop fuel m2 h with
        | none => simp [hl] at hc
        | some r =>
          obtain ⟨m4, tr4⟩ := r
          simp only [hl, Option.map_some, Option.some.injEq, Prod.mk.injEq] at hc
          obtain ⟨rfl, rfl⟩ := hc
          exact Runs.cons h1 (Runs.cons h2 (ih _ _ _ _ hl))
    · rename_i m1 o1 _ h1
      simp only [Option.some.injEq, Prod.mk.injEq] at hc
      obtain ⟨rfl, rfl⟩ := hc
      exact Runs.one h1

theorem map_calls_runs {m m1 m' : M} {pre ops tr : List Op} (hp : Runs m pre m1)
    (h : (calls m1 ops).map (fun (x : M × List Out) => (x.1, pre ++ ops)) = some (m', tr)) :
    Runs m tr m' := by
  cases hc : calls m1 ops with
  | none => simp [hc] at h
  | some r =>
    obtain ⟨m2, os⟩ := r
    simp only [hc, Option.map_some, Option.some.injEq, Prod.mk.injEq] at h
    obtain ⟨rfl, rfl⟩ := h
    exact hp.append (Runs.calls hc)

theorem lstep_runs (cap : Nat) (m : M) (op : LOp) (m' : M) (tr : List Op)
    (h : lstep cap m op = some (m', tr)) : Runs m tr m' := by
  cases op with
  | goc k created =>
    simp only [lstep] at h
    split at h
    · simp at h
    · rename_i m1 k' v h1
      exact map_calls_runs (pre := [.get k]) (Runs.one h1) h
    · rename_i m1 o1 _ h1
      split at h
      · simp only [Option.some.injEq, Prod.mk.injEq] at h
        obtain ⟨rfl, rfl⟩ := h
        exact Runs.one h1
      · rename_i v
        split at h
        · rename_i m2 o n h2
          have r2 : Runs m [.get k, .add k v, .len] m2 :=
            (Runs.one h1).append (Runs.calls h2)
          split at h
          · split at h
            · simp at h
            · rename_i m3 k0 h3
              have r3 : Runs m [.get k, .add k v, .len, .first] m3 := r2.append (Runs.one h3)
              exact map_calls_runs r3 h
            · rename_i m3 o3 _ h3
              simp only [Option.some.injEq, Prod.mk.injEq] at h
              obtain ⟨rfl, rfl⟩ := h
              exact r2.append (Runs.one h3)
          · simp only [Option.some.injEq, Prod.mk.injEq] at h
            obtain ⟨rfl, rfl⟩ := h
            exact r2
        · simp at h
  | remove k =>
    simp only [lstep] at h
    split at h
    · simp at h
    · rename_i m1 k' v h1
      exact map_calls_runs (pre := [.get k]) (Runs.one h1) h
    · rename_i m1 o1 _ h1
      simp only [Option.some.injEq, Prod.mk.injEq] at h
      obtain ⟨rfl, rfl⟩ := h
      exact Runs.one h1
  | clear =>
    simp only [lstep] at h
    split at h
    · rename_i m1 hd h1
      split at h
      · simp at h
      · rename_i m2 tr2 h2
        split at h
        · simp at h
        · rename_i m3 o3 h3
          simp only [Option.some.injEq, Prod.mk.injEq] at h
          obtain ⟨rfl, rfl⟩ := h
          exact ((Runs.one h1).append (clearLoop_runs _ _ _ _ _ h2)).append (Runs.one h3)
    · simp at h

theorem lrun_runs (cap : Nat) : ∀ (lops : List LOp) (m m' : M) (tr : List Op),
    lrun cap m lops = some (m', tr) → Runs m tr m' := by
  intro lops
  induction lops with
  | nil =>
    intro m m' tr h
    simp only [lrun, Option.some.injEq, Prod.mk.injEq] at h
    obtain ⟨rfl, rfl⟩ := h
    exact Runs.nil _
  | cons op lops ih =>
    intro m m' tr h
    simp only [lrun] at h
    cases hs : lstep cap m op with
    | none => simp [hs] at h
    | some r =>
      obtain ⟨m1, tr1⟩ := r
      simp only [hs] at h
      cases hr : lrun cap m1 lops with
      | none => simp [hr] at h
      | some r2 =>
        obtain ⟨m2, tr2⟩ := r2
        simp only [hr, Option.map_some, Option.some.injEq, Prod.mk.injEq] at h
        obtain ⟨rfl, rfl⟩ := h
        exact (lstep_runs cap m op m1 tr1 hs).append (ih _ _ _ hr)

/-! ### Part 2: every LRU operation keeps the map in a good state -/

theorem step_ex {m : M} {s s' : S} {o : Out} (h : Sim m s) (op : Op) (hs : s.step op = (s', o)) :
    ∃ m', m.step false op = some (m', o) ∧ Sim m' s' := by
  obtain ⟨m', h1, h2⟩ := step_sim h op
  rw [hs] at h1 h2
  exact ⟨m', h1, h2⟩

theorem sim_vals_length {m : M} {s : S} (h : Sim m s) : m.vals.length = s.live.length := by
  rw [h.vals, List.length_map, ← h.live, List.length_map]

theorem sim_its_nil {m : M} {s : S} (h : Sim m s) (hi : s.its = []) : m.its = [] := by
  have := h.handles
  rw [hi] at this
  simpa using this.symm

theorem sim_live_sorted {m : M} {s : S} (h : Sim m s) :
    s.live.Pairwise (fun a b => a.stamp < b.stamp) := by
  have := okl_sorted h.cs.asc
  rw [← h.live, List.pairwise_map] at this
  exact this

theorem sim_live_lt {m : M} {s : S} (h : Sim m s) : ∀ e ∈ s.live, e.stamp < s.nextStamp := by
  intro e he
  have : trip e ∈ okl m.chain := by rw [← h.live]; exact List.mem_map_of_mem he
  have := h.okl_lt_last this
  rw [h.stamp]; exact this

/-- Spec: Remove -/
def srem (s : S) (k : Nat) : S :=
  { s with log := s.log.map fun e => if e.alive && e.key == k then { e with alive := false } else e }

/-- Spec: successful Add -/
def sadd (s : S) (k v : Nat) : S :=
  { s with log := s.log ++ [{ stamp := s.nextStamp, key := k, val := v, alive := true }],
           nextStamp := s.nextStamp + 1 }

theorem spec_remove (s : S) (k : Nat) : s.step (.remove k) = (srem s k, .ok) := rfl

theorem srem_live (s : S) (k : Nat) : (srem s k).live = s.live.filter (fun e => e.key != k) :=
  live_remove s k

theorem srem_its (s : S) (k : Nat) : (srem s k).its = s.its := rfl

theorem spec_add {s : S} {k : Nat} (v : Nat) (hn : s.live.any (·.key == k) = false) :
    s.step (.add k v) = (sadd s k v, .ok) := by
  simp only [S.step, hn]
  rfl

theorem sadd_live (s : S) (k v : Nat) :
    (sadd s k v).live = s.live ++ [{ stamp := s.nextStamp, key := k, val := v, alive := true }] :=
  live_append s _ rfl _

theorem sadd_its (s : S) (k v : Nat) : (sadd s k v).its = s.its := rfl

theorem spec_get_hit {s : S} {k : Nat} {e : SEntry} (hf : s.live.find? (·.key == k) = some e) :
    s.step (.get k) = (s, .kv k e.val) := by
  simp only [S.step, hf]

theorem spec_get_miss {s : S} {k : Nat} (hf : s.live.find? (·.key == k) = none) :
    s.step (.get k) = (s, .none) := by
  simp only [S.step, hf]

theorem spec_get_same (s : S) (k : Nat) : ∃ o, s.step (.get k) = (s, o) := by
  cases hf : s.live.find? (·.key == k) with
  | none => exact ⟨_, spec_get_miss hf⟩
  | some e => exact ⟨_, spec_get_hit hf⟩

theorem spec_len (s : S) : s.step .len = (s, .num s.live.length) := rfl

theorem spec_first_cons {s : S} {e : SEntry} {rest : List SEntry} (hl : s.live = e :: rest) :
    s.step .first = (s, .key e.key) := by
  simp only [S.step, hl]

theorem spec_hasNext {s : S} {h pos : Nat} (hp : lookupIt s.its h = some pos) :
    s.step (.hasNext h) = (s, .b (s.firstFrom pos).isSome) := by
  simp only [S.step, hp]

theorem spec_next_some {s : S} {h pos : Nat} {e : SEntry} (hp : lookupIt s.its h = some pos)
    (hf : s.firstFrom pos = some e) :
    s.step (.next h) = ({ s with its := setIt s.its h (e.stamp + 1) }, .kv e.key e.val) := by
  simp only [S.step, hp, hf]

theorem spec_close {s : S} {h pos : Nat} (hp : lookupIt s.its h = some pos) :
    s.step (.close h) = ({ s with its := s.its.filter (·.1 != h) }, .ok) := by
  simp only [S.step, hp]

theorem lookupIt_single (h pos : Nat) : lookupIt [(h, pos)] h = some pos := by
  simp [lookupIt_cons]

theorem filter_key_length_lt {l : List SEntry} {e : SEntry} (he : e ∈ l) :
    (l.filter (fun x => x.key != e.key)).length < l.length := by
  rw [List.length_filter_lt_length_iff_exists]
  exact ⟨e, he, by simp⟩

/-- state of the internal map between LRU operations: related to a Spec state with no open
iterator and at most `cap` live entries -/
def Good (cap : Nat) (m : M) : Prop := ∃ s, Sim m s ∧ s.its = [] ∧ s.live.length ≤ cap

theorem good_new (cap : Nat) : Good cap M.new :=
  ⟨S.new, sim_new, rfl, by simp [S.new, S.live]⟩

theorem Good.its {cap : Nat} {m : M} (h : Good cap m) : m.its = [] := by
  obtain ⟨s, hs, hi, _⟩ := h
  exact sim_its_nil hs hi

theorem Good.size {cap : Nat} {m : M} (h : Good cap m) : m.vals.length ≤ cap := by
  obtain ⟨s, hs, _, hl⟩ := h
  rw [sim_vals_length hs]; exact hl

theorem Good.chain {cap : Nat} {m : M} (h : Good cap m) : m.chain.length = m.vals.length + 1 := by
  have hi := h.its
  obtain ⟨s, hs, _, _⟩ := h
  have h1 := hs.chain_length
  have h2 := hs.deleted_le
  rw [hi] at h2
  simp only [List.length_nil] at h2
  omega

/-- the loop of Clear on a state whose only iterator `h` stands at or before every live entry:
it terminates within `live + 1` rounds and removes every live entry -/
theorem clearLoop_good (h : Nat) : ∀ (fuel : Nat) (m : M) (s : S) (pos : Nat), Sim m s →
    s.its = [(h, pos)] → (∀ e ∈ s.live, pos ≤ e.stamp) → s.live.length < fuel →
    ∃ m' tr s' pos', clearLoop fuel m h = some (m', tr) ∧ Sim m' s' ∧ s'.its = [(h, pos')] ∧
      s'.live = [] := by
  intro fuel
  induction fuel with
  | zero => intro m s pos _ _ _ hf; omega
  | succ fuel ih =>
    intro m s pos hs hits hpos hf
    have hlk : lookupIt s.its h = some pos := by rw [hits]; exact lookupIt_single h pos
    cases hl : s.live with
    | nil =>
      have hff : s.firstFrom pos = none := by simp [S.firstFrom, hl]
      have hsp := spec_hasNext hlk
      rw [hff] at hsp
      obtain ⟨m1, h1, s1⟩ := step_ex hs (.hasNext h) hsp
      refine ⟨m1, [.hasNext h], s, pos, ?_, s1, hits, hl⟩
      simp only [clearLoop, h1]
      rfl
    | cons e rest =>
      have hpe : pos ≤ e.stamp := hpos e (by rw [hl]; simp)
      have hff : s.firstFrom pos = some e := by
        simp [S.firstFrom, hl, hpe]
      have hsp := spec_hasNext hlk
      rw [hff] at hsp
      obtain ⟨m1, h1, s1⟩ := step_ex hs (.hasNext h) hsp
      obtain ⟨m2, h2, s2⟩ := step_ex s1 (.next h) (spec_next_some hlk hff)
      obtain ⟨m3, h3, s3⟩ := step_ex s2 (.remove e.key) (spec_remove _ _)
      have hsorted := sim_live_sorted hs
      rw [hl] at hsorted
      have hsr := List.pairwise_cons.mp hsorted
      have hlive3 : (srem { s with its := setIt s.its h (e.stamp + 1) } e.key).live =
          rest.filter (fun x => x.key != e.key) := by
        rw [srem_live]
        show s.live.filter _ = _
        rw [hl]; simp
      have hits3 : (srem { s with its := setIt s.its h (e.stamp + 1) } e.key).its =
          [(h, e.stamp + 1)] := by
        rw [srem_its]
        show setIt s.its h (e.stamp + 1) = _
        rw [hits]; simp [setIt]
      obtain ⟨m4, tr, s4, pos4, h4, hs4, hi4, hl4⟩ := ih m3 _ (e.stamp + 1) s3 hits3
        (by
          intro x hx
          rw [hlive3] at hx
          have := hsr.1 x (List.mem_filter.mp hx).1
          omega)
        (by
          rw [hlive3]
          have := List.length_filter_le (fun x : SEntry => x.key != e.key) rest
          have : s.live.length = rest.length + 1 := by rw [hl]; rfl
          omega)
      refine ⟨m4, [.hasNext h, .next h, .remove e.key] ++ tr, s4, pos4, ?_, hs4, hi4, hl4⟩
      simp only [clearLoop, h1, Option.isSome_some, h2, h3, h4, Option.map_some]

theorem lstep_good (cap : Nat) (m : M) (op : LOp) (hg : Good cap m) :
    ∃ m' tr, lstep cap m op = some (m', tr) ∧ Good cap m' ∧ (op = .clear → m'.vals = []) := by
  obtain ⟨s, hs, hits, hlen⟩ := hg
  cases op with
  | goc k created =>
    simp only [lstep]
    cases hf : s.live.find? (·.key == k) with
    | some e =>
      obtain ⟨m1, h1, s1⟩ := step_ex hs (.get k) (spec_get_hit hf)
      obtain ⟨m2, h2, s2⟩ := step_ex s1 (.remove k) (spec_remove _ _)
      have hn : (srem s k).live.any (·.key == k) = false := by
        rw [srem_live]; simp
      obtain ⟨m3, h3, s3⟩ := step_ex s2 (.add k e.val) (spec_add _ hn)
      simp only [h1, calls, h2, h3, Option.map_some]
      refine ⟨_, _, rfl, ⟨_, s3, hits, ?_⟩, by simp⟩
      rw [sadd_live, srem_live, List.length_append]
      have hk : e.key = k := by simpa using List.find?_some hf
      have := filter_key_length_lt (List.mem_of_find?_eq_some hf)
      rw [hk] at this
      simp only [List.length_cons, List.length_nil]
      omega
    | none =>
      obtain ⟨m1, h1, s1⟩ := step_ex hs (.get k) (spec_get_miss hf)
      simp only [h1]
      cases created with
      | none => exact ⟨_, _, rfl, ⟨s, s1, hits, hlen⟩, by simp⟩
      | some v =>
        have hn : s.live.any (·.key == k) = false := by
          rw [List.find?_eq_none] at hf
          rw [List.any_eq_false]
          exact hf
        obtain ⟨m2, h2, s2⟩ := step_ex s1 (.add k v) (spec_add v hn)
        obtain ⟨m3, h3, s3⟩ := step_ex s2 .len (spec_len _)
        simp only [calls, h2, h3]
        have hlive2 := sadd_live s k v
        have hlen2 : (sadd s k v).live.length = s.live.length + 1 := by
          rw [hlive2]; simp
        by_cases hc : cap < (sadd s k v).live.length
        · simp only [hc, if_true]
          obtain ⟨e1, rest, hl⟩ : ∃ e1 rest, (sadd s k v).live = e1 :: rest := by
            rw [hlive2]
            cases s.live with
            | nil => exact ⟨_, _, rfl⟩
            | cons a l => exact ⟨_, _, rfl⟩
          obtain ⟨m4, h4, s4⟩ := step_ex s3 .first (spec_first_cons hl)
          obtain ⟨o5, ho5⟩ := spec_get_same (sadd s k v) e1.key
          obtain ⟨m5, h5, s5⟩ := step_ex s4 (.get e1.key) ho5
          obtain ⟨m6, h6, s6⟩ := step_ex s5 (.remove e1.key) (spec_remove _ _)
          simp only [h4, calls, h5, h6, Option.map_some]
          refine ⟨_, _, rfl, ⟨_, s6, hits, ?_⟩, by simp⟩
          rw [srem_live]
          have := filter_key_length_lt (l := (sadd s k v).live) (e := e1) (by rw [hl]; simp)
          omega
        · simp only [hc, if_false]
          exact ⟨_, _, rfl, ⟨_, s3, hits, by omega⟩, by simp⟩
  | remove k =>
    simp only [lstep]
    cases hf : s.live.find? (·.key == k) with
    | some e =>
      obtain ⟨m1, h1, s1⟩ := step_ex hs (.get k) (spec_get_hit hf)
      obtain ⟨m2, h2, s2⟩ := step_ex s1 (.remove k) (spec_remove _ _)
      simp only [h1, calls, h2, Option.map_some]
      refine ⟨_, _, rfl, ⟨_, s2, hits, ?_⟩, by simp⟩
      rw [srem_live]
      have := List.length_filter_le (fun x : SEntry => x.key != k) s.live
      omega
    | none =>
      obtain ⟨m1, h1, s1⟩ := step_ex hs (.get k) (spec_get_miss hf)
      simp only [h1]
      exact ⟨_, _, rfl, ⟨s, s1, hits, hlen⟩, by simp⟩
  | clear =>
    simp only [lstep]
    have hit : s.step .iterator =
        ({ s with its := [(s.nextIt, S.startPos s)], nextIt := s.nextIt + 1 }, .handle s.nextIt) := by
      simp only [S.step, hits, List.nil_append]
      rfl
    obtain ⟨m1, h1, s1⟩ := step_ex hs .iterator hit
    have hsorted := sim_live_sorted hs
    have hlt := sim_live_lt hs
    obtain ⟨m2, tr, s2, pos2, h2, hs2, hi2, hl2⟩ :=
      clearLoop_good s.nextIt (m1.chain.length + 1) m1 _ (S.startPos s) s1 rfl
        (by
          show ∀ e ∈ s.live, S.startPos s ≤ e.stamp
          intro e he
          unfold S.startPos
          cases hl : s.live with
          | nil => rw [hl] at he; simp at he
          | cons a l =>
            rw [hl] at he hsorted
            rcases List.mem_cons.mp he with rfl | he
            · exact Nat.le_refl _
            · exact Nat.le_of_lt ((List.pairwise_cons.mp hsorted).1 e he))
        (by
          have h3 := s1.chain_length
          have h4 := sim_vals_length s1
          omega)
    have hlk2 : lookupIt s2.its s.nextIt = some pos2 := by rw [hi2]; exact lookupIt_single _ _
    obtain ⟨m3, h3, s3⟩ := step_ex hs2 (.close s.nextIt) (spec_close hlk2)
    simp only [h1, h2, h3]
    have hl3 : ({ s2 with its := s2.its.filter (·.1 != s.nextIt) } : S).live = [] := hl2
    refine ⟨_, _, rfl, ⟨_, s3, by rw [hi2]; simp, by rw [hl3]; simp⟩, ?_⟩
    intro _
    have := sim_vals_length s3
    rw [hl3] at this
    exact List.eq_nil_of_length_eq_zero this

theorem lrun_good (cap : Nat) : ∀ (lops : List LOp) (m : M), Good cap m →
    ∃ m' tr, lrun cap m lops = some (m', tr) ∧ Good cap m' := by
  intro lops
  induction lops with
  | nil => intro m hg; exact ⟨m, [], rfl, hg⟩
  | cons op lops ih =>
    intro m hg
    obtain ⟨m1, tr1, h1, hg1, _⟩ := lstep_good cap m op hg
    obtain ⟨m2, tr2, h2, hg2⟩ := ih m1 hg1
    exact ⟨m2, tr1 ++ tr2, by simp only [lrun, h1, h2, Option.map_some], hg2⟩

theorem lrun_append (cap : Nat) : ∀ (a b : List LOp) (m : M),
    lrun cap m (a ++ b) = match lrun cap m a with
      | none => none
      | some (m1, tr1) => (lrun cap m1 b).map fun (x : M × List Op) => (x.1, tr1 ++ x.2) := by
  intro a
  induction a with
  | nil =>
    intro b m
    simp only [List.nil_append, lrun, List.nil_append]
    cases lrun cap m b with
    | none => rfl
    | some r => rfl
  | cons op a ih =>
    intro b m
    simp only [List.cons_append, lrun]
    cases lstep cap m op with
    | none => rfl
    | some r =>
      obtain ⟨m1, tr1⟩ := r
      simp only [ih]
      cases lrun cap m1 a with
      | none => rfl
      | some r2 =>
        obtain ⟨m2, tr2⟩ := r2
        simp only [Option.map_some]
        cases lrun cap m2 b with
        | none => rfl
        | some r3 => simp [List.append_assoc]

end LruOver
