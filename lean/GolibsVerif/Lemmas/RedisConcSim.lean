import GolibsVerif.Lemmas.RedisConc
import GolibsVerif.Props.Lin
/-! Simulation relation between `RedisConc` and `Lin.Sys` over the sequential Redis client model
(`Kv.Redis.step`) with its clock, and its
preservation (helpers for Props/C02Redis.lean; `Corr` is part of the statement of `C02Redis.simulates`). -/
namespace C02Redis
open Kv RedisConc Lin

/-- how a client's program counter corresponds to the state of its operation in the `Lin` system:
Lin thread `idle` ↔ the client is at `idle`, or inside / at the end of the PutMany loop (whose SETs
are complete Puts of their own); `pending _ (op o)` ↔ the pc belongs to operation `o` (`opOf`) and
the operation has not taken effect; `linearized _ _ r` ↔ the pc is `done r`.  A client never runs
the clock's operation `tick`. -/
def Corr (p : Pc) (ts : TSt LOp Out) : Prop :=
  match ts with
  | .idle => p = .idle ∨ p = .loopDone ∨ ∃ rs, p = .putLoop rs
  | .pending _ (.op o) => opOf p = some o
  | .pending _ (.tick _) => False
  | .linearized _ _ r => p = .done r

/-! ### helper lemmas about `Corr` and the simulation relation -/

theorem Corr_idle {ts : TSt LOp Out} (h : Corr .idle ts) : ts = .idle := by
  cases ts with
  | idle => rfl
  | pending id i => cases i <;> simp [Corr, opOf] at h
  | linearized id i r => simp [Corr] at h

theorem Corr_loopDone {ts : TSt LOp Out} (h : Corr .loopDone ts) : ts = .idle := by
  cases ts with
  | idle => rfl
  | pending id i => cases i <;> simp [Corr, opOf] at h
  | linearized id i r => simp [Corr] at h

theorem Corr_putLoop {rs : List (String × String × Option Nat)} {ts : TSt LOp Out}
    (h : Corr (.putLoop rs) ts) : ts = .idle := by
  cases ts with
  | idle => rfl
  | pending id i => cases i <;> simp [Corr, opOf] at h
  | linearized id i r => simp [Corr] at h

theorem Corr_done {r : Out} {ts : TSt LOp Out} (h : Corr (.done r) ts) : ∃ id i, ts = .linearized id i r := by
  cases ts with
  | linearized id i r' => simp [Corr] at h; subst h; exact ⟨_, _, rfl⟩
  | idle => simp [Corr] at h
  | pending id i => cases i <;> simp [Corr, opOf] at h

theorem Corr_opOf {p : Pc} {op : Op} {ts : TSt LOp Out} (ho : opOf p = some op) (h : Corr p ts) :
    ∃ id, ts = .pending id (.op op) := by
  cases ts with
  | idle =>
    simp only [Corr] at h
    rcases h with rfl | rfl | ⟨rs, rfl⟩ <;> simp [opOf] at ho
  | pending id i =>
    cases i with
    | op o => simp only [Corr] at h; rw [ho] at h; cases h; exact ⟨_, rfl⟩
    | tick d => simp [Corr] at h
  | linearized id i r => simp only [Corr] at h; subst h; simp [opOf] at ho

theorem Corr_pending {p : Pc} {op : Op} (ho : opOf p = some op) (id : Nat) : Corr p (.pending id (.op op)) := ho

theorem Corr_loopNext (rest : List (String × String × Option Nat)) : Corr (loopNext rest) .idle := by
  cases rest with
  | nil => exact .inr (.inl rfl)
  | cons a rest => exact .inr (.inr ⟨_, rfl⟩)

/-- the simulation relation: state and time of the sequential Redis client model = server state and time, every client's
operation is in the corresponding phase, and the clock thread is idle -/
def Sim (s : St) (L : Sys (Redis × Nat) LOp Out) : Prop :=
  L.st = (s.srv, s.now) ∧ (∀ (t : Nat) (p : Pc), s.pc[t]? = some p → Corr p (L.th t)) ∧
    L.th s.pc.length = .idle

theorem corr_update {pc : List Pc} {th : Nat → TSt LOp Out}
    (hc : ∀ (t : Nat) (p : Pc), pc[t]? = some p → Corr p (th t)) (t : Nat) (p' : Pc) (ts' : TSt LOp Out)
    (h' : Corr p' ts') :
    ∀ (t' : Nat) (p : Pc), (pc.set t p')[t']? = some p → Corr p (setTh th t ts' t') := by
  intro t' p hp
  by_cases htt : t' = t
  · subst htt
    rw [List.getElem?_set_self'] at hp
    cases hq : pc[t']? with
    | none => simp [hq] at hp
    | some q =>
      simp [hq] at hp
      subst hp
      simpa [setTh] using h'
  · rw [List.getElem?_set_ne (Ne.symm htt)] at hp
    simpa [setTh, htt] using hc t' p hp

/-- the client's pc changes, its Lin thread does not -/
theorem corr_update_same {pc : List Pc} {th : Nat → TSt LOp Out}
    (hc : ∀ (t : Nat) (p : Pc), pc[t]? = some p → Corr p (th t)) (t : Nat) (p' : Pc)
    (h' : Corr p' (th t)) :
    ∀ (t' : Nat) (p : Pc), (pc.set t p')[t']? = some p → Corr p (th t') := by
  intro t' p hp
  by_cases htt : t' = t
  · subst htt
    rw [List.getElem?_set_self'] at hp
    cases hq : pc[t']? with
    | none => simp [hq] at hp
    | some q =>
      simp [hq] at hp
      subst hp
      exact h'
  · rw [List.getElem?_set_ne (Ne.symm htt)] at hp
    exact hc t' p hp

theorem setTh_ne {th : Nat → TSt LOp Out} {t c : Nat} (ts : TSt LOp Out) (h : t < c) :
    setTh th t ts c = th c := by
  have : c ≠ t := by omega
  simp [setTh, this]

theorem sim_step {s s' : St} {L : Sys (Redis × Nat) LOp Out} {e : RedisConc.Ev} {l : List (Lin.Ev LOp Out)}
    (hi : WInv s) (hs : Sim s L) (h : step s e = some (s', l)) :
    ∃ L', L.run obj l = some L' ∧ Sim s' L' := by
  obtain ⟨hst, hc, hck⟩ := hs
  cases e with
  | call t op =>
    simp only [RedisConc.step] at h
    split at h
    · rename_i p hp he
      simp only [Option.some.injEq, Prod.mk.injEq] at h; obtain ⟨rfl, rfl⟩ := h
      have hlt : t < s.pc.length := (List.getElem?_eq_some_iff.mp hp).1
      have hth := Corr_idle (hc t _ hp)
      rcases entry_opOf he with ⟨ho, hev⟩ | ⟨rs, rfl, hev⟩
      · refine ⟨{ L with th := setTh L.th t (.pending L.pos (.op op)), pos := L.pos + 1 }, ?_, hst, ?_, ?_⟩
        · simp [hev, Sys.run, Sys.ev, hth]
        · exact corr_update hc t p _ (Corr_pending ho _)
        · simp only [St.setPc, List.length_set]
          rw [setTh_ne _ hlt]; exact hck
      · refine ⟨L, by simp [hev, Sys.run], hst, ?_, by simpa [St.setPc] using hck⟩
        exact corr_update_same hc t _ (by rw [hth]; exact .inr (.inr ⟨_, rfl⟩))
    · cases h
  | cmd t =>
    simp only [RedisConc.step] at h
    obtain ⟨p, hp, hnow, hcase⟩ := cmdStep_shape hi h
    have hlt : t < s.pc.length := (List.getElem?_eq_some_iff.mp hp).1
    rcases hcase with ⟨op, ho, rfl, hsrv, hpc⟩ | ⟨op, ho, rfl, hsrv, p', ho', hpc⟩ |
        ⟨k, v, e, rest, rfl, rfl, hsrv, hpc⟩
    · obtain ⟨id, hth⟩ := Corr_opOf ho (hc t p hp)
      refine ⟨{ L with st := (obj.step L.st (.op op)).1,
                       th := setTh L.th t (.linearized id (.op op) (obj.step L.st (.op op)).2),
                       pos := L.pos + 1, order := L.order ++ [(id, .op op, (obj.step L.st (.op op)).2)] }, ?_, ?_, ?_, ?_⟩
      · simp [Sys.run, Sys.ev, hth]
      · simp [obj, hst, hsrv, hnow]
      · rw [hpc]
        refine corr_update hc t _ _ ?_
        simp [Corr, obj, hst]
      · rw [hpc, List.length_set]
        simp only
        rw [setTh_ne _ hlt]; exact hck
    · obtain ⟨id, hth⟩ := Corr_opOf ho (hc t p hp)
      refine ⟨L, by simp [Sys.run], by rw [hsrv, hnow]; exact hst, ?_, by rw [hpc, List.length_set]; exact hck⟩
      rw [hpc]
      exact corr_update_same hc t p' (by rw [hth]; exact Corr_pending ho' _)
    · have hth := Corr_putLoop (hc t _ hp)
      have hres : Out.okVer s.srv.nextVer = (obj.step L.st (.op (.put k v e))).2 := by
        simp [obj, hst, Redis.step, Redis.setRec]
      rw [hres, run_complete obj L t _ hth]
      refine ⟨_, rfl, ?_, ?_, ?_⟩
      · simp [obj, hst, Redis.step, hsrv, hnow, St.psrv]
      · rw [hpc]
        exact corr_update_same hc t _ (by rw [hth]; exact Corr_loopNext rest)
      · rw [hpc, List.length_set]; exact hck
  | ret t r =>
    simp only [RedisConc.step] at h
    split at h
    · rename_i r' hp
      split at h
      · rename_i hrr
        subst hrr
        simp only [Option.some.injEq, Prod.mk.injEq] at h; obtain ⟨rfl, rfl⟩ := h
        have hlt : t < s.pc.length := (List.getElem?_eq_some_iff.mp hp).1
        obtain ⟨id, i, hth⟩ := Corr_done (hc t _ hp)
        refine ⟨{ L with th := setTh L.th t .idle, pos := L.pos + 1, retPos := L.retPos ++ [(id, L.pos)] }, ?_, hst, ?_, ?_⟩
        · simp [Sys.run, Sys.ev, hth]
        · exact corr_update hc t .idle _ (.inl rfl)
        · simp only [St.setPc, List.length_set]
          rw [setTh_ne _ hlt]; exact hck
      · cases h
    · rename_i hp
      split at h
      · simp only [Option.some.injEq, Prod.mk.injEq] at h; obtain ⟨rfl, rfl⟩ := h
        have hth := Corr_loopDone (hc t _ hp)
        refine ⟨L, by simp [Sys.run], hst, ?_, by simpa [St.setPc] using hck⟩
        exact corr_update_same hc t _ (by rw [hth]; exact .inl rfl)
      · cases h
    · cases h
  | tick d =>
    obtain ⟨_, rfl, rfl⟩ := tick_shape h
    have hres : Out.ok = (obj.step L.st (.tick d)).2 := by simp [obj]
    rw [hres, run_complete obj L _ _ hck]
    refine ⟨_, rfl, ?_, hc, hck⟩
    simp [obj, hst]

theorem sim_runL {es : List RedisConc.Ev} :
    ∀ {s s' : St} {L : Sys (Redis × Nat) LOp Out} {ls : List (Lin.Ev LOp Out)},
    WInv s → Sim s L → runL s es = some (s', ls) → ∃ L', L.run obj ls = some L' ∧ Sim s' L' := by
  induction es with
  | nil =>
    intro s s' L ls _ hs h
    simp only [runL, Option.some.injEq, Prod.mk.injEq] at h
    obtain ⟨rfl, rfl⟩ := h
    exact ⟨L, rfl, hs⟩
  | cons e es ih =>
    intro s s' L ls hi hs h
    obtain ⟨s1, l, ls', hst, hr, rfl⟩ := runL_cons h
    obtain ⟨L1, hL1, hs1⟩ := sim_step hi hs hst
    obtain ⟨L2, hL2, hs2⟩ := ih (hi.step hst) hs1 hr
    refine ⟨L2, ?_, hs2⟩
    rw [run_append, hL1]
    exact hL2

theorem sim_init (n : Nat) : Sim (St.init n) (Sys.init (Redis.new, 0)) := by
  refine ⟨rfl, ?_, rfl⟩
  intro t p hp
  simp only [St.init] at hp
  rw [List.getElem?_replicate] at hp
  split at hp
  · cases hp; exact .inl rfl
  · cases hp

end C02Redis
