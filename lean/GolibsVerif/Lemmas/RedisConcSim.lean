import GolibsVerif.Lemmas.RedisConc
import GolibsVerif.Props.Lin
/-! Simulation relation between `RedisConc` and `Lin.Sys` over the KV contract, and its preservation
(helpers for Props/C02Redis.lean; `Corr` is part of the statement of `C02Redis.simulates`). -/
namespace C02Redis
open Kv RedisConc Lin

/-- how a client's program counter corresponds to the state of its operation in the `Lin` system -/
def Corr (p : Pc) (ts : TSt Op Out) : Prop :=
  match p, ts with
  | .idle, .idle => True
  | .done r, .linearized _ _ r' => r = r'
  | .idle, _ => False
  | .done _, _ => False
  | p, .pending _ op => opOf p = some op
  | _, _ => False

/-! ### helper lemmas about `Corr` and the simulation relation -/

theorem Corr_idle {ts : TSt Op Out} (h : Corr .idle ts) : ts = .idle := by
  cases ts <;> simp [Corr] at h ⊢

theorem Corr_done {r : Out} {ts : TSt Op Out} (h : Corr (.done r) ts) : ∃ id i, ts = .linearized id i r := by
  cases ts with
  | linearized id i r' => simp [Corr] at h; subst h; exact ⟨_, _, rfl⟩
  | _ => simp [Corr] at h

theorem Corr_opOf {p : Pc} {op : Op} {ts : TSt Op Out} (ho : opOf p = some op) (h : Corr p ts) :
    ∃ id, ts = .pending id op := by
  cases p <;> cases ts <;> simp [Corr, opOf] at h ho <;> subst ho <;> subst h <;> exact ⟨_, rfl⟩

theorem Corr_pending {p : Pc} {op : Op} (ho : opOf p = some op) (id : Nat) : Corr p (.pending id op) := by
  cases p <;> simp [Corr, opOf] at ho ⊢ <;> exact ho

def Sim (s : St) (L : Sys Spec Op Out) : Prop :=
  L.st = s.srv ∧ ∀ (t : Nat) (p : Pc), s.pc[t]? = some p → Corr p (L.th t)

theorem corr_update {pc : List Pc} {th : Nat → TSt Op Out}
    (hc : ∀ (t : Nat) (p : Pc), pc[t]? = some p → Corr p (th t)) (t : Nat) (p' : Pc) (ts' : TSt Op Out)
    (h' : Corr p' ts') :
    ∀ (t' : Nat) (p : Pc), (pc.set t p')[t']? = some p → Corr p (setTh th t ts' t') := by
  intro t' p hp
  by_cases htt : t' = t
  · subst htt
    rw [List.getElem?_set_self'] at hp
    cases hq : pc[t']? with
    | none => simp [hq] at hp
    | some q =>
      simp [hq] at hp
      subst hp
      simpa [setTh] using h'
  · rw [List.getElem?_set_ne (Ne.symm htt)] at hp
    simpa [setTh, htt] using hc t' p hp

theorem sim_step {s s' : St} {L : Sys Spec Op Out} {e : RedisConc.Ev} {l : List (Lin.Ev Op Out)}
    (hi : WInv s) (hs : Sim s L) (h : step s e = some (s', l)) :
    ∃ L', L.run obj l = some L' ∧ Sim s' L' := by
  obtain ⟨hst, hc⟩ := hs
  cases e with
  | call t op =>
    simp only [RedisConc.step] at h
    split at h
    · rename_i p hp he
      simp only [Option.some.injEq, Prod.mk.injEq] at h; obtain ⟨rfl, rfl⟩ := h
      have hth := Corr_idle (hc t _ hp)
      refine ⟨{ L with th := setTh L.th t (.pending L.pos op), pos := L.pos + 1 }, ?_, hst, ?_⟩
      · simp [Sys.run, Sys.ev, hth]
      · exact corr_update hc t p _ (Corr_pending (entry_opOf he) _)
    · cases h
  | cmd t =>
    simp only [RedisConc.step] at h
    cases hcs : cmdStep s t with
    | none => simp [hcs] at h
    | some x =>
      obtain ⟨s1, b⟩ := x
      simp only [hcs, Option.map_some, Option.some.injEq, Prod.mk.injEq] at h
      obtain ⟨rfl, rfl⟩ := h
      obtain ⟨p, op, hp, ho, hcase⟩ := cmdStep_shape hi hcs
      obtain ⟨id, hth⟩ := Corr_opOf ho (hc t p hp)
      rcases hcase with ⟨rfl, hsrv, hpc⟩ | ⟨rfl, hsrv, p', ho', hpc⟩
      · refine ⟨{ L with st := (obj.step L.st op).1, th := setTh L.th t (.linearized id op (obj.step L.st op).2),
                         pos := L.pos + 1, order := L.order ++ [(id, op, (obj.step L.st op).2)] }, ?_, ?_, ?_⟩
        · simp [Sys.run, Sys.ev, hth]
        · simp [obj, hst, hsrv]
        · rw [hpc]
          refine corr_update hc t _ _ ?_
          simp [Corr, obj, hst]
      · refine ⟨L, by simp [Sys.run], by rw [hsrv]; exact hst, ?_⟩
        rw [hpc]
        have := corr_update hc t p' (L.th t) (by rw [hth]; exact Corr_pending ho' _)
        intro t' q hq
        have h2 := this t' q hq
        by_cases htt : t' = t
        · subst htt; simpa [setTh] using h2
        · simpa [setTh, htt] using h2
  | ret t r =>
    simp only [RedisConc.step] at h
    split at h
    · rename_i r' hp
      split at h
      · rename_i hrr
        subst hrr
        simp only [Option.some.injEq, Prod.mk.injEq] at h; obtain ⟨rfl, rfl⟩ := h
        obtain ⟨id, i, hth⟩ := Corr_done (hc t _ hp)
        refine ⟨{ L with th := setTh L.th t .idle, pos := L.pos + 1, retPos := L.retPos ++ [(id, L.pos)] }, ?_, hst, ?_⟩
        · simp [Sys.run, Sys.ev, hth]
        · exact corr_update hc t .idle _ (by simp [Corr])
      · cases h
    · cases h

theorem sim_runL {es : List RedisConc.Ev} : ∀ {s s' : St} {L : Sys Spec Op Out} {ls : List (Lin.Ev Op Out)},
    WInv s → Sim s L → runL s es = some (s', ls) → ∃ L', L.run obj ls = some L' ∧ Sim s' L' := by
  induction es with
  | nil =>
    intro s s' L ls _ hs h
    simp only [runL, Option.some.injEq, Prod.mk.injEq] at h
    obtain ⟨rfl, rfl⟩ := h
    exact ⟨L, rfl, hs⟩
  | cons e es ih =>
    intro s s' L ls hi hs h
    obtain ⟨s1, l, ls', hst, hr, rfl⟩ := runL_cons h
    obtain ⟨L1, hL1, hs1⟩ := sim_step hi hs hst
    obtain ⟨L2, hL2, hs2⟩ := ih (hi.step hst) hs1 hr
    refine ⟨L2, ?_, hs2⟩
    rw [run_append, hL1]
    exact hL2

theorem sim_init (n : Nat) : Sim (St.init n) (Sys.init Spec.new) := by
  refine ⟨rfl, ?_⟩
  intro t p hp
  simp only [St.init] at hp
  rw [List.getElem?_replicate] at hp
  split at hp
  · cases hp; simp [Corr, Sys.init]
  · cases hp

end C02Redis
