import GolibsVerif.Lemmas.Lock
import GolibsVerif.Lemmas.LockFair
/-
Explicit infinite fault-free runs for C04Fair (every goroutine has its own Locker: `cfgOwn`):
  * `Demo.run`  — goroutine 0 calls Lock, takes the token, passes the ctx check, creates the record,
                  then the run stutters for ever (non-vacuity of the C04Fair hypotheses);
  * `Ovr.run`   — goroutine 1 holds, goroutine 0 waits in `WaitForVersionChange`; for ever: 1 unlocks,
                  calls Lock again and creates the record BEFORE 0's wait returns; 0 wakes up, its Create
                  finds the record, it waits again (a caller overtaken for ever in a fair run).
-/
namespace Lock

theorem St.ext' {a b : St} (h1 : a.pc = b.pc) (h2 : a.holds = b.holds) (h3 : a.hasCtx = b.hasCtx)
    (h4 : a.ctxDone = b.ctxDone) (h5 : a.token = b.token) (h6 : a.cntr = b.cntr)
    (h7 : a.future = b.future) (h8 : a.done = b.done) (h9 : a.lrec = b.lrec)
    (h10 : a.nextVer = b.nextVer) (h11 : a.armed = b.armed) (h12 : a.sups = b.sups)
    (h13 : a.nextTimer = b.nextTimer) : a = b := by
  cases a; cases b; simp_all

namespace Demo

def s₁ : St := { St.init with pc := upd St.init.pc 0 .lSelect, hasCtx := upd St.init.hasCtx 0 false, ctxDone := upd St.init.ctxDone 0 false }
def s₂ : St := { s₁ with pc := upd s₁.pc 0 .lCtxCheck, token := upd s₁.token (cfgOwn.lk 0) false, cntr := upd s₁.cntr (cfgOwn.lk 0) 1 }
def s₃ : St := { s₂ with pc := upd s₂.pc 0 .lCreate }
def s₄ : St := { s₃ with pc := upd s₃.pc 0 .idle, holds := upd s₃.holds 0 true, lrec := some { ver := s₃.nextVer, owner := some 0 }, nextVer := s₃.nextVer + 1, armed := { id := s₃.nextTimer, l := cfgOwn.lk 0, ver := s₃.nextVer } :: s₃.armed, future := upd s₃.future (cfgOwn.lk 0) (some s₃.nextTimer), nextTimer := s₃.nextTimer + 1 }

/-- Lock() by goroutine 0 on a free lock, then nothing happens any more -/
def run : Nat → St
  | 0 => St.init
  | 1 => s₁
  | 2 => s₂
  | 3 => s₃
  | _ => s₄

theorem run_next (i : Nat) : Step cfgOwn false false (run i) (run (i + 1)) ∨ run (i + 1) = run i := by
  match i with
  | 0 => exact Or.inl (Step.callLock St.init 0 false false rfl rfl (by simp))
  | 1 => exact Or.inl (Step.lSelToken s₁ 0 rfl rfl rfl rfl)
  | 2 => exact Or.inl (Step.lCtxOk s₂ 0 rfl rfl)
  | 3 => exact Or.inl (Step.lCreateOk s₃ 0 rfl rfl)
  | _ + 4 => exact Or.inr rfl

theorem run_ge (j : Nat) (h : 4 ≤ j) : run j = s₄ := by
  match j, h with
  | _ + 4, _ => rfl

theorem s₄_idle (g : G) : s₄.pc g = .idle := by
  simp only [s₄, s₃, s₂, s₁, St.init, upd]
  split <;> rfl

theorem run_ctx (j : Nat) : (run j).ctxDone 0 = false := by
  match j with
  | 0 | 1 | 2 | 3 => rfl
  | _ + 4 => rfl

end Demo

namespace Ovr

/-! the targets of the `Step` constructors used, as functions (config `cfgOwn`) -/
def fCallLock (s : St) (g : G) : St := { s with pc := upd s.pc g .lSelect, hasCtx := upd s.hasCtx g false, ctxDone := upd s.ctxDone g false }
def fSelToken (s : St) (g : G) : St := { s with pc := upd s.pc g .lCtxCheck, token := upd s.token (cfgOwn.lk g) false, cntr := upd s.cntr (cfgOwn.lk g) 1 }
def fCtxOk (s : St) (g : G) : St := { s with pc := upd s.pc g .lCreate }
def fCreateOk (s : St) (g : G) : St := { s with pc := upd s.pc g .idle, holds := upd s.holds g true, lrec := some { ver := s.nextVer, owner := some g }, nextVer := s.nextVer + 1, armed := { id := s.nextTimer, l := cfgOwn.lk g, ver := s.nextVer } :: s.armed, future := upd s.future (cfgOwn.lk g) (some s.nextTimer), nextTimer := s.nextTimer + 1 }
def fCreateExists (s : St) (g : G) (v : Nat) : St := { s with pc := upd s.pc g (.lWait v) }
def fWaitRet (s : St) (g : G) : St := { s with pc := upd s.pc g (if s.ctxDone g then .lFail else .lCreate) }
def fCallUnlock (s : St) (g : G) : St := { s with pc := upd s.pc g .uCancel, holds := upd s.holds g false, cntr := upd s.cntr (cfgOwn.lk g) 0 }
def fCancel (s : St) (g : G) : St := { s with pc := upd s.pc g .uDelete, armed := s.armed.filter fun t => some t.id ≠ s.future (cfgOwn.lk g) }
def fDelete (s : St) (g : G) : St := { s with pc := upd s.pc g .uToken, lrec := none }
def fToken (s : St) (g : G) : St := { s with pc := upd s.pc g .idle, token := upd s.token (cfgOwn.lk g) true }

/-! prefix: 1 acquires, 0 calls Lock and arrives at its first Create -/
def p₁ : St := fCallLock St.init 1
def p₂ : St := fSelToken p₁ 1
def p₃ : St := fCtxOk p₂ 1
def p₄ : St := fCreateOk p₃ 1
def p₅ : St := fCallLock p₄ 0
def p₆ : St := fSelToken p₅ 0
def p₇ : St := fCtxOk p₆ 0

def pre : Nat → St
  | 0 => St.init
  | 1 => p₁
  | 2 => p₂
  | 3 => p₃
  | 4 => p₄
  | 5 => p₅
  | 6 => p₆
  | _ => p₇

/-- start of round `n`: 1 holds (record version `n+1`), 0 is parked in `WaitForVersionChange(n+1)` -/
def base (n : Nat) : St :=
  { pc := upd (fun _ => .idle) 0 (.lWait (n + 1)),
    holds := upd (fun _ => false) 1 true,
    hasCtx := fun _ => false,
    ctxDone := fun _ => false,
    token := upd (upd (fun _ => true) 1 false) 0 false,
    cntr := upd (upd (fun _ => 0) 1 1) 0 1,
    future := upd (fun _ => none) 1 (some n),
    done := fun _ => false,
    lrec := some { ver := n + 1, owner := some 1 },
    nextVer := n + 2,
    armed := [{ id := n, l := 1, ver := n + 1 }],
    sups := [],
    nextTimer := n + 1 }

def c₁ (n : Nat) : St := fCallUnlock (base n) 1
def c₂ (n : Nat) : St := fCancel (c₁ n) 1
def c₃ (n : Nat) : St := fDelete (c₂ n) 1
def c₄ (n : Nat) : St := fToken (c₃ n) 1
def c₅ (n : Nat) : St := fCallLock (c₄ n) 1
def c₆ (n : Nat) : St := fSelToken (c₅ n) 1
def c₇ (n : Nat) : St := fCtxOk (c₆ n) 1
def c₈ (n : Nat) : St := fCreateOk (c₇ n) 1
def c₉ (n : Nat) : St := fWaitRet (c₈ n) 0

def cyc (n : Nat) : Nat → St
  | 0 => base n
  | 1 => c₁ n
  | 2 => c₂ n
  | 3 => c₃ n
  | 4 => c₄ n
  | 5 => c₅ n
  | 6 => c₆ n
  | 7 => c₇ n
  | 8 => c₈ n
  | _ => c₉ n

/-- the overtaking run -/
def run (i : Nat) : St := if i < 8 then pre i else cyc ((i - 8) / 10) ((i - 8) % 10)

theorem p₈_eq : fCreateExists p₇ 0 1 = base 0 := by
  apply St.ext' <;> try rfl
  all_goals (funext x; simp [fCreateExists, p₇, p₆, p₅, p₄, p₃, p₂, p₁, fCtxOk, fSelToken, fCallLock, fCreateOk, base, St.init, upd, cfgOwn])
  all_goals (by_cases h0 : x = 0 <;> by_cases h1 : x = 1 <;> simp [h0, h1])

theorem c₁₀_eq (n : Nat) : fCreateExists (c₉ n) 0 (n + 2) = base (n + 1) := by
  apply St.ext' <;> try rfl
  all_goals (try funext x)
  all_goals simp [fCreateExists, c₉, c₈, c₇, c₆, c₅, c₄, c₃, c₂, c₁, fWaitRet, fCtxOk, fSelToken, fCallLock, fCreateOk, fCallUnlock, fCancel, fDelete, fToken, base, upd, cfgOwn]
  all_goals (by_cases h0 : x = 0 <;> by_cases h1 : x = 1 <;> simp [h0, h1])

theorem run_pre (i : Nat) (h : i < 8) : run i = pre i := by simp [run, h]

theorem run_cyc (n k : Nat) (hk : k < 10) : run (8 + 10 * n + k) = cyc n k := by
  have h₁ : ¬ (8 + 10 * n + k < 8) := by omega
  have h₂ : (8 + 10 * n + k - 8) / 10 = n := by omega
  have h₃ : (8 + 10 * n + k - 8) % 10 = k := by omega
  simp only [run, h₁, if_false, h₂, h₃]

theorem cyc_next (n k : Nat) (hk : k < 9) : Step cfgOwn false false (cyc n k) (cyc n (k + 1)) := by
  match k, hk with
  | 0, _ => exact Step.callUnlock (base n) 1 rfl rfl rfl
  | 1, _ => exact Step.uCancel (c₁ n) 1 rfl
  | 2, _ => exact Step.uDeleteEffect (c₂ n) 1 rfl
  | 3, _ => exact Step.uToken (c₃ n) 1 rfl
  | 4, _ => exact Step.callLock (c₄ n) 1 false false rfl rfl (by simp)
  | 5, _ => exact Step.lSelToken (c₅ n) 1 rfl rfl rfl rfl
  | 6, _ => exact Step.lCtxOk (c₆ n) 1 rfl rfl
  | 7, _ => exact Step.lCreateOk (c₇ n) 1 rfl rfl
  | 8, _ =>
    exact Step.lWaitRet (c₈ n) 0 (n + 1) false (by simp) rfl
      (Or.inr (Or.inr (Or.inr ⟨{ ver := n + 2, owner := some 1 }, rfl, by simp⟩)))

theorem cyc_wrap (n : Nat) : Step cfgOwn false false (cyc n 9) (cyc (n + 1) 0) := by
  have h := Step.lCreateExists (c := cfgOwn) (weak := false) (faults := false) (c₉ n) 0
    { ver := n + 2, owner := some 1 } rfl rfl
  have e := c₁₀_eq n
  simp only [fCreateExists] at e
  rw [e] at h
  exact h

theorem run_next (i : Nat) : Step cfgOwn false false (run i) (run (i + 1)) ∨ run (i + 1) = run i := by
  left
  by_cases h : i < 8
  · match i, h with
    | 0, _ => exact Step.callLock St.init 1 false false rfl rfl (by simp)
    | 1, _ => exact Step.lSelToken p₁ 1 rfl rfl rfl rfl
    | 2, _ => exact Step.lCtxOk p₂ 1 rfl rfl
    | 3, _ => exact Step.lCreateOk p₃ 1 rfl rfl
    | 4, _ => exact Step.callLock p₄ 0 false false rfl rfl (by simp)
    | 5, _ => exact Step.lSelToken p₅ 0 rfl rfl rfl rfl
    | 6, _ => exact Step.lCtxOk p₆ 0 rfl rfl
    | 7, _ =>
      have h := Step.lCreateExists (c := cfgOwn) (weak := false) (faults := false) p₇ 0
        { ver := 1, owner := some 1 } rfl rfl
      have e := p₈_eq
      simp only [fCreateExists] at e
      rw [e] at h
      exact h
  · obtain ⟨n, k, hk, rfl⟩ : ∃ n k, k < 10 ∧ i = 8 + 10 * n + k :=
      ⟨(i - 8) / 10, (i - 8) % 10, by omega, by omega⟩
    by_cases hk9 : k < 9
    · rw [run_cyc n k hk, show 8 + 10 * n + k + 1 = 8 + 10 * n + (k + 1) by omega,
        run_cyc n (k + 1) (by omega)]
      exact cyc_next n k hk9
    · have : k = 9 := by omega
      subst this
      rw [run_cyc n 9 hk, show 8 + 10 * n + 9 + 1 = 8 + 10 * (n + 1) + 0 by omega,
        run_cyc (n + 1) 0 (by omega)]
      exact cyc_wrap n

/-- a property of all the states of the run -/
theorem run_all (P : St → Prop) (hpre : ∀ i, P (pre i)) (hcyc : ∀ n k, P (cyc n k)) (j : Nat) : P (run j) := by
  by_cases h : j < 8
  · rw [run_pre j h]; exact hpre j
  · simp only [run, h, if_false]; exact hcyc _ _

theorem pre_all (P : St → Prop) (h0 : P St.init) (h1 : P p₁) (h2 : P p₂) (h3 : P p₃) (h4 : P p₄)
    (h5 : P p₅) (h6 : P p₆) (h7 : P p₇) (i : Nat) : P (pre i) := by
  match i with
  | 0 => exact h0
  | 1 => exact h1
  | 2 => exact h2
  | 3 => exact h3
  | 4 => exact h4
  | 5 => exact h5
  | 6 => exact h6
  | _ + 7 => exact h7

theorem cyc_all (P : St → Prop) (n : Nat) (h0 : P (base n)) (h1 : P (c₁ n)) (h2 : P (c₂ n)) (h3 : P (c₃ n))
    (h4 : P (c₄ n)) (h5 : P (c₅ n)) (h6 : P (c₆ n)) (h7 : P (c₇ n)) (h8 : P (c₈ n)) (h9 : P (c₉ n))
    (k : Nat) : P (cyc n k) := by
  match k with
  | 0 => exact h0
  | 1 => exact h1
  | 2 => exact h2
  | 3 => exact h3
  | 4 => exact h4
  | 5 => exact h5
  | 6 => exact h6
  | 7 => exact h7
  | 8 => exact h8
  | _ + 9 => exact h9

/-- 0 never holds, no context is ever done, no provider is ever shut down -/
theorem run_quiet (j : Nat) : (run j).holds 0 = false ∧ (∀ g, (run j).ctxDone g = false) ∧
    ∀ p, (run j).done p = false := by
  let P : St → Prop := fun s => s.holds 0 = false ∧ (∀ g, s.ctxDone g = false) ∧ ∀ p, s.done p = false
  refine run_all P (pre_all P ?_ ?_ ?_ ?_ ?_ ?_ ?_ ?_) (fun n => cyc_all P n ?_ ?_ ?_ ?_ ?_ ?_ ?_ ?_ ?_ ?_) j
  all_goals refine ⟨rfl, fun g => ?_, fun _ => rfl⟩
  all_goals simp [c₉, c₈, c₇, c₆, c₅, c₄, c₃, c₂, c₁, p₇, p₆, p₅, p₄, p₃, p₂, p₁, fWaitRet, fCtxOk, fSelToken, fCallLock, fCreateOk, fCallUnlock, fCancel, fDelete, fToken, base, upd, St.init]

/-- the goroutines other than 0 and 1 never do anything -/
theorem run_others (j : Nat) (g : Nat) (hg : 2 ≤ g) : (run j).pc g = .idle ∧ (run j).holds g = false := by
  have h0 : g ≠ 0 := by omega
  have h1 : g ≠ 1 := by omega
  let P : St → Prop := fun s => s.pc g = .idle ∧ s.holds g = false
  refine run_all P (pre_all P ?_ ?_ ?_ ?_ ?_ ?_ ?_ ?_) (fun n => cyc_all P n ?_ ?_ ?_ ?_ ?_ ?_ ?_ ?_ ?_ ?_) j
  all_goals simp [P, c₉, c₈, c₇, c₆, c₅, c₄, c₃, c₂, c₁, p₇, p₆, p₅, p₄, p₃, p₂, p₁, fWaitRet, fCtxOk, fSelToken, fCallLock, fCreateOk, fCallUnlock, fCancel, fDelete, fToken, base, upd, St.init, h0, h1]

/-- where 0 stands in round `n` -/
theorem cyc_pc0 (n k : Nat) (hk : k ≤ 8) : (cyc n k).pc 0 = .lWait (n + 1) := by
  match k, hk with
  | 0, _ | 1, _ | 2, _ | 3, _ | 4, _ | 5, _ | 6, _ | 7, _ | 8, _ => rfl

theorem cyc_pc0_9 (n : Nat) : (cyc n 9).pc 0 = .lCreate := rfl

theorem cyc_lrec_9 (n : Nat) : (cyc n 9).lrec = some { ver := n + 2, owner := some 1 } := rfl

/-- 1 is idle at the start of a round and inside Unlock (not holding) one step later -/
theorem cyc_pc1 (n : Nat) : (cyc n 0).pc 1 = .idle ∧ (cyc n 1).pc 1 = .uCancel ∧ (cyc n 1).holds 1 = false :=
  ⟨rfl, rfl, rfl⟩

theorem run_split (j : Nat) (hj : 8 ≤ j) : ∃ n k, k < 10 ∧ j = 8 + 10 * n + k :=
  ⟨(j - 8) / 10, (j - 8) % 10, by omega, by omega⟩

theorem cyc_ctx (n k : Nat) (hk : k < 10) (g : G) : (cyc n k).ctxDone g = false := by
  rw [← run_cyc n k hk]; exact (run_quiet _).2.1 g

/-- from position 8 on, goroutine 0 is in the storage stage -/
theorem run_stage0 (j : Nat) (hj : 8 ≤ j) : (run j).pc 0 = .lCreate ∨ ∃ v, (run j).pc 0 = .lWait v := by
  obtain ⟨n, k, hk, rfl⟩ := run_split j hj
  rw [run_cyc n k hk]
  by_cases hk9 : k < 9
  · exact Or.inr ⟨n + 1, cyc_pc0 n k (by omega)⟩
  · have : k = 9 := by omega
    subst this; exact Or.inl rfl

/-- goroutine 0 moves in every round (its wait returns) -/
theorem run_moves0 (n : Nat) : (run (8 + 10 * n + 8 + 1)).pc 0 ≠ (run (8 + 10 * n + 8)).pc 0 := by
  rw [show 8 + 10 * n + 8 + 1 = 8 + 10 * n + 9 by omega, run_cyc n 9 (by omega), run_cyc n 8 (by omega),
    cyc_pc0_9, cyc_pc0 n 8 (by omega)]
  simp

/-- goroutine 1 moves in every round (it calls Unlock) -/
theorem run_moves1 (n : Nat) : (run (8 + 10 * n + 0 + 1)).pc 1 ≠ (run (8 + 10 * n + 0)).pc 1 := by
  rw [show 8 + 10 * n + 0 + 1 = 8 + 10 * n + 1 by omega, run_cyc n 1 (by omega), run_cyc n 0 (by omega),
    (cyc_pc1 n).1, (cyc_pc1 n).2.1]
  simp

/-- the holder releases in every round -/
theorem run_unl1 (n : Nat) : (run (8 + 10 * n + 1)).holds 1 = false := by
  rw [run_cyc n 1 (by omega)]; exact (cyc_pc1 n).2.2

/-- every own step of goroutine 0 that is enabled at some position from 8 on is, as to source and
target pc, the step that 0 takes at that or a later position -/
theorem run_strong (j : Nat) (hj : 8 ≤ j) (t : St) (hg : GStep cfgOwn 0 (run j) t) :
    ∃ j', j ≤ j' ∧ (run j').pc 0 = (run j).pc 0 ∧ (run (j' + 1)).pc 0 = t.pc 0 := by
  obtain ⟨n, k, hk, rfl⟩ := run_split j hj
  by_cases hk9 : k < 9
  · have hp : (run (8 + 10 * n + k)).pc 0 = .lWait (n + 1) := by
      rw [run_cyc n k hk]; exact cyc_pc0 n k (by omega)
    have ht := (gstep_lWait hg (n + 1) hp).1
    rw [(run_quiet _).2.1 0] at ht
    refine ⟨8 + 10 * n + 8, by omega, ?_, ?_⟩
    · rw [hp, run_cyc n 8 (by omega)]; exact cyc_pc0 n 8 (by omega)
    · rw [show 8 + 10 * n + 8 + 1 = 8 + 10 * n + 9 by omega, run_cyc n 9 (by omega), ht]
      exact cyc_pc0_9 n
  · have : k = 9 := by omega
    subst this
    have hp : (run (8 + 10 * n + 9)).pc 0 = .lCreate := by
      rw [run_cyc n 9 hk]; exact cyc_pc0_9 n
    have hl : (run (8 + 10 * n + 9)).lrec = some { ver := n + 2, owner := some 1 } := by
      rw [run_cyc n 9 hk]; exact cyc_lrec_9 n
    rcases gstep_lCreate hg hp with ⟨h, _⟩ | ⟨r, hr, hpc, _⟩ | ⟨h, _⟩
    · rw [hl] at h; cases h
    · rw [hl] at hr
      injection hr with hr
      subst hr
      refine ⟨8 + 10 * n + 9, Nat.le_refl _, rfl, ?_⟩
      rw [show 8 + 10 * n + 9 + 1 = 8 + 10 * (n + 1) + 0 by omega, run_cyc (n + 1) 0 (by omega), hpc]
      exact cyc_pc0 (n + 1) 0 (by omega)
    · rw [(run_quiet _).2.1 0] at h; cases h

end Ovr

end Lock
