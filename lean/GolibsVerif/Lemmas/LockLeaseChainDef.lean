import GolibsVerif.Lemmas.LockLeaseLnk
/- Lock lease (C05), part 4: the restricted (no early fire) system and the chain invariant's definition -/
namespace Lock
theorem Sup.await_eq_some {u : Sup} {tn : Nat} : u.await = some tn ↔ ∃ f, u.pc = .swap f tn := by
  cases u with | mk l v pc => cases pc <;> simp [Sup.await]

/-- the step `s → t` fires a timer whose creator has not yet executed its `future.CompareAndSwap` -/
def EarlyFire (s t : St) : Prop :=
  ∃ tm ∈ s.armed, (∃ u ∈ s.sups, ∃ f, u.pc = .swap f tm.id) ∧
    t = { s with armed := s.armed.filter (· ≠ tm), sups := { l := tm.l, ver := tm.ver, pc := .load } :: s.sups }

/-- fault-free reachability without early fires -/
inductive ReachNE (c : Cfg) : St → Prop
  | init : ReachNE c St.init
  | step {s t} : ReachNE c s → Step c false false s t → ¬ EarlyFire s t → ReachNE c t

structure Chain (c : Cfg) (s : St) : Prop where
  alive : ∀ g r, s.holds g = true → s.lrec = some r →
    (∃ t ∈ s.armed, t.ver = r.ver) ∨ (∃ u ∈ s.sups, u.foot = some r.ver)
  live_fut : ∀ g r, s.holds g = true → s.lrec = some r → ∀ u ∈ s.sups,
    (u.foot = some r.ver → ∀ f, u.fut = some f → f = s.future (c.lk g)) ∧
    (∀ tn, u.await = some tn → (∃ t ∈ s.armed, t.id = tn ∧ t.ver = r.ver) → u.fut = some (s.future (c.lk g)))
  fut_live : ∀ g r, s.holds g = true → s.lrec = some r → ∀ u ∈ s.sups, u.l = c.lk g →
    u.fut = some (s.future (c.lk g)) →
    (∀ f nv, u.pc = .arm f nv → nv = r.ver) ∧ (∀ tn, u.await = some tn → ∃ t ∈ s.armed, t.id = tn ∧ t.ver = r.ver)

theorem Chain.init {c : Cfg} : Chain c St.init := by
  constructor <;> simp [St.init]

end Lock
