import GolibsVerif.Model.Lru
/-
Generic list facts used by the C08 refinement proof: keyed find/filter on lists with distinct
keys, `lruOf` as strict minimum, `sortByUse` as the unique strictly sorted permutation.
-/
namespace Lru

/-- injectivity of `f` on a list whose `f`-images are pairwise distinct -/
theorem pw_inj {α : Type} {f : α → Nat} {l : List α} (h : l.Pairwise (fun a b => f a ≠ f b))
    {a b : α} (ha : a ∈ l) (hb : b ∈ l) (hab : f a = f b) : a = b := by
  induction h with
  | nil => cases ha
  | cons hx _ ih =>
    rcases List.mem_cons.1 ha with ha1 | ha1
    · rcases List.mem_cons.1 hb with hb1 | hb1
      · rw [ha1, hb1]
      · subst ha1; exact absurd hab (hx _ hb1)
    · rcases List.mem_cons.1 hb with hb1 | hb1
      · subst hb1; exact absurd hab.symm (hx _ ha1)
      · exact ih ha1 hb1

/-- a keyed `find?` hit on a list with distinct keys splits the list around the unique match -/
theorem find_split {α : Type} {f : α → Nat} {l : List α} (h : l.Pairwise (fun a b => f a ≠ f b))
    {k : Nat} {e : α} (hf : l.find? (fun x => f x == k) = some e) :
    f e = k ∧ ∃ a b, l = a ++ e :: b ∧ (∀ x ∈ a, f x ≠ k) ∧ (∀ x ∈ b, f x ≠ k) := by
  obtain ⟨hp, a, b, rfl, ha⟩ := List.find?_eq_some_iff_append.1 hf
  have hk : f e = k := by simpa using hp
  refine ⟨hk, a, b, rfl, ?_, ?_⟩
  · intro x hx; simpa using ha x hx
  · intro x hx
    have h2 := (List.pairwise_append.1 h).2.1
    have := (List.pairwise_cons.1 h2).1 x hx
    omega

/-- with distinct keys, a keyed `find?` does not depend on the order of the list -/
theorem find_perm {α : Type} {f : α → Nat} {l l' : List α} (h : l.Pairwise (fun a b => f a ≠ f b))
    (hp : l.Perm l') (k : Nat) :
    l'.find? (fun x => f x == k) = l.find? (fun x => f x == k) := by
  cases hl : l.find? (fun x => f x == k) with
  | none =>
    rw [List.find?_eq_none] at hl ⊢
    intro x hx; exact hl x (hp.mem_iff.2 hx)
  | some e =>
    have he : e ∈ l := List.mem_of_find?_eq_some hl
    have hke : f e = k := by simpa using List.find?_some hl
    cases hl' : l'.find? (fun x => f x == k) with
    | none =>
      rw [List.find?_eq_none] at hl'
      exact absurd (by simpa using hke) (hl' e (hp.mem_iff.1 he))
    | some e' =>
      have he' : e' ∈ l := hp.mem_iff.2 (List.mem_of_find?_eq_some hl')
      have hke' : f e' = k := by simpa using List.find?_some hl'
      rw [pw_inj h he' he (hke'.trans hke.symm)]

theorem filter_ne_self {α : Type} {f : α → Nat} {l : List α} {k : Nat} (h : ∀ x ∈ l, f x ≠ k) :
    l.filter (fun x => f x != k) = l := by
  rw [List.filter_eq_self]; intro x hx; simpa using h x hx

theorem filter_ne_split {α : Type} {f : α → Nat} {a b : List α} {e : α} {k : Nat}
    (hk : f e = k) (ha : ∀ x ∈ a, f x ≠ k) (hb : ∀ x ∈ b, f x ≠ k) :
    (a ++ e :: b).filter (fun x => f x != k) = a ++ b := by
  rw [List.filter_append, List.filter_cons, filter_ne_self ha, filter_ne_self hb]
  simp [hk]

/-! ### lruOf -/

theorem lruOf_mem : ∀ {l : List REntry} {m : REntry}, lruOf l = some m → m ∈ l
  | [], _, h => by simp [lruOf] at h
  | e :: rest, m, h => by
    unfold lruOf at h
    cases hr : lruOf rest with
    | none => rw [hr] at h; simp at h; simp [h]
    | some m' =>
      rw [hr] at h
      have := lruOf_mem hr
      simp only at h
      split at h <;> simp at h <;> subst h <;> simp [this]

theorem lruOf_eq_none : ∀ {l : List REntry}, lruOf l = none → l = []
  | [], _ => rfl
  | e :: rest, h => by
    unfold lruOf at h
    cases hr : lruOf rest with
    | none => rw [hr] at h; simp at h
    | some m' => rw [hr] at h; simp only at h; split at h <;> simp at h

theorem lruOf_le : ∀ {l : List REntry} {m : REntry}, lruOf l = some m → ∀ x ∈ l, m.lastUse ≤ x.lastUse
  | [], _, h => by simp [lruOf] at h
  | e :: rest, m, h => by
    unfold lruOf at h
    cases hr : lruOf rest with
    | none =>
      rw [hr] at h; simp at h; subst h
      have : rest = [] := lruOf_eq_none hr
      subst this; simp
    | some m' =>
      rw [hr] at h
      have ih := lruOf_le hr
      simp only at h
      intro x hx
      rcases List.mem_cons.1 hx with rfl | hx
      · split at h <;> simp at h <;> subst h <;> omega
      · have := ih x hx
        split at h <;> simp at h <;> subst h <;> omega

theorem lruOf_isSome {l : List REntry} (h : l ≠ []) : ∃ m, lruOf l = some m := by
  cases l with
  | nil => exact absurd rfl h
  | cons e rest =>
    unfold lruOf
    cases lruOf rest with
    | none => exact ⟨e, rfl⟩
    | some m' => simp only; split <;> exact ⟨_, rfl⟩

/-- a strict minimum of the stamps is what `lruOf` picks -/
theorem lruOf_eq_of_strict_min {l : List REntry} {m : REntry} (hm : m ∈ l)
    (hmin : ∀ x ∈ l, x = m ∨ m.lastUse < x.lastUse) : lruOf l = some m := by
  obtain ⟨m', hm'⟩ := lruOf_isSome (List.ne_nil_of_mem hm)
  have h1 := lruOf_le hm' m hm
  rcases hmin m' (lruOf_mem hm') with rfl | h2
  · exact hm'
  · omega

/-! ### sortByUse -/

theorem insertByUse_perm (e : REntry) : ∀ l : List REntry, (insertByUse e l).Perm (e :: l)
  | [] => by simp [insertByUse]
  | x :: xs => by
    unfold insertByUse
    split
    · exact List.Perm.refl _
    · exact ((insertByUse_perm e xs).cons x).trans (List.Perm.swap e x xs)

theorem sortByUse_perm : ∀ l : List REntry, (sortByUse l).Perm l
  | [] => by simp [sortByUse]
  | x :: xs => by
    have : sortByUse (x :: xs) = insertByUse x (sortByUse xs) := rfl
    rw [this]
    exact (insertByUse_perm x _).trans ((sortByUse_perm xs).cons x)

theorem insertByUse_sorted (e : REntry) : ∀ {l : List REntry},
    l.Pairwise (fun a b => a.lastUse ≤ b.lastUse) →
    (insertByUse e l).Pairwise (fun a b => a.lastUse ≤ b.lastUse)
  | [], _ => by simp [insertByUse]
  | x :: xs, h => by
    unfold insertByUse
    have hx := List.pairwise_cons.1 h
    split
    · rename_i hlt
      refine List.pairwise_cons.2 ⟨?_, h⟩
      intro y hy
      rcases List.mem_cons.1 hy with rfl | hy
      · omega
      · have := hx.1 y hy; omega
    · rename_i hge
      refine List.pairwise_cons.2 ⟨?_, insertByUse_sorted e hx.2⟩
      intro y hy
      rcases List.mem_cons.1 ((insertByUse_perm e xs).mem_iff.1 hy) with rfl | hy
      · omega
      · exact hx.1 y hy

theorem sortByUse_sorted : ∀ l : List REntry,
    (sortByUse l).Pairwise (fun a b => a.lastUse ≤ b.lastUse)
  | [] => by simp [sortByUse]
  | x :: xs => by
    have : sortByUse (x :: xs) = insertByUse x (sortByUse xs) := rfl
    rw [this]
    exact insertByUse_sorted x (sortByUse_sorted xs)

/-- the strictly sorted permutation of the residents is what `sortByUse` computes -/
theorem sortByUse_eq {l res : List REntry} (hp : l.Perm res)
    (hs : l.Pairwise (fun a b => a.lastUse < b.lastUse)) : sortByUse res = l := by
  have hne : l.Pairwise (fun a b => a.lastUse ≠ b.lastUse) := hs.imp (fun h => Nat.ne_of_lt h)
  refine List.Perm.eq_of_pairwise (le := fun a b => a.lastUse ≤ b.lastUse) ?_
    (sortByUse_sorted res) (hs.imp (fun h => Nat.le_of_lt h)) ((sortByUse_perm res).trans hp.symm)
  intro a b ha hb h1 h2
  have ha' : a ∈ l := hp.mem_iff.2 ((sortByUse_perm res).mem_iff.1 ha)
  exact pw_inj (f := REntry.lastUse) hne ha' hb (Nat.le_antisymm h1 h2)

end Lru
