import GolibsVerif.Model.Mixer
/-
Helper lemmas for C18 (iterator mixer).
-/
namespace Mixer

/-! ### `merge` -/

@[simp] theorem merge_nil_left (sf : Nat → Nat → Bool) (ys : List Nat) : merge sf [] ys = ys := by
  simp [merge]

@[simp] theorem merge_nil_right (sf : Nat → Nat → Bool) (xs : List Nat) : merge sf xs [] = xs := by
  cases xs <;> simp [merge]

theorem merge_cons_cons (sf : Nat → Nat → Bool) (x y : Nat) (xs ys : List Nat) :
    merge sf (x :: xs) (y :: ys) =
      if sf x y then x :: merge sf xs (y :: ys) else y :: merge sf (x :: xs) ys := by
  simp [merge]

theorem merge_eq_nil_iff (sf : Nat → Nat → Bool) (xs ys : List Nat) :
    merge sf xs ys = [] ↔ xs = [] ∧ ys = [] := by
  cases xs with
  | nil => simp
  | cons x xs =>
    cases ys with
    | nil => simp
    | cons y ys => simp only [merge_cons_cons]; split <;> simp

theorem mem_merge (sf : Nat → Nat → Bool) (xs ys : List Nat) (a : Nat) :
    a ∈ merge sf xs ys ↔ a ∈ xs ∨ a ∈ ys := by
  fun_induction merge sf xs ys with
  | case1 ys => simp
  | case2 x xs => simp
  | case3 x xs y ys h ih => simp [ih]; grind
  | case4 x xs y ys h ih => simp [ih]; grind

theorem interleave_merge (sf : Nat → Nat → Bool) (l1 l2 : List Nat) :
    Interleave l1 l2 (merge sf l1 l2) := by
  fun_induction merge sf l1 l2 with
  | case1 ys =>
    induction ys with
    | nil => exact .nil
    | cons y ys ih => exact .right ih
  | case2 x xs =>
    have : ∀ l : List Nat, Interleave l [] l := by
      intro l
      induction l with
      | nil => exact .nil
      | cons y ys ih => exact .left ih
    exact this _
  | case3 x xs y ys h ih => exact .left ih
  | case4 x xs y ys h ih => exact .right ih

theorem interleave_length {l1 l2 l : List Nat} (h : Interleave l1 l2 l) :
    l.length = l1.length + l2.length := by
  induction h with
  | nil => rfl
  | left _ ih => simp [ih]; omega
  | right _ ih => simp [ih]; omega

theorem interleave_sublist_left {l1 l2 l : List Nat} (h : Interleave l1 l2 l) : l1.Sublist l := by
  induction h with
  | nil => exact .slnil
  | left _ ih => exact ih.cons_cons _
  | right _ ih => exact ih.cons _

theorem interleave_sublist_right {l1 l2 l : List Nat} (h : Interleave l1 l2 l) : l2.Sublist l := by
  induction h with
  | nil => exact .slnil
  | left _ ih => exact ih.cons _
  | right _ ih => exact ih.cons_cons _

theorem interleave_perm {l1 l2 l : List Nat} (h : Interleave l1 l2 l) : l.Perm (l1 ++ l2) := by
  induction h with
  | nil => exact .nil
  | left _ ih => exact ih.cons _
  | right _ ih => exact (ih.cons _).trans List.perm_middle.symm

theorem pairwise_merge (sf : Nat → Nat → Bool)
    (total : ∀ a b, sf a b = true ∨ sf b a = true)
    (trans : ∀ a b c, sf a b = true → sf b c = true → sf a c = true)
    (l1 l2 : List Nat) (h1 : l1.Pairwise (fun a b => sf a b = true))
    (h2 : l2.Pairwise (fun a b => sf a b = true)) :
    (merge sf l1 l2).Pairwise (fun a b => sf a b = true) := by
  fun_induction merge sf l1 l2 with
  | case1 ys => exact h2
  | case2 x xs => exact h1
  | case3 x xs y ys h ih =>
    rw [List.pairwise_cons] at h1 ⊢
    refine ⟨?_, ih h1.2 h2⟩
    intro a ha
    rw [mem_merge] at ha
    rcases ha with ha | ha
    · exact h1.1 a ha
    · rw [List.mem_cons] at ha
      rcases ha with rfl | ha
      · exact h
      · exact trans _ _ _ h ((List.pairwise_cons.mp h2).1 a ha)
  | case4 x xs y ys h ih =>
    have hyx : sf y x = true := by
      rcases total x y with h' | h'
      · exact absurd h' h
      · exact h'
    rw [List.pairwise_cons] at h2 ⊢
    refine ⟨?_, ih h1 h2.2⟩
    intro a ha
    rw [mem_merge] at ha
    rcases ha with ha | ha
    · rw [List.mem_cons] at ha
      rcases ha with rfl | ha
      · exact hyx
      · exact trans _ _ _ hyx ((List.pairwise_cons.mp h1).1 a ha)
    · exact h2.1 a ha

/-! ### one-step refinement -/

/-- what `selectState` establishes -/
theorem selectState_spec (sf : Nat → Nat → Bool) (m : Mx) (h : m.Inv sf) :
    (m.selectState sf).Inv sf ∧ (m.selectState sf).st ≠ 0 ∧ (m.selectState sf).abs = m.abs ∧
    (m.selectState sf).s1.canReset = m.s1.canReset ∧ (m.selectState sf).s2.canReset = m.s2.canReset := by
  rcases m with ⟨⟨a1, r1, c1, l1, e1, g1, gl1⟩, ⟨a2, r2, c2, l2, e2, g2, gl2⟩, st⟩
  obtain ⟨hst, h1, h2, h3⟩ := h
  simp only at hst h1 h2 h3
  by_cases h0 : st = 0
  · subst h0
    cases l1 <;> cases l2 <;> cases r1 <;> cases r2 <;> cases gl1 <;> cases gl2 <;>
      simp [Mx.selectState, Src.fetch, Src.pending, Mx.abs, Mx.Inv] <;> grind
  · simp [Mx.selectState, h0, Mx.Inv]
    exact ⟨by omega, h1, h2, h3⟩

theorem selectState_of_ne_zero (sf : Nat → Nat → Bool) (m : Mx) (h : m.st ≠ 0) :
    m.selectState sf = m := by
  simp [Mx.selectState, h]

theorem selectState_idem (sf : Nat → Nat → Bool) (m : Mx) (h : m.Inv sf) :
    (m.selectState sf).selectState sf = m.selectState sf :=
  selectState_of_ne_zero sf _ (selectState_spec sf m h).2.1

/-- `Next` on a state whose selector is already decided (`st ≠ 0`) -/
theorem next_refines_of_ne_zero (sf : Nat → Nat → Bool) (m : Mx) (h : m.Inv sf) (h0 : m.st ≠ 0) :
    (let r := m.next sf; Out.nx r.2.1 r.2.2) = (m.abs.step sf .next).2 ∧
    (m.next sf).1.abs = (m.abs.step sf .next).1 ∧ (m.next sf).1.Inv sf ∧
    (m.next sf).1.s1.canReset = m.s1.canReset ∧ (m.next sf).1.s2.canReset = m.s2.canReset := by
  rcases m with ⟨⟨a1, r1, c1, l1, e1, g1, gl1⟩, ⟨a2, r2, c2, l2, e2, g2, gl2⟩, st⟩
  obtain ⟨hst, h1, h2, h3⟩ := h
  simp only at hst h1 h2 h3 h0
  rcases hst with rfl | rfl | rfl | rfl
  · exact absurd rfl h0
  · obtain ⟨rfl, ⟨rfl, rfl, rfl⟩ | ⟨rfl, hsf⟩⟩ := h1 rfl
    · simp [Mx.next, Mx.selectState, Src.pending, Mx.abs, S.step, Mx.Inv]
    · simp [Mx.next, Mx.selectState, Src.pending, Mx.abs, S.step, Mx.Inv, hsf]
  · obtain ⟨rfl, ⟨rfl, rfl, rfl⟩ | ⟨rfl, hsf⟩⟩ := h2 rfl
    · simp [Mx.next, Mx.selectState, Src.pending, Mx.abs, S.step, Mx.Inv]
    · simp [Mx.next, Mx.selectState, Src.pending, Mx.abs, S.step, Mx.Inv, hsf]
  · obtain ⟨rfl, rfl, rfl, rfl, rfl, rfl⟩ := h3 rfl
    simp [Mx.next, Mx.selectState, Src.pending, Mx.abs, S.step, Mx.Inv]

theorem next_eq_next_selectState (sf : Nat → Nat → Bool) (m : Mx) (h : m.Inv sf) :
    m.next sf = (m.selectState sf).next sf := by
  simp only [Mx.next, selectState_idem sf m h]

theorem next_refines (sf : Nat → Nat → Bool) (m : Mx) (h : m.Inv sf) :
    (let r := m.next sf; Out.nx r.2.1 r.2.2) = (m.abs.step sf .next).2 ∧
    (m.next sf).1.abs = (m.abs.step sf .next).1 ∧ (m.next sf).1.Inv sf ∧
    (m.next sf).1.s1.canReset = m.s1.canReset ∧ (m.next sf).1.s2.canReset = m.s2.canReset := by
  obtain ⟨hi, h0, ha, hc1, hc2⟩ := selectState_spec sf m h
  have := next_refines_of_ne_zero sf _ hi h0
  rw [next_eq_next_selectState sf m h, ← ha, ← hc1, ← hc2]
  exact this

theorem hasNext_refines (sf : Nat → Nat → Bool) (m : Mx) (h : m.Inv sf) :
    (m.hasNext sf).2 = (merge sf m.abs.p1 m.abs.p2 != []) ∧
    (m.hasNext sf).1.abs = m.abs ∧ (m.hasNext sf).1.Inv sf ∧
    (m.hasNext sf).1.s1.canReset = m.s1.canReset ∧ (m.hasNext sf).1.s2.canReset = m.s2.canReset := by
  obtain ⟨hi, h0, ha, hc1, hc2⟩ := selectState_spec sf m h
  refine ⟨?_, ha, hi, hc1, hc2⟩
  rw [← ha]
  simp only [Mx.hasNext]
  generalize m.selectState sf = m' at hi h0
  rcases m' with ⟨⟨a1, r1, c1, l1, e1, g1, gl1⟩, ⟨a2, r2, c2, l2, e2, g2, gl2⟩, st⟩
  obtain ⟨hst, h1, h2, h3⟩ := hi
  simp only at hst h1 h2 h3 h0
  rcases hst with rfl | rfl | rfl | rfl
  · exact absurd rfl h0
  · obtain ⟨rfl, _⟩ := h1 rfl
    simp [Mx.abs, Src.pending, merge_eq_nil_iff]
  · obtain ⟨rfl, _⟩ := h2 rfl
    simp [Mx.abs, Src.pending, merge_eq_nil_iff]
  · obtain ⟨rfl, rfl, rfl, rfl, rfl, rfl⟩ := h3 rfl
    simp [Mx.abs, Src.pending]

theorem reset_refines (sf : Nat → Nat → Bool) (m : Mx)
    (hr : m.s1.canReset = true ∧ m.s2.canReset = true) :
    m.reset.2 = .ok ∧ m.reset.1.abs = { m.abs with p1 := m.abs.a1, p2 := m.abs.a2 } ∧
    m.reset.1.Inv sf ∧ m.reset.1.st = 0 ∧
    m.reset.1.s1.canReset = true ∧ m.reset.1.s2.canReset = true := by
  rcases m with ⟨⟨a1, r1, c1, l1, e1, g1, gl1⟩, ⟨a2, r2, c2, l2, e2, g2, gl2⟩, st⟩
  simp only at hr
  obtain ⟨rfl, rfl⟩ := hr
  simp [Mx.reset, Src.reset, Mx.abs, Src.pending, Mx.Inv]

theorem step_refines (sf : Nat → Nat → Bool) (m : Mx) (op : Op) (h : m.Inv sf)
    (hr : m.s1.canReset = true ∧ m.s2.canReset = true) :
    (m.step sf op).2 = (m.abs.step sf op).2 ∧ (m.step sf op).1.abs = (m.abs.step sf op).1 ∧
    (m.step sf op).1.Inv sf ∧
    ((m.step sf op).1.s1.canReset = true ∧ (m.step sf op).1.s2.canReset = true) := by
  cases op with
  | hasNext =>
    obtain ⟨a, b, c, d, e⟩ := hasNext_refines sf m h
    exact ⟨by simp [Mx.step, S.step, a], by simpa [Mx.step, S.step] using b,
      by simpa [Mx.step] using c, by simpa [Mx.step, hr.1] using d, by simpa [Mx.step, hr.2] using e⟩
  | next =>
    obtain ⟨a, b, c, d, e⟩ := next_refines sf m h
    exact ⟨by simpa [Mx.step] using a, by simpa [Mx.step] using b,
      by simpa [Mx.step] using c, by simpa [Mx.step, hr.1] using d, by simpa [Mx.step, hr.2] using e⟩
  | reset =>
    obtain ⟨a, b, c, _, d, e⟩ := reset_refines sf m hr
    exact ⟨by simp [Mx.step, S.step, a], by simpa [Mx.step, S.step] using b,
      by simpa [Mx.step] using c, by simpa [Mx.step] using d, by simpa [Mx.step] using e⟩

/-! ### lifting to call patterns, drain -/

theorem S_step_all (sf : Nat → Nat → Bool) (s : S) (op : Op) :
    (s.step sf op).1.a1 = s.a1 ∧ (s.step sf op).1.a2 = s.a2 := by
  rcases s with ⟨p1, p2, a1, a2⟩
  cases op
  · simp [S.step]
  · cases p1 <;> cases p2 <;> simp [S.step] <;> split <;> simp
  · simp [S.step]

theorem runS_all (sf : Nat → Nat → Bool) (ops : List Op) (s : S) :
    (runS sf s ops).1.a1 = s.a1 ∧ (runS sf s ops).1.a2 = s.a2 := by
  induction ops generalizing s with
  | nil => simp [runS]
  | cons op ops ih =>
    have h1 := S_step_all sf s op
    have h2 := ih (s.step sf op).1
    simp only [runS]
    exact ⟨h2.1.trans h1.1, h2.2.trans h1.2⟩

theorem run_refines (sf : Nat → Nat → Bool) (ops : List Op) (m : Mx) (h : m.Inv sf)
    (hr : m.s1.canReset = true ∧ m.s2.canReset = true) :
    (runI sf m ops).2 = (runS sf m.abs ops).2 ∧ (runI sf m ops).1.abs = (runS sf m.abs ops).1 ∧
    (runI sf m ops).1.Inv sf ∧
    ((runI sf m ops).1.s1.canReset = true ∧ (runI sf m ops).1.s2.canReset = true) := by
  induction ops generalizing m with
  | nil => simp [runI, runS, h, hr]
  | cons op ops ih =>
    obtain ⟨a, b, c, d⟩ := step_refines sf m op h hr
    obtain ⟨a', b', c', d'⟩ := ih (m.step sf op).1 c d
    simp only [runI, runS]
    rw [b] at a' b'
    exact ⟨by rw [a, a'], b', c', d'⟩

theorem init_inv (sf : Nat → Nat → Bool) (l1 l2 : List Nat) (r1 r2 : Bool) (g1 g2 : Bool := false) :
    (Mx.init l1 l2 r1 r2 g1 g2).Inv sf ∧
    (Mx.init l1 l2 r1 r2 g1 g2).abs = { p1 := l1, p2 := l2, a1 := l1, a2 := l2 } := by
  simp [Mx.init, Src.mk', Mx.Inv, Mx.abs, Src.pending]

theorem drain_eq_merge (sf : Nat → Nat → Bool) (fuel : Nat) (m : Mx) (h : m.Inv sf)
    (hf : fuel ≥ m.abs.p1.length + m.abs.p2.length) :
    drain sf fuel m = merge sf m.abs.p1 m.abs.p2 := by
  induction fuel generalizing m with
  | zero =>
    have h1 : m.abs.p1 = [] := List.eq_nil_of_length_eq_zero (by omega)
    have h2 : m.abs.p2 = [] := List.eq_nil_of_length_eq_zero (by omega)
    simp [drain, h1, h2]
  | succ fuel ih =>
    obtain ⟨a, b, c, _, _⟩ := next_refines sf m h
    have ih' := ih (m.next sf).1 c
    simp only [drain]
    generalize m.abs = s at a b hf ih'
    generalize m.next sf = r at a b c ih'
    rcases r with ⟨m', v, ok⟩
    rcases s with ⟨p1, p2, a1, a2⟩
    simp only at a b hf ih' ⊢
    cases p1 with
    | nil =>
      cases p2 with
      | nil =>
        simp [S.step] at a
        simp [a]
      | cons y ys =>
        simp [S.step] at a b
        simp [a, b] at ih' ⊢
        exact ih' (by simp at hf; omega)
    | cons x xs =>
      cases p2 with
      | nil =>
        simp [S.step] at a b
        simp [a, b] at ih' ⊢
        exact ih' (by simp at hf; omega)
      | cons y ys =>
        simp only [S.step] at a b
        rw [merge_cons_cons]
        split at a <;> rename_i hsf
        · simp at a b
          simp [a, b, hsf] at ih' ⊢
          exact ih' (by simp at hf; omega)
        · simp at a b
          simp [a, b, hsf] at ih' ⊢
          exact ih' (by simp at hf; omega)

/-! ### vanishing tails change nothing: simulation between states that differ only in ghost flags -/

/-- two sources agree on everything but the ghost flags (and the stale `e` of an empty look-ahead) -/
def Src.Sim (s t : Src) : Prop :=
  s.all = t.all ∧ s.rest = t.rest ∧ s.canReset = t.canReset ∧ s.load = t.load

/-- the two mixers agree on `all`, `rest`, `canReset`, `load`, `st`, and on `e` whenever it can reach
the output: the look-ahead is loaded, or the cached state still points at this source (the latter
happens after a failed Reset, which clears `load`/`e` on both sides but keeps `st`). -/
def Mx.Sim (m n : Mx) : Prop :=
  m.s1.Sim n.s1 ∧ m.s2.Sim n.s2 ∧ m.st = n.st ∧
  (m.s1.load = true ∨ m.st = 1 → m.s1.e = n.s1.e) ∧
  (m.s2.load = true ∨ m.st = 2 → m.s2.e = n.s2.e)

theorem fetch_sim (s t : Src) (h : s.Sim t) (he : s.load = true → s.e = t.e) :
    s.fetch.Sim t.fetch ∧ (s.fetch.load = true → s.fetch.e = t.fetch.e) := by
  rcases s with ⟨a, r, c, l, e, g, gl⟩
  rcases t with ⟨a', r', c', l', e', g', gl'⟩
  simp only [Src.Sim] at h he
  obtain ⟨rfl, rfl, rfl, rfl⟩ := h
  cases l <;> cases r <;> cases gl <;> cases gl' <;> simp_all [Src.fetch, Src.Sim]

theorem selectState_sim (sf : Nat → Nat → Bool) (m n : Mx) (h : m.Sim n) :
    (m.selectState sf).Sim (n.selectState sf) := by
  obtain ⟨h1, h2, hst, he1, he2⟩ := h
  by_cases h0 : m.st = 0
  · have h0' : n.st = 0 := hst ▸ h0
    obtain ⟨f1, fe1⟩ := fetch_sim _ _ h1 (fun hl => he1 (Or.inl hl))
    obtain ⟨f2, fe2⟩ := fetch_sim _ _ h2 (fun hl => he2 (Or.inl hl))
    simp only [Mx.selectState, h0, h0']
    generalize m.s1.fetch = a1 at f1 fe1 ⊢
    generalize n.s1.fetch = b1 at f1 fe1 ⊢
    generalize m.s2.fetch = a2 at f2 fe2 ⊢
    generalize n.s2.fetch = b2 at f2 fe2 ⊢
    obtain ⟨_, _, _, hl1⟩ := id f1
    obtain ⟨_, _, _, hl2⟩ := id f2
    rw [← hl1, ← hl2]
    cases hA : a1.load <;> cases hB : a2.load <;> simp [hA, hB] at fe1 fe2 ⊢
    · exact ⟨f1, f2, rfl, by simp [hA], by simp [hB]⟩
    · exact ⟨f1, f2, rfl, by simp [hA], by simp [hB, fe2]⟩
    · exact ⟨f1, f2, rfl, by simp [hA, fe1], by simp [hB]⟩
    · rw [← fe1, ← fe2]
      split
      · exact ⟨f1, f2, rfl, by simp [fe1], by simp [fe2]⟩
      · exact ⟨f1, f2, rfl, by simp [fe1], by simp [fe2]⟩
  · have h0' : n.st ≠ 0 := hst ▸ h0
    rw [selectState_of_ne_zero sf m h0, selectState_of_ne_zero sf n h0']
    exact ⟨h1, h2, hst, he1, he2⟩

theorem hasNext_sim (sf : Nat → Nat → Bool) (m n : Mx) (h : m.Sim n) :
    (m.hasNext sf).2 = (n.hasNext sf).2 ∧ (m.hasNext sf).1.Sim (n.hasNext sf).1 := by
  have hs := selectState_sim sf m n h
  simp only [Mx.hasNext]
  exact ⟨by rw [hs.2.2.1], hs⟩

theorem next_sim (sf : Nat → Nat → Bool) (m n : Mx) (h : m.Sim n) :
    (m.next sf).2 = (n.next sf).2 ∧ (m.next sf).1.Sim (n.next sf).1 := by
  have hs := selectState_sim sf m n h
  simp only [Mx.next]
  generalize m.selectState sf = m' at hs ⊢
  generalize n.selectState sf = n' at hs ⊢
  obtain ⟨h1, h2, hst, he1, he2⟩ := hs
  by_cases c1 : m'.st = 1
  · rw [if_pos c1, if_pos (hst ▸ c1)]
    refine ⟨by rw [he1 (Or.inr c1)], ?_, h2, rfl, by simp, fun hl => he2 (Or.inl (by simpa using hl))⟩
    obtain ⟨x1, x2, x3, _⟩ := h1
    exact ⟨x1, x2, x3, rfl⟩
  · by_cases c2 : m'.st = 2
    · rw [if_neg c1, if_pos c2, if_neg (hst ▸ c1), if_pos (hst ▸ c2)]
      refine ⟨by rw [he2 (Or.inr c2)], h1, ?_, rfl, fun hl => he1 (Or.inl (by simpa using hl)), by simp⟩
      obtain ⟨x1, x2, x3, _⟩ := h2
      exact ⟨x1, x2, x3, rfl⟩
    · rw [if_neg c1, if_neg c2, if_neg (hst ▸ c1), if_neg (hst ▸ c2)]
      exact ⟨rfl, h1, h2, hst, he1, he2⟩

theorem src_reset_sim (s t : Src) (h : s.Sim t) :
    s.reset.2 = t.reset.2 ∧ s.reset.1.Sim t.reset.1 ∧ s.reset.1.e = t.reset.1.e := by
  rcases s with ⟨a, r, c, l, e, g, gl⟩
  rcases t with ⟨a', r', c', l', e', g', gl'⟩
  simp only [Src.Sim] at h
  obtain ⟨rfl, rfl, rfl, rfl⟩ := h
  cases c <;> simp [Src.reset, Src.Sim]

theorem reset_sim (m n : Mx) (h : m.Sim n) :
    m.reset.2 = n.reset.2 ∧ m.reset.1.Sim n.reset.1 := by
  obtain ⟨h1, h2, hst, he1, he2⟩ := h
  obtain ⟨a1, b1, c1⟩ := src_reset_sim _ _ h1
  obtain ⟨a2, b2, c2⟩ := src_reset_sim _ _ h2
  simp only [Mx.reset]
  rw [← a1, ← a2]
  cases hA : m.s1.reset.2
  · simp only [Bool.not_false, if_true]
    exact ⟨trivial, b1, h2, hst, fun _ => c1, he2⟩
  · cases hB : m.s2.reset.2
    · simp only [Bool.not_false, Bool.not_true, Bool.false_eq_true, if_true, if_false]
      exact ⟨trivial, b1, b2, hst, fun _ => c1, fun _ => c2⟩
    · simp only [Bool.not_true, Bool.false_eq_true, if_false]
      exact ⟨trivial, b1, b2, rfl, fun _ => c1, fun _ => c2⟩

theorem step_sim (sf : Nat → Nat → Bool) (m n : Mx) (op : Op) (h : m.Sim n) :
    (m.step sf op).2 = (n.step sf op).2 ∧ (m.step sf op).1.Sim (n.step sf op).1 := by
  cases op with
  | hasNext =>
    obtain ⟨a, b⟩ := hasNext_sim sf m n h
    exact ⟨by simp [Mx.step, a], by simpa [Mx.step] using b⟩
  | next =>
    obtain ⟨a, b⟩ := next_sim sf m n h
    exact ⟨by simp [Mx.step, a], by simpa [Mx.step] using b⟩
  | reset =>
    obtain ⟨a, b⟩ := reset_sim m n h
    exact ⟨by simp [Mx.step, a], by simpa [Mx.step] using b⟩

theorem run_sim (sf : Nat → Nat → Bool) (ops : List Op) (m n : Mx) (h : m.Sim n) :
    (runI sf m ops).2 = (runI sf n ops).2 ∧ (runI sf m ops).1.Sim (runI sf n ops).1 := by
  induction ops generalizing m n with
  | nil => exact ⟨rfl, h⟩
  | cons op ops ih =>
    obtain ⟨a, b⟩ := step_sim sf m n op h
    obtain ⟨a', b'⟩ := ih _ _ b
    simp only [runI]
    exact ⟨by rw [a, a'], b'⟩

theorem init_sim (l1 l2 : List Nat) (r1 r2 g1 g2 g1' g2' : Bool) :
    (Mx.init l1 l2 r1 r2 g1 g2).Sim (Mx.init l1 l2 r1 r2 g1' g2') := by
  simp [Mx.init, Src.mk', Mx.Sim, Src.Sim]
end Mixer
