import GolibsVerif.Lemmas.KvSim
/-
The in-memory I-model refines the contract.
-/
namespace Kv

/-- the raw in-memory store is the Spec store up to records that are expired already -/
def IR (now : Nat) (i : Inmem) (s : Spec) : Prop :=
  i.nextVer = s.nextVer ∧ Store.Eqv now i.recs s.store

theorem IR.mono {now t : Nat} {i : Inmem} {s : Spec} (h : IR now i s) (ht : now ≤ t) : IR t i s :=
  ⟨h.1, h.2.mono ht⟩

theorem IR.live {now t : Nat} {i : Inmem} {s : Spec} (h : IR now i s) (ht : now ≤ t) (k : String) :
    (i.live t k).2 = s.live t k ∧ IR t (i.live t k).1 s := by
  have hl : Spec.live ⟨i.recs, i.nextVer⟩ t k = s.live t k := h.2.live i.nextVer s.nextVer ht k
  unfold Inmem.live
  cases hg : i.recs.get k with
  | none =>
    simp only
    rw [← hl, Spec.live_none_of_get_none (s := ⟨i.recs, i.nextVer⟩) hg]
    exact ⟨rfl, h.mono ht⟩
  | some r =>
    simp only
    rw [Spec.live_of_get (s := ⟨i.recs, i.nextVer⟩) hg] at hl
    cases he : expired r t with
    | true =>
      simp only [he, if_true] at hl ⊢
      exact ⟨hl, h.1, (Store.Eqv.purge h.2.1 hg he).trans (h.2.mono ht)⟩
    | false =>
      simp only [he, Bool.false_eq_true, if_false] at hl ⊢
      exact ⟨hl, h.mono ht⟩

theorem IR.write {now : Nat} {i : Inmem} {s : Spec} (h : IR now i s) (k v : String) (e : Option Nat) :
    IR now (i.write k v e).1 (s.write k v e).1 ∧ (i.write k v e).2 = (s.write k v e).2 := by
  unfold Spec.write Inmem.write
  refine ⟨⟨by simp [h.1], ?_⟩, h.1⟩
  simp only [h.1]
  exact h.2.put _ _

theorem IR.putMany {now : Nat} (rs : List (String × String × Option Nat)) :
    ∀ {i : Inmem} {s : Spec}, IR now i s →
    IR now (rs.foldl (fun st (x : String × String × Option Nat) => (st.write x.1 x.2.1 x.2.2).1) i)
      (rs.foldl (fun st (x : String × String × Option Nat) => (st.write x.1 x.2.1 x.2.2).1) s) := by
  induction rs with
  | nil => intro i s h; exact h
  | cons a rs ih => intro i s h; exact ih (h.write _ _ _).1

theorem Inmem.step_putMany (s : Inmem) (now : Nat) (rs : List (String × String × Option Nat)) :
    s.step now (.putMany rs) =
      (rs.foldl (fun st (x : String × String × Option Nat) => (st.write x.1 x.2.1 x.2.2).1) s, .ok) := by
  unfold Inmem.step
  rfl

theorem IR.getMany {t : Nat} {s : Spec} (ks : List String) :
    ∀ {i : Inmem} (acc : List (Option (String × Nat × Option Nat))), IR t i s →
    let res := ks.foldl (fun (p : Inmem × List (Option (String × Nat × Option Nat))) k =>
      ((p.1.live t k).1, p.2 ++ [(p.1.live t k).2.map fun r => (r.val, r.ver, r.exp)])) (i, acc)
    res.2 = acc ++ ks.map (fun k => (s.live t k).map fun r => (r.val, r.ver, r.exp)) ∧ IR t res.1 s := by
  induction ks with
  | nil => intro i acc h; simp; exact h
  | cons k ks ih =>
    intro i acc h
    have hl := h.live (Nat.le_refl t) k
    have := ih (acc ++ [(i.live t k).2.map fun r => (r.val, r.ver, r.exp)]) hl.2
    simp only [List.foldl_cons, List.map_cons]
    refine ⟨?_, this.2⟩
    rw [this.1, hl.1]
    simp

theorem Inmem.step_getMany (s : Inmem) (now : Nat) (ks : List String) :
    s.step now (.getMany ks) =
      let res := ks.foldl (fun (p : Inmem × List (Option (String × Nat × Option Nat))) k =>
        ((p.1.live now k).1, p.2 ++ [(p.1.live now k).2.map fun r => (r.val, r.ver, r.exp)])) (s, [])
      (res.1, .recs res.2) := by
  unfold Inmem.step
  rfl

theorem IR.step {now t : Nat} {i : Inmem} {s : Spec} (h : IR now i s) (ht : now ≤ t) (op : Op) :
    (i.step t op).2 = (s.step t op).2 ∧ IR t (i.step t op).1 (s.step t op).1 := by
  have ht' := h.mono ht
  cases op with
  | create k v e =>
    have hl := h.live ht k
    rcases hp : i.live t k with ⟨i1, r⟩
    rw [hp] at hl
    simp only at hl
    simp only [Inmem.step, Spec.step, hp, ← hl.1]
    cases r with
    | some r => exact ⟨rfl, hl.2⟩
    | none => exact ⟨by simp [Spec.write, Inmem.write, hl.2.1], (hl.2.write k v e).1⟩
  | get k =>
    have hl := h.live ht k
    rcases hp : i.live t k with ⟨i1, r⟩
    rw [hp] at hl
    simp only at hl
    simp only [Inmem.step, Spec.step, hp, ← hl.1]
    cases r with
    | some r => exact ⟨rfl, hl.2⟩
    | none => exact ⟨rfl, hl.2⟩
  | getMany ks =>
    rw [Inmem.step_getMany]
    have := IR.getMany ks (i := i) [] ht'
    simp only [Spec.step]
    simp only [List.nil_append] at this
    exact ⟨by rw [this.1], this.2⟩
  | put k v e =>
    simp only [Inmem.step, Spec.step]
    exact ⟨by simp [Spec.write, Inmem.write, h.1], (ht'.write k v e).1⟩
  | putMany rs =>
    rw [Spec.step_putMany, Inmem.step_putMany]
    exact ⟨rfl, IR.putMany rs ht'⟩
  | cas k ver v e =>
    have hl := h.live ht k
    rcases hp : i.live t k with ⟨i1, r⟩
    rw [hp] at hl
    simp only at hl
    simp only [Inmem.step, Spec.step, hp, ← hl.1]
    cases r with
    | none => exact ⟨rfl, hl.2⟩
    | some r =>
      by_cases hv : r.ver = ver
      · simp only [hv, ne_eq, not_true_eq_false, if_false]
        exact ⟨by simp [Spec.write, Inmem.write, hl.2.1], (hl.2.write k v e).1⟩
      · simp only [ne_eq, hv, not_false_eq_true, if_true]
        exact ⟨trivial, hl.2⟩
  | delete k =>
    have hl := h.live ht k
    rcases hp : i.live t k with ⟨i1, r⟩
    rw [hp] at hl
    simp only at hl
    simp only [Inmem.step, Spec.step, hp, ← hl.1]
    cases r with
    | none => exact ⟨rfl, hl.2⟩
    | some r => exact ⟨rfl, hl.2.1, hl.2.2.erase k⟩
  | list pat =>
    rw [Spec.list_eq]
    simp only [Inmem.step]
    have hv : i.recs.vis t = s.store.vis t := h.2.2.2 t ht
    unfold Store.vis at hv
    refine ⟨?_, h.1, ?_⟩
    · rw [hv]; rfl
    · exact (Store.Eqv.vis_self h.2.1 t).trans ht'.2
  | wait k ver =>
    have hl := h.live ht k
    rcases hp : i.live t k with ⟨i1, r⟩
    rw [hp] at hl
    simp only at hl
    simp only [Inmem.step, Spec.step, hp, ← hl.1]
    cases r with
    | none => exact ⟨rfl, hl.2⟩
    | some r =>
      by_cases hv : r.ver = ver
      · simp only [hv, ne_eq, not_true_eq_false, if_false]; exact ⟨trivial, hl.2⟩
      · simp only [ne_eq, hv, not_false_eq_true, if_true]; exact ⟨trivial, hl.2⟩

theorem IR.run {now : Nat} (h : Hist) : ∀ {i : Inmem} {s : Spec}, IR now i s → Monotone now h →
    (runInmem i h).2 = (runSpec s h).2 := by
  induction h generalizing now with
  | nil => intros; rfl
  | cons a h ih =>
    intro i s hr hm
    obtain ⟨t, op⟩ := a
    obtain ⟨ht, hm'⟩ := hm
    have hs := hr.step ht op
    simp only [runSpec, runInmem]
    rw [hs.1, ih hs.2 hm']

theorem IR.new : IR 0 Inmem.new Spec.new := ⟨rfl, Store.Eqv.refl Store.WF_nil 0⟩

end Kv
