import GolibsVerif.Model.Lock
/- explicit runs: the KF-1 double-hold under the weak lease guard, and a non-vacuity witness -/
namespace Lock

/-- every goroutine has its own Locker -/
def cfgOwn : Cfg := { lk := fun g => g, pv := fun _ => 0 }

/-- goroutines 0 and 2 share Locker 0 -/
def cfgShared : Cfg := { lk := fun g => if g = 2 then 0 else g, pv := fun _ => 0 }

/-- A=0 Lock ok · A.Unlock{CAS, cancel} · lease lapses · B=1 Lock ok · A's Delete removes B's record · C=2 Lock ok -/
theorem weak_double_hold : ∃ s : St, Reach cfgOwn true false s ∧ s.holds 1 = true ∧ s.holds 2 = true := by
  have h0 : Reach cfgOwn true false St.init := Reach.init
  have h1 := Reach.step h0 (Step.callLock _ 0 false false (by decide) (by decide) (by decide))
  have h2 := Reach.step h1 (Step.lSelToken _ 0 (by decide) (by decide) (by decide) (by decide))
  have h3 := Reach.step h2 (Step.lCtxOk _ 0 (by decide) (by decide))
  have h4 := Reach.step h3 (Step.lCreateOk _ 0 (by decide) (by decide))
  have h5 := Reach.step h4 (Step.callUnlock _ 0 (by decide) (by decide) (by decide))
  have h6 := Reach.step h5 (Step.uCancel _ 0 (by decide))
  have h7 := Reach.step h6 (Step.expire _ (by simp [mayExpireWeak, upd]))
  have h8 := Reach.step h7 (Step.callLock _ 1 false false (by decide) (by decide) (by decide))
  have h9 := Reach.step h8 (Step.lSelToken _ 1 (by decide) (by decide) (by decide) (by decide))
  have h10 := Reach.step h9 (Step.lCtxOk _ 1 (by decide) (by decide))
  have h11 := Reach.step h10 (Step.lCreateOk _ 1 (by decide) (by decide))
  have h12 := Reach.step h11 (Step.uDeleteEffect _ 0 (by decide))
  have h13 := Reach.step h12 (Step.callLock _ 2 false false (by decide) (by decide) (by decide))
  have h14 := Reach.step h13 (Step.lSelToken _ 2 (by decide) (by decide) (by decide) (by decide))
  have h15 := Reach.step h14 (Step.lCtxOk _ 2 (by decide) (by decide))
  have h16 := Reach.step h15 (Step.lCreateOk _ 2 (by decide) (by decide))
  exact ⟨_, h16, by decide, by decide⟩

theorem nonvacuous_run : ∃ s : St, Reach cfgShared false true s ∧ s.holds 0 = true ∧
    (∃ v, s.pc 1 = .lWait v) ∧ s.pc 2 = .lSelect := by
  have h0 : Reach cfgShared false true St.init := Reach.init
  have h1 := Reach.step h0 (Step.callLock _ 0 false false (by decide) (by decide) (by decide))
  have h2 := Reach.step h1 (Step.lSelToken _ 0 (by decide) (by decide) (by decide) (by decide))
  have h3 := Reach.step h2 (Step.lCtxOk _ 0 (by decide) (by decide))
  have h4 := Reach.step h3 (Step.lCreateOk _ 0 (by decide) (by decide))
  have h5 := Reach.step h4 (Step.callLock _ 1 false false (by decide) (by decide) (by decide))
  have h6 := Reach.step h5 (Step.lSelToken _ 1 (by decide) (by decide) (by decide) (by decide))
  have h7 := Reach.step h6 (Step.lCtxOk _ 1 (by decide) (by decide))
  have h8 := Reach.step h7 (Step.lCreateExists _ 1 { ver := 1, owner := some 0 } (by decide) (by decide))
  have h9 := Reach.step h8 (Step.callLock _ 2 false false (by decide) (by decide) (by decide))
  exact ⟨_, h9, by decide, ⟨1, by decide⟩, by decide⟩

end Lock
