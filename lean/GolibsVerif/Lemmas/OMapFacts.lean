import GolibsVerif.Lemmas.OMapRefine
/- Counting facts about reachable chains (C11). -/
set_option linter.unusedSimpArgs false
namespace OMap

theorem length_three (c : List Node) :
    c.length = (c.filter (·.st == .ok)).length + (c.filter (·.st == .last)).length +
      (c.filter (·.st == .deleted)).length := by
  induction c with
  | nil => rfl
  | cons a c ih =>
    simp only [List.filter_cons, List.length_cons]
    cases h : a.st <;> simp <;> omega

theorem Str.one_last {c : List Node} {L : Nat} (h : Str c L) :
    (c.filter (·.st == .last)).length = 1 := by
  obtain ⟨init, l, rfl, hl, hlst, hinit⟩ := h.decomp_last
  rw [List.filter_append]
  have h1 : init.filter (·.st == .last) = [] := by
    rw [List.filter_eq_nil_iff]
    intro x hx hs
    have := (h.last_state x (by simp [hx])).mp (by simpa using hs)
    have := hinit x hx; omega
  simp [h1, hlst]

theorem length_filter_split {α : Type} (p : α → Bool) (l : List α) :
    (l.filter p).length + (l.filter (fun a => !p a)).length = l.length := by
  induction l with
  | nil => rfl
  | cons a l ih =>
    simp only [List.filter_cons, List.length_cons]
    cases p a <;> simp <;> omega

theorem pigeon : ∀ (D : List Node) (its : List (Nat × Nat)), Asc D →
    (∀ x ∈ D, 0 < cnt its x.id) → D.length ≤ its.length := by
  intro D
  induction D with
  | nil => intro its _ _; simp
  | cons d D ih =>
    intro its ha hpos
    have hp := List.pairwise_cons.mp ha
    have hsplit := length_filter_split (fun a : Nat × Nat => a.2 == d.id) its
    have hd : 0 < cnt its d.id := hpos d (by simp)
    unfold cnt at hd
    have hrest : ∀ x ∈ D, 0 < cnt (its.filter (fun a => !(a.2 == d.id))) x.id := by
      intro x hx
      have h1 := hpos x (by simp [hx])
      have hne : d.id ≠ x.id := by have := hp.1 x hx; omega
      have : cnt (its.filter (fun a => !(a.2 == d.id))) x.id = cnt its x.id := by
        unfold cnt
        rw [List.filter_filter]
        congr 1
        apply List.filter_congr
        intro a _
        by_cases h2 : a.2 = x.id
        · have : ¬ x.id = d.id := fun e => hne e.symm
          simp [h2, this]
        · simp [h2]
      rw [this]; exact h1
    have := ih _ hp.2 hrest
    simp only [List.length_cons]
    omega

theorem Sim.deleted_le {m : M} {s : S} (h : Sim m s) :
    (m.chain.filter (·.st == .deleted)).length ≤ m.its.length := by
  apply pigeon _ _ (List.Pairwise.filter _ h.cs.asc)
  intro x hx
  obtain ⟨hx1, hx2⟩ := List.mem_filter.mp hx
  have h1 := h.cs.pinned x hx1 (by simpa using hx2)
  have h2 := h.cs.refc x hx1
  simp only [rcOf] at h2
  omega

theorem Sim.chain_length {m : M} {s : S} (h : Sim m s) :
    m.chain.length = m.vals.length + 1 + (m.chain.filter (·.st == .deleted)).length := by
  have h1 := length_three m.chain
  have h2 := h.cs.toStr.one_last
  have h3 : m.vals.length = (m.chain.filter (·.st == .ok)).length := by
    rw [h.vals, List.length_map, okl, List.length_map]
  omega

end OMap
