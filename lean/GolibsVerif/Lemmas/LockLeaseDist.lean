import GolibsVerif.Lemmas.LockLeaseBase
/- Lock lease (C05), part 2: distinctness of timers and renewal activities -/
namespace Lock
structure Dist (s : St) : Prop where
  t_id_inj : ∀ a ∈ s.armed, ∀ b ∈ s.armed, a.id = b.id → a = b
  t_ver_inj : ∀ a ∈ s.armed, ∀ b ∈ s.armed, a.ver = b.ver → a = b
  nodup : s.sups.Nodup
  foot_inj : ∀ a ∈ s.sups, ∀ b ∈ s.sups, ∀ v, a.foot = some v → b.foot = some v → a = b
  await_inj : ∀ a ∈ s.sups, ∀ b ∈ s.sups, ∀ tn, a.await = some tn → b.await = some tn → a = b
  t_foot : ∀ t ∈ s.armed, ∀ u ∈ s.sups, u.foot ≠ some t.ver

theorem Dist.init : Dist St.init := by
  constructor <;> simp [St.init]

theorem Dist.step {c : Cfg} {s t : St} (hs : Step c false false s t) (hf : Fresh s) (h : Dist s) : Dist t := by
  obtain ⟨h1, h2, h3, h4, h5, h6⟩ := h
  obtain ⟨f1, f2, f3, f4, f5, f6⟩ := hf
  have hme := fun (a b : Sup) => List.Nodup.mem_erase_iff (a := a) (b := b) h3
  cases hs
  case supLoad u hu hp =>
    have := Sup.of_load hp
    constructor <;> grind [List.Nodup.erase, upd]
  case supSwap u fut tn hu hp =>
    have := Sup.of_swap hp
    split <;> constructor <;> grind [List.Nodup.erase, upd]
  case supCasOk u fut r hu hp hr hv =>
    have := Sup.of_cas hp
    constructor <;> grind [List.Nodup.erase, upd]
  case supCasDefinitive u fut hu hp hr =>
    have := Sup.of_cas hp
    constructor <;> grind [List.Nodup.erase, upd]
  case supArm u fut nv hu hp =>
    have := Sup.of_arm hp
    constructor <;> grind [List.Nodup.erase, upd]
  all_goals first | exact ⟨h1, h2, h3, h4, h5, h6⟩ | (constructor <;> grind [List.Nodup.erase, upd])

end Lock
