import GolibsVerif.Lemmas.WaitersInv
/-
The invariant holds initially and is preserved by every step.
-/
namespace Waiters

theorem Inv.init (ws : List W) (hf : ∀ w ∈ ws, w.pc = .start) : Inv (St.init ws) := by
  refine ⟨by simp [TKeys, St.init], ?_, ?_, ?_, ?_, ?_, ?_⟩
  · intro k c n h; simp [getEntry, St.init] at h
  · intro c h; simp [St.init] at h
  · intro i w c hw hp
    have := hf w (List.mem_of_getElem? hw)
    simp [this] at hp
  · intro k k' c n n' h; simp [getEntry, St.init] at h
  · intro k c n h; simp [getEntry, St.init] at h
  · intro i w c hw hp
    have := hf w (List.mem_of_getElem? hw)
    simp [this] at hp

/-- `notify` after an arbitrary change of the records of key `k` only -/
theorem Inv.notify_of {s s0 : St} (k : String) (hi : Inv s)
    (hws : s0.ws = s.ws) (hnc : s0.nextCh = s.nextCh) (htab : s0.table = s.table) (hcl : s0.closed = s.closed)
    (hr : ∀ k', k' ≠ k → getRec s0 k' = getRec s k') : Inv (notify s0 k) := by
  have he0 : ∀ k', getEntry s0 k' = getEntry s k' := fun k' => by simp [getEntry, htab]
  apply Inv.mutate k hi
  · simp [hws]
  · simp [hnc]
  · apply tkeys_notify; simpa [TKeys, htab] using hi.tkeys
  · intro k'; rw [getEntry_notify, he0]
  · intro c; rw [mem_closed_notify, he0, hcl]
  · intro k' hk'; rw [getRec_notify]; exact hr k' hk'

theorem Inv.purge {s : St} (k : String) (hi : Inv s) :
    Inv (notify { s with recs := s.recs.filter (·.1 != k) } k) := by
  apply Inv.notify_of k hi
  iterate 4 rfl
  intro k' hk'
  simp only [getRec_eq]
  rw [lookup_filter_ne, if_neg hk']

theorem Inv.live {s : St} (k : String) (hi : Inv s) : Inv (live s k).1 := by
  rcases live_cases s k with ⟨_, hl⟩ | ⟨r, _, _, hl⟩ | ⟨r, _, _, hl⟩
  · rw [hl]; exact hi
  · rw [hl]; exact hi.purge k
  · rw [hl]; exact hi

theorem live_ws (s : St) (k : String) : (live s k).1.ws = s.ws := by
  rcases live_cases s k with ⟨_, hl⟩ | ⟨r, _, _, hl⟩ | ⟨r, _, _, hl⟩ <;> rw [hl] <;> simp

/-- leave the record, then stop being parked -/
theorem Inv.leave_set {s : St} {i : Nat} {w w' : W} {c : Nat} (hi : Inv s) (hw : s.ws[i]? = some w)
    (hp : w.pc = .parked c) (h1 : ∀ c, w'.pc ≠ .parked c) : Inv (setW (leave s w.key c) i w') := by
  rcases leave_cases s w.key c with ⟨hne, hl⟩ | ⟨n, hen, hn, hl⟩ | ⟨n, hen, hn, hl⟩
  · rw [hl]
    refine hi.wupd_unparked hw (fun j => setW_get s i j w w' hw) (fun c => parkedOn_setW s i w w' c hw) h1 ?_
      rfl rfl rfl rfl
    right
    refine ⟨c, hp, ?_⟩
    apply Classical.byContradiction
    intro hc
    obtain ⟨n, hn⟩ := (hi.park i w c hw hp hc).2
    exact hne n hn
  · rw [hl]
    refine hi.leave_last (c := c) (n := n) hw
      (fun j => setW_get { s with closed := c :: s.closed, table := s.table.filter (·.1 != w.key) } i j w w' hw)
      (fun c' => parkedOn_setW { s with closed := c :: s.closed, table := s.table.filter (·.1 != w.key) } i w w' c' hw)
      hp h1 hen hn rfl ?_ ?_ ?_ rfl
    · exact keys_filter_nodup _ _ hi.tkeys
    · intro k'
      simp only [getEntry_setW]
      simp only [getEntry_eq]
      exact lookup_filter_ne _ _ _
    · intro c'; simp
  · rw [hl]
    refine hi.leave_dec (c := c) (n := n) hw
      (fun j => setW_get { s with table := s.table.map fun e => if e.1 == w.key then (w.key, c, n - 1) else e } i j w w' hw)
      (fun c' => parkedOn_setW { s with table := s.table.map fun e => if e.1 == w.key then (w.key, c, n - 1) else e } i w w' c' hw)
      hp h1 hen hn rfl ?_ ?_ rfl rfl
    · show (List.map _ (List.map _ s.table)).Nodup
      rw [keys_map_upd]; exact hi.tkeys
    · intro k'
      simp only [getEntry_setW]
      simp only [getEntry_eq] at hen ⊢
      show lookup (s.table.map _) k' = _
      rw [lookup_map_upd, hen]
      rfl

theorem Inv.check {s : St} {i : Nat} {w : W} (hi : Inv s) (hw : s.ws[i]? = some w) (hp : w.pc = .start) :
    Inv (
        let (s1, r) := Waiters.live s w.key
        match r with
        | none => setW s1 i { w with pc := .returned .notExist }
        | some v =>
          if v ≠ w.ver then setW s1 i { w with pc := .returned .nil }
          else match getEntry s1 w.key with
            | some (ch, n) =>
              setW { s1 with table := s1.table.map fun e => if e.1 == w.key then (w.key, ch, n + 1) else e } i { w with pc := .parked ch }
            | none =>
              setW { s1 with table := s1.table ++ [(w.key, s1.nextCh, 1)], nextCh := s1.nextCh + 1 } i { w with pc := .parked s1.nextCh }) := by
  have hnp : ∀ c, w.pc ≠ .parked c := by simp [hp]
  rcases live_cases s w.key with ⟨_, hl⟩ | ⟨r, _, _, hl⟩ | ⟨r, hr, hx, hl⟩
  · rw [hl]
    exact hi.wupd_unparked hw (fun j => setW_get s i j w _ hw) (fun c => parkedOn_setW s i w _ c hw)
      (by simp) (Or.inl hnp) rfl rfl rfl rfl
  · rw [hl]
    have hi1 := hi.purge w.key
    have hw1 : (notify { s with recs := s.recs.filter (·.1 != w.key) } w.key).ws[i]? = some w := by simpa using hw
    exact hi1.wupd_unparked hw1 (fun j => setW_get _ i j w _ hw1) (fun c => parkedOn_setW _ i w _ c hw1)
      (by simp) (Or.inl hnp) rfl rfl rfl rfl
  · rw [hl]
    dsimp only
    by_cases hv : r.ver ≠ w.ver
    · rw [if_pos hv]
      exact hi.wupd_unparked hw (fun j => setW_get s i j w _ hw) (fun c => parkedOn_setW s i w _ c hw)
        (by simp) (Or.inl hnp) rfl rfl rfl rfl
    · rw [if_neg hv]
      have hv' : r.ver = w.ver := Classical.not_not.1 hv
      cases hen : getEntry s w.key with
      | none =>
        simp only
        refine hi.reg_new (r := r) hw
          (fun j => setW_get { s with table := s.table ++ [(w.key, s.nextCh, 1)], nextCh := s.nextCh + 1 } i j w _ hw)
          (fun c' => parkedOn_setW { s with table := s.table ++ [(w.key, s.nextCh, 1)], nextCh := s.nextCh + 1 } i w _ c' hw)
          hnp rfl rfl rfl hen hr hv' rfl ?_ ?_ rfl rfl
        · exact keys_append_nodup _ _ _ hi.tkeys hen
        · intro k'
          simp only [getEntry_setW]
          simp only [getEntry_eq] at hen ⊢
          show lookup (s.table ++ _) k' = _
          rw [lookup_append_single]
          by_cases hk : k' = w.key
          · subst hk; simp [hen]
          · simp only [hk, if_false]; cases lookup s.table k' <;> rfl
      | some e =>
        obtain ⟨ch, n⟩ := e
        simp only
        refine hi.reg_existing (c := ch) (n := n) (r := r) hw
          (fun j => setW_get { s with table := s.table.map fun e => if e.1 == w.key then (w.key, ch, n + 1) else e } i j w _ hw)
          (fun c' => parkedOn_setW { s with table := s.table.map fun e => if e.1 == w.key then (w.key, ch, n + 1) else e } i w _ c' hw)
          hnp rfl rfl rfl hen hr hv' rfl ?_ ?_ rfl rfl
        · show (List.map _ (List.map _ s.table)).Nodup
          rw [keys_map_upd]; exact hi.tkeys
        · intro k'
          simp only [getEntry_setW]
          simp only [getEntry_eq] at hen ⊢
          show lookup (s.table.map _) k' = _
          rw [lookup_map_upd, hen]
          rfl

theorem Inv.step {s t : St} (hi : Inv s) (h : Step s t) : Inv t := by
  cases h with
  | check i w hw hp => exact hi.check hw hp
  | wake i w ch hw hp hc =>
    exact hi.wupd_unparked hw (fun j => setW_get s i j w _ hw) (fun c => parkedOn_setW s i w _ c hw)
      (by simp) (Or.inr ⟨ch, hp, hc⟩) rfl rfl rfl rfl
  | cancelled i w ch hw hp hd => exact hi.leave_set hw hp (by simp)
  | timer i w ch hw hp => exact hi.leave_set hw hp (by simp)
  | write k =>
    apply Inv.notify_of k hi
    iterate 4 rfl
    intro k' hk'
    simp only [getRec_eq]
    rw [lookup_append_single, lookup_filter_ne, if_neg hk']
    simp only [hk', if_false]
    cases lookup s.recs k' <;> rfl
  | delete k r hr => exact hi.purge k
  | touch k => exact hi.live k
  | expire k r hr =>
    apply Inv.expire k r hi hr
    iterate 4 rfl
    intro k'
    simp only [getRec_eq] at hr ⊢
    rw [lookup_map_upd, hr]
    rfl
  | ctxCancel i w hw =>
    exact hi.wupd_samepc hw (fun j => setW_get s i j w _ hw) (fun c => parkedOn_setW s i w _ c hw)
      rfl rfl rfl rfl rfl rfl rfl

theorem Inv.reach {ws : List W} (hf : ∀ w ∈ ws, w.pc = .start) {s : St} (h : Reach ws s) : Inv s := by
  induction h with
  | init => exact Inv.init ws hf
  | step _ hs ih => exact ih.step hs

end Waiters
