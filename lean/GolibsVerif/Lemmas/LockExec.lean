import GolibsVerif.Model.LockExec
/-
Soundness of the executable primitives of `Model/LockExec.lean`: every `x… = some t` is a
`Lock.Step c false true`.
-/
namespace Lock.Exec
open Lock

theorem guard_some {b : Bool} {u t : St} (h : guard b u = some t) : b = true ∧ u = t := by
  unfold guard at h
  split at h
  · exact ⟨by assumption, Option.some.inj h⟩
  · cases h

theorem bind_some {a : Option St} {f : St → Option St} {t : St} (h : a.bind f = some t) :
    ∃ s1, a = some s1 ∧ f s1 = some t := by
  cases a with
  | none => cases h
  | some x => exact ⟨x, rfl, h⟩

theorem Steps.one {c : Cfg} {s t : St} (h : Step c false true s t) : Steps c s t :=
  .cons h (.refl t)

theorem Steps.trans {c : Cfg} {s t u : St} (h₁ : Steps c s t) (h₂ : Steps c t u) : Steps c s u := by
  induction h₁ with
  | refl _ => exact h₂
  | cons hs _ ih => exact .cons hs (ih h₂)

theorem Steps.snoc {c : Cfg} {s t u : St} (h₁ : Steps c s t) (h₂ : Step c false true t u) : Steps c s u :=
  h₁.trans (.one h₂)

variable (c : Cfg)

theorem xCallLock_sound {g ctx cd s t} (h : xCallLock g ctx cd s = some t) : Step c false true s t := by
  obtain ⟨hb, rfl⟩ := guard_some h
  simp only [Bool.and_eq_true, beq_iff_eq, Bool.or_eq_true, Bool.not_eq_true'] at hb
  exact Step.callLock s g ctx cd hb.1.1 hb.1.2 (by intro h; rcases hb.2 with h' | h'; · rw [h] at h'; cases h'
                                                   · exact h')

theorem xCallTry_sound {g s t} (h : xCallTry g s = some t) : Step c false true s t := by
  obtain ⟨hb, rfl⟩ := guard_some h
  simp only [Bool.and_eq_true, beq_iff_eq] at hb
  exact Step.callTry s g hb.1 hb.2

theorem xCallUnlock_sound {g s t} (h : xCallUnlock c g s = some t) : Step c false true s t := by
  obtain ⟨hb, rfl⟩ := guard_some h
  simp only [Bool.and_eq_true, beq_iff_eq] at hb
  exact Step.callUnlock s g hb.1.1 hb.1.2 hb.2

theorem xLSelCtx_sound {g s t} (h : xLSelCtx g s = some t) : Step c false true s t := by
  obtain ⟨hb, rfl⟩ := guard_some h
  simp only [Bool.and_eq_true, beq_iff_eq] at hb
  exact Step.lSelCtx s g hb.1 hb.2

theorem xLSelDone_sound {g s t} (h : xLSelDone c g s = some t) : Step c false true s t := by
  obtain ⟨hb, rfl⟩ := guard_some h
  simp only [Bool.and_eq_true, beq_iff_eq] at hb
  exact Step.lSelDone s g hb.1 hb.2

theorem xLSelToken_sound {g s t} (h : xLSelToken c g s = some t) : Step c false true s t := by
  obtain ⟨hb, rfl⟩ := guard_some h
  simp only [Bool.and_eq_true, beq_iff_eq, Bool.not_eq_true'] at hb
  exact Step.lSelToken s g hb.1.1.1 hb.1.1.2 hb.1.2 hb.2

theorem xLSelTokenDone_sound {g s t} (h : xLSelTokenDone c g s = some t) : Step c false true s t := by
  obtain ⟨hb, rfl⟩ := guard_some h
  simp only [Bool.and_eq_true, beq_iff_eq] at hb
  exact Step.lSelTokenDone s g hb.1.1 hb.1.2 hb.2

theorem xLCtxOk_sound {g s t} (h : xLCtxOk g s = some t) : Step c false true s t := by
  obtain ⟨hb, rfl⟩ := guard_some h
  simp only [Bool.and_eq_true, beq_iff_eq, Bool.not_eq_true'] at hb
  exact Step.lCtxOk s g hb.1 hb.2

theorem xLCtxErr_sound {g s t} (h : xLCtxErr g s = some t) : Step c false true s t := by
  obtain ⟨hb, rfl⟩ := guard_some h
  simp only [Bool.and_eq_true, beq_iff_eq] at hb
  exact Step.lCtxErr s g hb.1 hb.2

theorem xLCreateOk_sound {g s t} (h : xLCreateOk c g s = some t) : Step c false true s t := by
  obtain ⟨hb, rfl⟩ := guard_some h
  simp only [Bool.and_eq_true, beq_iff_eq, Option.isNone_iff_eq_none] at hb
  exact Step.lCreateOk s g hb.1 hb.2

theorem xLCreateExists_sound {g s t} (h : xLCreateExists g s = some t) : Step c false true s t := by
  unfold xLCreateExists at h
  split at h
  · rename_i r hr
    obtain ⟨hb, rfl⟩ := guard_some h
    simp only [beq_iff_eq] at hb
    exact Step.lCreateExists s g r hb hr
  · cases h

theorem xLCreateCtxErr_sound {g s t} (h : xLCreateCtxErr g s = some t) : Step c false true s t := by
  obtain ⟨hb, rfl⟩ := guard_some h
  simp only [Bool.and_eq_true, beq_iff_eq] at hb
  exact Step.lCreateCtxErr s g hb.1 hb.2

theorem xLCreateReqLost_sound {g s t} (h : xLCreateReqLost g s = some t) : Step c false true s t := by
  obtain ⟨hb, rfl⟩ := guard_some h
  simp only [beq_iff_eq] at hb
  exact Step.lCreateReqLost s g rfl hb

theorem xLCreateReplyLost_sound {g s t} (h : xLCreateReplyLost g s = some t) : Step c false true s t := by
  obtain ⟨hb, rfl⟩ := guard_some h
  simp only [Bool.and_eq_true, beq_iff_eq, Option.isNone_iff_eq_none] at hb
  exact Step.lCreateReplyLost s g rfl hb.1 hb.2

theorem xLWaitRet_sound {g fault s t} (h : xLWaitRet g fault s = some t) : Step c false true s t := by
  unfold xLWaitRet at h
  split at h
  · rename_i v hv
    obtain ⟨hb, rfl⟩ := guard_some h
    refine Step.lWaitRet s g v fault (fun _ => rfl) hv ?_
    simp only [Bool.or_eq_true, Option.isNone_iff_eq_none] at hb
    rcases hb with ((hb | hb) | hb) | hb
    · exact Or.inl hb
    · exact Or.inr (Or.inl hb)
    · exact Or.inr (Or.inr (Or.inl hb))
    · split at hb
      · rename_i r hr
        exact Or.inr (Or.inr (Or.inr ⟨r, hr, by simpa using hb⟩))
      · cases hb
  · cases h

theorem xLFail_sound {g s t} (h : xLFail c g s = some t) : Step c false true s t := by
  obtain ⟨hb, rfl⟩ := guard_some h
  simp only [beq_iff_eq] at hb
  exact Step.lFail s g hb

theorem xTSelDone_sound {g s t} (h : xTSelDone c g s = some t) : Step c false true s t := by
  obtain ⟨hb, rfl⟩ := guard_some h
  simp only [Bool.and_eq_true, beq_iff_eq] at hb
  exact Step.tSelDone s g hb.1 hb.2

theorem xTSelToken_sound {g s t} (h : xTSelToken c g s = some t) : Step c false true s t := by
  obtain ⟨hb, rfl⟩ := guard_some h
  simp only [Bool.and_eq_true, beq_iff_eq, Bool.not_eq_true'] at hb
  exact Step.tSelToken s g hb.1.1.1 hb.1.1.2 hb.1.2 hb.2

theorem xTSelTokenDone_sound {g s t} (h : xTSelTokenDone c g s = some t) : Step c false true s t := by
  obtain ⟨hb, rfl⟩ := guard_some h
  simp only [Bool.and_eq_true, beq_iff_eq] at hb
  exact Step.tSelTokenDone s g hb.1.1 hb.1.2 hb.2

theorem xTSelDefault_sound {g s t} (h : xTSelDefault c g s = some t) : Step c false true s t := by
  obtain ⟨hb, rfl⟩ := guard_some h
  simp only [Bool.and_eq_true, beq_iff_eq, Bool.not_eq_true'] at hb
  exact Step.tSelDefault s g hb.1.1 hb.1.2 hb.2

theorem xTCreateOk_sound {g s t} (h : xTCreateOk c g s = some t) : Step c false true s t := by
  obtain ⟨hb, rfl⟩ := guard_some h
  simp only [Bool.and_eq_true, beq_iff_eq, Option.isNone_iff_eq_none] at hb
  exact Step.tCreateOk s g hb.1 hb.2

theorem xTCreateExists_sound {g s t} (h : xTCreateExists g s = some t) : Step c false true s t := by
  obtain ⟨hb, rfl⟩ := guard_some h
  simp only [Bool.and_eq_true, beq_iff_eq, Option.isSome_iff_exists] at hb
  obtain ⟨hp, r, hr⟩ := hb
  exact Step.tCreateExists s g r hp hr

theorem xTCreateReqLost_sound {g s t} (h : xTCreateReqLost g s = some t) : Step c false true s t := by
  obtain ⟨hb, rfl⟩ := guard_some h
  simp only [beq_iff_eq] at hb
  exact Step.tCreateReqLost s g rfl hb

theorem xTCreateReplyLost_sound {g s t} (h : xTCreateReplyLost g s = some t) : Step c false true s t := by
  obtain ⟨hb, rfl⟩ := guard_some h
  simp only [Bool.and_eq_true, beq_iff_eq, Option.isNone_iff_eq_none] at hb
  exact Step.tCreateReplyLost s g rfl hb.1 hb.2

theorem xTFail_sound {g s t} (h : xTFail c g s = some t) : Step c false true s t := by
  obtain ⟨hb, rfl⟩ := guard_some h
  simp only [beq_iff_eq] at hb
  exact Step.tFail s g hb

theorem xUCancel_sound {g s t} (h : xUCancel c g s = some t) : Step c false true s t := by
  obtain ⟨hb, rfl⟩ := guard_some h
  simp only [beq_iff_eq] at hb
  exact Step.uCancel s g hb

theorem xUDeleteEffect_sound {g s t} (h : xUDeleteEffect g s = some t) : Step c false true s t := by
  obtain ⟨hb, rfl⟩ := guard_some h
  simp only [beq_iff_eq] at hb
  exact Step.uDeleteEffect s g hb

theorem xUDeleteReqLost_sound {g s t} (h : xUDeleteReqLost g s = some t) : Step c false true s t := by
  obtain ⟨hb, rfl⟩ := guard_some h
  simp only [beq_iff_eq] at hb
  exact Step.uDeleteReqLost s g rfl hb

theorem xUToken_sound {g s t} (h : xUToken c g s = some t) : Step c false true s t := by
  obtain ⟨hb, rfl⟩ := guard_some h
  simp only [beq_iff_eq] at hb
  exact Step.uToken s g hb

theorem xFire_sound {tm s t} (h : xFire tm s = some t) : Step c false true s t := by
  obtain ⟨hb, rfl⟩ := guard_some h
  simp only [List.contains_iff_mem] at hb
  exact Step.fire s tm hb

theorem xSupLoad_sound {u s t} (h : xSupLoad u s = some t) : Step c false true s t := by
  obtain ⟨hb, rfl⟩ := guard_some h
  simp only [Bool.and_eq_true, beq_iff_eq, List.contains_iff_mem] at hb
  exact Step.supLoad s u hb.1 hb.2

theorem xSupCasOk_sound {u s t} (h : xSupCasOk u s = some t) : Step c false true s t := by
  unfold xSupCasOk at h
  split at h
  · rename_i fut r hp hr
    obtain ⟨hb, rfl⟩ := guard_some h
    simp only [Bool.and_eq_true, beq_iff_eq, List.contains_iff_mem] at hb
    exact Step.supCasOk s u fut r hb.1 hp hr hb.2
  · cases h

theorem xSupCasDefinitive_sound {u s t} (h : xSupCasDefinitive u s = some t) : Step c false true s t := by
  unfold xSupCasDefinitive at h
  split at h
  · rename_i fut hp
    obtain ⟨hb, rfl⟩ := guard_some h
    simp only [Bool.and_eq_true, List.contains_iff_mem] at hb
    refine Step.supCasDefinitive s u fut hb.1 hp ?_
    have h2 := hb.2
    split at h2
    · rename_i hr
      exact Or.inl hr
    · rename_i r hr
      exact Or.inr ⟨r, hr, by simpa using h2⟩
  · cases h

theorem xSupCasReqLost_sound {u s t} (h : xSupCasReqLost u s = some t) : Step c false true s t := by
  unfold xSupCasReqLost at h
  split at h
  · rename_i fut hp
    obtain ⟨hb, rfl⟩ := guard_some h
    simp only [List.contains_iff_mem] at hb
    exact Step.supCasReqLost s u fut rfl hb hp
  · cases h

theorem xSupCasReplyLost_sound {u s t} (h : xSupCasReplyLost u s = some t) : Step c false true s t := by
  unfold xSupCasReplyLost at h
  split at h
  · rename_i fut r hp hr
    obtain ⟨hb, rfl⟩ := guard_some h
    simp only [Bool.and_eq_true, beq_iff_eq, List.contains_iff_mem] at hb
    exact Step.supCasReplyLost s u fut r rfl hb.1 hp hr hb.2
  · cases h

theorem xSupArm_sound {u s t} (h : xSupArm u s = some t) : Step c false true s t := by
  unfold xSupArm at h
  split at h
  · rename_i fut nv hp
    obtain ⟨hb, rfl⟩ := guard_some h
    simp only [List.contains_iff_mem] at hb
    exact Step.supArm s u fut nv hb hp
  · cases h

theorem xSupSwap_sound {u s t} (h : xSupSwap u s = some t) : Step c false true s t := by
  unfold xSupSwap at h
  split at h
  · rename_i fut tn hp
    obtain ⟨hb, rfl⟩ := guard_some h
    simp only [List.contains_iff_mem] at hb
    exact Step.supSwap s u fut tn hb hp
  · cases h

theorem xCancelCtx_sound {g s t} (h : xCancelCtx g s = some t) : Step c false true s t := by
  obtain ⟨hb, rfl⟩ := guard_some h
  exact Step.cancelCtx s g hb

theorem xShutdown_sound {p s t} (h : xShutdown p s = some t) : Step c false true s t := by
  cases h
  exact Step.shutdown s p

theorem mayExpireB_iff' (s : St) : mayExpireB s = true ↔ mayExpire s := by
  unfold mayExpireB mayExpire
  cases s.lrec with
  | none => simp
  | some r =>
    obtain ⟨ver, owner⟩ := r
    cases owner with
    | none => simp
    | some g => simp only [Bool.and_eq_true, beq_iff_eq, bne_iff_ne, ne_eq, and_assoc]

theorem xExpire_sound {s t} (h : xExpire s = some t) : Step c false true s t := by
  obtain ⟨hb, rfl⟩ := guard_some h
  exact Step.expire s ((mayExpireB_iff' s).1 hb)

/-! compositions -/

theorem bind2_sound {a b : St → Option St} {s t : St}
    (ha : ∀ {s t}, a s = some t → Step c false true s t) (hb : ∀ {s t}, b s = some t → Step c false true s t)
    (h : (a s).bind b = some t) : Steps c s t := by
  obtain ⟨s1, h1, h2⟩ := bind_some h
  exact .cons (ha h1) (.one (hb h2))

theorem toCreate_sound {g s t} (h : toCreate c g s = some t) : Steps c s t := by
  unfold toCreate at h
  split at h
  · exact bind2_sound c (xLSelToken_sound c) (xLCtxOk_sound c) h
  · exact .one (xTSelToken_sound c h)
  · cases h; exact .refl _
  · cases h; exact .refl _
  · cases h

theorem find_filterMap_mem {cands : List (Option St)} {p : St → Bool} {t : St}
    (h : (cands.filterMap id).find? p = some t) : some t ∈ cands := by
  have hm := List.mem_of_find?_eq_some h
  rw [List.mem_filterMap] at hm
  obtain ⟨a, ha, hat⟩ := hm
  simp only [id] at hat
  subst hat
  exact ha

theorem toReturn_sound {g tok s t} (h : toReturn c g tok s = some t) : Steps c s t := by
  unfold toReturn at h
  split at h
  · cases h; exact .refl _
  · have ha := find_filterMap_mem h
    simp only [List.mem_cons, List.not_mem_nil, or_false] at ha
    rcases ha with ha | ha | ha | ha
    · exact .one (xLSelCtx_sound c ha.symm)
    · exact .one (xLSelDone_sound c ha.symm)
    · exact .one (xLSelTokenDone_sound c ha.symm)
    · obtain ⟨s2, h2, h3⟩ := bind_some ha.symm
      exact (bind2_sound c (xLSelToken_sound c) (xLCtxErr_sound c) h2).snoc (xLFail_sound c h3)
  · have ha := find_filterMap_mem h
    simp only [List.mem_cons, List.not_mem_nil, or_false] at ha
    rcases ha with ha | ha | ha
    · exact .one (xTSelDone_sound c ha.symm)
    · exact .one (xTSelTokenDone_sound c ha.symm)
    · exact .one (xTSelDefault_sound c ha.symm)
  · exact bind2_sound c (xLCtxErr_sound c) (xLFail_sound c) h
  · exact .one (xLFail_sound c h)
  · exact .one (xTFail_sound c h)
  · exact .one (xUToken_sound c h)
  · cases h

theorem fireAllFrom_sound : ∀ (ts : List Timer) {s t : St}, fireAllFrom ts s = some t → Steps c s t
  | [], s, t, h => by
    simp only [fireAllFrom] at h
    cases h; exact .refl _
  | tm :: ts, s, t, h => by
    simp only [fireAllFrom] at h
    obtain ⟨s1, h1, h2⟩ := bind_some h
    obtain ⟨s2, h2, h3⟩ := bind_some h2
    exact .cons (xFire_sound c h1) (.cons (xSupLoad_sound c h2) (fireAllFrom_sound ts h3))

theorem handle_sound' {s t : St} {e : Event} (h : handle c s e = some t) : Steps c s t := by
  cases e with
  | callLock g ctx cd => exact .one (xCallLock_sound c h)
  | callTry g => exact .one (xCallTry_sound c h)
  | callUnlock g => exact bind2_sound c (xCallUnlock_sound c) (xUCancel_sound c) h
  | atCreate g => exact toCreate_sound c h
  | relCreate g r =>
    simp only [handle] at h
    split at h
    · exact .one (xLCreateOk_sound c h)
    · exact .one (xLCreateExists_sound c h)
    · exact bind2_sound c (xLCreateReqLost_sound c) (xLFail_sound c) h
    · exact bind2_sound c (xLCreateReplyLost_sound c) (xLFail_sound c) h
    · exact bind2_sound c (xLCreateCtxErr_sound c) (xLFail_sound c) h
    · exact .one (xTCreateOk_sound c h)
    · exact bind2_sound c (xTCreateExists_sound c) (xTFail_sound c) h
    · exact bind2_sound c (xTCreateReqLost_sound c) (xTFail_sound c) h
    · exact bind2_sound c (xTCreateReplyLost_sound c) (xTFail_sound c) h
    · cases h
  | relWait g fault =>
    simp only [handle] at h
    obtain ⟨s1, h1, h2⟩ := bind_some h
    split at h2
    · exact .cons (xLWaitRet_sound c h1) (.one (xLFail_sound c h2))
    · cases h2; exact .one (xLWaitRet_sound c h1)
  | atDelete g =>
    simp only [handle] at h
    obtain ⟨_, rfl⟩ := guard_some h
    exact .refl _
  | relDelete g lost =>
    simp only [handle] at h
    obtain ⟨s1, h1, h2⟩ := bind_some h
    split at h1
    · exact .cons (xUDeleteReqLost_sound c h1) (.one (xUToken_sound c h2))
    · exact .cons (xUDeleteEffect_sound c h1) (.one (xUToken_sound c h2))
  | ret g k token cntr =>
    simp only [handle] at h
    obtain ⟨s1, h1, h2⟩ := bind_some h
    obtain ⟨_, rfl⟩ := guard_some h2
    exact toReturn_sound c h1
  | cancel g => exact .one (xCancelCtx_sound c h)
  | shutdown p => exact .one (xShutdown_sound c h)
  | expire => exact .one (xExpire_sound c h)
  | fireAll => exact fireAllFrom_sound c _ h
  | relCas ver r =>
    simp only [handle] at h
    split at h
    · cases h
    · split at h
      · exact .one (xSupCasDefinitive_sound c h)
      · split at h
        · obtain ⟨s1, h1, h2⟩ := bind_some h
          obtain ⟨s2, h2, h3⟩ := bind_some h2
          exact .cons (xSupCasOk_sound c h1) (.cons (xSupArm_sound c h2) (.one (xSupSwap_sound c h3)))
        · cases h
      · split at h
        · obtain ⟨s1, h1, h2⟩ := bind_some h
          obtain ⟨s2, h2, h3⟩ := bind_some h2
          exact .cons (xSupCasReqLost_sound c h1) (.cons (xSupArm_sound c h2) (.one (xSupSwap_sound c h3)))
        · cases h
      · split at h
        · obtain ⟨s1, h1, h2⟩ := bind_some h
          obtain ⟨s2, h2, h3⟩ := bind_some h2
          exact .cons (xSupCasReplyLost_sound c h1) (.cons (xSupArm_sound c h2) (.one (xSupSwap_sound c h3)))
        · cases h

theorem steps_reach' {s t : St} (hr : Reach c false true s) (h : Steps c s t) : Reach c false true t := by
  induction h with
  | refl _ => exact hr
  | cons hs _ ih => exact ih (.step hr hs)

theorem replay_reach' : ∀ (es : List Event) {s t : St}, Reach c false true s → replay c s es = some t →
    Reach c false true t
  | [], s, t, hr, h => by
    simp only [replay] at h
    cases h; exact hr
  | e :: es, s, t, hr, h => by
    simp only [replay] at h
    obtain ⟨s1, h1, h2⟩ := bind_some h
    exact replay_reach' es (steps_reach' c hr (handle_sound' c h1)) h2

end Lock.Exec
