import GolibsVerif.Model.Xbin
import GolibsVerif.Generated.XbinSize
/-
Helper lemmas for C15 / C16 (xbinary codec).

The varint is described by two recursive functions on the value, `numGroups` (number of 7-bit
groups) and `enc` (the byte string).  `marshalUintGo` is characterised completely in terms of
them, `numGroups` is characterised by thresholds `2^(7k)`, and the generated
`Gen.Xbin.writableUintSize` is tied to `numGroups` ONLY through its own threshold
characterisation (`wus_spec`), whose proof does not depend on the layout of the if-tree.
-/
namespace Xbin

/-! ### small bit facts -/

theorem and_127 (v : Nat) : v &&& 127 = v % 128 := Nat.and_two_pow_sub_one_eq_mod v 7

theorem or_128 (x : Nat) (hx : x < 128) : 128 ||| x = 128 + x := by
  have h := Nat.shiftLeft_add_eq_or_of_lt (i := 7) (b := x) hx 1
  simpa using h.symm

theorem shr7 (v : Nat) : v >>> 7 = v / 128 := Nat.shiftRight_eq_div_pow v 7

/-- the continuation byte written by MarshalUint -/
theorem contByte (v : Nat) : 128 ||| (v &&& 127) = 128 + v % 128 := by
  rw [and_127, or_128 _ (Nat.mod_lt _ (by decide))]

/-! ### varint: number of groups and encoding -/

/-- number of 7-bit groups of `v` -/
def numGroups (v : Nat) : Nat :=
  if h : v > 127 then numGroups (v / 128) + 1 else 1
termination_by v
decreasing_by omega

/-- the varint encoding of `v` -/
def enc (v : Nat) : Bytes :=
  if h : v > 127 then (128 + v % 128) :: enc (v / 128) else [v]
termination_by v
decreasing_by omega

theorem numGroups_small {v : Nat} (h : v ≤ 127) : numGroups v = 1 := by
  rw [numGroups]; simp; omega

theorem numGroups_step {v : Nat} (h : v > 127) : numGroups v = numGroups (v / 128) + 1 := by
  rw [numGroups]; simp [h]

theorem enc_small {v : Nat} (h : v ≤ 127) : enc v = [v] := by
  rw [enc]; simp; omega

theorem enc_step {v : Nat} (h : v > 127) : enc v = (128 + v % 128) :: enc (v / 128) := by
  rw [enc]; simp [h]

theorem numGroups_pos (v : Nat) : 0 < numGroups v := by
  by_cases h : v > 127
  · rw [numGroups_step h]; omega
  · rw [numGroups_small (by omega)]; omega

theorem enc_length (v : Nat) : (enc v).length = numGroups v := by
  induction v using Nat.strongRecOn with
  | _ v ih =>
    by_cases h : v > 127
    · rw [enc_step h, numGroups_step h, List.length_cons, ih (v / 128) (by omega)]
    · rw [enc_small (by omega), numGroups_small (by omega)]; rfl

theorem enc_bytesWF (v : Nat) : BytesWF (enc v) := by
  induction v using Nat.strongRecOn with
  | _ v ih =>
    by_cases h : v > 127
    · rw [enc_step h]
      intro x hx
      rcases List.mem_cons.mp hx with rfl | hx
      · omega
      · exact ih (v / 128) (by omega) x hx
    · rw [enc_small (by omega)]
      intro x hx
      simp at hx; omega

/-- complete characterisation of the Go encoding loop -/
theorem marshalUintGo_eq (rem v : Nat) (acc : Bytes) :
    marshalUintGo rem v acc = if numGroups v ≤ rem then .ok (acc ++ enc v) else .err := by
  induction rem generalizing v acc with
  | zero =>
    have := numGroups_pos v
    rw [if_neg (by omega)]; rfl
  | succ rem ih =>
    unfold marshalUintGo
    by_cases h : v > 127
    · rw [if_pos h, ih, contByte, shr7, numGroups_step h, enc_step h]
      simp [List.append_assoc]
    · rw [if_neg h, numGroups_small (by omega), enc_small (by omega)]
      simp

theorem marshalUint_eq (v n : Nat) :
    marshalUint v n = if numGroups v ≤ n then .ok (enc v) else .err := by
  unfold marshalUint; rw [marshalUintGo_eq]; simp

theorem marshalUint_ok {v n : Nat} {bs : Bytes} (h : marshalUint v n = .ok bs) :
    bs = enc v ∧ numGroups v ≤ n := by
  rw [marshalUint_eq] at h
  split at h
  · injection h with h; exact ⟨h.symm, by assumption⟩
  · cases h

theorem marshalUint_err_iff (v n : Nat) : marshalUint v n = .err ↔ n < numGroups v := by
  rw [marshalUint_eq]
  split
  · constructor
    · intro h; cases h
    · intro h; omega
  · constructor
    · intro _; omega
    · intro _; rfl

/-! ### thresholds of `numGroups` -/

theorem pow7_succ (k : Nat) : 2 ^ (7 * (k + 1)) = 2 ^ (7 * k) * 128 := by
  rw [Nat.mul_succ, Nat.pow_add]

theorem numGroups_le_of_lt (k v : Nat) (h : v < 2 ^ (7 * (k + 1))) : numGroups v ≤ k + 1 := by
  induction k generalizing v with
  | zero => rw [numGroups_small (by omega)]; omega
  | succ k ih =>
    by_cases hv : v > 127
    · rw [numGroups_step hv]
      have : v / 128 < 2 ^ (7 * (k + 1)) := by
        rw [pow7_succ (k + 1)] at h
        exact Nat.div_lt_of_lt_mul (by rw [Nat.mul_comm]; exact h)
      have := ih _ this
      omega
    · rw [numGroups_small (by omega)]; omega

theorem numGroups_gt_of_ge (k v : Nat) (h : 2 ^ (7 * k) ≤ v) : k + 1 ≤ numGroups v := by
  induction k generalizing v with
  | zero => have := numGroups_pos v; omega
  | succ k ih =>
    rw [pow7_succ k] at h
    have hp : 0 < 2 ^ (7 * k) := Nat.pow_pos (by decide)
    have hv : v > 127 := by
      have : 1 * 128 ≤ 2 ^ (7 * k) * 128 := Nat.mul_le_mul_right _ hp
      omega
    rw [numGroups_step hv]
    have : 2 ^ (7 * k) ≤ v / 128 := (Nat.le_div_iff_mul_le (by decide)).mpr h
    have := ih _ this
    omega

/-- threshold characterisation of `numGroups` -/
theorem numGroups_eq_of_bounds (k v : Nat) (hlo : 2 ^ (7 * k) ≤ v) (hhi : v < 2 ^ (7 * (k + 1))) :
    numGroups v = k + 1 :=
  Nat.le_antisymm (numGroups_le_of_lt k v hhi) (numGroups_gt_of_ge k v hlo)

/-! ### the generated size function

Only this section looks inside `Gen.Xbin.writableUintSize`; the proof just splits every `if`
and closes each leaf by linear arithmetic, so it is insensitive to how the tree is nested. -/

theorem wus_spec (v : Nat) (hv : v < 2 ^ 64) :
    (v < 2 ^ 7 ∧ Gen.Xbin.writableUintSize v = 1) ∨
    (2 ^ 7 ≤ v ∧ v < 2 ^ 14 ∧ Gen.Xbin.writableUintSize v = 2) ∨
    (2 ^ 14 ≤ v ∧ v < 2 ^ 21 ∧ Gen.Xbin.writableUintSize v = 3) ∨
    (2 ^ 21 ≤ v ∧ v < 2 ^ 28 ∧ Gen.Xbin.writableUintSize v = 4) ∨
    (2 ^ 28 ≤ v ∧ v < 2 ^ 35 ∧ Gen.Xbin.writableUintSize v = 5) ∨
    (2 ^ 35 ≤ v ∧ v < 2 ^ 42 ∧ Gen.Xbin.writableUintSize v = 6) ∨
    (2 ^ 42 ≤ v ∧ v < 2 ^ 49 ∧ Gen.Xbin.writableUintSize v = 7) ∨
    (2 ^ 49 ≤ v ∧ v < 2 ^ 56 ∧ Gen.Xbin.writableUintSize v = 8) ∨
    (2 ^ 56 ≤ v ∧ v < 2 ^ 63 ∧ Gen.Xbin.writableUintSize v = 9) ∨
    (2 ^ 63 ≤ v ∧ v < 2 ^ 64 ∧ Gen.Xbin.writableUintSize v = 10) := by
  have h7 : Gen.Xbin.bit7 = 2 ^ 7 := by decide
  have h14 : Gen.Xbin.bit14 = 2 ^ 14 := by decide
  have h21 : Gen.Xbin.bit21 = 2 ^ 21 := by decide
  have h28 : Gen.Xbin.bit28 = 2 ^ 28 := by decide
  have h35 : Gen.Xbin.bit35 = 2 ^ 35 := by decide
  have h42 : Gen.Xbin.bit42 = 2 ^ 42 := by decide
  have h49 : Gen.Xbin.bit49 = 2 ^ 49 := by decide
  have h56 : Gen.Xbin.bit56 = 2 ^ 56 := by decide
  have h63 : Gen.Xbin.bit63 = 2 ^ 63 := by decide
  simp only [Gen.Xbin.writableUintSize, h7, h14, h21, h28, h35, h42, h49, h56, h63]
  repeat' split
  -- every leaf is now a literal: pick the disjunct with that literal, bounds by `omega`
  all_goals
    repeat (first
      | exact ⟨by omega, by omega, rfl⟩
      | exact Or.inl ⟨by omega, by omega, rfl⟩
      | exact Or.inl ⟨by omega, rfl⟩
      | apply Or.inr)
  all_goals omega

/-- the regenerated size function is the number of 7-bit groups -/
theorem numGroups_eq_wus (v : Nat) (hv : v < 2 ^ 64) :
    numGroups v = Gen.Xbin.writableUintSize v := by
  rcases wus_spec v hv with
    ⟨h, e⟩ | ⟨l, h, e⟩ | ⟨l, h, e⟩ | ⟨l, h, e⟩ | ⟨l, h, e⟩ | ⟨l, h, e⟩ | ⟨l, h, e⟩ | ⟨l, h, e⟩ |
    ⟨l, h, e⟩ | ⟨l, h, e⟩
  · rw [e]; exact numGroups_small (by omega)
  · rw [e]; exact numGroups_eq_of_bounds 1 v (by omega) (by omega)
  · rw [e]; exact numGroups_eq_of_bounds 2 v (by omega) (by omega)
  · rw [e]; exact numGroups_eq_of_bounds 3 v (by omega) (by omega)
  · rw [e]; exact numGroups_eq_of_bounds 4 v (by omega) (by omega)
  · rw [e]; exact numGroups_eq_of_bounds 5 v (by omega) (by omega)
  · rw [e]; exact numGroups_eq_of_bounds 6 v (by omega) (by omega)
  · rw [e]; exact numGroups_eq_of_bounds 7 v (by omega) (by omega)
  · rw [e]; exact numGroups_eq_of_bounds 8 v (by omega) (by omega)
  · rw [e]; exact numGroups_eq_of_bounds 9 v (by omega) (by omega)

theorem wus_pos_le (v : Nat) (hv : v < 2 ^ 64) :
    1 ≤ Gen.Xbin.writableUintSize v ∧ Gen.Xbin.writableUintSize v ≤ 10 := by
  have := wus_spec v hv; omega

/-! ### varint decoding -/

theorem unmarshalUintGo_enc (v : Nat) : ∀ (rest : Bytes) (idx shft res : Nat),
    v * 2 ^ shft < 2 ^ 64 →
    unmarshalUintGo (enc v ++ rest) idx shft res = .ok (idx + numGroups v, res ||| (v <<< shft)) := by
  induction v using Nat.strongRecOn with
  | _ v ih =>
    intro rest idx shft res hlt
    by_cases h : v > 127
    · rw [enc_step h, numGroups_step h, List.cons_append, unmarshalUintGo]
      have hb : ¬ (128 + v % 128 ≤ 127) := by omega
      have hand : (128 + v % 128) &&& 127 = v % 128 := by rw [and_127]; omega
      have hmod : ((v % 128) <<< shft) % two64 = (v % 128) <<< shft := by
        apply Nat.mod_eq_of_lt
        rw [Nat.shiftLeft_eq]
        exact Nat.lt_of_le_of_lt (Nat.mul_le_mul_right _ (Nat.mod_le _ _)) hlt
      have hrec : v / 128 * 2 ^ (shft + 7) < 2 ^ 64 := by
        refine Nat.lt_of_le_of_lt ?_ hlt
        rw [Nat.pow_add, Nat.mul_comm (2 ^ shft), ← Nat.mul_assoc]
        exact Nat.mul_le_mul_right _ (by omega)
      simp only [hand, hmod, if_neg hb]
      rw [ih (v / 128) (by omega) rest (idx + 1) (shft + 7) _ hrec]
      have hsplit : v <<< shft = (v % 128) <<< shft ||| (v / 128) <<< (shft + 7) := by
        have h1 := Nat.shiftLeft_add_eq_or_of_lt (i := 7) (b := v % 128) (Nat.mod_lt _ (by decide)) (v / 128)
        have h2 : (v / 128) <<< 7 + v % 128 = v := by rw [Nat.shiftLeft_eq]; omega
        rw [h2] at h1
        conv => lhs; rw [h1]
        rw [Nat.shiftLeft_or_distrib, Nat.or_comm, Nat.add_comm shft 7, Nat.shiftLeft_add]
      rw [hsplit, Nat.or_assoc, Nat.add_assoc, Nat.add_comm 1]
    · have hv : v ≤ 127 := by omega
      rw [enc_small hv, numGroups_small hv, List.cons_append, unmarshalUintGo]
      have hand : v &&& 127 = v := by rw [and_127]; omega
      have hmod : (v <<< shft) % two64 = v <<< shft := by
        apply Nat.mod_eq_of_lt
        rw [Nat.shiftLeft_eq]; exact hlt
      simp only [hand, hmod, if_pos hv]

theorem unmarshalUint_enc (v : Nat) (hv : v < 2 ^ 64) (rest : Bytes) :
    unmarshalUint (enc v ++ rest) = .ok (numGroups v, v) := by
  unfold unmarshalUint
  rw [unmarshalUintGo_enc v rest 0 0 0 (by simpa using hv)]
  simp

/-- the decoding loop never reads past the input and keeps the value below 2^64 -/
theorem unmarshalUintGo_bounds (buf : Bytes) : ∀ (idx shft res n v : Nat), res < 2 ^ 64 →
    unmarshalUintGo buf idx shft res = .ok (n, v) →
    idx < n ∧ n ≤ idx + buf.length ∧ v < 2 ^ 64 := by
  induction buf with
  | nil => intro idx shft res n v _ h; simp [unmarshalUintGo] at h
  | cons b rest ih =>
    intro idx shft res n v hres h
    rw [unmarshalUintGo] at h
    have hres' : res ||| (((b &&& 127) <<< shft) % two64) < 2 ^ 64 :=
      Nat.or_lt_two_pow hres (Nat.mod_lt _ (by decide))
    split at h
    · injection h with h
      injection h with h1 h2
      subst h1; subst h2
      simp only [List.length_cons]
      exact ⟨by omega, by omega, hres'⟩
    · have := ih _ _ _ _ _ hres' h
      simp only [List.length_cons]
      omega

theorem unmarshalUint_bounds {buf : Bytes} {n v : Nat} (h : unmarshalUint buf = .ok (n, v)) :
    0 < n ∧ n ≤ buf.length ∧ v < 2 ^ 64 := by
  have := unmarshalUintGo_bounds buf 0 0 0 n v (by decide) h
  omega

/-! ### fixed width -/

theorem putBE_length (k v : Nat) : (putBE k v).length = k := by
  induction k with
  | zero => rfl
  | succ k ih => simp [putBE, ih]

theorem putBE_bytesWF (k v : Nat) : BytesWF (putBE k v) := by
  induction k with
  | zero => intro x hx; simp [putBE] at hx
  | succ k ih =>
    intro x hx
    rw [putBE] at hx
    rcases List.mem_cons.mp hx with rfl | hx
    · exact Nat.mod_lt _ (by decide)
    · exact ih x hx

theorem foldl_putBE (k v acc : Nat) :
    (putBE k v).foldl (fun acc x => acc * 256 + x) acc = acc * 256 ^ k + v % 256 ^ k := by
  induction k generalizing acc with
  | zero => simp [putBE, Nat.mod_one]
  | succ k ih =>
    rw [putBE, List.foldl_cons, ih, Nat.shiftRight_eq_div_pow, Nat.pow_mul]
    have h256 : (2 : Nat) ^ 8 = 256 := by decide
    rw [h256, Nat.pow_succ, Nat.mod_mul]
    generalize 256 ^ k = P
    generalize v / P % 256 = q
    generalize v % P = r
    rw [Nat.add_mul, Nat.mul_assoc, Nat.mul_comm 256 P, Nat.mul_comm q P]
    omega

theorem getBE_putBE (k v : Nat) (hv : v < 2 ^ (8 * k)) : getBE (putBE k v) = v := by
  unfold getBE
  rw [foldl_putBE]
  have : (2 : Nat) ^ (8 * k) = 256 ^ k := by rw [Nat.pow_mul]
  rw [this] at hv
  rw [Nat.mod_eq_of_lt hv]; omega

theorem marshalFixed_ok {k v n : Nat} {bs : Bytes} (h : marshalFixed k v n = .ok bs) :
    bs = putBE k v ∧ k ≤ n := by
  unfold marshalFixed at h
  split at h
  · cases h
  · injection h with h; exact ⟨h.symm, by omega⟩

theorem marshalFixed_err_iff (k v n : Nat) : marshalFixed k v n = .err ↔ n < k := by
  unfold marshalFixed
  split
  · simp [*]
  · simp [*]

theorem marshalFixed_of_le {k n : Nat} (v : Nat) (h : k ≤ n) : marshalFixed k v n = .ok (putBE k v) := by
  unfold marshalFixed; rw [if_neg (by omega)]

theorem unmarshalFixed_putBE (k v : Nat) (hv : v < 2 ^ (8 * k)) (rest : Bytes) :
    unmarshalFixed k (putBE k v ++ rest) = .ok (k, v) := by
  unfold unmarshalFixed
  rw [if_neg (by simp [putBE_length]), List.take_left' (putBE_length k v), getBE_putBE k v hv]

theorem unmarshalFixed_bounds {k : Nat} {buf : Bytes} {n v : Nat}
    (h : unmarshalFixed k buf = .ok (n, v)) : n = k ∧ k ≤ buf.length := by
  unfold unmarshalFixed at h
  split at h
  · cases h
  · injection h with h; injection h with h1 h2; omega

/-! ### byte strings -/

theorem toInt64_small {u : Nat} (h : u < 2 ^ 63) : toInt64 u = (u : Int) := by
  unfold toInt64; rw [if_pos h]

theorem slice_ok (buf : Bytes) (idx L : Nat) (h : idx + L ≤ buf.length) :
    slice buf (idx : Int) ((idx : Int) + (L : Int)) = some ((buf.drop idx).take L) := by
  unfold slice
  rw [if_pos (by omega)]
  have : ((idx : Int) + (L : Int) - (idx : Int)).toNat = L := by omega
  rw [this, Int.toNat_natCast]

/-- the byte-string decoder either fails with (0, [], err) or returns an in-range sub-slice -/
theorem unmarshalBytes_cases (buf : Bytes) :
    unmarshalBytes buf = .ret 0 [] true ∨
    ∃ idx L, 0 < idx ∧ idx + L ≤ buf.length ∧
      unmarshalBytes buf = .ret (idx + L) ((buf.drop idx).take L) false := by
  unfold unmarshalBytes
  cases hu : unmarshalUint buf with
  | err => left; rfl
  | ok p =>
    obtain ⟨idx, uln⟩ := p
    have hb := unmarshalUint_bounds hu
    simp only []
    generalize toInt64 uln = ln
    by_cases hc : ln < 0 ∨ (buf.length : Int) - (idx : Int) < ln
    · left; rw [if_pos hc]
    · right; rw [if_neg hc]
      refine ⟨idx, ln.toNat, hb.1, by omega, ?_⟩
      have hln : ln = (ln.toNat : Int) := by omega
      have hs := slice_ok buf idx ln.toNat (by omega)
      rw [← hln] at hs
      rw [hs]
      simp only []
      congr 1
      omega

theorem marshalBytes_eq (d : Bytes) (n : Nat) :
    marshalBytes d n =
      if n < numGroups d.length + d.length then .err else .ok (enc d.length ++ d) := by
  unfold marshalBytes
  rw [marshalUint_eq]
  by_cases h : numGroups d.length ≤ n
  · rw [if_pos h]
    simp only [enc_length]
    by_cases h2 : n - numGroups d.length < d.length
    · rw [if_pos h2, if_pos (by omega)]
    · rw [if_neg h2, if_neg (by omega)]
  · rw [if_neg h, if_pos (by omega)]

theorem unmarshalBytes_enc (d rest : Bytes) (hd : d.length < 2 ^ 63) :
    unmarshalBytes (enc d.length ++ d ++ rest) = .ret (numGroups d.length + d.length) d false := by
  unfold unmarshalBytes
  rw [List.append_assoc, unmarshalUint_enc _ (by omega)]
  simp only [toInt64_small hd]
  have hlen : (enc d.length ++ (d ++ rest)).length = numGroups d.length + (d.length + rest.length) := by
    simp [enc_length]
  rw [if_neg (by rw [hlen]; omega)]
  rw [slice_ok _ _ _ (by rw [hlen]; omega)]
  simp only []
  rw [List.drop_left' (enc_length _), List.take_left' rfl]
  congr 1

end Xbin
