import GolibsVerif.Model.LeaseCell
import GolibsVerif.Lemmas.LeaseCellRun
import GolibsVerif.Lemmas.LeaseCellInv
import GolibsVerif.Lemmas.LeaseCellChain
/-
Lemmas for `LeaseCell` (C05, renewal bookkeeping with answers that arrive late).
Helper files: LeaseCellRun.lean (checked replay of labelled runs, the two concrete runs),
LeaseCellInv.lean (`RecInv`, `Fresh`), LeaseCellChain.lean (`HeldInv` and its preservation).
-/
namespace LeaseCell

/-- a step is a transient storage error (request lost / storage unavailable) -/
def IsLose (s t : St) : Prop :=
  ∃ u ∈ s.sups, ∃ fut, u.pc = .call fut ∧ t = { s with sups := setSup s u (.errPending fut) }

/-- no early fire and no transient error: answers may still arrive arbitrarily late -/
inductive ReachQuiet (cas : Bool) : St → Prop
  | init : ReachQuiet cas St.init
  | step {s t} : ReachQuiet cas s → Step cas s t → ¬ EarlyFire s t → ¬ IsLose s t → ReachQuiet cas t

/-- transient errors allowed, but only for a renewal of the version the record has at that moment -/
def IsStaleLose (s t : St) : Prop :=
  ∃ u ∈ s.sups, ∃ fut, u.pc = .call fut ∧ t = { s with sups := setSup s u (.errPending fut) } ∧
    ¬ (∃ o, s.lrec = some (u.ver, o))

inductive ReachCur (cas : Bool) : St → Prop
  | init : ReachCur cas St.init
  | step {s t} : ReachCur cas s → Step cas s t → ¬ EarlyFire s t → ¬ IsStaleLose s t → ReachCur cas t

theorem ReachQuiet.reachNE {cas : Bool} {s : St} (h : ReachQuiet cas s) : ReachNE cas s := by
  induction h with
  | init => exact ReachNE.init
  | step _ st hne _ ih => exact ReachNE.step ih st hne

theorem ReachNE.reach {cas : Bool} {s : St} (h : ReachNE cas s) : Reach cas s := by
  induction h with
  | init => exact Reach.init
  | step _ st _ ih => exact Reach.step ih st

theorem IsStaleLose.isLose {s t : St} (h : IsStaleLose s t) : IsLose s t := by
  obtain ⟨u, hu, fut, hp, ht, _⟩ := h
  exact ⟨u, hu, fut, hp, ht⟩

theorem ReachQuiet.reachCur {cas : Bool} {s : St} (h : ReachQuiet cas s) : ReachCur cas s := by
  induction h with
  | init => exact ReachCur.init
  | step _ st hne hnl ih => exact ReachCur.step ih st hne (fun hl => hnl hl.isLose)

theorem ReachCur.reachNE {cas : Bool} {s : St} (h : ReachCur cas s) : ReachNE cas s := by
  induction h with
  | init => exact ReachNE.init
  | step _ st hne _ ih => exact ReachNE.step ih st hne

theorem held_has_record {cas : Bool} {s : St} (h : Reach cas s) (hh : s.phase = .held) :
    ∃ v, s.lrec = some (v, true) :=
  (recInv_of_reach h).2 (by rw [hh]; intro hc; cases hc)

/-- `Fresh` and `HeldInv` hold along every run without early fires in which transient errors only hit
renewals of the record's current version -/
theorem ReachCur.inv {s : St} (h : ReachCur true s) : Fresh s ∧ HeldInv s := by
  induction h with
  | init => exact ⟨fresh_init, heldInv_init⟩
  | step _ st hne hnl ih => exact ⟨fresh_step ih.1 st, heldInv_step ih.1 ih.2 st hne hnl⟩

/-- the code as it is, transient errors only for renewals of the record's current version: while held the
record is the Locker's own and something will still try to renew exactly its current version -/
theorem chain_alive_cur {s : St} (h : ReachCur true s) (hh : s.phase = .held) :
    ∃ v, s.lrec = some (v, true) ∧ Alive s v :=
  heldInv_alive h.inv.2 hh

theorem chain_alive_quiet {s : St} (h : ReachQuiet true s) (hh : s.phase = .held) :
    ∃ v, s.lrec = some (v, true) ∧ Alive s v :=
  chain_alive_cur h.reachCur hh

/-- the run of the header comment of Props/C05Cell.lean (stale renewal + two transient errors) -/
theorem stale_errors_run : ∃ s, ReachNE true s ∧ s.phase = .held ∧ (∃ v, s.lrec = some (v, true) ∧ ¬ Alive s v) :=
  ⟨staleErrorsEnd, run_reachNE ReachNE.init staleErrors_run, rfl, 3, rfl, staleErrorsEnd_not_alive⟩

theorem runQ_reachQuiet {cas : Bool} {as : List Act} :
    ∀ {s t : St}, ReachQuiet cas s → runQ cas s as = some t → ReachQuiet cas t := by
  induction as with
  | nil => intro s t hs h; simp only [runQ] at h; cases h; exact hs
  | cons a as ih =>
    intro s t hs h
    simp only [runQ] at h
    split at h
    · rename_i t' he
      split at h
      · rename_i hq
        have hsnd := exec_sound he
        refine ih (ReachQuiet.step hs hsnd.1 hsnd.2 (fun hl => ?_)) h
        rw [noErr_of_lose hl] at hq
        cases hq
      · cases h
    · cases h

/-- the Swap variant: Unlock + Lock while an applied renewal's answer is on its way; no error, no early fire -/
theorem swap_variant_run : ∃ s, ReachQuiet false s ∧ s.phase = .held ∧ (∃ v, s.lrec = some (v, true) ∧ ¬ Alive s v) :=
  ⟨swapVariantEnd, runQ_reachQuiet ReachQuiet.init swapVariant_run, rfl, 3, rfl, swapVariantEnd_not_alive⟩

end LeaseCell
