import GolibsVerif.Model.Lock
/-
Executable counterpart of `Lock.Step` used by the trace-refinement driver (tie "T" for C01/C04/C05).

`x…` functions mirror the constructors of `Lock.Step` one by one (same guard, same update) as
partial functions `St → Option St`; `Lock.Exec.handle` interprets one observed trace event as a short
sequence of them.  `Props/C01Exec.lean` proves that every `x…` result is a `Step` and hence that a
trace accepted by `handle` from a reachable state ends in a reachable state — so the theorems about
`Reach` (C01.mutex, C04.no_residue, …) apply to every state the driver passes through.
-/
namespace Lock.Exec
open Lock

def guard (b : Bool) (t : St) : Option St := if b then some t else none

/-! primitives (faults := true, weak := false) -/

def xCallLock (g : G) (ctx cd : Bool) (s : St) : Option St :=
  guard (s.pc g == .idle && s.holds g == false && (!cd || ctx))
    { s with pc := upd s.pc g .lSelect, hasCtx := upd s.hasCtx g ctx, ctxDone := upd s.ctxDone g cd }
def xCallTry (g : G) (s : St) : Option St :=
  guard (s.pc g == .idle && s.holds g == false)
    { s with pc := upd s.pc g .tSelect, hasCtx := upd s.hasCtx g false, ctxDone := upd s.ctxDone g false }
def xCallUnlock (c : Cfg) (g : G) (s : St) : Option St :=
  guard (s.pc g == .idle && s.holds g == true && s.cntr (c.lk g) == 1)
    { s with pc := upd s.pc g .uCancel, holds := upd s.holds g false, cntr := upd s.cntr (c.lk g) 0 }
def xLSelCtx (g : G) (s : St) : Option St :=
  guard (s.pc g == .lSelect && s.ctxDone g) { s with pc := upd s.pc g .idle }
def xLSelDone (c : Cfg) (g : G) (s : St) : Option St :=
  guard (s.pc g == .lSelect && s.done (c.pv (c.lk g))) { s with pc := upd s.pc g .idle }
def xLSelToken (c : Cfg) (g : G) (s : St) : Option St :=
  guard (s.pc g == .lSelect && s.token (c.lk g) && !s.done (c.pv (c.lk g)) && s.cntr (c.lk g) == 0)
    { s with pc := upd s.pc g .lCtxCheck, token := upd s.token (c.lk g) false, cntr := upd s.cntr (c.lk g) 1 }
def xLSelTokenDone (c : Cfg) (g : G) (s : St) : Option St :=
  guard (s.pc g == .lSelect && s.token (c.lk g) && s.done (c.pv (c.lk g)))
    { s with pc := upd s.pc g .idle, token := upd s.token (c.lk g) false }
def xLCtxOk (g : G) (s : St) : Option St :=
  guard (s.pc g == .lCtxCheck && !s.ctxDone g) { s with pc := upd s.pc g .lCreate }
def xLCtxErr (g : G) (s : St) : Option St :=
  guard (s.pc g == .lCtxCheck && s.ctxDone g) { s with pc := upd s.pc g .lFail }
def createOkState (c : Cfg) (g : G) (s : St) : St :=
  { s with pc := upd s.pc g .idle, holds := upd s.holds g true, lrec := some { ver := s.nextVer, owner := some g }, nextVer := s.nextVer + 1, armed := { id := s.nextTimer, l := c.lk g, ver := s.nextVer } :: s.armed, future := upd s.future (c.lk g) (some s.nextTimer), nextTimer := s.nextTimer + 1 }
def xLCreateOk (c : Cfg) (g : G) (s : St) : Option St :=
  guard (s.pc g == .lCreate && s.lrec.isNone) (createOkState c g s)
def xLCreateExists (g : G) (s : St) : Option St :=
  match s.lrec with
  | some r => guard (s.pc g == .lCreate) { s with pc := upd s.pc g (.lWait r.ver) }
  | none => none
def xLCreateCtxErr (g : G) (s : St) : Option St :=
  guard (s.pc g == .lCreate && s.ctxDone g) { s with pc := upd s.pc g .lFail }
def xLCreateReqLost (g : G) (s : St) : Option St :=
  guard (s.pc g == .lCreate) { s with pc := upd s.pc g .lFail }
def xLCreateReplyLost (g : G) (s : St) : Option St :=
  guard (s.pc g == .lCreate && s.lrec.isNone)
    { s with pc := upd s.pc g .lFail, lrec := some { ver := s.nextVer, owner := none }, nextVer := s.nextVer + 1 }
def xLWaitRet (g : G) (fault : Bool) (s : St) : Option St :=
  match s.pc g with
  | .lWait v =>
    guard (fault || s.ctxDone g || s.lrec.isNone || (match s.lrec with | some r => r.ver != v | none => false))
      { s with pc := upd s.pc g (if s.ctxDone g then .lFail else .lCreate) }
  | _ => none
def xLFail (c : Cfg) (g : G) (s : St) : Option St :=
  guard (s.pc g == .lFail) { s with pc := upd s.pc g .idle, cntr := upd s.cntr (c.lk g) 0, token := upd s.token (c.lk g) true }
def xTSelDone (c : Cfg) (g : G) (s : St) : Option St :=
  guard (s.pc g == .tSelect && s.done (c.pv (c.lk g))) { s with pc := upd s.pc g .idle }
def xTSelToken (c : Cfg) (g : G) (s : St) : Option St :=
  guard (s.pc g == .tSelect && s.token (c.lk g) && !s.done (c.pv (c.lk g)) && s.cntr (c.lk g) == 0)
    { s with pc := upd s.pc g .tCreate, token := upd s.token (c.lk g) false, cntr := upd s.cntr (c.lk g) 1 }
def xTSelTokenDone (c : Cfg) (g : G) (s : St) : Option St :=
  guard (s.pc g == .tSelect && s.token (c.lk g) && s.done (c.pv (c.lk g)))
    { s with pc := upd s.pc g .idle, token := upd s.token (c.lk g) false }
def xTSelDefault (c : Cfg) (g : G) (s : St) : Option St :=
  guard (s.pc g == .tSelect && !s.token (c.lk g) && !s.done (c.pv (c.lk g))) { s with pc := upd s.pc g .idle }
def xTCreateOk (c : Cfg) (g : G) (s : St) : Option St :=
  guard (s.pc g == .tCreate && s.lrec.isNone) (createOkState c g s)
def xTCreateExists (g : G) (s : St) : Option St :=
  guard (s.pc g == .tCreate && s.lrec.isSome) { s with pc := upd s.pc g .tFail }
def xTCreateReqLost (g : G) (s : St) : Option St :=
  guard (s.pc g == .tCreate) { s with pc := upd s.pc g .tFail }
def xTCreateReplyLost (g : G) (s : St) : Option St :=
  guard (s.pc g == .tCreate && s.lrec.isNone)
    { s with pc := upd s.pc g .tFail, lrec := some { ver := s.nextVer, owner := none }, nextVer := s.nextVer + 1 }
def xTFail (c : Cfg) (g : G) (s : St) : Option St :=
  guard (s.pc g == .tFail) { s with pc := upd s.pc g .idle, cntr := upd s.cntr (c.lk g) 0, token := upd s.token (c.lk g) true }
def xUCancel (c : Cfg) (g : G) (s : St) : Option St :=
  guard (s.pc g == .uCancel) { s with pc := upd s.pc g .uDelete, armed := s.armed.filter fun t => some t.id ≠ s.future (c.lk g) }
def xUDeleteEffect (g : G) (s : St) : Option St :=
  guard (s.pc g == .uDelete) { s with pc := upd s.pc g .uToken, lrec := none }
def xUDeleteReqLost (g : G) (s : St) : Option St :=
  guard (s.pc g == .uDelete) { s with pc := upd s.pc g .uToken, lrec := disown s.lrec g }
def xUToken (c : Cfg) (g : G) (s : St) : Option St :=
  guard (s.pc g == .uToken) { s with pc := upd s.pc g .idle, token := upd s.token (c.lk g) true }
def xFire (t : Timer) (s : St) : Option St :=
  guard (s.armed.contains t) { s with armed := s.armed.filter (· ≠ t), sups := { l := t.l, ver := t.ver, pc := .load } :: s.sups }
def xSupLoad (u : Sup) (s : St) : Option St :=
  guard (s.sups.contains u && u.pc == .load) { s with sups := { u with pc := .cas (s.future u.l) } :: s.sups.erase u }
def xSupCasOk (u : Sup) (s : St) : Option St :=
  match u.pc, s.lrec with
  | .cas fut, some r => guard (s.sups.contains u && r.ver == u.ver)
      { s with lrec := some { r with ver := s.nextVer }, nextVer := s.nextVer + 1, sups := { u with pc := .arm fut s.nextVer } :: s.sups.erase u }
  | _, _ => none
def xSupCasDefinitive (u : Sup) (s : St) : Option St :=
  match u.pc with
  | .cas _ => guard (s.sups.contains u && (match s.lrec with | none => true | some r => r.ver != u.ver)) { s with sups := s.sups.erase u }
  | _ => none
def xSupCasReqLost (u : Sup) (s : St) : Option St :=
  match u.pc with
  | .cas fut => guard (s.sups.contains u) { s with sups := { u with pc := .arm fut u.ver } :: s.sups.erase u }
  | _ => none
def xSupCasReplyLost (u : Sup) (s : St) : Option St :=
  match u.pc, s.lrec with
  | .cas fut, some r => guard (s.sups.contains u && r.ver == u.ver)
      { s with lrec := some { r with ver := s.nextVer }, nextVer := s.nextVer + 1, sups := { u with pc := .arm fut u.ver } :: s.sups.erase u }
  | _, _ => none
def xSupArm (u : Sup) (s : St) : Option St :=
  match u.pc with
  | .arm fut nv => guard (s.sups.contains u)
      { s with armed := { id := s.nextTimer, l := u.l, ver := nv } :: s.armed, nextTimer := s.nextTimer + 1, sups := { u with pc := .swap fut s.nextTimer } :: s.sups.erase u }
  | _ => none
def xSupSwap (u : Sup) (s : St) : Option St :=
  match u.pc with
  | .swap fut tn => guard (s.sups.contains u)
      (if s.future u.l = fut then { s with future := upd s.future u.l (some tn), sups := s.sups.erase u }
       else { s with armed := s.armed.filter (·.id ≠ tn), sups := s.sups.erase u })
  | _ => none
def xCancelCtx (g : G) (s : St) : Option St :=
  guard (s.hasCtx g) { s with ctxDone := upd s.ctxDone g true }
def xShutdown (p : P) (s : St) : Option St := some { s with done := upd s.done p true }
def mayExpireB (s : St) : Bool :=
  match s.lrec with
  | none => false
  | some r => match r.owner with
    | none => true
    | some g => s.holds g == false && s.pc g != .uCancel && s.pc g != .uDelete
def xExpire (s : St) : Option St := guard (mayExpireB s) { s with lrec := none }

/-! observed trace events -/

inductive CreateRes where | ok | exists_ | reqLost | replyLost | ctxErr
deriving DecidableEq, Repr
inductive CasRes where | ok | definitive | reqLost | replyLost
deriving DecidableEq, Repr
inductive RetKind where | acquired | notAcquired     -- result class of Lock/LockWithCtx/TryLock; Unlock: notAcquired
deriving DecidableEq, Repr

inductive Event where
  | callLock (g : G) (ctx cd : Bool) | callTry (g : G) | callUnlock (g : G)
  | atCreate (g : G)                         -- g arrived at Storage.Create
  | relCreate (g : G) (r : CreateRes)
  | relWait (g : G) (fault : Bool)           -- WaitForVersionChange returned
  | atDelete (g : G)
  | relDelete (g : G) (lost : Bool)
  | ret (g : G) (k : RetKind) (token : Bool) (cntr : Nat)     -- call returned; observed token/counter of g's Locker
  | cancel (g : G) | shutdown (p : P) | expire
  | fireAll                                   -- every armed timer fires; each supportTimeout loads `future` and reaches its CAS
  | relCas (ver : Nat) (r : CasRes)           -- CAS of the supportTimeout renewing version `ver` released; then arm+swap
deriving DecidableEq, Repr

def orElse (a b : Option St) : Option St := match a with | some x => some x | none => b

/-- silent steps that bring g (standing at a select) to the Create gate -/
def toCreate (c : Cfg) (g : G) (s : St) : Option St :=
  match s.pc g with
  | .lSelect => (xLSelToken c g s).bind (xLCtxOk g)
  | .tSelect => xTSelToken c g s
  | .lCreate => some s
  | .tCreate => some s
  | _ => none

/-- silent steps by which g's call returns without having reached / after having left the storage -/
def toReturn (c : Cfg) (g : G) (tokenObs : Bool) (s : St) : Option St :=
  match s.pc g with
  | .idle => some s
  | .lSelect =>
    -- several select branches may be ready; the observed token decides which one was taken
    let viaCtxErr := (xLSelToken c g s).bind (xLCtxErr g) |>.bind (xLFail c g)
    let cands := [xLSelCtx g s, xLSelDone c g s, xLSelTokenDone c g s, viaCtxErr]
    (cands.filterMap id).find? fun t => t.token (c.lk g) == tokenObs
  | .tSelect =>
    let cands := [xTSelDone c g s, xTSelTokenDone c g s, xTSelDefault c g s]
    (cands.filterMap id).find? fun t => t.token (c.lk g) == tokenObs
  | .lCtxCheck => (xLCtxErr g s).bind (xLFail c g)
  | .lFail => xLFail c g s
  | .tFail => xTFail c g s
  | .uToken => xUToken c g s
  | _ => none

def supFor (s : St) (ver : Nat) : Option Sup :=
  s.sups.find? fun u => u.ver == ver && (match u.pc with | .cas _ => true | _ => false)

/-- fire every armed timer and let each supportTimeout load the future cell -/
def fireAllFrom : List Timer → St → Option St
  | [], s => some s
  | t :: ts, s =>
    (xFire t s).bind fun s1 => (xSupLoad { l := t.l, ver := t.ver, pc := .load } s1).bind (fireAllFrom ts)

def handle (c : Cfg) (s : St) : Event → Option St
  | .callLock g ctx cd => xCallLock g ctx cd s
  | .callTry g => xCallTry g s
  | .callUnlock g => (xCallUnlock c g s).bind (xUCancel c g)
  | .atCreate g => toCreate c g s
  | .relCreate g r =>
    match s.pc g, r with
    | .lCreate, .ok => xLCreateOk c g s
    | .lCreate, .exists_ => xLCreateExists g s
    | .lCreate, .reqLost => (xLCreateReqLost g s).bind (xLFail c g)
    | .lCreate, .replyLost => (xLCreateReplyLost g s).bind (xLFail c g)
    | .lCreate, .ctxErr => (xLCreateCtxErr g s).bind (xLFail c g)
    | .tCreate, .ok => xTCreateOk c g s
    | .tCreate, .exists_ => (xTCreateExists g s).bind (xTFail c g)
    | .tCreate, .reqLost => (xTCreateReqLost g s).bind (xTFail c g)
    | .tCreate, .replyLost => (xTCreateReplyLost g s).bind (xTFail c g)
    | _, _ => none
  | .relWait g fault =>
    (xLWaitRet g fault s).bind fun s1 => if s1.pc g == .lFail then xLFail c g s1 else some s1
  | .atDelete g => guard (s.pc g == .uDelete) s
  | .relDelete g lost => ((if lost then xUDeleteReqLost g s else xUDeleteEffect g s)).bind (xUToken c g)
  | .ret g k token cntr =>
    (toReturn c g token s).bind fun s1 =>
      guard (s1.pc g == .idle && s1.holds g == (k == .acquired) && s1.token (c.lk g) == token && s1.cntr (c.lk g) == cntr) s1
  | .cancel g => xCancelCtx g s
  | .shutdown p => xShutdown p s
  | .expire => xExpire s
  | .fireAll => fireAllFrom s.armed s
  | .relCas ver r =>
    match supFor s ver with
    | none => none
    | some u =>
      match r with
      | .definitive => xSupCasDefinitive u s
      | .ok => match u.pc with
        | .cas fut => (xSupCasOk u s).bind fun s1 =>
            let u1 : Sup := { u with pc := .arm fut s.nextVer }
            (xSupArm u1 s1).bind (xSupSwap { u1 with pc := .swap fut s1.nextTimer })
        | _ => none
      | .reqLost => match u.pc with
        | .cas fut => (xSupCasReqLost u s).bind fun s1 =>
            let u1 : Sup := { u with pc := .arm fut u.ver }
            (xSupArm u1 s1).bind (xSupSwap { u1 with pc := .swap fut s1.nextTimer })
        | _ => none
      | .replyLost => match u.pc with
        | .cas fut => (xSupCasReplyLost u s).bind fun s1 =>
            let u1 : Sup := { u with pc := .arm fut u.ver }
            (xSupArm u1 s1).bind (xSupSwap { u1 with pc := .swap fut s1.nextTimer })
        | _ => none

/-- replay a trace; `none` = some event is not a behaviour of the model -/
def replay (c : Cfg) (s : St) : List Event → Option St
  | [] => some s
  | e :: es => (handle c s e).bind fun s' => replay c s' es

/-- `Step`* -/
inductive Steps (c : Cfg) : St → St → Prop
  | refl (s) : Steps c s s
  | cons {s t u} : Step c false true s t → Steps c t u → Steps c s u

end Lock.Exec
