import GolibsVerif.Model.LruConc
/-
Executable counterpart of `Lru.Conc.Step` for the trace-refinement driver of C09.
Props/C09Exec.lean proves every result is a `Step`.
-/
namespace Lru.Conc.Exec
open Lru Lru.Conc

def xCall (s : St) (i : Nat) (op : COp) : Option St :=
  if s.pcs[i]? = some .idle then some (setPc s i (.start op)) else none

def xRet (s : St) (i : Nat) : Option St :=
  match s.pcs[i]? with
  | some (.done _) => some (setPc s i .idle)
  | _ => none

/-- first critical section of GetOrCreate: the outcome is determined by the state -/
def xGocSec1 (km : Nat → Nat) (s : St) (i : Nat) : Option St :=
  match s.pcs[i]? with
  | some (.start (.goc pk)) =>
    match findK s.items (km pk) with
    | some e => some (setPc { s with items := eraseK s.items (km pk) ++ [e] } i (.done (.val e.v)))
    | none =>
      if km pk ∈ s.inflight then some (setPc s i (.waiting pk (km pk)))
      else some (setPc { s with inflight := km pk :: s.inflight } i (.creating pk (km pk)))
  | _ => none

def xWake (s : St) (i : Nat) : Option St :=
  match s.pcs[i]? with
  | some (.waiting pk k) => if k ∉ s.inflight then some (setPc s i (.start (.goc pk))) else none
  | _ => none

def xCreateBegin (s : St) (i : Nat) : Option St :=
  match s.pcs[i]? with
  | some (.creating pk k) => some (setPc s i (.inCreate pk k))
  | _ => none

def xCreateEnd (s : St) (i : Nat) (res : Option Nat) : Option St :=
  match s.pcs[i]? with
  | some (.inCreate pk k) => some (setPc { s with log := s.log ++ [.create pk res] } i (.created pk k res))
  | _ => none

def xPublish (cap : Nat) (s : St) (i : Nat) : Option St :=
  match s.pcs[i]? with
  | some (.created pk k res) =>
    some (
      let s0 : St := { s with inflight := s.inflight.filter (· != k) }
      match res with
      | none => setPc s0 i (.done .err)
      | some v =>
        let items := s0.items ++ [{ k := k, pk := pk, v := v }]
        match items with
        | f :: _ =>
          if cap < items.length then
            setPc { s0 with items := eraseK items f.k, log := s0.log ++ [.delete f.pk f.v] } i (.done (.val v))
          else setPc { s0 with items := items } i (.done (.val v))
        | [] => setPc { s0 with items := items } i (.done (.val v)))
  | _ => none

def xRemove (km : Nat → Nat) (s : St) (i : Nat) : Option St :=
  match s.pcs[i]? with
  | some (.start (.rm pk)) =>
    some (match findK s.items (km pk) with
      | none => setPc s i (.done (.b false))
      | some e => setPc { s with items := eraseK s.items (km pk), log := s.log ++ [.delete e.pk e.v] } i (.done (.b true)))
  | _ => none

def xClear (s : St) (i : Nat) : Option St :=
  match s.pcs[i]? with
  | some (.start .clr) =>
    some (setPc { s with items := [], log := s.log ++ s.items.map fun e => .delete e.pk e.v } i (.done (.num s.items.length)))
  | _ => none

/-- closing the in-flight channel of key k wakes every caller blocked on it: apply `wake` to each
caller waiting on k (callers for which `wake` is not enabled are left alone) -/
def wakeAll (k : Nat) : List Nat → St → St
  | [], s => s
  | i :: is, s =>
    match s.pcs[i]? with
    | some (.waiting _ k') => if k' = k then wakeAll k is ((xWake s i).getD s) else wakeAll k is s
    | _ => wakeAll k is s

inductive Event where
  | call (i : Nat) (op : COp) | ret (i : Nat)
  | sec1 (i : Nat)            -- GetOrCreate's first critical section
  | createBegin (i : Nat) | createEnd (i : Nat) (res : Option Nat)
  | sec2 (i : Nat)            -- GetOrCreate's second critical section; the closed channel wakes all its waiters
  | secRm (i : Nat) | secClr (i : Nat)
deriving DecidableEq, Repr

def handle (cap : Nat) (km : Nat → Nat) (s : St) : Event → Option St
  | .call i op => xCall s i op
  | .ret i => xRet s i
  | .sec1 i => xGocSec1 km s i
  | .createBegin i => xCreateBegin s i
  | .createEnd i res => xCreateEnd s i res
  | .sec2 i => match s.pcs[i]? with
    | some (.created _ k _) => (xPublish cap s i).map (wakeAll k (List.range s.pcs.length))
    | _ => none
  | .secRm i => xRemove km s i
  | .secClr i => xClear s i

def replay (cap : Nat) (km : Nat → Nat) (s : St) : List Event → Option St
  | [] => some s
  | e :: es => (handle cap km s e).bind fun s' => replay cap km s' es

inductive Steps (cap : Nat) (km : Nat → Nat) : St → St → Prop
  | refl (s) : Steps cap km s s
  | cons {s t u} : Step cap km s t → Steps cap km t u → Steps cap km s u

end Lru.Conc.Exec
