/-
I-model and Spec of container/iterable/map.go (properties C10, C11).

I-model `M`: the linked list is the list `chain` of the nodes currently linked, in link order
(a node's `prev` is nil iff it is the first of `chain`, its `next` is nil iff it is the final one);
`head`/`last` are the map's two pointers kept as node ids — `head` is updated only where the Go code
assigns `im.head`, so a missed re-targeting leaves it dangling; `vals` is the Go map key ↦ node;
`its` are the open iterators (handle ↦ node the iterator points to).  Every place where the Go
code would dereference nil (or hit its explicit panic) yields `none`.
`sync.Pool` reuse is modelled by fresh ids (sound while pooled ⇒ unreferenced, which is part of the
proved invariant).  Keys and values are `Nat`, zero value `0`.
`release` has the repaired form (it assigns the new head returned by `delete()`); the pre-repair
form is `releaseLegacy` (used only for the regression witness).
-/
namespace OMap

inductive NSt where | last | ok | deleted
deriving DecidableEq, Repr

structure Node where
  id : Nat
  st : NSt
  refCnt : Int
  key : Nat
  val : Nat
deriving DecidableEq, Repr

structure M where
  chain : List Node
  head : Nat
  last : Nat
  vals : List (Nat × Nat)      -- key ↦ node id
  nextId : Nat
  its : List (Nat × Nat)       -- iterator handle ↦ node id
  nextIt : Nat
deriving DecidableEq, Repr

/-- Go: `NewMap()` -/
def M.new : M :=
  { chain := [{ id := 0, st := .last, refCnt := 0, key := 0, val := 0 }], head := 0, last := 0,
    vals := [], nextId := 1, its := [], nextIt := 0 }

def findNode (chain : List Node) (id : Nat) : Option Node := chain.find? (·.id == id)

def updNode (chain : List Node) (id : Nat) (f : Node → Node) : List Node :=
  chain.map fun n => if n.id == id then f n else n

/-- `p.next` (none = nil) -/
def succId : List Node → Nat → Option Nat
  | [], _ => none
  | [_], _ => none
  | a :: b :: rest, id => if a.id == id then some b.id else succId (b :: rest) id

def lookupKey (vals : List (Nat × Nat)) (k : Nat) : Option Nat := (vals.find? (·.1 == k)).map (·.2)

/-- Go: `rli.delete()`.  Returns the new state and the returned head pointer (none = nil).
Outer `none` = nil dereference. -/
def M.delete (m : M) (id : Nat) : Option (M × Option Nat) :=
  match findNode m.chain id with
  | none => none
  | some n =>
    if n.st = .last then some (m, none) else
    if n.refCnt = 0 then
      match m.chain with
      | [] => none
      | f :: rest =>
        if f.id == id then
          -- rli.prev == nil: `rli.next.prev = nil; head := rli.next`
          match rest with
          | [] => none
          | g :: _ => some ({ m with chain := rest }, some g.id)
        else
          -- rli.prev != nil: `rli.prev.next = rli.next; rli.next.prev = rli.prev`
          match succId m.chain id with
          | none => none
          | some _ => some ({ m with chain := m.chain.filter (·.id != id) }, none)
    else
      some ({ m with chain := updNode m.chain id fun n => { n with st := .deleted, val := 0 } }, none)

def M.setHead (m : M) : Option Nat → M
  | none => m
  | some h => { m with head := h }

/-- Go: `im.next(p)`; fuel bounds the loop by the chain length. Returns the node reached. -/
def M.nextLoop : Nat → M → Nat → Option (M × Nat)
  | 0, _, _ => none
  | fuel + 1, m, p =>
    match findNode m.chain p with
    | none => none
    | some n =>
      if n.st = .last then some (m, p) else
      let rc := n.refCnt - 1
      let m1 : M := { m with chain := updNode m.chain p fun n => { n with refCnt := rc } }
      match succId m1.chain p with
      | none => none                       -- p.next == nil, then `p.refCnt++` on nil
      | some np =>
        let step : Option M :=
          if n.st = .deleted ∧ rc ≤ 0 then
            match m1.delete p with
            | none => none
            | some (m2, h) => some (m2.setHead h)
          else some m1
        match step with
        | none => none
        | some m2 =>
          let m3 : M := { m2 with chain := updNode m2.chain np fun n => { n with refCnt := n.refCnt + 1 } }
          match findNode m3.chain np with
          | none => none
          | some nn => if nn.st ≠ .deleted then some (m3, np) else M.nextLoop fuel m3 np

def M.next (m : M) (p : Nat) : Option (M × Nat) := M.nextLoop (m.chain.length + 1) m p

/-- Go: `im.getValue(p)` -/
def M.getValue (m : M) (p : Nat) : Option (M × Nat) :=
  match findNode m.chain p with
  | none => none
  | some n => if n.st = .deleted then m.next p else some (m, p)

/-- Go: `im.release(p)` (repaired: the head returned by delete() is assigned) -/
def M.release (m : M) (p : Nat) : Option M :=
  match findNode m.chain p with
  | none => none
  | some n =>
    let m1 : M := { m with chain := updNode m.chain p fun n => { n with refCnt := n.refCnt - 1 } }
    if n.st = .deleted then
      match m1.delete p with
      | none => none
      | some (m2, h) => some (m2.setHead h)
    else some m1

/-- pre-repair `release`: `p.delete()` with the returned head dropped -/
def M.releaseLegacy (m : M) (p : Nat) : Option M :=
  match findNode m.chain p with
  | none => none
  | some n =>
    let m1 : M := { m with chain := updNode m.chain p fun n => { n with refCnt := n.refCnt - 1 } }
    if n.st = .deleted then
      match m1.delete p with
      | none => none
      | some (m2, _) => some m2
    else some m1

inductive Op where
  | add (k v : Nat) | remove (k : Nat) | get (k : Nat) | len | first
  | iterator            -- opens an iterator; its handle is the Out
  | hasNext (h : Nat) | next (h : Nat) | close (h : Nat)
deriving DecidableEq, Repr

inductive Out where
  | ok | errExists | none | kv (k v : Nat) | key (k : Nat) | num (n : Nat) | b (v : Bool)
  | handle (h : Nat) | badHandle
deriving DecidableEq, Repr

def lookupIt (its : List (Nat × Nat)) (h : Nat) : Option Nat := (its.find? (·.1 == h)).map (·.2)
def setIt (its : List (Nat × Nat)) (h p : Nat) : List (Nat × Nat) :=
  its.map fun x => if x.1 == h then (h, p) else x

/-- Go: `Iterator()` -/
def M.iterator (m : M) : Option (M × Nat) :=
  match findNode m.chain m.head with
  | none => none
  | some _ =>
    some ({ m with chain := updNode m.chain m.head (fun n => { n with refCnt := n.refCnt + 1 }),
                   its := m.its ++ [(m.nextIt, m.head)], nextIt := m.nextIt + 1 }, m.nextIt)

/-- Go: `mapIterator.Next()` on the node `p`; returns new state, new ptr, entry (if any) -/
def M.itNext (m : M) (p : Nat) : Option (M × Nat × Option (Nat × Nat)) :=
  match m.getValue p with
  | none => none
  | some (m1, p1) =>
    match findNode m1.chain p1 with
    | none => none
    | some n =>
      match m1.next p1 with
      | none => none
      | some (m2, p2) => some (m2, p2, if n.st ≠ .last then some (n.key, n.val) else none)

/-- one API call other than First; `none` = panic / nil dereference -/
def M.stepCore (m : M) (legacy : Bool) : Op → Option (M × Out)
  | .add k v =>
    match lookupKey m.vals k with
    | some _ => some (m, .errExists)
    | none =>
      match findNode m.chain m.last with
      | none => none
      | some l =>
        if l.st ≠ .last then none else       -- putVal's explicit panic
        let chain := updNode m.chain m.last fun n => { n with st := .ok, key := k, val := v }
        let nw : Node := { id := m.nextId, st := .last, refCnt := 0, key := 0, val := 0 }
        some ({ m with chain := chain ++ [nw], last := m.nextId, nextId := m.nextId + 1,
                       vals := m.vals ++ [(k, m.last)] }, .ok)
  | .remove k =>
    match lookupKey m.vals k with
    | none => some (m, .ok)
    | some id =>
      match m.delete id with
      | none => none
      | some (m1, h) => some ({ (m1.setHead h) with vals := m.vals.filter (·.1 != k) }, .ok)
  | .get k =>
    match lookupKey m.vals k with
    | none => some (m, .none)
    | some id => match findNode m.chain id with
      | none => none
      | some n => some (m, .kv k n.val)
  | .len => some (m, .num m.vals.length)
  | .first => some (m, .none)   -- handled by `M.step`
  | .iterator => match m.iterator with
    | none => none
    | some (m1, h) => some (m1, .handle h)
  | .hasNext h =>
    match lookupIt m.its h with
    | none => some (m, .badHandle)
    | some p => match m.getValue p with
      | none => none
      | some (m1, p1) => match findNode m1.chain p1 with
        | none => none
        | some n => some ({ m1 with its := setIt m1.its h p1 }, .b (n.st != .last))
  | .next h =>
    match lookupIt m.its h with
    | none => some (m, .badHandle)
    | some p => match m.itNext p with
      | none => none
      | some (m1, p1, e) =>
        some ({ m1 with its := setIt m1.its h p1 }, match e with | some (k, v) => .kv k v | none => .none)
  | .close h =>
    match lookupIt m.its h with
    | none => some (m, .badHandle)
    | some p => match (if legacy then m.releaseLegacy p else m.release p) with
      | none => none
      | some m1 => some ({ m1 with its := m1.its.filter (·.1 != h) }, .ok)

/-- one API call.  Go's `First()` is literally `it := Iterator(); defer it.Close(); e, ok := it.Next()`
(the temporary iterator's handle number is given back afterwards). -/
def M.step (m : M) (legacy : Bool := false) : Op → Option (M × Out)
  | .first =>
    match m.stepCore legacy .iterator with
    | some (m1, .handle h) =>
      match m1.stepCore legacy (.next h) with
      | none => none
      | some (m2, o) =>
        match m2.stepCore legacy (.close h) with
        | none => none
        | some (m3, _) =>
          some ({ m3 with nextIt := m.nextIt }, match o with | .kv k _ => .key k | _ => .none)
    | _ => none
  | op => m.stepCore legacy op

/-! ### Spec: log of entries with ascending stamps; an iterator is a stamp position -/

structure SEntry where
  stamp : Nat
  key : Nat
  val : Nat
  alive : Bool
deriving DecidableEq, Repr

structure S where
  log : List SEntry
  nextStamp : Nat
  its : List (Nat × Nat)      -- handle ↦ position (a stamp)
  nextIt : Nat
deriving DecidableEq, Repr

def S.new : S := { log := [], nextStamp := 0, its := [], nextIt := 0 }

def S.live (s : S) : List SEntry := s.log.filter (·.alive)
def S.firstFrom (s : S) (pos : Nat) : Option SEntry := s.live.find? (fun e => e.stamp ≥ pos)

def S.step (s : S) : Op → S × Out
  | .add k v =>
    if s.live.any (·.key == k) then (s, .errExists)
    else ({ s with log := s.log ++ [{ stamp := s.nextStamp, key := k, val := v, alive := true }],
                   nextStamp := s.nextStamp + 1 }, .ok)
  | .remove k =>
    ({ s with log := s.log.map fun e => if e.alive && e.key == k then { e with alive := false } else e }, .ok)
  | .get k => match s.live.find? (·.key == k) with
    | some e => (s, .kv k e.val)
    | none => (s, .none)
  | .len => (s, .num s.live.length)
  | .first => match s.live with
    | e :: _ => (s, .key e.key)
    | [] => (s, .none)
  | .iterator =>
    let pos := match s.live with | e :: _ => e.stamp | [] => s.nextStamp
    ({ s with its := s.its ++ [(s.nextIt, pos)], nextIt := s.nextIt + 1 }, .handle s.nextIt)
  | .hasNext h => match lookupIt s.its h with
    | none => (s, .badHandle)
    | some pos => (s, .b (s.firstFrom pos).isSome)
  | .next h => match lookupIt s.its h with
    | none => (s, .badHandle)
    | some pos => match s.firstFrom pos with
      | some e => ({ s with its := setIt s.its h (e.stamp + 1) }, .kv e.key e.val)
      | none => (s, .none)
  | .close h => match lookupIt s.its h with
    | none => (s, .badHandle)
    | some _ => ({ s with its := s.its.filter (·.1 != h) }, .ok)

/-- run a history on the I-model; `none` as soon as a step is undefined -/
def runI (legacy : Bool) (m : M) : List Op → Option (M × List Out)
  | [] => some (m, [])
  | op :: ops => match m.step legacy op with
    | none => none
    | some (m', o) => match runI legacy m' ops with
      | none => none
      | some (m'', os) => some (m'', o :: os)

def runS (s : S) : List Op → S × List Out
  | [] => (s, [])
  | op :: ops => let (s', o) := s.step op; let (s'', os) := runS s' ops; (s'', o :: os)

/-- representation invariant of the I-model (a starting point; the proofs may strengthen it in Lemmas) -/
structure Inv (m : M) : Prop where
  nonempty : m.chain ≠ []
  head_first : m.chain.head?.map (·.id) = some m.head
  last_final : m.chain.getLast?.map (·.id) = some m.last
  last_state : ∀ n ∈ m.chain, (n.st = .last ↔ n.id = m.last)
  ids_ascending : m.chain.Pairwise (fun a b => a.id < b.id)
  ids_bound : ∀ n ∈ m.chain, n.id < m.nextId
  last_is_newest : m.nextId = m.last + 1
  deleted_pinned : ∀ n ∈ m.chain, n.st = .deleted → 0 < n.refCnt
  refcnt_exact : ∀ n ∈ m.chain, n.refCnt = ((m.its.filter (·.2 == n.id)).length : Int)
  its_valid : ∀ x ∈ m.its, (findNode m.chain x.2).isSome
  its_handles : m.its.Pairwise (fun a b => a.1 < b.1) ∧ ∀ x ∈ m.its, x.1 < m.nextIt
  vals_ok : ∀ k id, (k, id) ∈ m.vals ↔ ∃ n ∈ m.chain, n.id = id ∧ n.st = .ok ∧ n.key = k
  vals_nodup : (m.vals.map (·.1)).Nodup

/-- refinement relation between I-model and Spec -/
structure Rel (m : M) (s : S) : Prop where
  inv : Inv m
  stamps : s.nextStamp = m.last ∧ s.nextIt = m.nextIt
  log_sorted : s.log.Pairwise (fun a b => a.stamp < b.stamp) ∧ ∀ e ∈ s.log, e.stamp < s.nextStamp
  live_nodes : s.live.map (fun e => (e.stamp, e.key, e.val)) =
      (m.chain.filter (·.st == .ok)).map (fun n => (n.id, n.key, n.val))
  its_same_handles : s.its.map (·.1) = m.its.map (·.1)
  its_pos : ∀ h p pos, lookupIt m.its h = some p → lookupIt s.its h = some pos →
      -- the first live entry at/after the spec position is the first ok node at/after the node
      (s.firstFrom pos).map (·.stamp) = ((m.chain.filter (fun n => n.id ≥ p ∧ n.st == .ok)).head?).map (·.id)
      ∧ pos ≤ s.nextStamp

end OMap
