/-
I-model of timeout/timeout.go — the future heap and the dispatcher's critical sections (C12).

`Heap` mirrors `futures` + the `idx` field of every future ever created:
  `arr`  = the slice (future ids in heap-array order),
  `fut`  = every future created so far: id ↦ (fireT, idx, hasF)   (idx = -1 when not in the heap).
`less/swap/push/pop` are the methods of `futures`; `up/down/hPush/hPop/hRemove` are transcribed from
Go's container/heap (loops with fuel = array length, `none` if the fuel runs out).
`Disp` adds the dispatcher operations that run under the package lock: `add`, `cancel`, and the
watcher's "pop the head if it is due" section.  Time is `Nat` (virtual).
-/
namespace Tmo

structure Fut where
  fireT : Nat
  idx : Int
  hasF : Bool            -- fu.f != nil
deriving DecidableEq, Repr

structure Heap where
  arr : List Nat
  fut : List (Nat × Fut)       -- id ↦ record, ids = 0,1,2,… in creation order
deriving DecidableEq, Repr

def Heap.new : Heap := { arr := [], fut := [] }

def Heap.get (h : Heap) (id : Nat) : Option Fut := (h.fut.find? (·.1 == id)).map (·.2)
def Heap.upd (h : Heap) (id : Nat) (f : Fut → Fut) : Heap :=
  { h with fut := h.fut.map fun x => if x.1 == id then (x.1, f x.2) else x }
def Heap.fireAt (h : Heap) (i : Nat) : Nat := ((h.arr[i]?).bind h.get |>.map (·.fireT)).getD 0

/-- Go: `Less(i, j)` = `fi.fireT.Before(fj.fireT)` -/
def Heap.less (h : Heap) (i j : Nat) : Bool := h.fireAt i < h.fireAt j

/-- Go: `Swap(i, j)` — swaps the slots and refreshes both idx fields -/
def Heap.swap (h : Heap) (i j : Nat) : Heap :=
  match h.arr[i]?, h.arr[j]? with
  | some a, some b =>
    let arr := (h.arr.set i b).set j a
    let h1 : Heap := { h with arr := arr }
    (h1.upd b fun f => { f with idx := i }).upd a fun f => { f with idx := j }
  | _, _ => h

/-- Go: container/heap `up(h, j)` -/
def Heap.up : Nat → Heap → Nat → Option Heap
  | 0, _, _ => none
  | fuel + 1, h, j =>
    let i := (j - 1) / 2                       -- parent; Go: (j-1)/2 with (-1)/2 = 0
    if i = j ∨ !h.less j i then some h
    else Heap.up fuel (h.swap i j) i

/-- Go: container/heap `down(h, i0, n)`; returns the heap and whether the element moved -/
def Heap.downLoop : Nat → Heap → Nat → Nat → Option (Heap × Nat)
  | 0, _, _, _ => none
  | fuel + 1, h, i, n =>
    let j1 := 2 * i + 1
    if j1 ≥ n then some (h, i) else
    let j := if j1 + 1 < n ∧ h.less (j1 + 1) j1 then j1 + 1 else j1
    if !h.less j i then some (h, i)
    else Heap.downLoop fuel (h.swap i j) j n

def Heap.down (h : Heap) (i0 n : Nat) : Option (Heap × Bool) :=
  (Heap.downLoop (h.arr.length + 1) h i0 n).map fun (h', i) => (h', i > i0)

/-- Go: `futures.Push(x)` for a NEW future with fire time t; returns its id -/
def Heap.pushRaw (h : Heap) (t : Nat) : Heap × Nat :=
  let id := h.fut.length
  ({ arr := h.arr ++ [id], fut := h.fut ++ [(id, { fireT := t, idx := h.arr.length, hasF := true })] }, id)

/-- Go: `futures.Pop()` — removes the final slot, sets its idx to -1 -/
def Heap.popRaw (h : Heap) : Option (Heap × Nat) :=
  match h.arr.getLast? with
  | none => none
  | some id => some (({ h with arr := h.arr.dropLast }).upd id fun f => { f with idx := -1 }, id)

/-- Go: `heap.Push(h, x)` -/
def Heap.hPush (h : Heap) (t : Nat) : Option (Heap × Nat) :=
  let (h1, id) := h.pushRaw t
  (Heap.up (h1.arr.length + 1) h1 (h1.arr.length - 1)).map fun h2 => (h2, id)

/-- Go: `heap.Pop(h)` -/
def Heap.hPop (h : Heap) : Option (Heap × Nat) :=
  if h.arr.isEmpty then none else
  let n := h.arr.length - 1
  match (h.swap 0 n).down 0 n with
  | none => none
  | some (h1, _) => h1.popRaw

/-- Go: `heap.Remove(h, i)` -/
def Heap.hRemove (h : Heap) (i : Nat) : Option (Heap × Nat) :=
  if i ≥ h.arr.length then none else
  let n := h.arr.length - 1
  let fixed : Option Heap :=
    if n ≠ i then
      match (h.swap i n).down i n with
      | none => none
      | some (h1, moved) => if !moved then Heap.up (h1.arr.length + 1) h1 i else some h1
    else some h
  fixed.bind Heap.popRaw

/-! ### dispatcher critical sections -/

inductive Op where
  | add (t : Nat)                 -- Call(f, d) with fireT = t (f non-nil)
  | cancel (id : Nat)             -- fu.Cancel()
  | popIfDue (now : Nat)          -- watcher section: pop the head iff !now.Before(head.fireT)
  | rawPop                        -- heap.Pop regardless of time (used to drive the heap alone)
deriving DecidableEq, Repr

inductive Out where
  | id (n : Nat)                  -- add: id of the new future
  | ok                            -- cancel
  | popped (id : Nat) (start : Bool)   -- popped future; `start` = its f was non-nil, i.e. it is started
  | notDue | empty | undefined
deriving DecidableEq, Repr

def Heap.step (h : Heap) : Op → Heap × Out
  | .add t => match h.hPush t with
    | some (h', id) => (h', .id id)
    | none => (h, .undefined)
  | .cancel id => match h.get id with
    | none => (h, .undefined)
    | some f =>
      if f.idx < 0 then (h, .ok) else
      match (h.upd id fun f => { f with hasF := false }).hRemove f.idx.toNat with
      | some (h', _) => (h', .ok)
      | none => (h, .undefined)
  | .popIfDue now =>
    match h.arr.head? with
    | none => (h, .empty)
    | some hd =>
      if now ≥ ((h.get hd).map (·.fireT)).getD 0 then
        match h.hPop with
        | some (h', id) => (h', .popped id (((h.get id).map (·.hasF)).getD false))
        | none => (h, .undefined)
      else (h, .notDue)
  | .rawPop => match h.hPop with
    | some (h', id) => (h', .popped id (((h.get id).map (·.hasF)).getD false))
    | none => (h, .empty)

def run (h : Heap) : List Op → Heap × List Out
  | [] => (h, [])
  | op :: ops => let (h', o) := h.step op; let (h'', os) := run h' ops; (h'', o :: os)

/-! ### Spec: a set of pending (id, fireT) pairs -/

structure S where
  pending : List (Nat × Nat)      -- (id, fireT), in no particular order
  next : Nat                      -- next id
deriving DecidableEq, Repr

def S.new : S := { pending := [], next := 0 }

/-- the index invariant the property is anchored in -/
def Heap.IdxInv (h : Heap) : Prop :=
  (∀ i, (hi : i < h.arr.length) → ((h.get h.arr[i]).map (·.idx)) = some (i : Int)) ∧
  (∀ x ∈ h.fut, x.1 ∉ h.arr → x.2.idx = -1) ∧
  h.arr.Nodup ∧ (∀ id ∈ h.arr, id < h.fut.length) ∧
  (h.fut.map (·.1) = List.range h.fut.length)

/-- heap order: no child fires before its parent -/
def Heap.Ordered (h : Heap) : Prop :=
  ∀ i, 0 < i → i < h.arr.length → h.fireAt ((i - 1) / 2) ≤ h.fireAt i

/-- the pending set as (id, fireT) pairs -/
def Heap.pending (h : Heap) : List (Nat × Nat) := h.arr.map fun id => (id, ((h.get id).map (·.fireT)).getD 0)

end Tmo
