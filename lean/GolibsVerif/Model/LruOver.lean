import GolibsVerif.Model.OMap
/-
`LruOver` — container/lru/ecache.go (sequential part) expressed as PROGRAMS over the ordered-map
I-model `OMap.M` (the node chain with reference counts of container/iterable/map.go), for the LRU half
of property C11: whatever the history of GetOrCreate / Remove / Clear, the cache's internal map is left
with no open iterator, at most `cap` live entries and hence at most `cap + 1` linked nodes.

Every LRU operation performs the map calls ecache.go performs, in that order, adaptively (the
outputs of earlier calls decide the later ones); the list of map calls performed is returned too, so
that the C10/C11 theorems about arbitrary map histories apply to it.
   GetOrCreate hit:   Get k ; Remove k ; Add k v
   GetOrCreate miss:  Get k ; (create) ; Add k v ; Len ; if cap < len: First ; Get k0 ; Remove k0
   Remove:            Get k ; Remove k
   Clear:             Iterator ; { HasNext ; Next ; Remove key }* ; Close       (`defer it.Close()`, repaired code)
Keys and values are numbers (the value stands for the pair (pk, v)); the delete callback and the
create function's value are irrelevant for retention and are not modelled here (C08 covers them).
-/
namespace LruOver
open OMap

inductive LOp where
  | goc (k : Nat) (created : Option Nat)     -- GetOrCreate(k); `created` = what the create function would return (none = error)
  | remove (k : Nat)
  | clear
deriving DecidableEq, Repr

/-- run a list of map calls on the I-model, collecting outputs; `none` = the map panicked -/
def calls (m : M) : List Op → Option (M × List Out)
  | [] => some (m, [])
  | op :: ops => match m.step false op with
    | none => none
    | some (m1, o) => match calls m1 ops with
      | none => none
      | some (m2, os) => some (m2, o :: os)

/-- the loop of Clear: `for it.HasNext() { e, ok := it.Next(); if !ok { continue }; Remove(e.Key) }` with fuel -/
def clearLoop : Nat → M → Nat → Option (M × List Op)
  | 0, m, _ => some (m, [])
  | fuel + 1, m, h =>
    match m.step false (.hasNext h) with
    | none => none
    | some (m1, .b true) =>
      match m1.step false (.next h) with
      | none => none
      | some (m2, .kv k _) =>
        match m2.step false (.remove k) with
        | none => none
        | some (m3, _) => (clearLoop fuel m3 h).map fun (m4, tr) => (m4, [.hasNext h, .next h, .remove k] ++ tr)
      | some (m2, _) => (clearLoop fuel m2 h).map fun (m4, tr) => (m4, [.hasNext h, .next h] ++ tr)
    | some (m1, _) => some (m1, [.hasNext h])

/-- one LRU operation as a program over the map; returns the new map and the map calls performed -/
def lstep (cap : Nat) (m : M) : LOp → Option (M × List Op)
  | .goc k created =>
    match m.step false (.get k) with
    | none => none
    | some (m1, .kv _ v) =>
      (calls m1 [.remove k, .add k v]).map fun (m2, _) => (m2, [.get k, .remove k, .add k v])
    | some (m1, _) =>
      match created with
      | none => some (m1, [.get k])
      | some v =>
        match calls m1 [.add k v, .len] with
        | some (m2, [_, .num n]) =>
          if cap < n then
            match m2.step false .first with
            | none => none
            | some (m3, .key k0) =>
              (calls m3 [.get k0, .remove k0]).map fun (m4, _) => (m4, [.get k, .add k v, .len, .first, .get k0, .remove k0])
            | some (m3, _) => some (m3, [.get k, .add k v, .len, .first])
          else some (m2, [.get k, .add k v, .len])
        | _ => none
  | .remove k =>
    match m.step false (.get k) with
    | none => none
    | some (m1, .kv _ _) => (calls m1 [.remove k]).map fun (m2, _) => (m2, [.get k, .remove k])
    | some (m1, _) => some (m1, [.get k])
  | .clear =>
    match m.step false .iterator with
    | some (m1, .handle h) =>
      match clearLoop (m1.chain.length + 1) m1 h with
      | none => none
      | some (m2, tr) =>
        match m2.step false (.close h) with
        | none => none
        | some (m3, _) => some (m3, [.iterator] ++ tr ++ [.close h])
    | _ => none

/-- a history of LRU operations; returns the final map and ALL map calls performed, in order -/
def lrun (cap : Nat) (m : M) : List LOp → Option (M × List Op)
  | [] => some (m, [])
  | op :: ops => match lstep cap m op with
    | none => none
    | some (m1, tr) => (lrun cap m1 ops).map fun (m2, tr2) => (m2, tr ++ tr2)

end LruOver
