/- The 17 gRPC status codes (google.golang.org/grpc/codes) — fixed by the gRPC protocol. -/
namespace Errs

inductive Code where
  | cOK | cCanceled | cUnknown | cInvalidArgument | cDeadlineExceeded | cNotFound | cAlreadyExists
  | cPermissionDenied | cResourceExhausted | cFailedPrecondition | cAborted | cOutOfRange
  | cUnimplemented | cInternal | cUnavailable | cDataLoss | cUnauthenticated
deriving DecidableEq, Repr

def allCodes : List Code :=
  [.cOK, .cCanceled, .cUnknown, .cInvalidArgument, .cDeadlineExceeded, .cNotFound, .cAlreadyExists,
   .cPermissionDenied, .cResourceExhausted, .cFailedPrecondition, .cAborted, .cOutOfRange,
   .cUnimplemented, .cInternal, .cUnavailable, .cDataLoss, .cUnauthenticated]

def Code.name : Code → String
  | .cOK => "OK" | .cCanceled => "Canceled" | .cUnknown => "Unknown" | .cInvalidArgument => "InvalidArgument"
  | .cDeadlineExceeded => "DeadlineExceeded" | .cNotFound => "NotFound" | .cAlreadyExists => "AlreadyExists"
  | .cPermissionDenied => "PermissionDenied" | .cResourceExhausted => "ResourceExhausted"
  | .cFailedPrecondition => "FailedPrecondition" | .cAborted => "Aborted" | .cOutOfRange => "OutOfRange"
  | .cUnimplemented => "Unimplemented" | .cInternal => "Internal" | .cUnavailable => "Unavailable"
  | .cDataLoss => "DataLoss" | .cUnauthenticated => "Unauthenticated"

end Errs
