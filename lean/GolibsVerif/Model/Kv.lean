/-
KV storage contract (`Kv.Spec`), I-model of kvs/inmem (`Kv.Inmem`, sequential part) and I-model of
kvs/redis over a small Redis server model (`Kv.Redis` over `RedisSrv`).  Properties C02/C03/C06.

Time is virtual (`Nat` milliseconds) and is an input of every operation.  Go's
`ExpiresAt.Before(now)` is `exp < now`.  Versions are drawn from a counter (`nextVer`): the ULID
generator is modelled as "never returns the same id twice" (trusted base).  Values are strings
(nil and empty are the same value).  Keys are strings; ListKeys patterns use the common glob
subset: literal characters, `*` (any sequence), `?` (any one character).
-/
namespace Kv

structure Rec where
  val : String
  ver : Nat
  exp : Option Nat
deriving DecidableEq, Repr

abbrev Store := List (String × Rec)      -- association list, keys distinct, in insertion order

def Store.get (s : Store) (k : String) : Option Rec := (s.find? (·.1 == k)).map (·.2)
def Store.erase (s : Store) (k : String) : Store := s.filter (·.1 != k)
def Store.put (s : Store) (k : String) (r : Rec) : Store := s.erase k ++ [(k, r)]

def expired (r : Rec) (now : Nat) : Bool := match r.exp with | some e => e < now | none => false

/-- glob subset matcher: `*` any sequence, `?` any one char, `\\x` the character x, everything else literal -/
def globMatch : List Char → List Char → Bool
  | [], [] => true
  | [], _ :: _ => false
  | '*' :: ps, [] => globMatch ps []
  | '*' :: ps, c :: cs => globMatch ps (c :: cs) || globMatch ('*' :: ps) cs
  | '?' :: _, [] => false
  | '?' :: ps, _ :: cs => globMatch ps cs
  | '\\' :: _ :: _, [] => false
  | '\\' :: p :: ps, c :: cs => p == c && globMatch ps cs      -- `\x` matches the character x literally
  | _ :: _, [] => false
  | p :: ps, c :: cs => p == c && globMatch ps cs
termination_by p s => (p.length + s.length, p.length)

inductive Op where
  | create (k v : String) (exp : Option Nat)
  | get (k : String)
  | getMany (ks : List String)
  | put (k v : String) (exp : Option Nat)
  | putMany (rs : List (String × String × Option Nat))
  | cas (k : String) (ver : Nat) (v : String) (exp : Option Nat)
  | delete (k : String)
  | list (pat : String)
  | wait (k : String) (ver : Nat)        -- one probe of WaitForVersionChange: would it return, or block?
deriving DecidableEq, Repr

inductive Out where
  | okVer (ver : Nat)
  | errExist (ver : Option Nat)          -- version reported alongside ErrExist (`none` = "")
  | record (v : String) (ver : Nat) (exp : Option Nat)
  | recs (l : List (Option (String × Nat × Option Nat)))
  | ok | errNotExist | errConflict
  | keys (l : List String)               -- sorted
  | waitNil | blocks
  | otherErr
deriving DecidableEq, Repr

/-! ### Spec -/

structure Spec where
  store : Store
  nextVer : Nat
deriving DecidableEq, Repr

def Spec.new : Spec := { store := [], nextVer := 1 }

/-- the record visible at time `now`: an expired record IS an absent one -/
def Spec.live (s : Spec) (now : Nat) (k : String) : Option Rec :=
  match s.store.get k with
  | some r => if expired r now then none else some r
  | none => none

def insertSorted (k : String) : List String → List String
  | [] => [k]
  | x :: xs => if k < x then k :: x :: xs else x :: insertSorted k xs
def sortStrings (l : List String) : List String := l.foldr insertSorted []

def Spec.write (s : Spec) (k v : String) (exp : Option Nat) : Spec × Nat :=
  ({ store := s.store.put k { val := v, ver := s.nextVer, exp := exp }, nextVer := s.nextVer + 1 }, s.nextVer)

def Spec.step (s : Spec) (now : Nat) : Op → Spec × Out
  | .create k v exp => match s.live now k with
    | some r => (s, .errExist (some r.ver))
    | none => let (s', ver) := s.write k v exp; (s', .okVer ver)
  | .get k => match s.live now k with
    | some r => (s, .record r.val r.ver r.exp)
    | none => (s, .errNotExist)
  | .getMany ks => (s, .recs (ks.map fun k => (s.live now k).map fun r => (r.val, r.ver, r.exp)))
  | .put k v exp => let (s', ver) := s.write k v exp; (s', .okVer ver)
  | .putMany rs => (rs.foldl (fun st (k, v, exp) => (st.write k v exp).1) s, .ok)
  | .cas k ver v exp => match s.live now k with
    | none => (s, .errNotExist)
    | some r => if r.ver ≠ ver then (s, .errConflict) else
      let (s', nv) := s.write k v exp; (s', .okVer nv)
  | .delete k => match s.live now k with
    | none => (s, .errNotExist)
    | some _ => ({ s with store := s.store.erase k }, .ok)
  | .list pat => (s, .keys (sortStrings ((s.store.filter fun (k, r) => !expired r now && globMatch pat.toList k.toList).map (·.1))))
  | .wait k ver => match s.live now k with
    | none => (s, .errNotExist)
    | some r => if r.ver ≠ ver then (s, .waitNil) else (s, .blocks)

/-- Spec states are compared up to records that are expired at `now` -/
def Spec.visible (s : Spec) (now : Nat) : List (String × Rec) :=
  (s.store.filter fun (_, r) => !expired r now)

/-! ### I-model of kvs/inmem (repaired: every method goes through the lazy expiry check) -/

structure Inmem where
  recs : Store              -- raw: may hold expired records until some operation touches them
  nextVer : Nat
deriving DecidableEq, Repr

def Inmem.new : Inmem := { recs := [], nextVer := 1 }

/-- Go: `s.live(key)`: lookup, purge if expired -/
def Inmem.live (s : Inmem) (now : Nat) (k : String) : Inmem × Option Rec :=
  match s.recs.get k with
  | none => (s, none)
  | some r => if expired r now then ({ s with recs := s.recs.erase k }, none) else (s, some r)

def Inmem.write (s : Inmem) (k v : String) (exp : Option Nat) : Inmem × Nat :=
  ({ recs := s.recs.put k { val := v, ver := s.nextVer, exp := exp }, nextVer := s.nextVer + 1 }, s.nextVer)

def Inmem.step (s : Inmem) (now : Nat) : Op → Inmem × Out
  | .create k v exp =>
    let (s1, r) := s.live now k
    match r with
    | some r => (s1, .errExist (some r.ver))
    | none => let (s2, ver) := s1.write k v exp; (s2, .okVer ver)
  | .get k =>
    let (s1, r) := s.live now k
    match r with
    | some r => (s1, .record r.val r.ver r.exp)
    | none => (s1, .errNotExist)
  | .getMany ks =>
    let (s1, out) := ks.foldl (fun (st, acc) k =>
      let (st', r) := st.live now k
      (st', acc ++ [r.map fun r => (r.val, r.ver, r.exp)])) (s, [])
    (s1, .recs out)
  | .put k v exp => let (s', ver) := s.write k v exp; (s', .okVer ver)
  | .putMany rs => (rs.foldl (fun st (k, v, exp) => (st.write k v exp).1) s, .ok)
  | .cas k ver v exp =>
    let (s1, r) := s.live now k
    match r with
    | none => (s1, .errNotExist)
    | some r => if r.ver ≠ ver then (s1, .errConflict) else
      let (s2, nv) := s1.write k v exp; (s2, .okVer nv)
  | .delete k =>
    let (s1, r) := s.live now k
    match r with
    | none => (s1, .errNotExist)
    | some _ => ({ s1 with recs := s1.recs.erase k }, .ok)
  | .list pat =>
    -- iterate over the map; expired records are purged and skipped
    let keep := s.recs.filter fun (_, r) => !expired r now
    ({ s with recs := keep }, .keys (sortStrings ((keep.filter fun (k, _) => globMatch pat.toList k.toList).map (·.1))))
  | .wait k ver =>
    let (s1, r) := s.live now k
    match r with
    | none => (s1, .errNotExist)
    | some r => if r.ver ≠ ver then (s1, .waitNil) else (s1, .blocks)

def Inmem.abs (s : Inmem) : Spec := { store := s.recs, nextVer := s.nextVer }

/-! ### Redis server model and the client of kvs/redis on top of it -/

structure RVal where
  r : Rec                   -- decoded payload (the protobuf codec is exercised, not modelled)
  deadline : Option Nat     -- key TTL as an absolute time; gone when deadline ≤ now
deriving DecidableEq, Repr

structure RedisSrv where
  keys : List (String × RVal)
deriving DecidableEq, Repr

def RedisSrv.purge (r : RedisSrv) (now : Nat) : RedisSrv :=
  { keys := r.keys.filter fun (_, v) => match v.deadline with | some d => now < d | none => true }
def RedisSrv.get (r : RedisSrv) (k : String) : Option RVal := (r.keys.find? (·.1 == k)).map (·.2)
def RedisSrv.set (r : RedisSrv) (k : String) (v : RVal) : RedisSrv :=
  { keys := r.keys.filter (·.1 != k) ++ [(k, v)] }
def RedisSrv.del (r : RedisSrv) (k : String) : RedisSrv := { keys := r.keys.filter (·.1 != k) }

/-- Go: `expiration(eat, now)` turned into an absolute deadline (min 1 ms) -/
def deadlineOf (exp : Option Nat) (now : Nat) : Option Nat :=
  exp.map fun e => now + (if e < now + 1 then 1 else e - now)

/-- Go: `rKey(key)`: strip leading slashes, prefix "/kvs/" -/
def stripSlashes : List Char → List Char
  | '/' :: cs => stripSlashes cs
  | cs => cs
def rKey (k : String) : String := "/kvs/" ++ String.ofList (stripSlashes k.toList)

structure Redis where
  srv : RedisSrv
  nextVer : Nat
deriving DecidableEq, Repr

def Redis.new : Redis := { srv := { keys := [] }, nextVer := 1 }

def Redis.setRec (c : Redis) (now : Nat) (k v : String) (exp : Option Nat) : Redis × Nat :=
  ({ srv := c.srv.set (rKey k) { r := { val := v, ver := c.nextVer, exp := exp }, deadline := deadlineOf exp now },
     nextVer := c.nextVer + 1 }, c.nextVer)

def Redis.step (c0 : Redis) (now : Nat) (op : Op) : Redis × Out :=
  let c : Redis := { c0 with srv := c0.srv.purge now }     -- the server drops keys whose TTL elapsed
  match op with
  | .create k v exp =>
    -- SETNX; on failure GET for the stored version.  (Go draws `NewID()` before SETNX; an id that is
    -- never stored is never observable, so the model draws the version only on success.)
    match c.srv.get (rKey k) with
    | some rv => (c, .errExist (some rv.r.ver))
    | none => let (c', ver) := c.setRec now k v exp; (c', .okVer ver)
  | .get k => match c.srv.get (rKey k) with
    | some rv => (c, .record rv.r.val rv.r.ver rv.r.exp)
    | none => (c, .errNotExist)
  | .getMany ks => (c, .recs (ks.map fun k => (c.srv.get (rKey k)).map fun rv => (rv.r.val, rv.r.ver, rv.r.exp)))
  | .put k v exp => let (c', ver) := c.setRec now k v exp; (c', .okVer ver)
  | .putMany rs =>
    -- MSET when no record has an expiry (fresh version each), otherwise a loop of Put: same effect
    (rs.foldl (fun st (k, v, exp) => (st.setRec now k v exp).1) c, .ok)
  | .cas k ver v exp => match c.srv.get (rKey k) with
    | none => (c, .errNotExist)
    | some rv => if rv.r.ver ≠ ver then (c, .errConflict) else
      let (c', nv) := c.setRec now k v exp; (c', .okVer nv)
  | .delete k => match c.srv.get (rKey k) with
    | none => (c, .errNotExist)
    | some _ => ({ c with srv := c.srv.del (rKey k) }, .ok)
  | .list pat =>
    let rp := (rKey pat).toList
    (c, .keys (sortStrings ((c.srv.keys.filter fun (k, _) => globMatch rp k.toList).map fun (k, _) => String.ofList (k.toList.drop 5))))
  | .wait k ver => match c.srv.get (rKey k) with
    | none => (c, .errNotExist)
    | some rv => if rv.r.ver ≠ ver then (c, .waitNil) else (c, .blocks)

/-- a timed history -/
abbrev Hist := List (Nat × Op)

def runSpec (s : Spec) : Hist → Spec × List Out
  | [] => (s, [])
  | (now, op) :: h => let (s', o) := s.step now op; let (s'', os) := runSpec s' h; (s'', o :: os)
def runInmem (s : Inmem) : Hist → Inmem × List Out
  | [] => (s, [])
  | (now, op) :: h => let (s', o) := s.step now op; let (s'', os) := runInmem s' h; (s'', o :: os)
def runRedis (s : Redis) : Hist → Redis × List Out
  | [] => (s, [])
  | (now, op) :: h => let (s', o) := s.step now op; let (s'', os) := runRedis s' h; (s'', o :: os)

/-- time never goes backwards -/
def Monotone : Nat → Hist → Prop
  | _, [] => True
  | t, (now, _) :: h => t ≤ now ∧ Monotone now h

/-- expiries an operation writes -/
def Op.expiries : Op → List Nat
  | .create _ _ (some e) => [e]
  | .put _ _ (some e) => [e]
  | .cas _ _ _ (some e) => [e]
  | .putMany rs => rs.filterMap fun x => x.2.2
  | _ => []

/-- keys / patterns an operation mentions -/
def Op.names : Op → List String
  | .create k _ _ => [k] | .get k => [k] | .getMany ks => ks | .put k _ _ => [k]
  | .putMany rs => rs.map (·.1) | .cas k _ _ _ => [k] | .delete k => [k] | .list p => [p] | .wait k _ => [k]

/-- hypotheses under which the Redis backend is claimed to meet the contract exactly:
names do not start with '/', (TTL resolution 1 ms) every written expiry lies in the future, and no
operation is issued at exactly an expiry instant — expressed as: operation times even, expiries odd. -/
def RedisOK : Hist → Prop
  | [] => True
  | (now, op) :: h =>
    now % 2 = 0 ∧ (∀ e ∈ op.expiries, e % 2 = 1 ∧ now < e) ∧
    (∀ n ∈ op.names, n.toList.head? ≠ some '/') ∧ RedisOK h

end Kv
