/-
`Tmo.Pool` — transition system of the timeout dispatcher's worker pool (timeout.go watcher(), add(),
cancel(), notifyWatcher()) for property C13.  Time is discrete (`now`, advanced by the environment).
The heap is abstracted to the list of pending (id, fireT) pairs; its head is a pending future with
the least fire time (justified by C12.root_is_min).  A watcher thread is at `top f mis` (about to run
callback `f` if any, then its locked decision section) or `sleeping deadline mis capped` (in the
select on its timer and the wake channel).  `tokens` = length of the buffered wake channel.
-/
namespace Tmo.Pool

inductive WPc where
  | top (f : Option Nat) (mis : Nat)
  | sleeping (deadline : Nat) (mis : Nat) (capped : Bool)     -- capped: the sleep was limited by idleTimeout (watchers > 1)
  | exited
deriving DecidableEq, Repr

structure St where
  heap : List (Nat × Nat)          -- pending futures (id, fireT)
  now : Nat
  watchers : Nat
  tokens : Nat
  threads : List WPc
  started : List Nat               -- callbacks started, in order
  nextId : Nat
deriving DecidableEq, Repr

structure Cfg where
  maxWorkers : Nat
  idle : Nat

def St.init : St := { heap := [], now := 0, watchers := 0, tokens := 0, threads := [], started := [], nextId := 0 }

/-- least fire time among the pending futures -/
def minFire : List (Nat × Nat) → Option Nat
  | [] => none
  | (_, t) :: rest => match minFire rest with
    | none => some t
    | some m => some (min t m)

/-- a pending future with the least fire time (the heap's root) -/
def headOf (h : List (Nat × Nat)) : Option (Nat × Nat) :=
  match minFire h with
  | none => none
  | some m => h.find? (·.2 == m)

def notify (c : Cfg) (s : St) : St := { s with tokens := min (s.tokens + 1) c.maxWorkers }

def setT (s : St) (i : Nat) (p : WPc) : St := { s with threads := s.threads.set i p }

inductive Step (c : Cfg) : St → St → Prop
  /-- Call(f, d): push; spawn a watcher if there is none, else poke the wake channel -/
  | add (s : St) (fireT : Nat) :
      Step c s (
        let s1 : St := { s with heap := s.heap ++ [(s.nextId, fireT)], nextId := s.nextId + 1 }
        if s.watchers = 0 then { s1 with watchers := 1, threads := s1.threads ++ [.top none 0] }
        else notify c s1)
  /-- Cancel of a pending future: remove it; poke if there is a watcher -/
  | cancel (s : St) (id : Nat) (h : id ∈ s.heap.map (·.1)) :
      Step c s (
        let s1 : St := { s with heap := s.heap.filter (·.1 != id) }
        if s.watchers > 0 then notify c s1 else s1)
  /-- one loop iteration of a watcher up to the end of its locked section: run the callback (if any),
  then decide: pop a due head (and maybe spawn), exit, or go to sleep -/
  | section_ (s : St) (i : Nat) (f : Option Nat) (mis : Nat) (h : s.threads[i]? = some (.top f mis)) :
      Step c s (
        let mis' := if f.isSome then 0 else mis + 1
        let s0 : St := match f with | some id => { s with started := s.started ++ [id] } | none => s
        match headOf s0.heap with
        | none =>
          if mis' > 1 then setT { s0 with watchers := s0.watchers - 1 } i .exited
          else setT s0 i (.sleeping (s0.now + c.idle) mis' true)
        | some (id, fireT) =>
          if s0.now ≥ fireT then
            let heap' := s0.heap.filter (·.1 != id)
            let s1 : St := { s0 with heap := heap' }
            let spawn := match headOf heap' with
              | some (_, t2) => decide (s0.now > t2) && decide (s0.watchers < c.maxWorkers)
              | none => false
            if spawn then setT { s1 with watchers := s1.watchers + 1, threads := s1.threads ++ [.top none 0] } i (.top (some id) mis')
            else setT s1 i (.top (some id) mis')
          else if s0.watchers > 1 then
            if mis' > 1 then setT { s0 with watchers := s0.watchers - 1 } i .exited
            else setT s0 i (.sleeping (s0.now + min (fireT - s0.now) c.idle) mis' true)
          else setT s0 i (.sleeping fireT mis' false))
  /-- the sleep timer fires -/
  | timerWake (s : St) (i : Nat) (d mis : Nat) (cp : Bool) (h : s.threads[i]? = some (.sleeping d mis cp)) (hd : d ≤ s.now) :
      Step c s (setT s i (.top none mis))
  /-- a wake token is received -/
  | tokenWake (s : St) (i : Nat) (d mis : Nat) (cp : Bool) (h : s.threads[i]? = some (.sleeping d mis cp)) (ht : 0 < s.tokens) :
      Step c s (setT { s with tokens := s.tokens - 1 } i (.top none 0))
  /-- environment: time passes -/
  | tick (s : St) : Step c s { s with now := s.now + 1 }

inductive Reach (c : Cfg) : St → Prop
  | init : Reach c St.init
  | step {s t} : Reach c s → Step c s t → Reach c t

def live (s : St) : Nat := (s.threads.filter (· != .exited)).length

/-- a thread that will look at the heap again without anybody's help and cannot exit before doing so
with work pending: it is awake, or it sleeps no longer than until the head's fire time -/
def Responsible (s : St) (headFire : Nat) (p : WPc) : Prop :=
  match p with
  | .top _ _ => True
  | .sleeping d _ _ => d ≤ headFire
  | .exited => False

end Tmo.Pool
