/-
`LeaseCell` — the renewal bookkeeping of ONE Locker of kvs/distlock/kvlock.go (`l.future`, the lease timers
and the `supportTimeout` activities) with storage calls that are NOT atomic with the delivery of their
answer: a renewal's CasByVersion is applied by the storage at one step and its answer reaches
`supportTimeout` at a later one; in between the holder may Unlock and Lock again through the same Locker.
(`Lock.Sys` treats a storage call and its answer as one step; this model complements it for property C05.)

The Locker is used by one goroutine at a time (the token of `Lock.Sys`, proved there), so the holder
runs through the phases idle → held → uCancel → uDelete → idle.  Other Lockers / providers act on the
storage as environment: they may create the record when it is absent, renew or delete THEIR record; a
record may expire only when its creator is not holding it (the lease assumption, as `Lock.mayExpire`).
`cas = true` is the code as it is: `supportTimeout` installs the timer it armed with
`future.CompareAndSwap(loaded, new)` and cancels the new timer when that fails.  `cas = false` is the
variant `future.Swap(new)` + Cancel of the replaced timer (a seeded change), kept for the negative result.
Skeleton of the code this model follows: `LockConsts.futureSkeleton` (regenerated from kvlock.go).
-/
namespace LeaseCell

inductive Phase where
  | idle | held | uCancel | uDelete
deriving DecidableEq, Repr

/-- stage of one running supportTimeout(ver) -/
inductive SupPc where
  | load                                   -- future := l.future.Load()
  | call (fut : Option Nat)                -- about to issue Storage.CasByVersion(ver)
  | okPending (fut : Option Nat) (nv : Nat)   -- applied by the storage (record now at nv); the answer is on its way
  | failPending (fut : Option Nat)         -- ErrNotExist / ErrConflict on its way
  | errPending (fut : Option Nat)          -- not applied, a transient error on its way
  | arm (fut : Option Nat) (nv : Nat)      -- answer received: about to timeout.Call(… nv …)
  | swap (fut : Option Nat) (tn : Nat)     -- about to install timer tn in l.future
deriving DecidableEq, Repr

structure Sup where
  ver : Nat
  pc : SupPc
deriving DecidableEq, Repr

structure Timer where
  id : Nat
  ver : Nat
deriving DecidableEq, Repr

structure St where
  phase : Phase
  /-- the lock record: version and whether THIS Locker's current or last tenure created it (ghost) -/
  lrec : Option (Nat × Bool)
  future : Option Nat
  armed : List Timer
  sups : List Sup
  nextVer : Nat
  nextTimer : Nat
deriving DecidableEq, Repr

def St.init : St :=
  { phase := .idle, lrec := none, future := none, armed := [], sups := [], nextVer := 1, nextTimer := 0 }

def setSup (s : St) (u : Sup) (pc : SupPc) : List Sup := { u with pc := pc } :: s.sups.erase u

inductive Step (cas : Bool) : St → St → Prop
  -- the holder
  /-- Create succeeds (record absent): the record is ours, the first lease timer is armed and stored -/
  | acquire (s : St) (h : s.phase = .idle) (hr : s.lrec = none) :
      Step cas s { s with phase := .held, lrec := some (s.nextVer, true), nextVer := s.nextVer + 1,
                          armed := { id := s.nextTimer, ver := s.nextVer } :: s.armed,
                          future := some s.nextTimer, nextTimer := s.nextTimer + 1 }
  /-- Unlock is entered -/
  | unlock (s : St) (h : s.phase = .held) :
      Step cas s { s with phase := .uCancel }
  /-- Unlock: future.Load().Cancel() -/
  | uCancel (s : St) (h : s.phase = .uCancel) :
      Step cas s { s with phase := .uDelete, armed := s.armed.filter fun t => some t.id ≠ s.future }
  /-- Unlock: Storage.Delete takes effect (by key); the token goes back -/
  | uDelete (s : St) (h : s.phase = .uDelete) :
      Step cas s { s with phase := .idle, lrec := none }
  -- lease renewal
  | fire (s : St) (t : Timer) (h : t ∈ s.armed) :
      Step cas s { s with armed := s.armed.filter (· ≠ t), sups := { ver := t.ver, pc := .load } :: s.sups }
  | supLoad (s : St) (u : Sup) (h : u ∈ s.sups) (hp : u.pc = .load) :
      Step cas s { s with sups := setSup s u (.call s.future) }
  /-- the storage applies the CAS: the record is at the awaited version -/
  | supApply (s : St) (u : Sup) (fut : Option Nat) (v : Nat) (o : Bool) (h : u ∈ s.sups) (hp : u.pc = .call fut)
      (hr : s.lrec = some (v, o)) (hv : v = u.ver) :
      Step cas s { s with lrec := some (s.nextVer, o), nextVer := s.nextVer + 1, sups := setSup s u (.okPending fut s.nextVer) }
  /-- the storage refuses: no record or another version -/
  | supRefuse (s : St) (u : Sup) (fut : Option Nat) (h : u ∈ s.sups) (hp : u.pc = .call fut)
      (hr : s.lrec = none ∨ ∃ v o, s.lrec = some (v, o) ∧ v ≠ u.ver) :
      Step cas s { s with sups := setSup s u (.failPending fut) }
  /-- the request is lost / the storage is unavailable: nothing applied, a transient error will be reported -/
  | supLose (s : St) (u : Sup) (fut : Option Nat) (h : u ∈ s.sups) (hp : u.pc = .call fut) :
      Step cas s { s with sups := setSup s u (.errPending fut) }
  /-- the answers arrive -/
  | supOk (s : St) (u : Sup) (fut : Option Nat) (nv : Nat) (h : u ∈ s.sups) (hp : u.pc = .okPending fut nv) :
      Step cas s { s with sups := setSup s u (.arm fut nv) }
  | supFail (s : St) (u : Sup) (fut : Option Nat) (h : u ∈ s.sups) (hp : u.pc = .failPending fut) :
      Step cas s { s with sups := s.sups.erase u }
  | supErr (s : St) (u : Sup) (fut : Option Nat) (h : u ∈ s.sups) (hp : u.pc = .errPending fut) :
      Step cas s { s with sups := setSup s u (.arm fut u.ver) }        -- retry later with the same version
  | supArm (s : St) (u : Sup) (fut : Option Nat) (nv : Nat) (h : u ∈ s.sups) (hp : u.pc = .arm fut nv) :
      Step cas s { s with armed := { id := s.nextTimer, ver := nv } :: s.armed, nextTimer := s.nextTimer + 1,
                          sups := setSup s u (.swap fut s.nextTimer) }
  | supSwap (s : St) (u : Sup) (fut : Option Nat) (tn : Nat) (h : u ∈ s.sups) (hp : u.pc = .swap fut tn) :
      Step cas s (
        if cas then
          (if s.future = fut then { s with future := some tn, sups := s.sups.erase u }
           else { s with armed := s.armed.filter (·.id ≠ tn), sups := s.sups.erase u })
        else
          -- variant: old := future.Swap(new); old.Cancel()
          { s with future := some tn, armed := s.armed.filter (fun t => some t.id ≠ s.future), sups := s.sups.erase u })
  -- environment: other Lockers / providers, and expiry
  | otherCreate (s : St) (hr : s.lrec = none) :
      Step cas s { s with lrec := some (s.nextVer, false), nextVer := s.nextVer + 1 }
  | otherRenew (s : St) (v : Nat) (hr : s.lrec = some (v, false)) :
      Step cas s { s with lrec := some (s.nextVer, false), nextVer := s.nextVer + 1 }
  | otherDelete (s : St) (v : Nat) (hr : s.lrec = some (v, false)) :
      Step cas s { s with lrec := none }
  /-- the lease assumption: our record lapses only when we neither hold nor are inside Unlock -/
  | expire (s : St) (v : Nat) (o : Bool) (hr : s.lrec = some (v, o)) (ho : o = true → s.phase = .idle) :
      Step cas s { s with lrec := none }

inductive Reach (cas : Bool) : St → Prop
  | init : Reach cas St.init
  | step {s t} : Reach cas s → Step cas s t → Reach cas t

/-- the step `s → t` fires a timer whose creator has not yet installed it in `l.future` -/
def EarlyFire (s t : St) : Prop :=
  ∃ tm ∈ s.armed, (∃ u ∈ s.sups, ∃ f, u.pc = .swap f tm.id) ∧
    t = { s with armed := s.armed.filter (· ≠ tm), sups := { ver := tm.ver, pc := .load } :: s.sups }

/-- reachability without early fires: arming a timer and installing it take less than half a lease -/
inductive ReachNE (cas : Bool) : St → Prop
  | init : ReachNE cas St.init
  | step {s t} : ReachNE cas s → Step cas s t → ¬ EarlyFire s t → ReachNE cas t

/-- something will still try to renew the record version `v` -/
def Alive (s : St) (v : Nat) : Prop :=
  (∃ t ∈ s.armed, t.ver = v) ∨
  (∃ u ∈ s.sups, u.ver = v ∧ (u.pc = .load ∨ (∃ f, u.pc = .call f) ∨ (∃ f, u.pc = .errPending f))) ∨
  (∃ u ∈ s.sups, (∃ f, u.pc = .okPending f v) ∨ (∃ f, u.pc = .arm f v))

end LeaseCell
