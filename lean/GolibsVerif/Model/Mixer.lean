/-
I-model and Spec of container/iterable/mixer.go (property C18).

Sources are list-backed iterators (`rest` = what the underlying iterator has not returned yet,
`all` = what it restarts from on Reset, `canReset` = implements golibs.Reseter).  `Src.load/e`
are the one-element look-ahead of `srcDesc`; `Mx.st` is the 4-state selector.
Elements are `Nat` with zero value `0`; the selector `sf` is a parameter.
-/
namespace Mixer

structure Src where
  all : List Nat
  rest : List Nat
  canReset : Bool
  load : Bool
  e : Nat
  /-- this input's tail vanishes: once its list is exhausted it answers HasNext() = true ONE more
  time and the following Next() returns (0, false) (the imparity the Iterator contract allows) -/
  ghost : Bool := false
  /-- that phantom HasNext has not been consumed yet -/
  ghostLeft : Bool := false
deriving Repr, DecidableEq

structure Mx where
  s1 : Src
  s2 : Src
  st : Nat
deriving Repr, DecidableEq

def Src.mk' (l : List Nat) (canReset : Bool) (ghost : Bool := false) : Src :=
  { all := l, rest := l, canReset := canReset, load := false, e := 0, ghost := ghost, ghostLeft := ghost }

/-- Go: `Init(sf, it1, it2)` -/
def Mx.init (l1 l2 : List Nat) (r1 r2 : Bool := true) (g1 g2 : Bool := false) : Mx :=
  { s1 := Src.mk' l1 r1 g1, s2 := Src.mk' l2 r2 g2, st := 0 }

/-- Go: `if !src.load && src.it.HasNext() { src.e, src.load = src.it.Next() }`.
On an exhausted input whose tail vanishes (`ghostLeft`) HasNext() answers true and Next() returns
(0, false): the Go assignment stores exactly that pair. -/
def Src.fetch (s : Src) : Src :=
  if s.load then s else
    match s.rest with
    | x :: xs => { s with rest := xs, e := x, load := true }
    | [] => if s.ghostLeft then { s with ghostLeft := false, e := 0, load := false } else s

/-- Go: `selectState()` -/
def Mx.selectState (sf : Nat → Nat → Bool) (m : Mx) : Mx :=
  if m.st ≠ 0 then m else
    let s1 := m.s1.fetch
    let s2 := m.s2.fetch
    let m := { m with s1 := s1, s2 := s2 }
    if !s1.load && !s2.load then { m with st := 3 }
    else if !s1.load then { m with st := 2 }
    else if !s2.load || sf s1.e s2.e then { m with st := 1 }
    else { m with st := 2 }

/-- Go: `HasNext()` -/
def Mx.hasNext (sf : Nat → Nat → Bool) (m : Mx) : Mx × Bool :=
  let m := m.selectState sf
  (m, m.st != 3)

/-- Go: `Next()` -/
def Mx.next (sf : Nat → Nat → Bool) (m : Mx) : Mx × (Nat × Bool) :=
  let m := m.selectState sf
  if m.st = 1 then ({ m with st := 0, s1 := { m.s1 with load := false } }, (m.s1.e, true))
  else if m.st = 2 then ({ m with st := 0, s2 := { m.s2 with load := false } }, (m.s2.e, true))
  else (m, (0, false))

inductive ResetOut where | ok | unimplemented | dataLoss
deriving Repr, DecidableEq

/-- Go: `srcDesc.reset()`; `false` = ErrUnimplemented -/
def Src.reset (s : Src) : Src × Bool :=
  let s := { s with load := false, e := 0 }
  if s.canReset then ({ s with rest := s.all, ghostLeft := s.ghost }, true) else (s, false)

/-- Go: `Reset()` -/
def Mx.reset (m : Mx) : Mx × ResetOut :=
  let (s1, ok1) := m.s1.reset
  if !ok1 then ({ m with s1 := s1 }, .unimplemented) else
  let (s2, ok2) := m.s2.reset
  if !ok2 then ({ m with s1 := s1, s2 := s2 }, .dataLoss) else
  ({ s1 := s1, s2 := s2, st := 0 }, .ok)

inductive Op where | hasNext | next | reset
deriving Repr, DecidableEq

inductive Out where | b (v : Bool) | nx (v : Nat) (ok : Bool) | rs (r : ResetOut)
deriving Repr, DecidableEq

def Mx.step (sf : Nat → Nat → Bool) (m : Mx) : Op → Mx × Out
  | .hasNext => let (m', r) := m.hasNext sf; (m', .b r)
  | .next => let (m', (v, ok)) := m.next sf; (m', .nx v ok)
  | .reset => let (m', r) := m.reset; (m', .rs r)

/-! ### Spec: two-pointer reference merge -/

def merge (sf : Nat → Nat → Bool) : List Nat → List Nat → List Nat
  | [], ys => ys
  | x :: xs, [] => x :: xs
  | x :: xs, y :: ys =>
    if sf x y then x :: merge sf xs (y :: ys) else y :: merge sf (x :: xs) ys

/-- what source 1 / source 2 still owe the output (a vanishing tail owes it nothing) -/
def Src.pending (s : Src) : List Nat := (if s.load then [s.e] else []) ++ s.rest

/-- Spec state: the two pending lists plus what a Reset restarts from. -/
structure S where
  p1 : List Nat
  p2 : List Nat
  a1 : List Nat
  a2 : List Nat
deriving Repr, DecidableEq

def Mx.abs (m : Mx) : S := { p1 := m.s1.pending, p2 := m.s2.pending, a1 := m.s1.all, a2 := m.s2.all }

/-- Spec step for resettable sources: HasNext = "merge non-empty", Next = head of the merge and
drop it from the side it came from, Reset = start over. -/
def S.step (sf : Nat → Nat → Bool) (s : S) : Op → S × Out
  | .hasNext => (s, .b (merge sf s.p1 s.p2 != []))
  | .next => match s.p1, s.p2 with
    | [], [] => (s, .nx 0 false)
    | [], y :: ys => ({ s with p2 := ys }, .nx y true)
    | x :: xs, [] => ({ s with p1 := xs }, .nx x true)
    | x :: xs, y :: ys =>
      if sf x y then ({ s with p1 := xs }, .nx x true) else ({ s with p2 := ys }, .nx y true)
  | .reset => ({ s with p1 := s.a1, p2 := s.a2 }, .rs .ok)

def runI (sf : Nat → Nat → Bool) (m : Mx) : List Op → Mx × List Out
  | [] => (m, [])
  | op :: ops => let (m', o) := m.step sf op; let (m'', os) := runI sf m' ops; (m'', o :: os)

def runS (sf : Nat → Nat → Bool) (s : S) : List Op → S × List Out
  | [] => (s, [])
  | op :: ops => let (s', o) := s.step sf op; let (s'', os) := runS sf s' ops; (s'', o :: os)

/-- drain by calling Next until it reports false (fuel-bounded) -/
def drain (sf : Nat → Nat → Bool) : Nat → Mx → List Nat
  | 0, _ => []
  | fuel + 1, m =>
    let (m', (v, ok)) := m.next sf
    if ok then v :: drain sf fuel m' else []

/-- `l` is an order-preserving interleaving of `l1` and `l2` -/
inductive Interleave : List Nat → List Nat → List Nat → Prop
  | nil : Interleave [] [] []
  | left {x xs ys zs} : Interleave xs ys zs → Interleave (x :: xs) ys (x :: zs)
  | right {y xs ys zs} : Interleave xs ys zs → Interleave xs (y :: ys) (y :: zs)

/-- consistency of the cached selector state with the look-ahead (what `selectState` establishes);
an input counted as exhausted has also used up its phantom HasNext (`ghostLeft = false`) -/
def Mx.Inv (sf : Nat → Nat → Bool) (m : Mx) : Prop :=
  (m.st = 0 ∨ m.st = 1 ∨ m.st = 2 ∨ m.st = 3) ∧
  (m.st = 1 → m.s1.load = true ∧ ((m.s2.load = false ∧ m.s2.rest = [] ∧ m.s2.ghostLeft = false) ∨ (m.s2.load = true ∧ sf m.s1.e m.s2.e = true))) ∧
  (m.st = 2 → m.s2.load = true ∧ ((m.s1.load = false ∧ m.s1.rest = [] ∧ m.s1.ghostLeft = false) ∨ (m.s1.load = true ∧ sf m.s1.e m.s2.e = false))) ∧
  (m.st = 3 → m.s1.load = false ∧ m.s2.load = false ∧ m.s1.rest = [] ∧ m.s2.rest = [] ∧
    m.s1.ghostLeft = false ∧ m.s2.ghostLeft = false)

end Mixer
