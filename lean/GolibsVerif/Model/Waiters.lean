/-
Small-step model of kvs/inmem WaitForVersionChange together with the mutators (property C07):
any number of waiters, keys and writers; every step is one critical section of inmem.go (or an
environment step).  Transcribed from the repaired inmem.go (live() purges an expired record and
notifies; a waiter also wakes up when the record it waits on expires).

State: `recs` key ↦ (version, expired?) — `expired` marks a record whose ExpiresAt has passed but
which has not been touched yet (lazy expiry); `table` = verChange: key ↦ (channel id, waiter count);
`closed` = closed channels; `ws` = the waiters.
-/
namespace Waiters

inductive WRes where | nil | notExist | ctxErr
deriving DecidableEq, Repr

inductive WPc where
  | start                         -- about to run the loop's first critical section
  | parked (ch : Nat)             -- in the select, registered on channel ch
  | returned (r : WRes)
deriving DecidableEq, Repr

structure W where
  key : String
  ver : Nat
  pc : WPc
  ctxDone : Bool
deriving DecidableEq, Repr

structure Rec where
  ver : Nat
  expired : Bool
deriving DecidableEq, Repr

structure St where
  recs : List (String × Rec)
  table : List (String × Nat × Nat)       -- key ↦ (channel, waiters)
  closed : List Nat
  nextCh : Nat
  nextVer : Nat
  ws : List W
deriving DecidableEq, Repr

def St.init (ws : List W) : St := { recs := [], table := [], closed := [], nextCh := 0, nextVer := 1, ws := ws }

def getRec (s : St) (k : String) : Option Rec := (s.recs.find? (·.1 == k)).map (·.2)
def getEntry (s : St) (k : String) : Option (Nat × Nat) := (s.table.find? (·.1 == k)).map (·.2)

/-- Go: `notifyWaiters(key)` -/
def notify (s : St) (k : String) : St :=
  match getEntry s k with
  | none => s
  | some (ch, _) => { s with closed := ch :: s.closed, table := s.table.filter (·.1 != k) }

/-- Go: `live(key)`: an expired record is dropped (and its waiters notified) -/
def live (s : St) (k : String) : St × Option Nat :=
  match getRec s k with
  | none => (s, none)
  | some r => if r.expired then (notify { s with recs := s.recs.filter (·.1 != k) } k, none) else (s, some r.ver)

/-- Go: `leaveWaiter(key, ws)` for the waiter record with channel `ch` -/
def leave (s : St) (k : String) (ch : Nat) : St :=
  match getEntry s k with
  | some (ch', n) =>
    if ch' = ch then
      if n - 1 = 0 then { s with closed := ch :: s.closed, table := s.table.filter (·.1 != k) }
      else { s with table := s.table.map fun e => if e.1 == k then (k, ch, n - 1) else e }
    else s
  | none => s

def setW (s : St) (i : Nat) (w : W) : St := { s with ws := s.ws.set i w }

inductive Step : St → St → Prop
  /-- first critical section of the loop -/
  | check (s : St) (i : Nat) (w : W) (hw : s.ws[i]? = some w) (hp : w.pc = .start) :
      Step s (
        let (s1, r) := live s w.key
        match r with
        | none => setW s1 i { w with pc := .returned .notExist }
        | some v =>
          if v ≠ w.ver then setW s1 i { w with pc := .returned .nil }
          else match getEntry s1 w.key with
            | some (ch, n) =>
              setW { s1 with table := s1.table.map fun e => if e.1 == w.key then (w.key, ch, n + 1) else e } i { w with pc := .parked ch }
            | none =>
              setW { s1 with table := s1.table ++ [(w.key, s1.nextCh, 1)], nextCh := s1.nextCh + 1 } i { w with pc := .parked s1.nextCh })
  /-- `case <-ws.done`: the channel was closed, go around the loop -/
  | wake (s : St) (i : Nat) (w : W) (ch : Nat) (hw : s.ws[i]? = some w) (hp : w.pc = .parked ch) (hc : ch ∈ s.closed) :
      Step s (setW s i { w with pc := .start })
  /-- `case <-ctx.Done()`: leave the waiter record, return ctx.Err() (may win even if the channel is closed too) -/
  | cancelled (s : St) (i : Nat) (w : W) (ch : Nat) (hw : s.ws[i]? = some w) (hp : w.pc = .parked ch) (hd : w.ctxDone = true) :
      Step s (setW (leave s w.key ch) i { w with pc := .returned .ctxErr })
  /-- `case <-expired`: the expiry timer of the record fired: leave the waiter record, go around -/
  | timer (s : St) (i : Nat) (w : W) (ch : Nat) (hw : s.ws[i]? = some w) (hp : w.pc = .parked ch) :
      Step s (setW (leave s w.key ch) i { w with pc := .start })
  /-- Put / Create / CasByVersion / PutMany element on key k: new version, waiters notified -/
  | write (s : St) (k : String) :
      Step s (notify { s with recs := s.recs.filter (·.1 != k) ++ [(k, { ver := s.nextVer, expired := false })], nextVer := s.nextVer + 1 } k)
  /-- Delete of an existing key -/
  | delete (s : St) (k : String) (r : Rec) (hr : getRec s k = some r) :
      Step s (notify { s with recs := s.recs.filter (·.1 != k) } k)
  /-- any other operation touching an expired key purges it through live() -/
  | touch (s : St) (k : String) : Step s (live s k).1
  /-- environment: the record's ExpiresAt passes -/
  | expire (s : St) (k : String) (r : Rec) (hr : getRec s k = some r) :
      Step s { s with recs := s.recs.map fun e => if e.1 == k then (k, { r with expired := true }) else e }
  /-- environment: the waiter's context is cancelled -/
  | ctxCancel (s : St) (i : Nat) (w : W) (hw : s.ws[i]? = some w) :
      Step s (setW s i { w with ctxDone := true })

inductive Reach (ws : List W) : St → Prop
  | init : Reach ws (St.init ws)
  | step {s t} : Reach ws s → Step s t → Reach ws t

/-- waiters currently parked on channel ch -/
def parkedOn (s : St) (ch : Nat) : Nat := (s.ws.filter fun w => w.pc == .parked ch).length

end Waiters
