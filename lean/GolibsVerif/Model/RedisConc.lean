import GolibsVerif.Model.Kv
import GolibsVerif.Model.Lin
/-
`RedisConc` — command-level concurrent model of kvs/redis/redis.go (property C02, Redis backend).

Any number of clients (threads) run Create / Get / GetMany / Put / PutMany (MSET path) /
CasByVersion / Delete against ONE Redis server.  A client operation is the sequence of Redis
commands redis.go issues for it; commands of different clients interleave arbitrarily; every single
command (and every MULTI…EXEC block) is atomic on the server.

    Create        SETNX ; if the key exists: GET (found -> ErrExist ver | vanished -> SETNX again …)
    Get           GET
    GetMany       MGET
    Put           SET
    PutMany       MSET                       (records without expiry; fresh version each)
    Delete        DEL
    CasByVersion  WATCH ; GET (absent -> ErrNotExist | other version -> ErrConflict) ;
                  MULTI SET EXEC (key touched since WATCH -> start over | applied -> ok)

Server = `Kv.Spec` at time 0 with no expiries (expiry is C06 / C03, sequential): its store is the key
space, its `nextVer` the id source.  A version is drawn when it is written: redis.go draws the ULID a
few statements earlier, but ids are only ever compared for equality and an id that is never stored
is never seen by anybody, so the moment of drawing is unobservable (ULID uniqueness: trusted base).
WATCH bookkeeping: `watch t = some (k, dirty)`; every command that writes or removes key k marks all
watchers of k dirty (Redis marks a watched key as touched on any modification, even to the same value).

`step` is a deterministic partial function of (state, event); `runL` also produces the list of
`Lin` events of the run: invocation, the ONE command at which the operation takes effect
(`Lin.Ev.lin`), response.
-/
namespace RedisConc
open Kv

inductive Pc where
  | idle
  | create1 (k v : String)                          -- next command: SETNX
  | create2 (k v : String)                          -- SETNX found the key: next command GET
  | get (k : String)
  | getMany (ks : List String)
  | put (k v : String)
  | putMany (rs : List (String × String))
  | del (k : String)
  | casWatch (k : String) (ver : Nat) (v : String)   -- next command: WATCH
  | casGet (k : String) (ver : Nat) (v : String)     -- next command: GET (inside the Watch callback)
  | casExec (k : String) (ver : Nat) (v : String)    -- next command: MULTI SET EXEC
  | done (r : Out)                                   -- result fixed; the call is about to return
deriving DecidableEq, Repr

structure St where
  srv : Spec
  pc : List Pc                                       -- one per client
  watch : List (Option (String × Bool))              -- per client: watched key and "touched since WATCH"
deriving DecidableEq, Repr

def St.init (n : Nat) : St := { srv := Spec.new, pc := List.replicate n .idle, watch := List.replicate n none }

inductive Ev where
  | call (t : Nat) (op : Op)
  | cmd (t : Nat)
  | ret (t : Nat) (r : Out)
deriving DecidableEq, Repr

/-- operations this model covers (no expiries; List / Wait are not part of C02) -/
def entry : Op → Option Pc
  | .create k v none => some (.create1 k v)
  | .get k => some (.get k)
  | .getMany ks => some (.getMany ks)
  | .put k v none => some (.put k v)
  | .putMany rs => if rs.all (fun r => r.2.2.isNone) then some (.putMany (rs.map fun r => (r.1, r.2.1))) else none
  | .cas k ver v none => some (.casWatch k ver v)
  | .delete k => some (.del k)
  | _ => none

/-- the operation a program counter belongs to -/
def opOf : Pc → Option Op
  | .idle => none
  | .create1 k v => some (.create k v none)
  | .create2 k v => some (.create k v none)
  | .get k => some (.get k)
  | .getMany ks => some (.getMany ks)
  | .put k v => some (.put k v none)
  | .putMany rs => some (.putMany (rs.map fun r => (r.1, r.2, none)))
  | .del k => some (.delete k)
  | .casWatch k ver v => some (.cas k ver v none)
  | .casGet k ver v => some (.cas k ver v none)
  | .casExec k ver v => some (.cas k ver v none)
  | .done _ => none

/-- every watcher of one of the keys is marked dirty -/
def touch (w : List (Option (String × Bool))) (ks : List String) : List (Option (String × Bool)) :=
  w.map fun e => match e with
    | some (k, d) => some (k, d || ks.contains k)
    | none => none

def St.setPc (s : St) (t : Nat) (p : Pc) : St := { s with pc := s.pc.set t p }

/-- one Redis command of client t: (new state, is this command the operation's linearization point?) -/
def cmdStep (s : St) (t : Nat) : Option (St × Bool) :=
  match s.pc[t]? with
  | some (.create1 k v) =>
    match s.srv.live 0 k with
    | some _ => some (s.setPc t (.create2 k v), false)                    -- SETNX → 0
    | none =>                                                             -- SETNX → 1
      let (srv', ver) := s.srv.write k v none
      some ({ s with srv := srv', watch := touch s.watch [k] }.setPc t (.done (.okVer ver)), true)
  | some (.create2 k v) =>
    match s.srv.live 0 k with
    | some r => some (s.setPc t (.done (.errExist (some r.ver))), true)   -- GET → record
    | none => some (s.setPc t (.create1 k v), false)                      -- GET → nil: the key is free again
  | some (.get k) => some (s.setPc t (.done (s.srv.step 0 (.get k)).2), true)
  | some (.getMany ks) => some (s.setPc t (.done (s.srv.step 0 (.getMany ks)).2), true)
  | some (.put k v) =>
    let (srv', ver) := s.srv.write k v none
    some ({ s with srv := srv', watch := touch s.watch [k] }.setPc t (.done (.okVer ver)), true)
  | some (.putMany rs) =>
    let srv' := (s.srv.step 0 (.putMany (rs.map fun r => (r.1, r.2, none)))).1
    some ({ s with srv := srv', watch := touch s.watch (rs.map (fun (r : String × String) => r.1)) }.setPc t (.done .ok), true)
  | some (.del k) =>
    match s.srv.live 0 k with
    | none => some (s.setPc t (.done .errNotExist), true)                 -- DEL → 0
    | some _ =>                                                           -- DEL → 1
      some ({ s with srv := { s.srv with store := s.srv.store.erase k }, watch := touch s.watch [k] }.setPc t (.done .ok), true)
  | some (.casWatch k ver v) =>
    some ({ s with watch := s.watch.set t (some (k, false)) }.setPc t (.casGet k ver v), false)
  | some (.casGet k ver v) =>
    match s.srv.live 0 k with
    | none => some ({ s with watch := s.watch.set t none }.setPc t (.done .errNotExist), true)
    | some r =>
      if r.ver ≠ ver then some ({ s with watch := s.watch.set t none }.setPc t (.done .errConflict), true)
      else some (s.setPc t (.casExec k ver v), false)
  | some (.casExec k ver v) =>
    match s.watch[t]? with
    | some (some (_, false)) =>                                           -- EXEC applied
      let (srv', nv) := s.srv.write k v none
      some ({ s with srv := srv', watch := (touch s.watch [k]).set t none }.setPc t (.done (.okVer nv)), true)
    | _ =>                                                                -- EXEC → nil (TxFailedErr): start over
      some ({ s with watch := s.watch.set t none }.setPc t (.casWatch k ver v), false)
  | _ => none

def step (s : St) : Ev → Option (St × List (Lin.Ev Op Out))
  | .call t op =>
    match s.pc[t]?, entry op with
    | some .idle, some p => some (s.setPc t p, [.inv t op])
    | _, _ => none
  | .cmd t => (cmdStep s t).map fun (s', l) => (s', if l then [.lin t] else [])
  | .ret t r =>
    match s.pc[t]? with
    | some (.done r') => if r = r' then some (s.setPc t .idle, [.ret t r]) else none
    | _ => none

/-- run a list of events; also yields the Lin events of the run -/
def runL (s : St) : List Ev → Option (St × List (Lin.Ev Op Out))
  | [] => some (s, [])
  | e :: es => match step s e with
    | none => none
    | some (s', l) => (runL s' es).map fun (s'', ls) => (s'', l ++ ls)

/-- the sequential object the concurrent runs are compared with: the KV contract at time 0 -/
def obj : Lin.Obj Spec Op Out := { step := fun s op => s.step 0 op }

end RedisConc
