import GolibsVerif.Model.Kv
import GolibsVerif.Model.Lin
/-
`RedisConc` — command-level concurrent model of kvs/redis/redis.go (property C02, Redis backend),
with expiries and a clock.

Any number of clients (threads) run Create / Get / GetMany / Put / PutMany (MSET path AND the loop
of SETs) / CasByVersion / Delete against ONE Redis server.  A client operation is the sequence of
Redis commands redis.go issues for it; commands of different clients interleave arbitrarily; every
single command (and every MULTI…EXEC block) is atomic on the server.

    Create        SETNX [PX ttl] ; if the key exists: GET (found -> ErrExist ver | vanished -> SETNX again …)
    Get           GET
    GetMany       MGET
    Put           SET [PX ttl]
    PutMany       MSET                       (non-empty list, NO record has an expiry; fresh version each)
                  SET [PX ttl] ; SET [PX ttl] ; …   (some record has an expiry: one Put — one SET — per
                                                     record, in order, ALL records)
    Delete        DEL
    CasByVersion  WATCH ; GET (absent -> ErrNotExist | other version -> ErrConflict) ;
                  MULTI SET [PX ttl] EXEC (key touched since WATCH -> start over | applied -> ok)

PutMany of the empty list issues no command at all and is not covered (`entry (.putMany []) = none`).

Server = the Redis server model of Model/Kv.lean (`St.srv : Kv.Redis`: `srv : RedisSrv`, the key space
— Redis key ↦ `RVal` = decoded payload `r : Rec` + absolute key `deadline` —, and `nextVer`, the id
source) at the server time `St.now` (milliseconds).  The client code is the one `Kv.Redis.step` models
sequentially, cut into its commands:
  * keys: every command addresses `rKey k` ("/kvs/" ++ k without its leading slashes): client keys
    that differ only in leading slashes ("s", "/s") are ONE server key;
  * expiry: a key whose deadline has been reached (`deadline ≤ now`) is gone.  EVERY command first lets
    the server drop the elapsed keys — it acts on `s.psrv` = `s.srv` with `RedisSrv.purge s.now`,
    exactly as `Kv.Redis.step` starts.  `s.srv` itself is the server as the last command that TOOK
    EFFECT left it (a linearizing command stores the purged-then-modified server; a command that is no
    linearization point leaves `s.srv` alone, which nobody can observe: the next command purges
    again); a `tick` does not touch it;
  * look-ups: `s.psrv.srv.get (rKey k)`; what clients see of a record is its payload `rv.r` (value,
    version, the REQUESTED expiry `rv.r.exp`, also when that lies in the past);
  * writes: `Redis.setRec now k v e`: payload with the requested `e`, key deadline `deadlineOf e now` =
    `now + max 1 (e − now)` (the Go code clamps the TTL to 1 ms: a record written with `e ≤ now` is
    visible until `now + 1`); DEL = `RedisSrv.del (rKey k)`; MSET = the fold of `setRec` (no expiries).
A version is drawn when it is written: redis.go draws the ULID a few statements earlier, but ids are
only ever compared for equality and an id that is never stored is never seen by anybody, so the moment
of drawing is unobservable (ULID uniqueness: trusted base).
WATCH bookkeeping is keyed by the REDIS key: `watch t = some (rKey k, dirty)`; every command that writes
or removes Redis key rk marks all watchers of rk dirty (Redis marks a watched key as touched on any
modification, even to the same value) — so a CAS on "/s" is failed by a concurrent Put on "s".
What the EXPIRY of a watched key does to the EXEC is server-version specific and kept out of the model
by design: no tick is possible between a CAS's GET and its EXEC (`tickBlocked (casExec …)`), and a tick
between WATCH and GET is harmless (the GET reads again).

Expiries and the clock.  Operations carry the ABSOLUTE expiry `e : Option Nat` the caller asked for
(as in `Kv.Op`); Redis stores a RELATIVE ttl: the record written by a command executed at server time
T with `PX ttl` disappears at T+ttl.  The client computes the relative TTL
(`expiration(expiresAt, time.Now())` = `expiresAt − time.Now()`, at least 1 ms) right before sending
the write command (before EACH SETNX of Create, before the SET of Put and of every Put of the PutMany
loop, before MULTI SET EXEC of CAS); the server applies it when the command arrives.  The model does
not let the clock advance in between: `Ev.tick d` (`now := now + d`) is ENABLED only if no client is
inside such a "TTL window" (`tickBlocked`: `create1` / `put` with an expiry, `putLoop`, `casExec`).  In
reality the two instants differ by one command latency, by which the record's life is lengthened —
outside the model.  With no tick inside the window, `server time + ttl = deadlineOf e now`.

The loop path of PutMany is NOT one atomic operation ("per-key effects" is what the property claims
for PutMany): each of its SETs is reported as one complete Put operation of that client.  In the `Lin`
event list: `call t (putMany rs)` on the loop path emits nothing, each loop command emits
`inv t (put k v e), lin t, ret t (okVer ver)`, the final `ret t ok` emits nothing.

`step` is a deterministic partial function of (state, event); `runL` also produces the list of
`Lin` events of the run: invocation, the ONE command at which the operation takes effect
(`Lin.Ev.lin`), response.  A tick is reported as a complete operation `tick d` of a dedicated clock
thread whose id is the number of clients (clients are `0 … n-1`).
-/
namespace RedisConc
open Kv

inductive Pc where
  | idle
  | create1 (k v : String) (e : Option Nat)         -- next command: SETNX
  | create2 (k v : String) (e : Option Nat)         -- SETNX found the key: next command GET
  | get (k : String)
  | getMany (ks : List String)
  | put (k v : String) (e : Option Nat)
  | putMany (rs : List (String × String))           -- MSET path (no expiries)
  | putLoop (rs : List (String × String × Option Nat))  -- loop path: records still to be SET (non-empty)
  | loopDone                                        -- loop path: every record SET; about to return ok
  | del (k : String)
  | casWatch (k : String) (ver : Nat) (v : String) (e : Option Nat)  -- next command: WATCH
  | casGet (k : String) (ver : Nat) (v : String) (e : Option Nat)    -- next command: GET (inside the Watch callback)
  | casExec (k : String) (ver : Nat) (v : String) (e : Option Nat)   -- next command: MULTI SET EXEC
  | done (r : Out)                                  -- result fixed; the call is about to return
deriving DecidableEq, Repr

structure St where
  srv : Redis                                        -- the Redis server (`Kv.RedisSrv`) and the id source, as the
                                                     -- last command that took effect left them (NOT purged since)
  now : Nat                                          -- server time, milliseconds
  pc : List Pc                                       -- one per client
  watch : List (Option (String × Bool))              -- per client: watched REDIS key (`rKey k`) and "touched since WATCH"
deriving DecidableEq, Repr

def St.init (n : Nat) : St :=
  { srv := Redis.new, now := 0, pc := List.replicate n .idle, watch := List.replicate n none }

/-- the server as EVERY command finds it: the keys whose TTL has elapsed at the server's time are gone
(`RedisSrv.purge`, exactly as `Kv.Redis.step` starts) -/
def St.psrv (s : St) : Redis := { s.srv with srv := s.srv.srv.purge s.now }

inductive Ev where
  | call (t : Nat) (op : Op)
  | cmd (t : Nat)
  | ret (t : Nat) (r : Out)
  | tick (d : Nat)
deriving DecidableEq, Repr

/-- inputs of the sequential object: a KV operation, or the passing of time -/
inductive LOp where
  | op (o : Op)
  | tick (d : Nat)
deriving DecidableEq, Repr

/-- operations this model covers (List / Wait are not part of C02; the empty PutMany issues no command) -/
def entry : Op → Option Pc
  | .create k v e => some (.create1 k v e)
  | .get k => some (.get k)
  | .getMany ks => some (.getMany ks)
  | .put k v e => some (.put k v e)
  | .putMany rs =>
    if rs.isEmpty then none
    else if rs.all (fun r => r.2.2.isNone) then some (.putMany (rs.map fun r => (r.1, r.2.1)))
    else some (.putLoop rs)
  | .cas k ver v e => some (.casWatch k ver v e)
  | .delete k => some (.del k)
  | _ => none

/-- the operation a program counter belongs to (the loop path of PutMany is not ONE operation) -/
def opOf : Pc → Option Op
  | .idle => none
  | .create1 k v e => some (.create k v e)
  | .create2 k v e => some (.create k v e)
  | .get k => some (.get k)
  | .getMany ks => some (.getMany ks)
  | .put k v e => some (.put k v e)
  | .putMany rs => some (.putMany (rs.map fun r => (r.1, r.2, none)))
  | .putLoop _ => none
  | .loopDone => none
  | .del k => some (.delete k)
  | .casWatch k ver v e => some (.cas k ver v e)
  | .casGet k ver v e => some (.cas k ver v e)
  | .casExec k ver v e => some (.cas k ver v e)
  | .done _ => none

/-- the client is inside a "TTL window": it has computed a relative TTL (or is about to EXEC) and the
command carrying it has not reached the server yet — the clock does not advance -/
def tickBlocked : Pc → Bool
  | .create1 _ _ (some _) => true
  | .put _ _ (some _) => true
  | .putLoop _ => true
  | .casExec _ _ _ _ => true
  | _ => false

/-- every watcher of one of the (Redis) keys is marked dirty -/
def touch (w : List (Option (String × Bool))) (ks : List String) : List (Option (String × Bool)) :=
  w.map fun e => match e with
    | some (k, d) => some (k, d || ks.contains k)
    | none => none

def St.setPc (s : St) (t : Nat) (p : Pc) : St := { s with pc := s.pc.set t p }

/-- where the PutMany loop goes after a SET -/
def loopNext : List (String × String × Option Nat) → Pc
  | [] => .loopDone
  | r :: rest => .putLoop (r :: rest)

/-- one Redis command of client t: (new state, the `Lin` events of this command: `[lin t]` if it is the
operation's linearization point, `[]` if not, a complete Put for a SET of the PutMany loop).
Every command acts on `s.psrv` (the server purged at `s.now`).  A command at which an operation takes
effect stores the purged-then-modified server; a command that is not a linearization point (SETNX → 0,
Create's GET → nil, WATCH, a CAS's GET that finds the expected version, a failed EXEC) leaves `s.srv`
as it is — unobservable, since the next command purges again. -/
def cmdStep (s : St) (t : Nat) : Option (St × List (Lin.Ev LOp Out)) :=
  match s.pc[t]? with
  | some (.create1 k v e) =>
    match s.psrv.srv.get (rKey k) with
    | some _ => some (s.setPc t (.create2 k v e), [])                     -- SETNX → 0
    | none =>                                                             -- SETNX → 1
      let (c', ver) := s.psrv.setRec s.now k v e
      some ({ s with srv := c', watch := touch s.watch [rKey k] }.setPc t (.done (.okVer ver)), [.lin t])
  | some (.create2 k v e) =>
    match s.psrv.srv.get (rKey k) with
    | some rv => some ({ s with srv := s.psrv }.setPc t (.done (.errExist (some rv.r.ver))), [.lin t])  -- GET → record
    | none => some (s.setPc t (.create1 k v e), [])                       -- GET → nil: the key is free again
  | some (.get k) => some ({ s with srv := s.psrv }.setPc t (.done (s.srv.step s.now (.get k)).2), [.lin t])
  | some (.getMany ks) => some ({ s with srv := s.psrv }.setPc t (.done (s.srv.step s.now (.getMany ks)).2), [.lin t])
  | some (.put k v e) =>
    let (c', ver) := s.psrv.setRec s.now k v e
    some ({ s with srv := c', watch := touch s.watch [rKey k] }.setPc t (.done (.okVer ver)), [.lin t])
  | some (.putMany rs) =>
    let c' := (s.srv.step s.now (.putMany (rs.map fun r => (r.1, r.2, none)))).1
    some ({ s with srv := c', watch := touch s.watch (rs.map (fun (r : String × String) => rKey r.1)) }.setPc t (.done .ok), [.lin t])
  | some (.putLoop ((k, v, e) :: rest)) =>                                -- one SET of the loop = one Put
    let (c', ver) := s.psrv.setRec s.now k v e
    some ({ s with srv := c', watch := touch s.watch [rKey k] }.setPc t (loopNext rest),
          [.inv t (.op (.put k v e)), .lin t, .ret t (.okVer ver)])
  | some (.del k) =>
    match s.psrv.srv.get (rKey k) with
    | none => some ({ s with srv := s.psrv }.setPc t (.done .errNotExist), [.lin t])             -- DEL → 0
    | some _ =>                                                           -- DEL → 1
      some ({ s with srv := { s.psrv with srv := s.psrv.srv.del (rKey k) }, watch := touch s.watch [rKey k] }.setPc t (.done .ok), [.lin t])
  | some (.casWatch k ver v e) =>
    some ({ s with watch := s.watch.set t (some (rKey k, false)) }.setPc t (.casGet k ver v e), [])
  | some (.casGet k ver v e) =>
    match s.psrv.srv.get (rKey k) with
    | none => some ({ s with srv := s.psrv, watch := s.watch.set t none }.setPc t (.done .errNotExist), [.lin t])
    | some rv =>
      if rv.r.ver ≠ ver then some ({ s with srv := s.psrv, watch := s.watch.set t none }.setPc t (.done .errConflict), [.lin t])
      else some (s.setPc t (.casExec k ver v e), [])
  | some (.casExec k ver v e) =>
    match s.watch[t]? with
    | some (some (_, false)) =>                                           -- EXEC applied
      let (c', nv) := s.psrv.setRec s.now k v e
      some ({ s with srv := c', watch := (touch s.watch [rKey k]).set t none }.setPc t (.done (.okVer nv)), [.lin t])
    | _ =>                                                                -- EXEC → nil (TxFailedErr): start over
      some ({ s with watch := s.watch.set t none }.setPc t (.casWatch k ver v e), [])
  | _ => none

/-- the `Lin` events of a call: the invocation — except on the loop path of PutMany, whose SETs are
reported as Puts one by one -/
def callEvs (t : Nat) (op : Op) : Pc → List (Lin.Ev LOp Out)
  | .putLoop _ => []
  | _ => [.inv t (.op op)]

def step (s : St) : Ev → Option (St × List (Lin.Ev LOp Out))
  | .call t op =>
    match s.pc[t]?, entry op with
    | some .idle, some p => some (s.setPc t p, callEvs t op p)
    | _, _ => none
  | .cmd t => cmdStep s t
  | .ret t r =>
    match s.pc[t]? with
    | some (.done r') => if r = r' then some (s.setPc t .idle, [.ret t r]) else none
    | some .loopDone => if r = .ok then some (s.setPc t .idle, []) else none
    | _ => none
  | .tick d =>
    if s.pc.any tickBlocked then none
    else some ({ s with now := s.now + d }, [.inv s.pc.length (.tick d), .lin s.pc.length, .ret s.pc.length .ok])

/-- run a list of events; also yields the Lin events of the run -/
def runL (s : St) : List Ev → Option (St × List (Lin.Ev LOp Out))
  | [] => some (s, [])
  | e :: es => match step s e with
    | none => none
    | some (s', l) => (runL s' es).map fun (s'', ls) => (s'', l ++ ls)

/-- the sequential object the concurrent runs are compared with: the SEQUENTIAL model of the Redis
client (`Kv.Redis.step`: purge at `now`, then act) together with the time at which it is run -/
def obj : Lin.Obj (Redis × Nat) LOp Out :=
  { step := fun (c, now) i => match i with
      | .op o => let (c', r) := c.step now o; ((c', now), r)
      | .tick d => ((c, now + d), .ok) }

end RedisConc
