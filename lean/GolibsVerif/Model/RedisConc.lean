import GolibsVerif.Model.Kv
import GolibsVerif.Model.Lin
/-
`RedisConc` — command-level concurrent model of kvs/redis/redis.go (property C02, Redis backend),
with expiries and a clock.

Any number of clients (threads) run Create / Get / GetMany / Put / PutMany (MSET path AND the loop
of SETs) / CasByVersion / Delete against ONE Redis server.  A client operation is the sequence of
Redis commands redis.go issues for it; commands of different clients interleave arbitrarily; every
single command (and every MULTI…EXEC block) is atomic on the server.

    Create        SETNX [PX ttl] ; if the key exists: GET (found -> ErrExist ver | vanished -> SETNX again …)
    Get           GET
    GetMany       MGET
    Put           SET [PX ttl]
    PutMany       MSET                       (non-empty list, NO record has an expiry; fresh version each)
                  SET [PX ttl] ; SET [PX ttl] ; …   (some record has an expiry: one Put — one SET — per
                                                     record, in order, ALL records)
    Delete        DEL
    CasByVersion  WATCH ; GET (absent -> ErrNotExist | other version -> ErrConflict) ;
                  MULTI SET [PX ttl] EXEC (key touched since WATCH -> start over | applied -> ok)

PutMany of the empty list issues no command at all and is not covered (`entry (.putMany []) = none`).

Server = `Kv.Spec` read at the server time `St.now` (milliseconds): its store is the key space, its
`nextVer` the id source; a record whose expiry lies before `now` IS absent (`Spec.live`).  A version is
drawn when it is written: redis.go draws the ULID a few statements earlier, but ids are only ever
compared for equality and an id that is never stored is never seen by anybody, so the moment of
drawing is unobservable (ULID uniqueness: trusted base).
WATCH bookkeeping: `watch t = some (k, dirty)`; every command that writes or removes key k marks all
watchers of k dirty (Redis marks a watched key as touched on any modification, even to the same value).

Expiries and the clock.  Operations carry the ABSOLUTE expiry `e : Option Nat` the caller asked for
(as in `Kv.Op`); Redis stores a RELATIVE ttl: the record written by a command executed at server time
T with `PX ttl` disappears at T+ttl.  The client computes the relative TTL
(`expiration(expiresAt, time.Now())` = `expiresAt − time.Now()`) right before sending the write
command (before EACH SETNX of Create, before the SET of Put and of every Put of the PutMany loop,
before MULTI SET EXEC of CAS); the server applies it when the command arrives.  The model does not let
the clock advance in between: `Ev.tick d` (`now := now + d`) is ENABLED only if no client is inside
such a "TTL window" (`tickBlocked`: `create1` / `put` with an expiry, `putLoop`, `casExec`).  In
reality the two instants differ by one command latency, by which the record's life is lengthened —
outside the model.  `casExec` blocks the clock for any expiry, additionally because whether the
expiry of a WATCHed key makes the EXEC fail is server-version specific — outside the model.  With no
tick inside the window, `server time + ttl = requested absolute expiry`, so a write stores exactly the
requested `e` (`Spec.write k v e`).

The loop path of PutMany is NOT one atomic operation ("per-key effects" is what the property claims
for PutMany): each of its SETs is reported as one complete Put operation of that client.  In the `Lin`
event list: `call t (putMany rs)` on the loop path emits nothing, each loop command emits
`inv t (put k v e), lin t, ret t (okVer ver)`, the final `ret t ok` emits nothing.

`step` is a deterministic partial function of (state, event); `runL` also produces the list of
`Lin` events of the run: invocation, the ONE command at which the operation takes effect
(`Lin.Ev.lin`), response.  A tick is reported as a complete operation `tick d` of a dedicated clock
thread whose id is the number of clients (clients are `0 … n-1`).
-/
namespace RedisConc
open Kv

inductive Pc where
  | idle
  | create1 (k v : String) (e : Option Nat)         -- next command: SETNX
  | create2 (k v : String) (e : Option Nat)         -- SETNX found the key: next command GET
  | get (k : String)
  | getMany (ks : List String)
  | put (k v : String) (e : Option Nat)
  | putMany (rs : List (String × String))           -- MSET path (no expiries)
  | putLoop (rs : List (String × String × Option Nat))  -- loop path: records still to be SET (non-empty)
  | loopDone                                        -- loop path: every record SET; about to return ok
  | del (k : String)
  | casWatch (k : String) (ver : Nat) (v : String) (e : Option Nat)  -- next command: WATCH
  | casGet (k : String) (ver : Nat) (v : String) (e : Option Nat)    -- next command: GET (inside the Watch callback)
  | casExec (k : String) (ver : Nat) (v : String) (e : Option Nat)   -- next command: MULTI SET EXEC
  | done (r : Out)                                  -- result fixed; the call is about to return
deriving DecidableEq, Repr

structure St where
  srv : Spec
  now : Nat                                          -- server time, milliseconds
  pc : List Pc                                       -- one per client
  watch : List (Option (String × Bool))              -- per client: watched key and "touched since WATCH"
deriving DecidableEq, Repr

def St.init (n : Nat) : St :=
  { srv := Spec.new, now := 0, pc := List.replicate n .idle, watch := List.replicate n none }

inductive Ev where
  | call (t : Nat) (op : Op)
  | cmd (t : Nat)
  | ret (t : Nat) (r : Out)
  | tick (d : Nat)
deriving DecidableEq, Repr

/-- inputs of the sequential object: a KV operation, or the passing of time -/
inductive LOp where
  | op (o : Op)
  | tick (d : Nat)
deriving DecidableEq, Repr

/-- operations this model covers (List / Wait are not part of C02; the empty PutMany issues no command) -/
def entry : Op → Option Pc
  | .create k v e => some (.create1 k v e)
  | .get k => some (.get k)
  | .getMany ks => some (.getMany ks)
  | .put k v e => some (.put k v e)
  | .putMany rs =>
    if rs.isEmpty then none
    else if rs.all (fun r => r.2.2.isNone) then some (.putMany (rs.map fun r => (r.1, r.2.1)))
    else some (.putLoop rs)
  | .cas k ver v e => some (.casWatch k ver v e)
  | .delete k => some (.del k)
  | _ => none

/-- the operation a program counter belongs to (the loop path of PutMany is not ONE operation) -/
def opOf : Pc → Option Op
  | .idle => none
  | .create1 k v e => some (.create k v e)
  | .create2 k v e => some (.create k v e)
  | .get k => some (.get k)
  | .getMany ks => some (.getMany ks)
  | .put k v e => some (.put k v e)
  | .putMany rs => some (.putMany (rs.map fun r => (r.1, r.2, none)))
  | .putLoop _ => none
  | .loopDone => none
  | .del k => some (.delete k)
  | .casWatch k ver v e => some (.cas k ver v e)
  | .casGet k ver v e => some (.cas k ver v e)
  | .casExec k ver v e => some (.cas k ver v e)
  | .done _ => none

/-- the client is inside a "TTL window": it has computed a relative TTL (or is about to EXEC) and the
command carrying it has not reached the server yet — the clock does not advance -/
def tickBlocked : Pc → Bool
  | .create1 _ _ (some _) => true
  | .put _ _ (some _) => true
  | .putLoop _ => true
  | .casExec _ _ _ _ => true
  | _ => false

/-- every watcher of one of the keys is marked dirty -/
def touch (w : List (Option (String × Bool))) (ks : List String) : List (Option (String × Bool)) :=
  w.map fun e => match e with
    | some (k, d) => some (k, d || ks.contains k)
    | none => none

def St.setPc (s : St) (t : Nat) (p : Pc) : St := { s with pc := s.pc.set t p }

/-- where the PutMany loop goes after a SET -/
def loopNext : List (String × String × Option Nat) → Pc
  | [] => .loopDone
  | r :: rest => .putLoop (r :: rest)

/-- one Redis command of client t: (new state, the `Lin` events of this command: `[lin t]` if it is the
operation's linearization point, `[]` if not, a complete Put for a SET of the PutMany loop) -/
def cmdStep (s : St) (t : Nat) : Option (St × List (Lin.Ev LOp Out)) :=
  match s.pc[t]? with
  | some (.create1 k v e) =>
    match s.srv.live s.now k with
    | some _ => some (s.setPc t (.create2 k v e), [])                     -- SETNX → 0
    | none =>                                                             -- SETNX → 1
      let (srv', ver) := s.srv.write k v e
      some ({ s with srv := srv', watch := touch s.watch [k] }.setPc t (.done (.okVer ver)), [.lin t])
  | some (.create2 k v e) =>
    match s.srv.live s.now k with
    | some r => some (s.setPc t (.done (.errExist (some r.ver))), [.lin t])  -- GET → record
    | none => some (s.setPc t (.create1 k v e), [])                       -- GET → nil: the key is free again
  | some (.get k) => some (s.setPc t (.done (s.srv.step s.now (.get k)).2), [.lin t])
  | some (.getMany ks) => some (s.setPc t (.done (s.srv.step s.now (.getMany ks)).2), [.lin t])
  | some (.put k v e) =>
    let (srv', ver) := s.srv.write k v e
    some ({ s with srv := srv', watch := touch s.watch [k] }.setPc t (.done (.okVer ver)), [.lin t])
  | some (.putMany rs) =>
    let srv' := (s.srv.step s.now (.putMany (rs.map fun r => (r.1, r.2, none)))).1
    some ({ s with srv := srv', watch := touch s.watch (rs.map (fun (r : String × String) => r.1)) }.setPc t (.done .ok), [.lin t])
  | some (.putLoop ((k, v, e) :: rest)) =>                                -- one SET of the loop = one Put
    let (srv', ver) := s.srv.write k v e
    some ({ s with srv := srv', watch := touch s.watch [k] }.setPc t (loopNext rest),
          [.inv t (.op (.put k v e)), .lin t, .ret t (.okVer ver)])
  | some (.del k) =>
    match s.srv.live s.now k with
    | none => some (s.setPc t (.done .errNotExist), [.lin t])             -- DEL → 0
    | some _ =>                                                           -- DEL → 1
      some ({ s with srv := { s.srv with store := s.srv.store.erase k }, watch := touch s.watch [k] }.setPc t (.done .ok), [.lin t])
  | some (.casWatch k ver v e) =>
    some ({ s with watch := s.watch.set t (some (k, false)) }.setPc t (.casGet k ver v e), [])
  | some (.casGet k ver v e) =>
    match s.srv.live s.now k with
    | none => some ({ s with watch := s.watch.set t none }.setPc t (.done .errNotExist), [.lin t])
    | some r =>
      if r.ver ≠ ver then some ({ s with watch := s.watch.set t none }.setPc t (.done .errConflict), [.lin t])
      else some (s.setPc t (.casExec k ver v e), [])
  | some (.casExec k ver v e) =>
    match s.watch[t]? with
    | some (some (_, false)) =>                                           -- EXEC applied
      let (srv', nv) := s.srv.write k v e
      some ({ s with srv := srv', watch := (touch s.watch [k]).set t none }.setPc t (.done (.okVer nv)), [.lin t])
    | _ =>                                                                -- EXEC → nil (TxFailedErr): start over
      some ({ s with watch := s.watch.set t none }.setPc t (.casWatch k ver v e), [])
  | _ => none

/-- the `Lin` events of a call: the invocation — except on the loop path of PutMany, whose SETs are
reported as Puts one by one -/
def callEvs (t : Nat) (op : Op) : Pc → List (Lin.Ev LOp Out)
  | .putLoop _ => []
  | _ => [.inv t (.op op)]

def step (s : St) : Ev → Option (St × List (Lin.Ev LOp Out))
  | .call t op =>
    match s.pc[t]?, entry op with
    | some .idle, some p => some (s.setPc t p, callEvs t op p)
    | _, _ => none
  | .cmd t => cmdStep s t
  | .ret t r =>
    match s.pc[t]? with
    | some (.done r') => if r = r' then some (s.setPc t .idle, [.ret t r]) else none
    | some .loopDone => if r = .ok then some (s.setPc t .idle, []) else none
    | _ => none
  | .tick d =>
    if s.pc.any tickBlocked then none
    else some ({ s with now := s.now + d }, [.inv s.pc.length (.tick d), .lin s.pc.length, .ret s.pc.length .ok])

/-- run a list of events; also yields the Lin events of the run -/
def runL (s : St) : List Ev → Option (St × List (Lin.Ev LOp Out))
  | [] => some (s, [])
  | e :: es => match step s e with
    | none => none
    | some (s', l) => (runL s' es).map fun (s'', ls) => (s'', l ++ ls)

/-- the sequential object the concurrent runs are compared with: the KV contract together with the
time at which it is read -/
def obj : Lin.Obj (Spec × Nat) LOp Out :=
  { step := fun (s, now) i => match i with
      | .op o => let (s', r) := s.step now o; ((s', now), r)
      | .tick d => ((s, now + d), .ok) }

end RedisConc
