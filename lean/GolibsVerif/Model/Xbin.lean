/-
I-model of xbinary/xbinary.go (properties C15, C16).

Bytes are `Nat`s (< 256 by the well-formedness predicate `BytesWF`), Go's `uint`/`uint64` are
`Nat`s < 2^64 with the truncation of the shift made explicit, Go's `int` is `Int` with explicit
two's-complement conversion (`toInt64`) and wrap-around (`wrap64`).  Slice expressions are checked:
`slice` returns `none` (= run-time panic) unless `0 ≤ lo ≤ hi ≤ len`.
The size predictor `WritableUintSize` is NOT written here: it is regenerated from the Go source
into `Generated/XbinSize.lean` on every run and used by the Props files and the driver.
-/
namespace Xbin

abbrev Bytes := List Nat

def BytesWF (b : Bytes) : Prop := ∀ x ∈ b, x < 256

inductive Res (α : Type) where
  | ok (a : α) | err
deriving Repr, DecidableEq

def two64 : Nat := 2 ^ 64

/-- Go: loop of `MarshalUint(v, buf)`; `rem` = `len(buf) - idx` (the loop ends with an error when
the buffer is used up, so recursion on the remaining space is exactly Go's termination argument).
Returns the bytes written to `buf[0:idx+1]`. -/
def marshalUintGo : (rem : Nat) → (v : Nat) → (acc : Bytes) → Res Bytes
  | 0, _, _ => .err
  | rem + 1, v, acc =>
    if v > 127 then marshalUintGo rem (v >>> 7) (acc ++ [128 ||| (v &&& 127)])
    else .ok (acc ++ [v])

/-- Go: `MarshalUint(v, buf)` with `len(buf) = n` -/
def marshalUint (v n : Nat) : Res Bytes := marshalUintGo n v []

/-- Go: loop of `UnmarshalUint(buf)`; the argument list is `buf[idx:]`. Returns (consumed, value). -/
def unmarshalUintGo : Bytes → (idx shft res : Nat) → Res (Nat × Nat)
  | [], _, _, _ => .err
  | b :: rest, idx, shft, res =>
    let res' := res ||| (((b &&& 127) <<< shft) % two64)
    if b ≤ 127 then .ok (idx + 1, res') else unmarshalUintGo rest (idx + 1) (shft + 7) res'

def unmarshalUint (buf : Bytes) : Res (Nat × Nat) := unmarshalUintGo buf 0 0 0

/-- big-endian fixed width, `k` bytes, most significant first (encoding/binary.BigEndian.PutUintXX) -/
def putBE : (k : Nat) → (v : Nat) → Bytes
  | 0, _ => []
  | k + 1, v => (v >>> (8 * k)) % 256 :: putBE k v

def getBE (b : Bytes) : Nat := b.foldl (fun acc x => acc * 256 + x) 0

/-- Go: `MarshalByte/Uint16/Uint32/Uint64(v, buf)` with `len(buf) = n`, width `k` bytes -/
def marshalFixed (k v n : Nat) : Res Bytes := if n < k then .err else .ok (putBE k v)

/-- Go: `UnmarshalByte/Uint16/Uint32/Uint64(buf)`, width `k`; returns (consumed, value) -/
def unmarshalFixed (k : Nat) (buf : Bytes) : Res (Nat × Nat) :=
  if buf.length < k then .err else .ok (k, getBE (buf.take k))

/-- Go: `MarshalBytes(v, buf)` with `len(buf) = n` -/
def marshalBytes (data : Bytes) (n : Nat) : Res Bytes :=
  match marshalUint data.length n with
  | .err => .err
  | .ok pre => if n - pre.length < data.length then .err else .ok (pre ++ data)

/-- two's-complement reading of a uint64 as Go `int` -/
def toInt64 (u : Nat) : Int := if u < 2 ^ 63 then (u : Int) else (u : Int) - (2 : Int) ^ 64

/-- wrap-around of Go `int` arithmetic -/
def wrap64 (x : Int) : Int := (x + (2 : Int) ^ 63) % (2 : Int) ^ 64 - (2 : Int) ^ 63

/-- Go slice expression `buf[lo:hi]` (cap = len); `none` = panic -/
def slice (buf : Bytes) (lo hi : Int) : Option Bytes :=
  if 0 ≤ lo ∧ lo ≤ hi ∧ hi ≤ (buf.length : Int) then some ((buf.drop lo.toNat).take (hi - lo).toNat) else none

/-- result of an Unmarshal call: (n, data, error?) or a run-time panic -/
inductive URes where
  | ret (n : Nat) (data : Bytes) (isErr : Bool)
  | panic
deriving Repr, DecidableEq

/-- Go: `UnmarshalBytes(buf, newBuf)` (the copy made for newBuf=true has the same value) -/
def unmarshalBytes (buf : Bytes) : URes :=
  match unmarshalUint buf with
  | .err => .ret 0 [] true
  | .ok (idx, uln) =>
    let ln := toInt64 uln
    if ln < 0 ∨ (buf.length : Int) - (idx : Int) < ln then .ret 0 [] true
    else match slice buf idx (idx + ln) with
      | none => .panic
      | some r => .ret (idx + ln).toNat r false

/-- the body-length test as it was before the repair (`len(buf) < ln+idx` in wrapping int arithmetic) -/
def unmarshalBytesLegacy (buf : Bytes) : URes :=
  match unmarshalUint buf with
  | .err => .ret 0 [] true
  | .ok (idx, uln) =>
    let ln := toInt64 uln
    if (buf.length : Int) < wrap64 (ln + idx) then .ret 0 [] true
    else match slice buf idx (wrap64 (idx + ln)) with
      | none => .panic
      | some r => .ret (wrap64 (idx + ln)).toNat r false

/-! ### items, used for "any concatenation of encoded items decodes back" -/

inductive Kind where | byte | u16 | u32 | u64 | uint | bytes
deriving Repr, DecidableEq

inductive Item where
  | byte (v : Nat) | u16 (v : Nat) | u32 (v : Nat) | u64 (v : Nat) | uint (v : Nat) | bytes (d : Bytes)
deriving Repr, DecidableEq

def Item.kind : Item → Kind
  | .byte _ => .byte | .u16 _ => .u16 | .u32 _ => .u32 | .u64 _ => .u64 | .uint _ => .uint | .bytes _ => .bytes

def Item.WF : Item → Prop
  | .byte v => v < 2 ^ 8 | .u16 v => v < 2 ^ 16 | .u32 v => v < 2 ^ 32 | .u64 v => v < 2 ^ 64
  | .uint v => v < 2 ^ 64 | .bytes d => BytesWF d ∧ d.length < 2 ^ 63

/-- Go: the Marshal function of the item's kind into a buffer of length `n` -/
def marshalItem (it : Item) (n : Nat) : Res Bytes :=
  match it with
  | .byte v => marshalFixed 1 v n
  | .u16 v => marshalFixed 2 v n
  | .u32 v => marshalFixed 4 v n
  | .u64 v => marshalFixed 8 v n
  | .uint v => marshalUint v n
  | .bytes d => marshalBytes d n

/-- Go: the Unmarshal function of kind `k`: (consumed, item, err?) or panic -/
inductive DRes where
  | ok (n : Nat) (it : Item) | err (n : Nat) | panic
deriving Repr, DecidableEq

def unmarshalItem (k : Kind) (buf : Bytes) : DRes :=
  let fixed (w : Nat) (mk : Nat → Item) : DRes :=
    match unmarshalFixed w buf with
    | .ok (n, v) => .ok n (mk v)
    | .err => .err 0
  match k with
  | .byte => fixed 1 .byte
  | .u16 => fixed 2 .u16
  | .u32 => fixed 4 .u32
  | .u64 => fixed 8 .u64
  | .uint => match unmarshalUint buf with
    | .ok (n, v) => .ok n (.uint v)
    | .err => .err 0
  | .bytes => match unmarshalBytes buf with
    | .ret n d false => .ok n (.bytes d)
    | .ret n _ true => .err n
    | .panic => .panic

/-- decode a stream of items of the given kinds; `none` on any error/panic -/
def decodeAll : List Kind → Bytes → Option (List Item × Bytes)
  | [], buf => some ([], buf)
  | k :: ks, buf =>
    match unmarshalItem k buf with
    | .ok n it => match decodeAll ks (buf.drop n) with
      | some (its, rest) => some (it :: its, rest)
      | none => none
    | _ => none

/-- Go: ObjectsWriter.WriteX — encodes through the 10-byte scratch buffer and writes the prefix -/
def writerItem (it : Item) : Bytes :=
  match it with
  | .byte v => putBE 1 v
  | .u16 v => putBE 2 v
  | .u32 v => putBE 4 v
  | .u64 v => putBE 8 v
  | .uint v => match marshalUint v 10 with | .ok bs => bs | .err => []
  | .bytes d => (match marshalUint d.length 10 with | .ok bs => bs | .err => []) ++ d

end Xbin
