/-
`LeaseTimed` — the lease arithmetic of kvs/distlock/kvlock.go with an explicit clock (property C05,
timing part).  One holder; time in milliseconds.

  * the record written at an acquisition or by a successful renewal at time t carries ExpiresAt = t + L
    (`fresh = true`; with `fresh = false` the deadline of the ACQUISITION is computed from the time the call
    was entered, `wait` ms earlier — the behaviour of a code variant that builds the record before waiting);
  * after a success at time t the next renewal attempt is due at t + L / renewDiv;
  * after a transient failure at time t the next attempt is due at t + L / retryDiv;
  * an attempt that is due is made at most δ ms late (timer + scheduling + storage latency): time cannot pass
    `due + δ` without the attempt having been made (urgency, expressed as the guard of `tick`);
  * at most `m` attempts in a row fail transiently.
-/
namespace LeaseTimed

structure Cfg where
  L : Nat
  renewDiv : Nat
  retryDiv : Nat
  δ : Nat
  fresh : Bool
deriving DecidableEq, Repr

structure St where
  now : Nat
  exp : Nat        -- ExpiresAt of the lock record
  due : Nat        -- when the next renewal attempt is due
  fails : Nat      -- transient failures since the last success
deriving DecidableEq, Repr

/-- state right after an acquisition that entered the call at time `t0` and obtained the lock `wait` ms later -/
def acquired (c : Cfg) (t0 wait : Nat) : St :=
  { now := t0 + wait, exp := (if c.fresh then t0 + wait else t0) + c.L, due := t0 + wait + c.L / c.renewDiv, fails := 0 }

inductive Step (c : Cfg) (m : Nat) : St → St → Prop
  | tick (s : St) (h : s.now < s.due + c.δ) : Step c m s { s with now := s.now + 1 }
  | renewOk (s : St) (h : s.due ≤ s.now) :
      Step c m s { s with exp := s.now + c.L, due := s.now + c.L / c.renewDiv, fails := 0 }
  | renewFail (s : St) (h : s.due ≤ s.now) (hf : s.fails < m) :
      Step c m s { s with due := s.now + c.L / c.retryDiv, fails := s.fails + 1 }

inductive Reach (c : Cfg) (m t0 wait : Nat) : St → Prop
  | init : Reach c m t0 wait (acquired c t0 wait)
  | step {s t : St} : Reach c m t0 wait s → Step c m s t → Reach c m t0 wait t

/-- the timing margin: from one success to the next at most L/renewDiv + (m+1)·δ + m·(L/retryDiv) ms pass -/
def Margin (c : Cfg) (m : Nat) : Prop :=
  c.L / c.renewDiv + (m + 1) * c.δ + m * (c.L / c.retryDiv) < c.L

end LeaseTimed
