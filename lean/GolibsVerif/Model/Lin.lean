/-
Generic linearizability argument for objects whose every operation takes effect in ONE atomic step
between its invocation and its response (a mutex-protected critical section, a single Redis
command, a successful EXEC, …).  Used by C02, C09, C12, C17.

A concurrent execution is a list of events: `inv t i` (thread t invokes input i), `lin t` (the
operation's atomic step: the sequential object is stepped and the result fixed), `ret t r` (the
response carrying that result).  Operations are identified by the position of their `inv` event.
-/
namespace Lin

structure Obj (σ ι ρ : Type) where
  step : σ → ι → σ × ρ

inductive Ev (ι ρ : Type) where
  | inv (t : Nat) (i : ι)
  | lin (t : Nat)
  | ret (t : Nat) (r : ρ)

inductive TSt (ι ρ : Type) where
  | idle
  | pending (id : Nat) (i : ι)
  | linearized (id : Nat) (i : ι) (r : ρ)

structure Sys (σ ι ρ : Type) where
  st : σ
  th : Nat → TSt ι ρ
  pos : Nat                               -- number of events consumed so far
  order : List (Nat × ι × ρ)              -- linearized operations in the order of their atomic steps: (id, input, result)
  retPos : List (Nat × Nat)               -- (id, position of the ret event) of completed operations

def Sys.init {σ ι ρ : Type} (s0 : σ) : Sys σ ι ρ :=
  { st := s0, th := fun _ => .idle, pos := 0, order := [], retPos := [] }

def setTh {ι ρ : Type} (f : Nat → TSt ι ρ) (t : Nat) (v : TSt ι ρ) : Nat → TSt ι ρ :=
  fun x => if x = t then v else f x

/-- one event; `none` = not a well-formed execution of an atomic-step object -/
def Sys.ev {σ ι ρ : Type} [DecidableEq ρ] (o : Obj σ ι ρ) (s : Sys σ ι ρ) : Ev ι ρ → Option (Sys σ ι ρ)
  | .inv t i => match s.th t with
    | .idle => some { s with th := setTh s.th t (.pending s.pos i), pos := s.pos + 1 }
    | _ => none
  | .lin t => match s.th t with
    | .pending id i =>
      let (st', r) := o.step s.st i
      some { s with st := st', th := setTh s.th t (.linearized id i r), pos := s.pos + 1, order := s.order ++ [(id, i, r)] }
    | _ => none
  | .ret t r => match s.th t with
    | .linearized id _ r' =>
      if r = r' then some { s with th := setTh s.th t .idle, pos := s.pos + 1, retPos := s.retPos ++ [(id, s.pos)] }
      else none
    | _ => none

def Sys.run {σ ι ρ : Type} [DecidableEq ρ] (o : Obj σ ι ρ) (s : Sys σ ι ρ) : List (Ev ι ρ) → Option (Sys σ ι ρ)
  | [] => some s
  | e :: es => (s.ev o e).bind fun s' => s'.run o es

/-- sequential run of the object over a list of inputs -/
def seqRun {σ ι ρ : Type} (o : Obj σ ι ρ) (s : σ) : List ι → σ × List ρ
  | [] => (s, [])
  | i :: is => let (s', r) := o.step s i; let (s'', rs) := seqRun o s' is; (s'', r :: rs)

end Lin
