/-
I-model and Spec of container/ringbuffer.go (property C14).

`RB` mirrors the Go struct: `buf` has length size+1, `r`/`w` are the read/write indices.
Every method body is transcribed statement by statement; the two `for` loops (ReadN, Skip)
become recursion on a fuel argument and report `none` when the fuel runs out while the loop
condition still holds (the theorems show that never happens with the fuel the step function uses).
Elements are `Nat`, Go's zero value `*new(V)` is `0`.
-/
namespace Ring

structure RB where
  buf : List Nat
  r : Nat
  w : Nat
deriving Repr, DecidableEq

def RB.new (size : Nat) : RB := { buf := List.replicate (size + 1) 0, r := 0, w := 0 }

def RB.n (b : RB) : Nat := b.buf.length

/-- Go: `Len()` -/
def RB.len (b : RB) : Nat :=
  if b.r ≤ b.w then b.w - b.r else b.n - (b.r - b.w)

/-- Go: `Cap()` -/
def RB.cap (b : RB) : Nat := b.n - 1

/-- Go: `Write(v)`; `none` = ErrExhausted -/
def RB.write (b : RB) (v : Nat) : Option RB :=
  if b.len = b.cap then none
  else
    let w' := b.w + 1
    some { b with buf := b.buf.set b.w v, w := if w' = b.n then 0 else w' }

/-- Go: `Read()`; `none` = io.EOF -/
def RB.read (b : RB) : Option (Nat × RB) :=
  if b.len = 0 then none
  else
    let v := b.buf.getD b.r 0
    let r' := b.r + 1
    some (v, { b with buf := b.buf.set b.r 0, r := if r' = b.n then 0 else r' })

/-- `SliceFill(buf[lo:lo+cnt], 0)` -/
def fillZero (buf : List Nat) (lo cnt : Nat) : List Nat :=
  match cnt with
  | 0 => buf
  | c + 1 => fillZero (buf.set lo 0) (lo + 1) c

/-- Go: loop of `ReadN(dst)` with `len(dst) = k`; returns the values copied (in order) and the
new state, or `none` if the fuel is exhausted with the loop condition still true. -/
def RB.readNLoop : Nat → RB → Nat → List Nat → Option (List Nat × RB)
  | fuel, b, k, acc =>
    if k > 0 ∧ b.len > 0 then
      match fuel with
      | 0 => none
      | fuel + 1 =>
        let endIdx := if b.r < b.w then b.w else b.n
        let cnt := min k (endIdx - b.r)
        let got := (b.buf.drop b.r).take cnt
        let r' := b.r + cnt
        let b' : RB := { b with buf := fillZero b.buf b.r cnt, r := if r' = b.n then 0 else r' }
        RB.readNLoop fuel b' (k - cnt) (acc ++ got)
    else some (acc, b)

/-- Go: loop of `Skip(n)`; returns `res` and the new state. -/
def RB.skipLoop : Nat → RB → Int → Nat → Option (Nat × RB)
  | fuel, b, n, res =>
    if n > 0 ∧ b.len > 0 then
      match fuel with
      | 0 => none
      | fuel + 1 =>
        let n1 : Nat := if n > (b.len : Int) then b.len else n.toNat
        let endIdx0 := b.r + n1
        let endIdx := if endIdx0 ≥ b.n then b.n else endIdx0
        let cnt := endIdx - b.r
        let b' : RB := { b with buf := fillZero b.buf b.r cnt, r := if endIdx = b.n then 0 else endIdx }
        RB.skipLoop fuel b' ((n1 : Int) - cnt) (res + cnt)
    else some (res, b)

/-- fuel handed to the two loops by `step` (two segments at most, +1 for the final test) -/
def loopFuel : Nat := 3

/-- Go: `At(idx)`; `none` = panic -/
def RB.at (b : RB) (idx : Int) : Option Nat :=
  if idx < 0 ∨ idx ≥ (b.len : Int) then none
  else
    let i := idx.toNat
    let d := if b.r + i ≥ b.n then b.n else 0
    some (b.buf.getD (b.r + i - d) 0)

inductive Op where
  | write (v : Nat) | read | readN (k : Nat) | skip (n : Int) | at (i : Int) | clear | len | cap
deriving Repr, DecidableEq

inductive Out where
  | ok | errExhausted | eof | val (v : Nat) | vals (l : List Nat) | num (n : Nat) | panic | diverge
deriving Repr, DecidableEq

/-- one API call on the I-model -/
def RB.step (b : RB) : Op → RB × Out
  | .write v => match b.write v with
      | some b' => (b', .ok)
      | none => (b, .errExhausted)
  | .read => match b.read with
      | some (v, b') => (b', .val v)
      | none => (b, .eof)
  | .readN k => match b.readNLoop loopFuel k [] with
      | some (l, b') => (b', .vals l)
      | none => (b, .diverge)
  | .skip n => match b.skipLoop loopFuel n 0 with
      | some (c, b') => (b', .num c)
      | none => (b, .diverge)
  | .at i => match b.at i with
      | some v => (b, .val v)
      | none => (b, .panic)
  | .clear => match b.skipLoop loopFuel b.len 0 with
      | some (_, b') => (b', .ok)
      | none => (b, .diverge)
  | .len => (b, .num b.len)
  | .cap => (b, .num b.cap)

/-! ### Spec: bounded FIFO queue -/

structure Q where
  cap : Nat
  items : List Nat   -- oldest first
deriving Repr, DecidableEq

def Q.step (q : Q) : Op → Q × Out
  | .write v => if q.items.length = q.cap then (q, .errExhausted) else ({ q with items := q.items ++ [v] }, .ok)
  | .read => match q.items with
      | [] => (q, .eof)
      | x :: xs => ({ q with items := xs }, .val x)
  | .readN k => ({ q with items := q.items.drop k }, .vals (q.items.take k))
  | .skip n => let m := min n.toNat q.items.length
      ({ q with items := q.items.drop m }, .num m)
  | .at i => if i < 0 ∨ i ≥ (q.items.length : Int) then (q, .panic) else (q, .val (q.items.getD i.toNat 0))
  | .clear => ({ q with items := [] }, .ok)
  | .len => (q, .num q.items.length)
  | .cap => (q, .num q.cap)

/-- abstraction: the live window, oldest first -/
def RB.toList (b : RB) : List Nat :=
  (List.range b.len).map fun i => b.buf.getD ((b.r + i) % b.n) 0

def RB.abs (b : RB) : Q := { cap := b.cap, items := b.toList }

/-- well-formedness of the representation -/
def RB.WF (b : RB) : Prop := 0 < b.n ∧ b.r < b.n ∧ b.w < b.n

/-- index `i` lies in the live window `[r, r+len)` modulo `n` -/
def RB.live (b : RB) (i : Nat) : Prop := ∃ j, j < b.len ∧ (b.r + j) % b.n = i

/-- every slot outside the live window holds Go's zero value -/
def RB.Clean (b : RB) : Prop := ∀ i, i < b.n → ¬ b.live i → b.buf.getD i 0 = 0

def runI (b : RB) : List Op → RB × List Out
  | [] => (b, [])
  | op :: ops => let (b', o) := b.step op; let (b'', os) := runI b' ops; (b'', o :: os)

def runS (q : Q) : List Op → Q × List Out
  | [] => (q, [])
  | op :: ops => let (q', o) := q.step op; let (q'', os) := runS q' ops; (q'', o :: os)

end Ring
