import GolibsVerif.Model.Kv
/-
`RedisWait` — small-step model of `WaitForVersionChange` of kvs/redis/redis.go (property C07, Redis
backend).  The Redis backend has no notification channel and no waiter table: the call POLLS.

    func (c *client) WaitForVersionChange(ctx, key, ver) error {
        for {
            r, err := c.Get(ctx, key)        // ONE Redis GET; with a done context go-redis fails the
                                             // command with ctx.Err() WITHOUT reaching the server
            if err == ErrNotExist { return err } ; if err != nil { return err }
            if r.Version != ver { return nil }
            select { case <-ctx.Done(): return ctx.Err() ; case <-timer(2..100 ms): }
        }
    }

Any number of waiters (`0 … n-1`) poll ONE server; any number of other clients write, delete and read
in between (`Ev.env op`: one complete operation of another client, atomic on the server — the
command-level interleaving of those operations is the subject of `RedisConc`, not of this model); the
clock advances (`Ev.tick d`); contexts are cancelled at any time (`Ev.cancel i`).

Server = `Kv.Spec` read at the server time `St.now`: a record whose expiry lies before `now` IS absent
(`Spec.live`).  A waiter owns NOTHING on the server: its whole state is its program counter and its
context flag.

    idle --start--> polling k ver --poll--> done r                      --ret--> idle
                                  --poll--> sleeping k ver --poll-->    …          (timer ran out: next GET)
                                                           --wakeCtx--> done ctxErr   (select took ctx.Done)

The length of a sleep (2, 4, …, 64, 2, … ms) is NOT modelled: a `poll` of a sleeping waiter may happen
after any number of ticks (timers only guarantee "not earlier"; nothing proved here depends on an
upper bound).  `start` requires the given version to be one that was handed out before, or 0
("never issued": versions start at 1) — a caller cannot hold a version of the future.  A call with a
context that is done already is `start` followed by `cancel`.

`Kv.Out` has no value for "the context's error" (the Kv driver answers such calls with the text
`ctxErr` without consulting the model), so the waiter's result has a type of its own, `Res`.

`step` is a deterministic partial function of (state, event): `none` = the event is not enabled.
-/
namespace RedisWait
open Kv

/-- what `WaitForVersionChange` returns: nil, `errors.ErrNotExist`, or `ctx.Err()` -/
inductive Res where
  | waitNil | errNotExist | ctxErr
deriving DecidableEq, Repr

inductive WPc where
  | idle
  | polling (k : String) (ver : Nat)       -- next: the GET
  | sleeping (k : String) (ver : Nat)      -- the GET saw the same version; in the select
  | done (r : Res)                         -- result fixed; the call is about to return
deriving DecidableEq, Repr

structure St where
  srv : Spec
  now : Nat                                -- server time, milliseconds
  w : List WPc                             -- one per waiter
  ctxDone : List Bool                      -- per waiter: the context of its current call is done
deriving DecidableEq, Repr

def St.init (n : Nat) : St :=
  { srv := Spec.new, now := 0, w := List.replicate n .idle, ctxDone := List.replicate n false }

inductive Ev where
  | env (op : Op)                          -- a complete operation of some other client
  | tick (d : Nat)
  | start (i : Nat) (k : String) (ver : Nat)
  | poll (i : Nat)                         -- waiter i's GET is executed
  | wakeCtx (i : Nat)                      -- waiter i's select takes ctx.Done
  | cancel (i : Nat)                       -- the context of waiter i is cancelled
  | ret (i : Nat) (r : Res)
deriving DecidableEq, Repr

/-- operations of other clients (ListKeys reads only and is not part of C07; `wait` is what this
model refines) -/
def envOk : Op → Bool
  | .list _ => false
  | .wait _ _ => false
  | _ => true

/-- the waiter an event belongs to (`none`: an event of the environment) -/
def Ev.waiter : Ev → Option Nat
  | .env _ => none
  | .tick _ => none
  | .start i _ _ => some i
  | .poll i => some i
  | .wakeCtx i => some i
  | .cancel i => some i
  | .ret i _ => some i

/-- where one GET of waiter i for `(k, ver)` leads: the context's error if the context is done (the
command never reaches the server); otherwise decided by the record visible NOW -/
def verdict (s : St) (i : Nat) (k : String) (ver : Nat) : WPc :=
  if s.ctxDone[i]? = some true then .done .ctxErr
  else match s.srv.live s.now k with
    | none => .done .errNotExist
    | some r => if r.ver ≠ ver then .done .waitNil else .sleeping k ver

def step (s : St) : Ev → Option St
  | .env op => if envOk op then some { s with srv := (s.srv.step s.now op).1 } else none
  | .tick d => some { s with now := s.now + d }
  | .start i k ver =>
    match s.w[i]? with
    | some .idle =>
      if ver < s.srv.nextVer then
        some { s with w := s.w.set i (.polling k ver), ctxDone := s.ctxDone.set i false }   -- a new call, a new context
      else none
    | _ => none
  | .poll i =>
    match s.w[i]? with
    | some (.polling k ver) => some { s with w := s.w.set i (verdict s i k ver) }
    | some (.sleeping k ver) => some { s with w := s.w.set i (verdict s i k ver) }
    | _ => none
  | .wakeCtx i =>
    match s.w[i]? with
    | some (.sleeping _ _) =>
      if s.ctxDone[i]? = some true then some { s with w := s.w.set i (.done .ctxErr) } else none
    | _ => none
  | .cancel i =>
    if i < s.ctxDone.length then some { s with ctxDone := s.ctxDone.set i true } else none
  | .ret i r =>
    match s.w[i]? with
    | some (.done r') => if r' = r then some { s with w := s.w.set i .idle } else none
    | _ => none

def run (s : St) : List Ev → Option St
  | [] => some s
  | e :: es => (step s e).bind fun s' => run s' es

end RedisWait
