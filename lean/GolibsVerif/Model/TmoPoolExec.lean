import GolibsVerif.Model.TmoPool
/-
Executable counterpart of `Tmo.Pool.Step` for the trace-refinement driver of C13.
Props/C13Exec.lean proves every result is a `Step` (sequence).
-/
namespace Tmo.Pool.Exec
open Tmo.Pool

def xAdd (c : Cfg) (s : St) (fireT : Nat) : St :=
  let s1 : St := { s with heap := s.heap ++ [(s.nextId, fireT)], nextId := s.nextId + 1 }
  if s.watchers = 0 then { s1 with watchers := 1, threads := s1.threads ++ [.top none 0] }
  else notify c s1

def xCancel (c : Cfg) (s : St) (id : Nat) : Option St :=
  if id ∈ s.heap.map (·.1) then
    some (
      let s1 : St := { s with heap := s.heap.filter (·.1 != id) }
      if s.watchers > 0 then notify c s1 else s1)
  else none

def xSection (c : Cfg) (s : St) (i : Nat) : Option St :=
  match s.threads[i]? with
  | some (.top f mis) =>
    some (
      let mis' := if f.isSome then 0 else mis + 1
      let s0 : St := match f with | some id => { s with started := s.started ++ [id] } | none => s
      match headOf s0.heap with
      | none =>
        if mis' > 1 then setT { s0 with watchers := s0.watchers - 1 } i .exited
        else setT s0 i (.sleeping (s0.now + c.idle) mis' true)
      | some (id, fireT) =>
        if s0.now ≥ fireT then
          let heap' := s0.heap.filter (·.1 != id)
          let s1 : St := { s0 with heap := heap' }
          let spawn := match headOf heap' with
            | some (_, t2) => decide (s0.now > t2) && decide (s0.watchers < c.maxWorkers)
            | none => false
          if spawn then setT { s1 with watchers := s1.watchers + 1, threads := s1.threads ++ [.top none 0] } i (.top (some id) mis')
          else setT s1 i (.top (some id) mis')
        else if s0.watchers > 1 then
          if mis' > 1 then setT { s0 with watchers := s0.watchers - 1 } i .exited
          else setT s0 i (.sleeping (s0.now + min (fireT - s0.now) c.idle) mis' true)
        else setT s0 i (.sleeping fireT mis' false))
  | _ => none

def xTimerWake (s : St) (i : Nat) : Option St :=
  match s.threads[i]? with
  | some (.sleeping d mis _) => if d ≤ s.now then some (setT s i (.top none mis)) else none
  | _ => none

def xTokenWake (s : St) (i : Nat) : Option St :=
  match s.threads[i]? with
  | some (.sleeping _ _ _) => if 0 < s.tokens then some (setT { s with tokens := s.tokens - 1 } i (.top none 0)) else none
  | _ => none

def xTicks : Nat → St → St
  | 0, s => s
  | n + 1, s => xTicks n { s with now := s.now + 1 }

inductive Event where
  | add (fireT : Nat) | cancel (id : Nat) | ticks (n : Nat)
  | timerWake (i : Nat) | tokenWake (i : Nat) | sec (i : Nat)
deriving DecidableEq, Repr

def handle (c : Cfg) (s : St) : Event → Option St
  | .add t => some (xAdd c s t)
  | .cancel id => xCancel c s id
  | .ticks n => some (xTicks n s)
  | .timerWake i => xTimerWake s i
  | .tokenWake i => xTokenWake s i
  | .sec i => xSection c s i

def replay (c : Cfg) (s : St) : List Event → Option St
  | [] => some s
  | e :: es => (handle c s e).bind fun s' => replay c s' es

inductive Steps (c : Cfg) : St → St → Prop
  | refl (s) : Steps c s s
  | cons {s t u} : Step c s t → Steps c t u → Steps c s u

end Tmo.Pool.Exec
