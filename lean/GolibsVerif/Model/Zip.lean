/-
Model of files.ZipFolder / files.UnzipToFolder (property C20): the name arithmetic and the
containment logic.  Paths and entry names are lists of segments (the driver splits strings at '/'); `cleanAbs` is the lexical cleaning that
path/filepath.Clean/Join perform on an absolute path (validated against path/filepath by the
correspondence run).  The file system is a list of regular files and a list of directories; the zip
codec itself and the real file system are exercised, not modelled.
`unzip` has the repaired containment test; `unzipLegacy` is the pre-repair behaviour.
-/
namespace Zip

abbrev Path := List String        -- segments of a cleaned absolute path (no "", ".", "..")

/-- lexical cleaning of the segments of an absolute path (".." at the root stays at the root) -/
def cleanAbs (segs : List String) : Path :=
  segs.foldl (fun acc s =>
    if s = "" ∨ s = "." then acc
    else if s = ".." then acc.dropLast
    else acc ++ [s]) []

/-- Go: `filepath.Join(destDir, name)` for an absolute, clean destDir; `name` = the entry name split at '/' -/
def target (dest : Path) (name : List String) : Path := cleanAbs (dest ++ name)

def inside (dest t : Path) : Bool := dest.isPrefixOf t

structure FS where
  files : List (Path × String)      -- regular files with content
  dirs : List Path
deriving DecidableEq, Repr

def FS.empty : FS := { files := [], dirs := [] }

def FS.isFile (fs : FS) (p : Path) : Bool := fs.files.any (·.1 == p)
def FS.isDir (fs : FS) (p : Path) : Bool := fs.dirs.contains p

/-- all proper prefixes of p that are longer than `base` (the directories MkdirAll would create), plus p -/
def dirChain (base p : Path) : List Path :=
  ((List.range (p.length + 1)).filter (· > base.length)).map fun n => p.take n

/-- Go: `EnsureDirExists(d)` below `dest` (dest itself exists): fails if a component is a regular file -/
def FS.mkdirAll (fs : FS) (dest d : Path) : Option FS :=
  let chain := dirChain dest d
  if chain.any fs.isFile then none
  else some { fs with dirs := fs.dirs ++ chain.filter (fun x => !fs.dirs.contains x) }

/-- an archive entry; `name` is the entry name split at '/' ("a/b" = ["a","b"], "/a" = ["","a"], "a/" = ["a",""]) -/
structure Entry where
  name : List String
  content : String
deriving DecidableEq, Repr

/-- a directory entry: its name ends with '/' -/
def Entry.isDirEntry (e : Entry) : Bool := e.name.getLast? == some ""

inductive UErr where | escapes | ioError
deriving DecidableEq, Repr

/-- Go: one iteration of UnzipToFolder's loop (repaired).  Order as in the code: containment test,
`EnsureDirExists(Join(destDir, dir part of the name))`, then `os.Create(Join(destDir, name))`.
The file system reached is returned also when the entry fails (directories already made stay). -/
def unzipOne (dest : Path) (fs : FS) (e : Entry) : FS × Option UErr :=
  if e.isDirEntry then (fs, none) else
  let t := target dest e.name
  let dirT := target dest e.name.dropLast
  if !inside dest t then (fs, some .escapes) else
  -- EnsureDirExists starts with `os.Open(dir)`, which succeeds on ANY existing path — also on a regular
  -- file: nothing is created then, and it is `os.Create` that fails unless the target IS that file
  let made := if fs.isFile dirT then some fs else fs.mkdirAll dest dirT
  match made with
  | none => (fs, some .ioError)                            -- a proper path component is a regular file
  | some fs1 =>
    if t = dest ∨ fs1.isDir t then (fs1, some .ioError)    -- os.Create on a directory
    else if fs.isFile dirT && t != dirT then (fs1, some .ioError)   -- the parent of the target is a regular file
    else ({ fs1 with files := fs1.files.filter (·.1 != t) ++ [(t, e.content)] }, none)

/-- Go: `UnzipToFolder(zip, destDir)`: stops at the first error; returns the file system reached -/
def unzip (dest : Path) : FS → List Entry → FS × Option UErr
  | fs, [] => (fs, none)
  | fs, e :: es => match unzipOne dest fs e with
    | (fs', none) => unzip dest fs' es
    | (fs', some err) => (fs', some err)

/-- pre-repair: no containment test — the cleaned target is written wherever it points -/
def unzipOneLegacy (dest : Path) (fs : FS) (e : Entry) : FS × Option UErr :=
  if e.isDirEntry then (fs, none) else
  let t := target dest e.name
  let dirT := target dest e.name.dropLast
  match fs.mkdirAll [] dirT with
  | none => (fs, some .ioError)
  | some fs1 =>
    if fs1.isDir t then (fs1, some .ioError)
    else ({ fs1 with files := fs1.files.filter (·.1 != t) ++ [(t, e.content)] }, none)

/-! ### ZipFolder -/

structure TFile where
  rel : List String            -- path relative to the source directory, e.g. ["sub", "f.txt"]
  content : String
deriving DecidableEq, Repr

def validSeg (s : String) : Bool := s != "" && s != "." && s != ".." && !s.contains '/'

/-- a real directory tree: valid segments, distinct paths, no file is a proper prefix of another -/
def TreeWF (tree : List TFile) : Prop :=
  (∀ f ∈ tree, f.rel ≠ [] ∧ ∀ s ∈ f.rel, validSeg s = true) ∧
  (tree.map (·.rel)).Nodup ∧
  (∀ f ∈ tree, ∀ g ∈ tree, f.rel ≠ g.rel → ¬ f.rel.isPrefixOf g.rel = true)

/-- files selected by the filter and the recursive flag -/
def selected (tree : List TFile) (keep : List String → Bool) (recursive : Bool) : List TFile :=
  tree.filter fun f => keep f.rel && (recursive || f.rel.length == 1)

/-- Go: entry name = path relative to the source directory, with the leading separator kept -/
def entryName (rel : List String) : List String := "" :: rel

def zipFolder (tree : List TFile) (keep : List String → Bool) (recursive : Bool) : List Entry :=
  (selected tree keep recursive).map fun f => { name := entryName f.rel, content := f.content }

end Zip
