/-
I-model and Spec of container/lru (ecache.go, cache.go, expirable.go) for sequential use (C08).

The recency list is the insertion-ordered map of container/iterable, used here through its Spec
behaviour (an insertion-ordered list of live entries — justified by C10.map_refines_spec):
`items` = entries oldest first, each (inner key k, creator's public key pk, value v).
The create function is an oracle `cr pk n` (n = number of create calls made before this one):
`none` = creation failed.  `km` maps public keys to inner keys (identity for lru.Cache).
Every call reports the callbacks it made (`Ev`) as part of its output.
-/
namespace Lru

structure Entry where
  k : Nat
  pk : Nat
  v : Nat
deriving DecidableEq, Repr

inductive Ev where
  | create (pk : Nat) (res : Option Nat)     -- createNewF(pk) was called and returned res
  | delete (pk v : Nat)                      -- onDeleteF(pk, v) was called
deriving DecidableEq, Repr

structure Cfg where
  cap : Nat
  km : Nat → Nat
  cr : Nat → Nat → Option Nat
  expOf : Nat → Nat        -- expiry time carried by value v (ExpirableCache)

structure EC where
  items : List Entry       -- oldest first
  calls : Nat              -- create calls made so far
deriving DecidableEq, Repr

def EC.new : EC := { items := [], calls := 0 }

inductive Op where
  | getOrCreate (pk : Nat) | remove (pk : Nat) | clear
  | getOrCreateExp (now pk : Nat)            -- ExpirableCache.GetOrCreate at time `now`
deriving DecidableEq, Repr

inductive Res where
  | val (v : Nat) | err | b (x : Bool) | num (n : Nat)
deriving DecidableEq, Repr

def findK (items : List Entry) (k : Nat) : Option Entry := items.find? (·.k == k)
def eraseK (items : List Entry) (k : Nat) : List Entry := items.filter (·.k != k)

/-- Go: `ECache.GetOrCreate(pk)` (single caller: the in-flight table plays no role) -/
def EC.getOrCreate (c : Cfg) (s : EC) (pk : Nat) : EC × Res × List Ev :=
  let k := c.km pk
  match findK s.items k with
  | some e =>
    -- hit: `items.Remove(k); items.Add(k, res)`
    ({ s with items := eraseK s.items k ++ [e] }, .val e.v, [])
  | none =>
    let r := c.cr pk s.calls
    let s1 := { s with calls := s.calls + 1 }
    match r with
    | none => (s1, .err, [.create pk none])
    | some v =>
      let items := s1.items ++ [{ k := k, pk := pk, v := v }]
      if c.cap < items.length then
        -- `k, _ := items.First(); v, _ := items.Get(k); items.Remove(k); onDeleteF(v.pk, v.v)`
        match items with
        | [] => ({ s1 with items := items }, .val v, [.create pk (some v)])
        | f :: _ => ({ s1 with items := eraseK items f.k }, .val v, [.create pk (some v), .delete f.pk f.v])
      else ({ s1 with items := items }, .val v, [.create pk (some v)])

/-- Go: `ECache.Remove(pk)` -/
def EC.remove (c : Cfg) (s : EC) (pk : Nat) : EC × Res × List Ev :=
  let k := c.km pk
  match findK s.items k with
  | none => (s, .b false, [])
  | some e => ({ s with items := eraseK s.items k }, .b true, [.delete e.pk e.v])

/-- Go: `ECache.Clear()`: iterate from the oldest entry, removing each and calling the callback -/
def EC.clear (s : EC) : EC × Res × List Ev :=
  ({ s with items := [] }, .num s.items.length, s.items.map fun e => .delete e.pk e.v)

/-- Go: `ExpirableCache.GetOrCreate(k)` with `time.Now() = now` -/
def EC.getOrCreateExp (c : Cfg) (s : EC) (now pk : Nat) : EC × Res × List Ev :=
  match s.getOrCreate c pk with
  | (s1, .val v, ev1) =>
    if c.expOf v < now then
      let (s2, _, ev2) := s1.remove c pk
      let (s3, r3, ev3) := s2.getOrCreate c pk
      (s3, r3, ev1 ++ ev2 ++ ev3)
    else (s1, .val v, ev1)
  | r => r

def EC.step (c : Cfg) (s : EC) : Op → EC × Res × List Ev
  | .getOrCreate pk => s.getOrCreate c pk
  | .remove pk => s.remove c pk
  | .clear => s.clear
  | .getOrCreateExp now pk => s.getOrCreateExp c now pk

/-! ### Spec: reference LRU — an unordered set of residents with last-use stamps -/

structure REntry where
  k : Nat
  pk : Nat
  v : Nat
  lastUse : Nat
deriving DecidableEq, Repr

structure Ref where
  res : List REntry       -- residents, in no meaningful order
  clock : Nat
  calls : Nat
deriving DecidableEq, Repr

def Ref.new : Ref := { res := [], clock := 0, calls := 0 }

/-- the resident with the smallest last-use stamp -/
def lruOf : List REntry → Option REntry
  | [] => none
  | e :: rest => match lruOf rest with
    | none => some e
    | some m => if e.lastUse < m.lastUse then some e else some m

def Ref.getOrCreate (c : Cfg) (s : Ref) (pk : Nat) : Ref × Res × List Ev :=
  let k := c.km pk
  match s.res.find? (·.k == k) with
  | some e =>
    ({ s with res := s.res.map (fun x => if x.k == k then { x with lastUse := s.clock } else x), clock := s.clock + 1 },
      .val e.v, [])
  | none =>
    match c.cr pk s.calls with
    | none => ({ s with calls := s.calls + 1 }, .err, [.create pk none])
    | some v =>
      let res := { k := k, pk := pk, v := v, lastUse := s.clock } :: s.res
      let s1 : Ref := { res := res, clock := s.clock + 1, calls := s.calls + 1 }
      if c.cap < res.length then
        match lruOf res with
        | none => (s1, .val v, [.create pk (some v)])
        | some m => ({ s1 with res := res.filter (·.k != m.k) }, .val v, [.create pk (some v), .delete m.pk m.v])
      else (s1, .val v, [.create pk (some v)])

def Ref.remove (c : Cfg) (s : Ref) (pk : Nat) : Ref × Res × List Ev :=
  let k := c.km pk
  match s.res.find? (·.k == k) with
  | none => (s, .b false, [])
  | some e => ({ s with res := s.res.filter (·.k != k) }, .b true, [.delete e.pk e.v])

/-- insert `e` into a list sorted by lastUse -/
def insertByUse (e : REntry) : List REntry → List REntry
  | [] => [e]
  | x :: xs => if e.lastUse < x.lastUse then e :: x :: xs else x :: insertByUse e xs

def sortByUse (l : List REntry) : List REntry := l.foldr insertByUse []

/-- Clear removes every resident, least recently used first -/
def Ref.clear (s : Ref) : Ref × Res × List Ev :=
  ({ s with res := [] }, .num s.res.length, (sortByUse s.res).map fun e => .delete e.pk e.v)

def Ref.getOrCreateExp (c : Cfg) (s : Ref) (now pk : Nat) : Ref × Res × List Ev :=
  match s.getOrCreate c pk with
  | (s1, .val v, ev1) =>
    if c.expOf v < now then
      let (s2, _, ev2) := s1.remove c pk
      let (s3, r3, ev3) := s2.getOrCreate c pk
      (s3, r3, ev1 ++ ev2 ++ ev3)
    else (s1, .val v, ev1)
  | r => r

def Ref.step (c : Cfg) (s : Ref) : Op → Ref × Res × List Ev
  | .getOrCreate pk => s.getOrCreate c pk
  | .remove pk => s.remove c pk
  | .clear => s.clear
  | .getOrCreateExp now pk => s.getOrCreateExp c now pk

def runI (c : Cfg) (s : EC) : List Op → EC × List (Res × List Ev)
  | [] => (s, [])
  | op :: ops => let (s', r, ev) := s.step c op; let (s'', os) := runI c s' ops; (s'', (r, ev) :: os)

def runS (c : Cfg) (s : Ref) : List Op → Ref × List (Res × List Ev)
  | [] => (s, [])
  | op :: ops => let (s', r, ev) := s.step c op; let (s'', os) := runS c s' ops; (s'', (r, ev) :: os)

/-- all events of a run, in order -/
def events (outs : List (Res × List Ev)) : List Ev := (outs.map (·.2)).flatten

def createdOk : List Ev → List (Nat × Nat)
  | [] => []
  | .create pk (some v) :: rest => (pk, v) :: createdOk rest
  | _ :: rest => createdOk rest

def deleted : List Ev → List (Nat × Nat)
  | [] => []
  | .delete pk v :: rest => (pk, v) :: deleted rest
  | _ :: rest => deleted rest

end Lru
