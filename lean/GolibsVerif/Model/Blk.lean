/-
I-model and Spec of container/bytes/blocks.go over an in-memory byte buffer (property C17).

`mem` is the underlying buffer (bytes as `Nat` < 256).  A segment is one header block of `bs`
bytes (a bitmap: byte `p`, bit `j` ↔ block `8p+j` of the segment) followed by `8·bs` data blocks.
`freeIdx` is, as in the Go code, a BYTE OFFSET into `mem` pointing into some header.
The page size `P` (os.Getpagesize()) is a parameter.  The constructor has the repaired geometry
test (`blksInSegm < 0` rejected); `acceptsLegacy` is the pre-repair test (`bs < 0`).
Loops carry fuel and return `diverge` if it runs out (the theorems show it never does).
-/
namespace Blk

inductive Err where | invalid | notExist | exhausted | diverge | panic
deriving DecidableEq, Repr

structure B where
  bs : Nat                 -- blkSize
  segs : Nat               -- segments
  freeIdx : Nat
  avail : Int              -- available (int32 in Go; overflow excluded by hypothesis)
  mem : List Nat
deriving DecidableEq, Repr

def B.blksInSegm (b : B) : Nat := 8 * b.bs
def B.segmSize (b : B) : Nat := (8 * b.bs + 1) * b.bs
def B.count (b : B) : Nat := b.segs * b.blksInSegm

/-- Go: `GetBlocksInSegment(blkSize)`; -1 = invalid -/
def getBlocksInSegment (P : Nat) (bs : Int) : Int :=
  if bs ≤ 0 then -1
  else if bs < P then (if bs.toNat &&& (bs.toNat - 1) ≠ 0 then -1 else bs * 8 + 1)
  else if bs % P ≠ 0 then -1
  else bs * 8 + 1

/-- number of zero bits among the low 8 bits of a header byte -/
def zeroBits (v : Nat) : Nat := ((List.range 8).filter fun j => v &&& (1 <<< j) == 0).length

/-- Go: `initAvailabe()` — zero bits of every segment header -/
def countFree (bs segs : Nat) (mem : List Nat) : Nat :=
  ((List.range segs).map fun s =>
    (((mem.drop (s * ((8 * bs + 1) * bs))).take bs).map zeroBits).sum).sum

/-- Go: `NewBlocks(bs, bts, fit)` over a buffer with content `mem` -/
def newBlocks (P : Nat) (bs : Int) (mem : List Nat) (fit : Bool) : Except Err B :=
  let bis := getBlocksInSegment P bs
  if bis < 0 then .error .invalid else
  let bsN := bs.toNat
  let segmSize := bis.toNat * bsN
  let size := mem.length
  if size < segmSize ∨ (fit ∧ size % segmSize ≠ 0) then .error .invalid else
  let segs := size / segmSize
  .ok { bs := bsN, segs := segs, freeIdx := 0, avail := countFree bsN segs mem, mem := mem }

/-- what the pre-repair constructor did with the geometry test `bs < 0`: `none` = panics
(division by zero), `some false` = rejected, `some true` = an allocator is returned -/
def acceptsLegacy (P : Nat) (bs : Int) (size : Nat) (fit : Bool) : Option Bool :=
  let bis := getBlocksInSegment P bs
  if bs < 0 then some false else
  let segmSize : Int := bis * bs
  if (size : Int) < segmSize then some false else
  if segmSize = 0 then none else
  if fit ∧ (size : Int) % segmSize ≠ 0 then some false else some true

/-- first zero bit of a byte, Go: `for j := 0; j < 8; j++ { if b&(1<<j) == 0 …` -/
def firstZeroBit (v : Nat) : Option Nat := (List.range 8).find? fun j => v &&& (1 <<< j) == 0

/-- Go: inner loop of ArrangeBlock over the header bytes from `pos`; returns (pos, bit) of the
first free bit and how many full bytes were skipped -/
def scanHdr : List Nat → (pos : Nat) → Option (Nat × Nat)
  | [], _ => none
  | v :: rest, pos =>
    if v ≠ 0xFF then
      match firstZeroBit v with
      | some j => some (pos, j)
      | none => scanHdr rest (pos + 1)      -- (a byte ≠ 0xFF without a zero low bit: > 255, not a byte)
    else scanHdr rest (pos + 1)

/-- Go: outer loop of `ArrangeBlock()`; fuel = number of segments still to look at -/
def arrangeLoop : (fuel : Nat) → B → (freeSegm : Nat) → Except Err (B × Nat)
  | 0, b, freeSegm => if freeSegm < b.segs then .error .diverge else .error .exhausted
  | fuel + 1, b, freeSegm =>
    if freeSegm < b.segs then
      let pos := b.freeIdx % b.bs
      let hdrOff := b.freeIdx - pos
      let hdr := (b.mem.drop hdrOff).take b.bs
      match scanHdr (hdr.drop pos) pos with
      | some (p, j) =>
        let byteOff := hdrOff + p
        let v := b.mem.getD byteOff 0
        .ok ({ b with mem := b.mem.set byteOff (v ||| (1 <<< j)), freeIdx := b.freeIdx + (p - pos),
                      avail := b.avail - 1 },
             freeSegm * b.blksInSegm + p * 8 + j)
      | none =>
        arrangeLoop fuel { b with freeIdx := (freeSegm + 1) * b.segmSize } (freeSegm + 1)
    else .error .exhausted

/-- Go: `ArrangeBlock()` -/
def B.arrange (b : B) : Except Err (B × Nat) :=
  if b.bs = 0 then .error .panic else
  let freeSegm := b.freeIdx / b.segmSize
  arrangeLoop (b.segs + 1 - freeSegm) b freeSegm

/-- Go: `getBlockIdxInHdr(idx)`: (header offset, byte in header, bit), `none` = out of bounds -/
def B.hdrPos (b : B) (idx : Int) : Option (Nat × Nat × Nat) :=
  if b.blksInSegm = 0 then none else
  if idx < 0 then none else
  let i := idx.toNat
  let segm := i / b.blksInSegm
  if segm ≥ b.segs then none else
  let bidx := i % b.blksInSegm
  some (segm * b.segmSize, bidx / 8, bidx % 8)

/-- Go: `FreeBlock(idx)` -/
def B.free (b : B) (idx : Int) : Except Err B :=
  match b.hdrPos idx with
  | none => .error .invalid
  | some (offs, fidx, bit) =>
    let v := b.mem.getD (offs + fidx) 0
    if v &&& (1 <<< bit) = 0 then .error .notExist else
    let i := offs + fidx
    .ok { b with mem := b.mem.set (offs + fidx) (v &&& (0xFF ^^^ (1 <<< bit))), avail := b.avail + 1,
                 freeIdx := if b.freeIdx > i then i else b.freeIdx }

/-- Go: `Block(idx)`: byte range (offset, length) of the block's data -/
def B.block (b : B) (idx : Int) : Except Err (Nat × Nat) :=
  if b.blksInSegm = 0 then .error .invalid else
  if idx < 0 then .error .invalid else
  let i := idx.toNat
  let segm := i / b.blksInSegm
  if segm ≥ b.segs then .error .invalid else
  .ok ((i + segm + 1) * b.bs, b.bs)

/-- header byte range of segment `s` -/
def B.hdrRange (b : B) (s : Nat) : Nat × Nat := (s * b.segmSize, b.bs)

inductive Op where
  | arrange | free (idx : Int) | block (idx : Int) | available | count
  | reopen                    -- open a second allocator (fit=false) on a copy of the bytes and continue with it
deriving DecidableEq, Repr

inductive Out where
  | idx (i : Nat) | ok | range (off len : Nat) | num (n : Int) | err (e : Err)
deriving DecidableEq, Repr

def B.step (P : Nat) (b : B) : Op → B × Out
  | .arrange => match b.arrange with
    | .ok (b', i) => (b', .idx i)
    | .error e => (b, .err e)
  | .free i => match b.free i with
    | .ok b' => (b', .ok)
    | .error e => (b, .err e)
  | .block i => match b.block i with
    | .ok (o, l) => (b, .range o l)
    | .error e => (b, .err e)
  | .available => (b, .num b.avail)
  | .count => (b, .num b.count)
  | .reopen => match newBlocks P b.bs b.mem false with
    | .ok b' => (b', .ok)
    | .error e => (b, .err e)

/-! ### Spec: the set of allocated indices -/

structure S where
  count : Nat
  alloc : List Nat        -- allocated indices (any order, no duplicates)
  bs : Nat
  segs : Nat
deriving DecidableEq, Repr

/-- least index in [0, count) not in `alloc` -/
def S.leastFree (s : S) : Option Nat := (List.range s.count).find? fun i => !s.alloc.contains i

def S.step (s : S) : Op → S × Out
  | .arrange => match s.leastFree with
    | some i => ({ s with alloc := i :: s.alloc }, .idx i)
    | none => (s, .err .exhausted)
  | .free i =>
    if i < 0 ∨ i.toNat ≥ s.count then (s, .err .invalid)
    else if s.alloc.contains i.toNat then ({ s with alloc := s.alloc.filter (· != i.toNat) }, .ok)
    else (s, .err .notExist)
  | .block i =>
    if i < 0 ∨ i.toNat ≥ s.count then (s, .err .invalid)
    else (s, .range ((i.toNat + i.toNat / (8 * s.bs) + 1) * s.bs) s.bs)
  | .available => (s, .num ((s.count : Int) - s.alloc.length))
  | .count => (s, .num s.count)
  | .reopen => (s, .ok)

/-- bit of block `i` in the headers of `mem` -/
def B.isAlloc (b : B) (i : Nat) : Bool :=
  let segm := i / b.blksInSegm
  let bidx := i % b.blksInSegm
  (b.mem.getD (segm * b.segmSize + bidx / 8) 0) &&& (1 <<< (bidx % 8)) != 0

def B.abs (b : B) : S :=
  { count := b.count, alloc := (List.range b.count).filter b.isAlloc, bs := b.bs, segs := b.segs }

def runI (P : Nat) (b : B) : List Op → B × List Out
  | [] => (b, [])
  | op :: ops => let (b', o) := b.step P op; let (b'', os) := runI P b' ops; (b'', o :: os)

def runS (s : S) : List Op → S × List Out
  | [] => (s, [])
  | op :: ops => let (s', o) := s.step op; let (s'', os) := runS s' ops; (s'', o :: os)

/-- geometry accepted by the property: positive size, power of two below the page size or a
multiple of it -/
def ValidGeom (P : Nat) (bs : Int) : Prop :=
  0 < bs ∧ ((bs < P ∧ ∃ k, bs = 2 ^ k) ∨ (bs ≥ P ∧ bs % P = 0))

end Blk
