import GolibsVerif.Model.Waiters
/-
Executable counterpart of `Waiters.Step` for the trace-refinement driver of C07: each `x…`
function performs one constructor of `Step` (same guard, same update) or fails.  Props/C07Exec.lean
proves that every result is a `Step`, so the invariants proved about `Reach` hold in every state
the driver passes through while replaying the critical sections of the REAL inmem storage.
-/
namespace Waiters.Exec
open Waiters

def xCheck (s : St) (i : Nat) : Option St :=
  match s.ws[i]? with
  | some w =>
    if w.pc = .start then
      some (
        let (s1, r) := live s w.key
        match r with
        | none => setW s1 i { w with pc := .returned .notExist }
        | some v =>
          if v ≠ w.ver then setW s1 i { w with pc := .returned .nil }
          else match getEntry s1 w.key with
            | some (ch, n) =>
              setW { s1 with table := s1.table.map fun e => if e.1 == w.key then (w.key, ch, n + 1) else e } i { w with pc := .parked ch }
            | none =>
              setW { s1 with table := s1.table ++ [(w.key, s1.nextCh, 1)], nextCh := s1.nextCh + 1 } i { w with pc := .parked s1.nextCh })
    else none
  | none => none

def xWake (s : St) (i : Nat) : Option St :=
  match s.ws[i]? with
  | some w => match w.pc with
    | .parked ch => if ch ∈ s.closed then some (setW s i { w with pc := .start }) else none
    | _ => none
  | none => none

def xCancelled (s : St) (i : Nat) : Option St :=
  match s.ws[i]? with
  | some w => match w.pc with
    | .parked ch => if w.ctxDone then some (setW (leave s w.key ch) i { w with pc := .returned .ctxErr }) else none
    | _ => none
  | none => none

def xTimer (s : St) (i : Nat) : Option St :=
  match s.ws[i]? with
  | some w => match w.pc with
    | .parked ch => some (setW (leave s w.key ch) i { w with pc := .start })
    | _ => none
  | none => none

def xWrite (s : St) (k : String) : St :=
  notify { s with recs := s.recs.filter (·.1 != k) ++ [(k, { ver := s.nextVer, expired := false })], nextVer := s.nextVer + 1 } k

def xDelete (s : St) (k : String) : Option St :=
  match getRec s k with
  | some _ => some (notify { s with recs := s.recs.filter (·.1 != k) } k)
  | none => none

def xTouch (s : St) (k : String) : St := (live s k).1

def xExpire (s : St) (k : String) : Option St :=
  match getRec s k with
  | some r => some { s with recs := s.recs.map fun e => if e.1 == k then (k, { r with expired := true }) else e }
  | none => none

def xCtxCancel (s : St) (i : Nat) : Option St :=
  match s.ws[i]? with
  | some w => some (setW s i { w with ctxDone := true })
  | none => none

/-- observed events of a trace -/
inductive Event where
  | secCheck (i : Nat)        -- waiter i ran the loop's first critical section (after a wake-up if it was parked)
  | secCancelled (i : Nat)    -- waiter i ran the ctx.Done() critical section
  | secTimer (i : Nat)        -- waiter i ran the expiry-timer critical section
  | write (k : String) | delete (k : String) | touch (k : String)
  | expire (k : String) | ctxCancel (i : Nat)
deriving DecidableEq, Repr

def handle (s : St) : Event → Option St
  | .secCheck i =>
    match s.ws[i]? with
    | some w => match w.pc with
      | .parked _ => (xWake s i).bind fun s1 => xCheck s1 i
      | _ => xCheck s i
    | none => none
  | .secCancelled i => xCancelled s i
  | .secTimer i => xTimer s i
  | .write k => some (xWrite s k)
  | .delete k => xDelete s k
  | .touch k => some (xTouch s k)
  | .expire k => xExpire s k
  | .ctxCancel i => xCtxCancel s i

def replay (s : St) : List Event → Option St
  | [] => some s
  | e :: es => (handle s e).bind fun s' => replay s' es

inductive Steps : St → St → Prop
  | refl (s) : Steps s s
  | cons {s t u} : Step s t → Steps t u → Steps s u

end Waiters.Exec
