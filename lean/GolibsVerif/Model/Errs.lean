import GolibsVerif.Generated.ErrTables
/-
I-model of errors/errors.go + errors/grpc.go (property C19).

The class list, both tables and the embed marker come from `Generated/ErrTables.lean`, which is
re-emitted from the Go source on every run.  Modelled library semantics (trusted base):
`errors.Is` walks the `%w` chain comparing sentinel identity; `status.Code`/`status.FromError`
(grpc 1.55) find a gRPC status directly or anywhere down the chain (`errors.As`) and report
`Unknown` otherwise; a status error has no `Unwrap` and `Is` only against other status errors;
an error with two `%w` verbs / `errors.Join` has `Unwrap() []error` and is walked depth-first, left
child first, by `errors.Is` and `errors.As`; an OS error (`*fs.PathError` around a `syscall.Errno`)
is `errors.Is`-equal to its class sentinel through an `Is` method without being that sentinel (so it
is not a key of the Go map `errorsToCode`) and carries no gRPC status;
Go map iteration order is arbitrary (the table loop takes the table in any order as a parameter).
Message texts are lists of segments so that occurrences of the embed marker can be counted the way
`strings.Split` does; plain strings are assumed not to contain the marker (`Err.WF`).
-/
namespace Errs
open Gen.Errs

inductive Seg where
  | txt (s : String)
  | marker
deriving DecidableEq, Repr

abbrev Text := List Seg

inductive Err where
  | cls (c : Cls)                               -- a sentinel: ErrExist, …
  | other (msg : String)                        -- errors.New(msg), no class
  | wrap (pre post : String) (e : Err)          -- fmt.Errorf(pre + "%w" + post, e)
  | embed (json : String) (e : Err)             -- EmbedObject(o, e), json = json.Marshal(o)
  | status (code : Code) (msg : Text)           -- status.Error(code, msg)
  | osErr (c : Cls) (msg : String)              -- OS error value, errors.Is-equal to the sentinel of c
  | wrap2 (pre mid post : String) (e1 e2 : Err) -- fmt.Errorf(pre+"%w"+mid+"%w"+post, e1, e2);
                                                -- errors.Join(e1, e2) = wrap2 "" "\n" "" e1 e2
deriving DecidableEq, Repr

/-- Go: `errors.Is(err, class)` -/
def errorsIs : Err → Cls → Bool
  | .cls c, t => c == t
  | .other _, _ => false
  | .wrap _ _ e, t => errorsIs e t
  | .embed _ e, t => errorsIs e t
  | .status _ _, _ => false
  | .osErr c _, t => c == t
  | .wrap2 _ _ _ e1 e2, t => errorsIs e1 t || errorsIs e2 t

/-- the gRPC status found by `status.FromError` (directly or via errors.As down the chain) -/
def findStatus : Err → Option Code
  | .status c _ => some c
  | .wrap _ _ e => findStatus e
  | .embed _ e => findStatus e
  | .wrap2 _ _ _ e1 e2 =>
    match findStatus e1 with
    | some c => some c
    | none => findStatus e2
  | _ => none

/-- Go: `status.Code(err)` for a non-nil error -/
def statusCode (e : Err) : Code := (findStatus e).getD .cUnknown

/-- Go: `err.Error()` as marker-delimited segments -/
def text : Err → Text
  | .cls c => [.txt c.name]
  | .other m => [.txt m]
  | .wrap pre post e => .txt pre :: text e ++ [.txt post]
  | .embed j e => [.marker, .txt j, .marker, .txt ": "] ++ text e
  | .status c msg => .txt ("rpc error: code = " ++ c.name ++ " desc = ") :: msg
  | .osErr _ m => [.txt m]
  | .wrap2 pre mid post e1 e2 => .txt pre :: text e1 ++ [.txt mid] ++ text e2 ++ [.txt post]

def lookup {α β : Type} [DecidableEq α] (k : α) : List (α × β) → Option β
  | [] => none
  | (a, b) :: rest => if a = k then some b else lookup k rest

/-- Go: the `for e, c := range errorsToCode { if errors.Is(err, e) { return c } }` loop, with the
iteration order `tbl` as a parameter (any permutation of the table) -/
def firstMatch (e : Err) : List (Cls × Code) → Option Code
  | [] => none
  | (c, code) :: rest => if errorsIs e c then some code else firstMatch e rest

/-- Go: `GRPCStatusCode(err)`, iteration order `tbl` -/
def grpcStatusCodeOrd (tbl : List (Cls × Code)) (e : Err) : Code :=
  let code := statusCode e
  if code ≠ .cUnknown then code else
  match (match e with | .cls c => lookup c errorsToCode | _ => none) with
  | some code => code
  | none => (firstMatch e tbl).getD .cInternal

def grpcStatusCode (e : Err) : Code := grpcStatusCodeOrd errorsToCode e

/-- Go: `GRPCWrap(err)` -/
def grpcWrapOrd (tbl : List (Cls × Code)) (e : Err) : Err :=
  if statusCode e ≠ .cUnknown then e else .status (grpcStatusCodeOrd tbl e) (text e)

def grpcWrap (e : Err) : Err := grpcWrapOrd errorsToCode e

/-- class a gRPC code maps back to (`none` = nil error) -/
def fromCode (code : Code) : Option Cls :=
  match lookup code grpcToErrors with
  | some r => r
  | none => some .ErrInternal

/-- Go: `FromGRPCError(err)`; `none` = nil -/
def fromGRPCError (e : Err) : Option Cls := fromCode (statusCode e)

/-- Go: `Is(err, target)` -/
def is (e : Err) (t : Cls) : Bool :=
  errorsIs e t || (match fromGRPCError e with | some c => c == t | none => false)

/-- `strings.Split(text, marker)` as lists of segments -/
def splitMarker : Text → List (List String)
  | [] => [[]]
  | .marker :: rest => [] :: splitMarker rest
  | .txt s :: rest => match splitMarker rest with
    | [] => [[s]]
    | p :: ps => (s :: p) :: ps

/-- Go: `ExtractObject(err, &o)`: the JSON text handed to json.Unmarshal, if the split has 3 parts -/
def extractObject (e : Err) : Option String :=
  match splitMarker (text e) with
  | [_, mid, _] => some (String.join mid)
  | _ => none

/-- number of marker segments in a text -/
def markers (t : Text) : Nat := (t.filter (· == .marker)).length

/-- a class-less, status-less error whose text has no marker (e.g. `errors.New(msg)`, io.EOF) -/
structure Plain (x : Err) : Prop where
  noClass : ∀ t, errorsIs x t = false
  noStatus : findStatus x = none
  noMarker : markers (text x) = 0

/-- `e` is a chain of `%w` wrappings / one embedding around the sentinel of class `c` or around an
OS error of class `c`; a two-`%w` wrapping / `errors.Join` has a `Plain` error as the other child -/
inductive Around (c : Cls) : Err → Prop
  | base : Around c (.cls c)
  | wrap {pre post e} : Around c e → Around c (.wrap pre post e)
  | embed {j e} : Around c e → Around c (.embed j e)
  | os {m} : Around c (.osErr c m)
  | wrap2l {pre mid post e x} : Around c e → Plain x → Around c (.wrap2 pre mid post e x)
  | wrap2r {pre mid post e x} : Around c e → Plain x → Around c (.wrap2 pre mid post x e)

/-- EmbedObject's precondition: the wrapped error's text has no marker yet -/
def EmbedOK : Err → Prop
  | .wrap _ _ e => EmbedOK e
  | .embed _ e => markers (text e) = 0 ∧ EmbedOK e
  | .wrap2 _ _ _ e1 e2 => EmbedOK e1 ∧ EmbedOK e2
  | _ => True

end Errs
