/-
`Lock.Sys` — transition system of kvs/distlock/kvlock.go for ANY number of goroutines, Locker
objects and providers sharing one storage and one lock name (properties C01, C04, C05).

Static configuration: `lk g` = the Locker object goroutine `g` uses, `pv l` = the provider of Locker `l`.
Shared state: the lock lrec in the storage (`lrec`), per Locker the one-slot channel `token`,
the 0/1 counter `cntr`, the `future` cell and the armed lease timers; per provider `done`.
Program counters follow kvlock.go at storage-call granularity.  Every storage call has the
variants ok / request lost (no effect, error) / reply lost (effect, error); faults are unbounded
(and only present when the system parameter `faults` is true — C04 quantifies over fault-free runs).
Ghost state (never read by a transition's guard except `expire`, whose guard IS the lease
assumption): `holds g` (from the return of a successful acquire to the entry of Unlock) and
`Rec.owner` (the goroutine whose successful Create started the lrec's renewal chain).
A lease renewal (`supportTimeout`) is a separate activity (`Sup`) started by a `fire` step.
Atomic in the model (stated as Partial in DESIGN): a storage call together with delivering its
result; `timeout.Call` + `future.Store` after a successful Create; the sync/atomic operations.
-/
namespace Lock

abbrev G := Nat
abbrev L := Nat
abbrev P := Nat

structure Cfg where
  lk : G → L
  pv : L → P

structure Rec where
  ver : Nat
  owner : Option G
deriving DecidableEq, Repr

inductive Pc where
  | idle
  | lSelect                 -- lockInternal: select on ctx.Done / dlp.done / lockCh
  | lCtxCheck               -- `err := ctx.Err()` before the retry loop
  | lCreate                 -- about to call Storage.Create
  | lWait (ver : Nat)       -- inside Storage.WaitForVersionChange(key, ver)
  | lFail                   -- failure path: lckCntr := 0; lockCh <- true; return err
  | tSelect | tCreate | tFail
  | uCancel                 -- Unlock: after CAS(lckCntr,1,0): future.Cancel()
  | uDelete                 -- Unlock: Storage.Delete
  | uToken                  -- Unlock: lockCh <- true
deriving DecidableEq, Repr

structure Timer where
  id : Nat
  l : L
  ver : Nat
deriving DecidableEq, Repr

/-- stage of one running supportTimeout(ver) -/
inductive SupPc where
  | load                            -- future := l.future.Load()
  | cas (fut : Option Nat)          -- Storage.CasByVersion(ver)
  | arm (fut : Option Nat) (nv : Nat)        -- newFuture := timeout.Call(… nv …)
  | swap (fut : Option Nat) (tn : Nat)       -- l.future.CompareAndSwap(future, newFuture)
deriving DecidableEq, Repr

structure Sup where
  l : L
  ver : Nat
  pc : SupPc
deriving DecidableEq, Repr

structure St where
  pc : G → Pc
  holds : G → Bool
  hasCtx : G → Bool          -- the current call has a cancellable context
  ctxDone : G → Bool
  token : L → Bool
  cntr : L → Nat
  future : L → Option Nat     -- id of the timer stored in l.future
  done : P → Bool
  lrec : Option Rec
  nextVer : Nat
  armed : List Timer
  sups : List Sup
  nextTimer : Nat

def St.init : St :=
  { pc := fun _ => .idle, holds := fun _ => false, hasCtx := fun _ => false, ctxDone := fun _ => false,
    token := fun _ => true, cntr := fun _ => 0, future := fun _ => none, done := fun _ => false,
    lrec := none, nextVer := 1, armed := [], sups := [], nextTimer := 0 }

def upd {α : Type} (f : Nat → α) (k : Nat) (v : α) : Nat → α := fun x => if x = k then v else f x

/-- the lease assumption (guard of `expire`): a lrec may lapse only when the goroutine that owns
its chain is neither holding nor inside Unlock before its Delete took effect -/
def mayExpire (s : St) : Prop :=
  match s.lrec with
  | none => False
  | some r => match r.owner with
    | none => True
    | some g => s.holds g = false ∧ s.pc g ≠ .uCancel ∧ s.pc g ≠ .uDelete

/-- weaker guard used for the negative result: lapses as soon as the owner is no longer *holding* -/
def mayExpireWeak (s : St) : Prop :=
  match s.lrec with
  | none => False
  | some r => match r.owner with
    | none => True
    | some g => s.holds g = false

/-- drop the ghost ownership of `g` (when g leaves Unlock's Delete with the lrec still there) -/
def disown (r : Option Rec) (g : G) : Option Rec :=
  match r with
  | some r => if r.owner = some g then some { r with owner := none } else some r
  | none => none

inductive Step (c : Cfg) (weak faults : Bool) : St → St → Prop
  -- calls (well-bracketed use: acquire only when not holding, Unlock only when holding)
  | callLock (s : St) (g : G) (ctx : Bool) (cd : Bool) (h : s.pc g = .idle) (hh : s.holds g = false)
      (hcd : cd = true → ctx = true) :
      Step c weak faults s { s with pc := upd s.pc g .lSelect, hasCtx := upd s.hasCtx g ctx, ctxDone := upd s.ctxDone g cd }
  | callTry (s : St) (g : G) (h : s.pc g = .idle) (hh : s.holds g = false) :
      Step c weak faults s { s with pc := upd s.pc g .tSelect, hasCtx := upd s.hasCtx g false, ctxDone := upd s.ctxDone g false }
  | callUnlock (s : St) (g : G) (h : s.pc g = .idle) (hh : s.holds g = true) (hc : s.cntr (c.lk g) = 1) :
      Step c weak faults s { s with pc := upd s.pc g .uCancel, holds := upd s.holds g false, cntr := upd s.cntr (c.lk g) 0 }
  -- lockInternal
  | lSelCtx (s : St) (g : G) (h : s.pc g = .lSelect) (hd : s.ctxDone g = true) :
      Step c weak faults s { s with pc := upd s.pc g .idle }
  | lSelDone (s : St) (g : G) (h : s.pc g = .lSelect) (hd : s.done (c.pv (c.lk g)) = true) :
      Step c weak faults s { s with pc := upd s.pc g .idle }
  | lSelToken (s : St) (g : G) (h : s.pc g = .lSelect) (ht : s.token (c.lk g) = true)
      (hd : s.done (c.pv (c.lk g)) = false) (hc : s.cntr (c.lk g) = 0) :
      Step c weak faults s { s with pc := upd s.pc g .lCtxCheck, token := upd s.token (c.lk g) false, cntr := upd s.cntr (c.lk g) 1 }
  | lSelTokenDone (s : St) (g : G) (h : s.pc g = .lSelect) (ht : s.token (c.lk g) = true)
      (hd : s.done (c.pv (c.lk g)) = true) :       -- token taken, shutdown seen: returns ErrClosed, token NOT put back
      Step c weak faults s { s with pc := upd s.pc g .idle, token := upd s.token (c.lk g) false }
  | lCtxOk (s : St) (g : G) (h : s.pc g = .lCtxCheck) (hd : s.ctxDone g = false) :
      Step c weak faults s { s with pc := upd s.pc g .lCreate }
  | lCtxErr (s : St) (g : G) (h : s.pc g = .lCtxCheck) (hd : s.ctxDone g = true) :
      Step c weak faults s { s with pc := upd s.pc g .lFail }
  -- Storage.Create from Lock / LockWithCtx
  | lCreateOk (s : St) (g : G) (h : s.pc g = .lCreate) (hr : s.lrec = none) :
      Step c weak faults s { s with pc := upd s.pc g .idle, holds := upd s.holds g true, lrec := some { ver := s.nextVer, owner := some g }, nextVer := s.nextVer + 1, armed := { id := s.nextTimer, l := c.lk g, ver := s.nextVer } :: s.armed, future := upd s.future (c.lk g) (some s.nextTimer), nextTimer := s.nextTimer + 1 }
  | lCreateExists (s : St) (g : G) (r : Rec) (h : s.pc g = .lCreate) (hr : s.lrec = some r) :
      Step c weak faults s { s with pc := upd s.pc g (.lWait r.ver) }
  | lCreateCtxErr (s : St) (g : G) (h : s.pc g = .lCreate) (hd : s.ctxDone g = true) :   -- Create returns ctx.Err()
      Step c weak faults s { s with pc := upd s.pc g .lFail }
  | lCreateReqLost (s : St) (g : G) (hf : faults = true) (h : s.pc g = .lCreate) :
      Step c weak faults s { s with pc := upd s.pc g .lFail }
  | lCreateReplyLost (s : St) (g : G) (hf : faults = true) (h : s.pc g = .lCreate) (hr : s.lrec = none) :
      Step c weak faults s { s with pc := upd s.pc g .lFail, lrec := some { ver := s.nextVer, owner := none }, nextVer := s.nextVer + 1 }
  -- WaitForVersionChange returns (its error is ignored; a faulty storage may return at any time)
  | lWaitRet (s : St) (g : G) (v : Nat) (fault : Bool) (hf : fault = true → faults = true) (h : s.pc g = .lWait v)
      (hw : fault = true ∨ s.ctxDone g = true ∨ s.lrec = none ∨ (∃ r, s.lrec = some r ∧ r.ver ≠ v)) :
      Step c weak faults s { s with pc := upd s.pc g (if s.ctxDone g then .lFail else .lCreate) }
  | lFail (s : St) (g : G) (h : s.pc g = .lFail) :
      Step c weak faults s { s with pc := upd s.pc g .idle, cntr := upd s.cntr (c.lk g) 0, token := upd s.token (c.lk g) true }
  -- TryLock
  | tSelDone (s : St) (g : G) (h : s.pc g = .tSelect) (hd : s.done (c.pv (c.lk g)) = true) :
      Step c weak faults s { s with pc := upd s.pc g .idle }
  | tSelToken (s : St) (g : G) (h : s.pc g = .tSelect) (ht : s.token (c.lk g) = true)
      (hd : s.done (c.pv (c.lk g)) = false) (hc : s.cntr (c.lk g) = 0) :
      Step c weak faults s { s with pc := upd s.pc g .tCreate, token := upd s.token (c.lk g) false, cntr := upd s.cntr (c.lk g) 1 }
  | tSelTokenDone (s : St) (g : G) (h : s.pc g = .tSelect) (ht : s.token (c.lk g) = true)
      (hd : s.done (c.pv (c.lk g)) = true) :
      Step c weak faults s { s with pc := upd s.pc g .idle, token := upd s.token (c.lk g) false }
  | tSelDefault (s : St) (g : G) (h : s.pc g = .tSelect) (ht : s.token (c.lk g) = false)
      (hd : s.done (c.pv (c.lk g)) = false) :
      Step c weak faults s { s with pc := upd s.pc g .idle }
  | tCreateOk (s : St) (g : G) (h : s.pc g = .tCreate) (hr : s.lrec = none) :
      Step c weak faults s { s with pc := upd s.pc g .idle, holds := upd s.holds g true, lrec := some { ver := s.nextVer, owner := some g }, nextVer := s.nextVer + 1, armed := { id := s.nextTimer, l := c.lk g, ver := s.nextVer } :: s.armed, future := upd s.future (c.lk g) (some s.nextTimer), nextTimer := s.nextTimer + 1 }
  | tCreateExists (s : St) (g : G) (r : Rec) (h : s.pc g = .tCreate) (hr : s.lrec = some r) :      -- ErrExist
      Step c weak faults s { s with pc := upd s.pc g .tFail }
  | tCreateReqLost (s : St) (g : G) (hf : faults = true) (h : s.pc g = .tCreate) :
      Step c weak faults s { s with pc := upd s.pc g .tFail }
  | tCreateReplyLost (s : St) (g : G) (hf : faults = true) (h : s.pc g = .tCreate) (hr : s.lrec = none) :
      Step c weak faults s { s with pc := upd s.pc g .tFail, lrec := some { ver := s.nextVer, owner := none }, nextVer := s.nextVer + 1 }
  | tFail (s : St) (g : G) (h : s.pc g = .tFail) :
      Step c weak faults s { s with pc := upd s.pc g .idle, cntr := upd s.cntr (c.lk g) 0, token := upd s.token (c.lk g) true }
  -- Unlock
  | uCancel (s : St) (g : G) (h : s.pc g = .uCancel) :
      Step c weak faults s { s with pc := upd s.pc g .uDelete, armed := s.armed.filter fun t => some t.id ≠ s.future (c.lk g) }
  | uDeleteEffect (s : St) (g : G) (h : s.pc g = .uDelete) :     -- ok, ErrNotExist, or reply lost: the lrec is gone
      Step c weak faults s { s with pc := upd s.pc g .uToken, lrec := none }
  | uDeleteReqLost (s : St) (g : G) (hf : faults = true) (h : s.pc g = .uDelete) :    -- no effect; Unlock goes on; the lrec becomes an orphan
      Step c weak faults s { s with pc := upd s.pc g .uToken, lrec := disown s.lrec g }
  | uToken (s : St) (g : G) (h : s.pc g = .uToken) :
      Step c weak faults s { s with pc := upd s.pc g .idle, token := upd s.token (c.lk g) true }
  -- lease renewal
  | fire (s : St) (t : Timer) (h : t ∈ s.armed) :
      Step c weak faults s { s with armed := s.armed.filter (· ≠ t), sups := { l := t.l, ver := t.ver, pc := .load } :: s.sups }
  | supLoad (s : St) (u : Sup) (h : u ∈ s.sups) (hp : u.pc = .load) :
      Step c weak faults s { s with sups := { u with pc := .cas (s.future u.l) } :: s.sups.erase u }
  | supCasOk (s : St) (u : Sup) (fut : Option Nat) (r : Rec) (h : u ∈ s.sups) (hp : u.pc = .cas fut)
      (hr : s.lrec = some r) (hv : r.ver = u.ver) :
      Step c weak faults s { s with lrec := some { r with ver := s.nextVer }, nextVer := s.nextVer + 1, sups := { u with pc := .arm fut s.nextVer } :: s.sups.erase u }
  | supCasDefinitive (s : St) (u : Sup) (fut : Option Nat) (h : u ∈ s.sups) (hp : u.pc = .cas fut)
      (hr : s.lrec = none ∨ ∃ r, s.lrec = some r ∧ r.ver ≠ u.ver) :     -- ErrNotExist / ErrConflict: chain ends
      Step c weak faults s { s with sups := s.sups.erase u }
  | supCasReqLost (s : St) (u : Sup) (fut : Option Nat) (hf : faults = true) (h : u ∈ s.sups) (hp : u.pc = .cas fut) :
      -- transient error, nothing applied: try again later with the same version
      Step c weak faults s { s with sups := { u with pc := .arm fut u.ver } :: s.sups.erase u }
  | supCasReplyLost (s : St) (u : Sup) (fut : Option Nat) (r : Rec) (hf : faults = true) (h : u ∈ s.sups) (hp : u.pc = .cas fut)
      (hr : s.lrec = some r) (hv : r.ver = u.ver) :
      -- applied but answered with a transient error: retried later with the OLD version
      Step c weak faults s { s with lrec := some { r with ver := s.nextVer }, nextVer := s.nextVer + 1, sups := { u with pc := .arm fut u.ver } :: s.sups.erase u }
  | supArm (s : St) (u : Sup) (fut : Option Nat) (nv : Nat) (h : u ∈ s.sups) (hp : u.pc = .arm fut nv) :
      Step c weak faults s { s with armed := { id := s.nextTimer, l := u.l, ver := nv } :: s.armed, nextTimer := s.nextTimer + 1, sups := { u with pc := .swap fut s.nextTimer } :: s.sups.erase u }
  | supSwap (s : St) (u : Sup) (fut : Option Nat) (tn : Nat) (h : u ∈ s.sups) (hp : u.pc = .swap fut tn) :
      Step c weak faults s (if s.future u.l = fut
        then { s with future := upd s.future u.l (some tn), sups := s.sups.erase u }
        else { s with armed := s.armed.filter (·.id ≠ tn), sups := s.sups.erase u })     -- lost the race: newFuture.Cancel()
  -- environment
  | cancelCtx (s : St) (g : G) (h : s.hasCtx g = true) :
      Step c weak faults s { s with ctxDone := upd s.ctxDone g true }
  | shutdown (s : St) (p : P) :
      Step c weak faults s { s with done := upd s.done p true }
  | expire (s : St) (h : if weak then mayExpireWeak s else mayExpire s) :
      Step c weak faults s { s with lrec := none }

inductive Reach (c : Cfg) (weak faults : Bool) : St → Prop
  | init : Reach c weak faults St.init
  | step {s t} : Reach c weak faults s → Step c weak faults s t → Reach c weak faults t

/-- goroutine g is inside the Locker-serialised section (has taken the token and not returned it) -/
def InSection (s : St) (g : G) : Prop :=
  s.holds g = true ∨ s.pc g = .lCtxCheck ∨ s.pc g = .lCreate ∨ (∃ v, s.pc g = .lWait v) ∨ s.pc g = .lFail ∨
  s.pc g = .tCreate ∨ s.pc g = .tFail ∨ s.pc g = .uCancel ∨ s.pc g = .uDelete ∨ s.pc g = .uToken

end Lock
