import GolibsVerif.Model.Lru
/-
`Lru.Conc` — transition system of container/lru ECache under concurrent use (property C09):
any number of callers; atomic steps = the critical sections of ecache.go (first and second section
of GetOrCreate, Remove, Clear) plus the begin / end of a create-function call (outside the lock) and
the wake-up of a caller blocked on another caller's in-flight creation.
The create function's outcome is chosen by the environment at `createEnd` (any value or failure).
Every step reports the callbacks it makes (`Ev` of Lru) so that results and evictions can be
compared with the sequential model `Lru.EC`.
-/
namespace Lru.Conc
open Lru

inductive COp where
  | goc (pk : Nat) | rm (pk : Nat) | clr
deriving DecidableEq, Repr

inductive Pc where
  | idle
  | start (op : COp)                         -- call made, before its first critical section
  | waiting (pk k : Nat)                     -- blocked on the in-flight channel of key k
  | creating (pk k : Nat)                    -- registered in-flight, about to call createNewF
  | inCreate (pk k : Nat)                    -- inside createNewF
  | created (pk k : Nat) (res : Option Nat)  -- createNewF returned, before the second critical section
  | done (r : Res)
deriving DecidableEq, Repr

structure St where
  items : List Entry            -- recency list, oldest first
  inflight : List Nat           -- inner keys with a registered in-flight creation
  pcs : List Pc                 -- the callers
  log : List Ev                 -- callbacks so far (create results, delete callbacks), in order
deriving DecidableEq, Repr

def St.init (n : Nat) : St := { items := [], inflight := [], pcs := List.replicate n .idle, log := [] }

def setPc (s : St) (i : Nat) (p : Pc) : St := { s with pcs := s.pcs.set i p }

/-- sequential config used to compare one linearized GetOrCreate whose creation (if any) yields `res` -/
def cfgWith (cap : Nat) (km : Nat → Nat) (res : Option Nat) : Cfg :=
  { cap := cap, km := km, cr := fun _ _ => res, expOf := fun _ => 0 }

inductive Step (cap : Nat) (km : Nat → Nat) : St → St → Prop
  | call (s : St) (i : Nat) (op : COp) (h : s.pcs[i]? = some .idle) : Step cap km s (setPc s i (.start op))
  | ret (s : St) (i : Nat) (r : Res) (h : s.pcs[i]? = some (.done r)) : Step cap km s (setPc s i .idle)
  /-- first critical section of GetOrCreate: hit → move to the MRU end and return -/
  | gocHit (s : St) (i pk : Nat) (e : Entry) (h : s.pcs[i]? = some (.start (.goc pk)))
      (hf : findK s.items (km pk) = some e) :
      Step cap km s (setPc { s with items := eraseK s.items (km pk) ++ [e] } i (.done (.val e.v)))
  /-- first critical section: miss with a creation already in flight → wait for it -/
  | gocWait (s : St) (i pk : Nat) (h : s.pcs[i]? = some (.start (.goc pk)))
      (hf : findK s.items (km pk) = none) (hi : km pk ∈ s.inflight) :
      Step cap km s (setPc s i (.waiting pk (km pk)))
  /-- first critical section: miss, nobody creating → register in flight -/
  | gocRegister (s : St) (i pk : Nat) (h : s.pcs[i]? = some (.start (.goc pk)))
      (hf : findK s.items (km pk) = none) (hi : km pk ∉ s.inflight) :
      Step cap km s (setPc { s with inflight := km pk :: s.inflight } i (.creating pk (km pk)))
  /-- `<-ch` returns because the in-flight channel was closed: go around the loop -/
  | wake (s : St) (i pk k : Nat) (h : s.pcs[i]? = some (.waiting pk k)) (hc : k ∉ s.inflight) :
      Step cap km s (setPc s i (.start (.goc pk)))
  | createBegin (s : St) (i pk k : Nat) (h : s.pcs[i]? = some (.creating pk k)) :
      Step cap km s (setPc s i (.inCreate pk k))
  | createEnd (s : St) (i pk k : Nat) (res : Option Nat) (h : s.pcs[i]? = some (.inCreate pk k)) :
      Step cap km s (setPc { s with log := s.log ++ [.create pk res] } i (.created pk k res))
  /-- second critical section: close the channel, drop the in-flight entry, insert (and evict) on success -/
  | gocPublish (s : St) (i pk k : Nat) (res : Option Nat) (h : s.pcs[i]? = some (.created pk k res)) :
      Step cap km s (
        let s0 : St := { s with inflight := s.inflight.filter (· != k) }
        match res with
        | none => setPc s0 i (.done .err)
        | some v =>
          let items := s0.items ++ [{ k := k, pk := pk, v := v }]
          match items with
          | f :: _ =>
            if cap < items.length then
              setPc { s0 with items := eraseK items f.k, log := s0.log ++ [.delete f.pk f.v] } i (.done (.val v))
            else setPc { s0 with items := items } i (.done (.val v))
          | [] => setPc { s0 with items := items } i (.done (.val v)))
  | remove (s : St) (i pk : Nat) (h : s.pcs[i]? = some (.start (.rm pk))) :
      Step cap km s (
        match findK s.items (km pk) with
        | none => setPc s i (.done (.b false))
        | some e => setPc { s with items := eraseK s.items (km pk), log := s.log ++ [.delete e.pk e.v] } i (.done (.b true)))
  | clear (s : St) (i : Nat) (h : s.pcs[i]? = some (.start .clr)) :
      Step cap km s (setPc { s with items := [], log := s.log ++ s.items.map fun e => .delete e.pk e.v } i (.done (.num s.items.length)))

inductive Reach (cap : Nat) (km : Nat → Nat) (n : Nat) : St → Prop
  | init : Reach cap km n (St.init n)
  | step {s t} : Reach cap km n s → Step cap km s t → Reach cap km n t

/-- callers that currently own the creation of key k -/
def creators (s : St) (k : Nat) : Nat :=
  (s.pcs.filter fun p => match p with
    | .creating _ k' | .inCreate _ k' | .created _ k' _ => k' == k
    | _ => false).length

/-- values produced successfully but not yet published (between createEnd and the second section) -/
def unpublished (s : St) : List (Nat × Nat) :=
  s.pcs.filterMap fun p => match p with
    | .created pk _ (some v) => some (pk, v)
    | _ => none

end Lru.Conc
