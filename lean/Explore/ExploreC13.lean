import GolibsVerif.Model.TmoPool
import Std.Data.HashMap
/-
Executable explorer for the Tmo.Pool transition system (property C13).
Successor functions are definitional copies of the `Step` constructors' targets (checked by the
`*_sound` examples below).
-/
open Tmo.Pool

deriving instance Hashable for WPc
deriving instance Hashable for St

namespace Explore

def stAdd (c : Cfg) (s : St) (fireT : Nat) : St :=
  let s1 : St := { s with heap := s.heap ++ [(s.nextId, fireT)], nextId := s.nextId + 1 }
  if s.watchers = 0 then { s1 with watchers := 1, threads := s1.threads ++ [.top none 0] }
  else notify c s1

def stCancel (c : Cfg) (s : St) (id : Nat) : St :=
  let s1 : St := { s with heap := s.heap.filter (·.1 != id) }
  if s.watchers > 0 then notify c s1 else s1

def stSection (c : Cfg) (s : St) (i : Nat) (f : Option Nat) (mis : Nat) : St :=
  let mis' := if f.isSome then 0 else mis + 1
  let s0 : St := match f with | some id => { s with started := s.started ++ [id] } | none => s
  match headOf s0.heap with
  | none =>
    if mis' > 1 then setT { s0 with watchers := s0.watchers - 1 } i .exited
    else setT s0 i (.sleeping (s0.now + c.idle) mis' true)
  | some (id, fireT) =>
    if s0.now ≥ fireT then
      let heap' := s0.heap.filter (·.1 != id)
      let s1 : St := { s0 with heap := heap' }
      let spawn := match headOf heap' with
        | some (_, t2) => decide (s0.now > t2) && decide (s0.watchers < c.maxWorkers)
        | none => false
      if spawn then setT { s1 with watchers := s1.watchers + 1, threads := s1.threads ++ [.top none 0] } i (.top (some id) mis')
      else setT s1 i (.top (some id) mis')
    else if s0.watchers > 1 then
      if mis' > 1 then setT { s0 with watchers := s0.watchers - 1 } i .exited
      else setT s0 i (.sleeping (s0.now + min (fireT - s0.now) c.idle) mis' true)
    else setT s0 i (.sleeping fireT mis' false)

example (c s fireT) : Step c s (stAdd c s fireT) := Step.add s fireT
example (c : Cfg) (s : St) (id : Nat) (h : id ∈ s.heap.map (·.1)) : Step c s (stCancel c s id) := Step.cancel s id h
example (c : Cfg) (s : St) (i : Nat) (f : Option Nat) (mis : Nat) (h : s.threads[i]? = some (.top f mis)) :
    Step c s (stSection c s i f mis) := by
  cases f <;> exact Step.section_ s i _ mis h

inductive Lbl where
  | add (fireT : Nat) | cancel (id : Nat) | section_ (i : Nat) | timerWake (i : Nat) | tokenWake (i : Nat) | tick
deriving Repr

structure Bounds where
  maxAdds : Nat := 3
  maxCancels : Nat := 1
  fireSpan : Nat := 4
  depth : Nat := 14

/-- node = (state with `started` erased, cancels used) -/
abbrev Node := St × Nat

def norm (s : St) : St := { s with started := [] }

def succs (c : Cfg) (b : Bounds) (n : Node) : List (Lbl × Node) := Id.run do
  let (s, nc) := n
  let mut out : List (Lbl × Node) := []
  if s.nextId < b.maxAdds then
    for k in [0:b.fireSpan+1] do
      out := (Lbl.add (s.now + k), (norm (stAdd c s (s.now + k)), nc)) :: out
  if nc < b.maxCancels then
    for (id, _) in s.heap do
      out := (Lbl.cancel id, (norm (stCancel c s id), nc + 1)) :: out
  let mut i := 0
  for p in s.threads do
    match p with
    | .top f mis => out := (Lbl.section_ i, (norm (stSection c s i f mis), nc)) :: out
    | .sleeping d mis _ =>
      if d ≤ s.now then out := (Lbl.timerWake i, (setT s i (.top none mis), nc)) :: out
      if 0 < s.tokens then out := (Lbl.tokenWake i, (setT { s with tokens := s.tokens - 1 } i (.top none 0), nc)) :: out
    | .exited => pure ()
    i := i + 1
  out := (Lbl.tick, ({ s with now := s.now + 1 }, nc)) :: out
  return out

def isSleeper : WPc → Bool | .sleeping .. => true | _ => false
def isTop : WPc → Bool | .top .. => true | _ => false

def respB (fireT : Nat) : WPc → Bool
  | .top _ _ => true
  | .sleeping d _ _ => d ≤ fireT
  | .exited => false

def pExact (c : Cfg) (s : St) : Bool :=
  s.watchers == live s && s.tokens ≤ c.maxWorkers && s.watchers ≤ c.maxWorkers

def pResp (_c : Cfg) (s : St) : Bool :=
  match headOf s.heap with
  | none => true
  | some (_, fireT) => s.threads.any (respB fireT) || (0 < s.tokens && s.threads.any isSleeper)

def pStuck (_c : Cfg) (s : St) : Bool :=
  match headOf s.heap with
  | none => true
  | some (_, fireT) =>
    if fireT ≤ s.now then
      s.threads.any isTop || s.threads.any (fun p => match p with
        | .sleeping d _ _ => d ≤ s.now || 0 < s.tokens | _ => false)
    else true

def cappedSoon (c : Cfg) (s : St) : WPc → Bool
  | .sleeping d _ true => d ≤ s.now + c.idle
  | _ => false

/-- V1: responsible, or token, or a capped sleeper wakes within idle -/
def pV1 (c : Cfg) (s : St) : Bool :=
  match headOf s.heap with
  | none => true
  | some (_, fireT) => s.threads.any (respB fireT) || (0 < s.tokens && s.threads.any isSleeper)
      || s.threads.any (cappedSoon c s)

/-- V2: as V1 but the third alternative only once the head's fire time has been reached -/
def pV2 (c : Cfg) (s : St) : Bool :=
  match headOf s.heap with
  | none => true
  | some (_, fireT) => s.threads.any (respB fireT) || (0 < s.tokens && s.threads.any isSleeper)
      || (fireT ≤ s.now && s.threads.any (cappedSoon c s))

/-- V3: as V2 and the sleeper's deadline is within idle of the fire time -/
def pV3 (c : Cfg) (s : St) : Bool :=
  match headOf s.heap with
  | none => true
  | some (_, fireT) => s.threads.any (respB fireT) || (0 < s.tokens && s.threads.any isSleeper)
      || (fireT ≤ s.now && s.threads.any (fun p => match p with
            | .sleeping d _ true => d ≤ fireT + c.idle | _ => false))

structure Result where
  visited : Nat
  firstBad : List (String × List Lbl × St)   -- property name, trace, state

partial def trace (par : Std.HashMap Node (Node × Lbl)) (n : Node) (acc : List Lbl) : List Lbl :=
  match par[n]? with
  | none => acc
  | some (p, l) => trace par p (l :: acc)

def explore (c : Cfg) (b : Bounds) (props : List (String × (Cfg → St → Bool))) : Result := Id.run do
  let init : Node := (St.init, 0)
  let mut par : Std.HashMap Node (Node × Lbl) := {}
  let mut seen : Std.HashSet Node := {}
  seen := seen.insert init
  let mut frontier : Array Node := #[init]
  let mut bad : List (String × List Lbl × St) := []
  let mut badNames : List String := []
  for _d in [0:b.depth+1] do
    let mut next : Array Node := #[]
    for n in frontier do
      for (name, p) in props do
        if !(p c n.1) && !(badNames.contains name) then
          bad := (name, trace par n [], n.1) :: bad
          badNames := name :: badNames
      if _d < b.depth then
        for (l, m) in succs c b n do
          if !(seen.contains m) then
            seen := seen.insert m
            par := par.insert m (n, l)
            next := next.push m
    frontier := next
  return { visited := seen.size, firstBad := bad.reverse }

def allProps : List (String × (Cfg → St → Bool)) :=
  [("watchers_exact", pExact), ("someone_responsible", pResp), ("no_stuck_state", pStuck),
   ("V1", pV1), ("V2", pV2), ("V3", pV3)]

def report (r : Result) : IO Unit := do
  IO.println s!"visited states: {r.visited}"
  if r.firstBad.isEmpty then IO.println "all properties hold on all visited states"
  for (name, tr, s) in r.firstBad do
    IO.println s!"VIOLATION of {name} (shortest trace, {tr.length} steps):"
    IO.println s!"  trace: {repr tr}"
    IO.println s!"  state: {repr s}"

end Explore

open Explore in
#eval report (explore { maxWorkers := 2, idle := 2 } { depth := 14 } allProps)

/- deeper / other configurations, repaired due test `now ≥ fireT` (run 2026-09-26; every property,
   including someone_responsible and no_stuck_state (`fireT ≤ now`), holds on all visited states):
open Explore in
#eval report (explore { maxWorkers := 2, idle := 2 } { depth := 14 } allProps)                                -- 154213 states
open Explore in
#eval report (explore { maxWorkers := 2, idle := 2 } { depth := 18 } allProps)                                -- 400481 states
open Explore in
#eval report (explore { maxWorkers := 3, idle := 1 } { depth := 16, fireSpan := 2 } allProps)                 -- 207596 states
open Explore in
#eval report (explore { maxWorkers := 2, idle := 3 } { depth := 16, maxCancels := 2, fireSpan := 3 } allProps) -- 202359 states
open Explore in
#eval report (explore { maxWorkers := 2, idle := 1 } { depth := 16, maxCancels := 2, fireSpan := 3 } allProps) -- 213631 states
open Explore in
#eval report (explore { maxWorkers := 3, idle := 2 } { depth := 15, maxAdds := 4, fireSpan := 2 } allProps)   -- 737855 states
-/
