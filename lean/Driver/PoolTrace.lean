import GolibsVerif.Model.TmoPoolExec
import Driver.Common
/-
Trace-refinement driver for C13: replays executions of the REAL timeout dispatcher (virtual clock,
harness-controlled sleep timers, instrumented critical sections) through `Tmo.Pool.Exec`.
case line: `case <id> <maxWorkers> <idle>`
events (expected `ok`):
  add <fireT> | cancel <id> | ticks <n> | fire <i> (the harness let thread i's sleep timer expire) |
  sec <i> (thread i ran its locked section; a sleeping thread that was not fired was woken by a token)
  obs <watchers> <heapLen> <tokens>     state of the real dispatcher at the end of that section
  sleep <i> <deadline> | exit <i> | start <i> <id>   what thread i did after the section
-/
namespace DrvPoolTrace
open Tmo.Pool Tmo.Pool.Exec Drv

structure TS where
  c : Cfg
  s : Option St

def showT : WPc → String
  | .top f mis => s!"top({f},{mis})" | .sleeping d mis cp => s!"sleep({d},{mis},{cp})" | .exited => "exited"
def showSt (s : St) : String :=
  s!"now={s.now} heap={s.heap} watchers={s.watchers} tokens={s.tokens} threads={s.threads.map showT}"

def comp : Component where
  σ := TS
  init := { c := { maxWorkers := 10, idle := 30000 }, s := some St.init }
  newCase := fun ws => match ws with
    | [m, i] => do pure { c := { maxWorkers := ← m.toNat?, idle := ← i.toNat? }, s := some St.init }
    | _ => none
  step := fun ts ws =>
    match ts.s with
    | none => some (ts, "model-lost")
    | some s =>
      match ws with
      | ["obs", w, h, t] =>
        -- watchers and heap length are exact.  Wake tokens are consumed OUTSIDE the locked sections (in a
        -- watcher's select), so the real channel may already be shorter than the model's count by the
        -- number of sleeping watchers that have taken a token but have not run their section yet
        -- (the model consumes the token when that section arrives).
        let nSleep := (s.threads.filter fun p => match p with | .sleeping _ _ _ => true | _ => false).length
        let tokOk : Bool := match t.toNat? with
          | some tk => decide (tk ≤ s.tokens) && decide (s.tokens - tk ≤ nSleep)
          | none => false
        some (ts, if s!"{s.watchers} {s.heap.length}" == s!"{w} {h}" && tokOk then "ok" else s!"state-differs model {showSt s}")
      | ["sleep", i, d] => do
        let i ← i.toNat?; let d ← d.toNat?
        pure (ts, match s.threads[i]? with
          | some (.sleeping d' _ _) => if d' = d then "ok" else s!"deadline-differs model {showSt s}"
          | _ => s!"not-sleeping model {showSt s}")
      | ["exit", i] => do
        let i ← i.toNat?
        pure (ts, match s.threads[i]? with | some .exited => "ok" | _ => s!"not-exited model {showSt s}")
      | ["unit", _] => some (ts, "ok")      -- what one clock unit stands for in the real run: the model is unit-free
      | ["start", i, id] => do
        let i ← i.toNat?; let id ← id.toNat?
        pure (ts, match s.threads[i]? with
          | some (.top (some id') _) => if id' = id then "ok" else s!"other-callback model {showSt s}"
          | _ => s!"no-callback-pending model {showSt s}")
      | _ =>
        let go (e : Event) (s : St) : Option St := handle ts.c s e
        let r : Option (Option St) := match ws with
          | ["add", t] => t.toNat?.map fun t => go (.add t) s
          | ["cancel", id] => id.toNat?.map fun id => go (.cancel id) s
          | ["ticks", n] => n.toNat?.map fun n => go (.ticks n) s
          | ["fire", i] => i.toNat?.map fun i => go (.timerWake i) s
          | ["wake", i] => i.toNat?.map fun i => go (.tokenWake i) s
          | ["sec", i] => i.toNat?.map fun i =>
            match (s.threads[i]? : Option WPc) with
            | some (WPc.sleeping _ _ _) => (go (.tokenWake i) s).bind (go (.sec i))
            | _ => go (.sec i) s
          | _ => none
        r.map fun r => match r with
          | some s' => ({ ts with s := some s' }, "ok")
          | none => ({ ts with s := none }, s!"not-enabled {showSt s}")

end DrvPoolTrace
