import GolibsVerif.Model.Errs
import Driver.Common
/-
Driver for C19.  An error recipe is `base;wrapper;…` (innermost first), text fields in hex:
  base:    C.<ClassName> | O.<hexmsg> | S.<CodeName>.<hexmsg>
           | P.<ClassName>.<hexmsg>                       (OS error value of that class, `.osErr`)
  wrapper: W.<hexpre>.<hexpost> | E.<hexjson>
           | W2.<hexpre>.<hexmid>.<hexpost>.<L|R>.<hexmsg>  (two %w: the chain so far is the Left / Right
                                                           child, the other child is errors.New(msg))
           | J.<L|R>.<hexmsg>                             (errors.Join = W2 with pre "", mid "\n", post "")
("-" = empty text)
ops: is <recipe> <Class> | code <recipe> | ext <recipe> | extraw <recipe> | idem <recipe> | from <CodeName> | markers <recipe>
-/
namespace DrvErrs
open Errs Gen.Errs Drv

def hexVal (c : Char) : Option Nat :=
  if '0' ≤ c ∧ c ≤ '9' then some (c.toNat - 48)
  else if 'a' ≤ c ∧ c ≤ 'f' then some (c.toNat - 87) else none

def unhexChars : List Char → Option (List UInt8)
  | [] => some []
  | [_] => none
  | a :: b :: rest => do
    let x ← hexVal a; let y ← hexVal b; let r ← unhexChars rest
    pure (UInt8.ofNat (x * 16 + y) :: r)

def unhex (s : String) : Option String :=
  if s = "-" then some "" else do
    let bs ← unhexChars s.toList
    String.fromUTF8? (ByteArray.mk bs.toArray)

def hexDigit (n : Nat) : Char := if n < 10 then Char.ofNat (48 + n) else Char.ofNat (87 + n)
def hexOf (s : String) : String :=
  if s.isEmpty then "-" else
  String.mk (s.toUTF8.toList.foldr (fun x acc => hexDigit (x.toNat / 16) :: hexDigit (x.toNat % 16) :: acc) [])

def clsOf (n : String) : Option Cls := allClasses.find? (·.name == n)
def codeOf (n : String) : Option Code := allCodes.find? (·.name == n)

def parseBase (s : String) : Option Err :=
  match s.splitOn "." with
  | ["C", n] => (clsOf n).map .cls
  | ["O", m] => (unhex m).map .other
  | ["S", c, m] => do let c ← codeOf c; let m ← unhex m; pure (.status c [.txt m])
  | ["P", n, m] => do let c ← clsOf n; let m ← unhex m; pure (.osErr c m)
  | _ => none

/-- two-`%w` wrapping with the chain so far on side `L`/`R` and `errors.New(m)` on the other -/
def wrap2Side (pre mid post : String) (e : Err) (side : String) (m : String) : Option Err :=
  if side = "L" then some (.wrap2 pre mid post e (.other m))
  else if side = "R" then some (.wrap2 pre mid post (.other m) e)
  else none

def applyWrapper (e : Err) (s : String) : Option Err :=
  match s.splitOn "." with
  | ["W", a, b] => do let a ← unhex a; let b ← unhex b; pure (.wrap a b e)
  | ["E", j] => do let j ← unhex j; pure (.embed j e)
  | ["ES", j] => do let j ← unhex j; pure (.embed j e)     -- the object is a Go string; j is its canonical JSON text
  | ["W2", a, b, c, side, m] => do
    let a ← unhex a; let b ← unhex b; let c ← unhex c; let m ← unhex m
    wrap2Side a b c e side m
  | ["J", side, m] => do let m ← unhex m; wrap2Side "" "\n" "" e side m
  | _ => none

def parseRecipe (s : String) : Option Err :=
  match s.splitOn ";" with
  | [] => none
  | b :: ws => do
    let e ← parseBase b
    ws.foldlM applyWrapper e

def step1 : List String → Option String
  | ["is", r, t] => do let e ← parseRecipe r; let t ← clsOf t; pure s!"b {is (grpcWrap e) t}"
  | ["israw", r, t] => do let e ← parseRecipe r; let t ← clsOf t; pure s!"b {is e t}"
  | ["code", r] => do let e ← parseRecipe r; pure s!"code {(grpcStatusCode e).name}"
  | ["ext", r] => do
    let e ← parseRecipe r
    pure (match extractObject (grpcWrap e) with | some j => s!"json {hexOf j}" | none => "none")
  | ["extraw", r] => do
    let e ← parseRecipe r
    pure (match extractObject e with | some j => s!"json {hexOf j}" | none => "none")
  | ["idem", r] => do let e ← parseRecipe r; pure s!"b {grpcWrap (grpcWrap e) == grpcWrap e}"
  | ["markers", r] => do let e ← parseRecipe r; pure s!"num {markers (text (grpcWrap e))}"
  | ["embed2", _, _] => some "refused"      -- a second EmbedObject: outside the model's precondition; judged by the Go-side monitor
  | ["from", c] => do
    let c ← codeOf c
    pure (match fromCode c with | some k => k.name | none => "nil")
  | _ => none

def comp : Component where
  σ := Unit
  init := ()
  newCase := fun _ => some ()
  step := fun _ ws => (step1 ws).map fun s => ((), s)

end DrvErrs
