import GolibsVerif.Model.Zip
import Driver.Common
/-
Driver for C20.  All names/paths/contents travel hex-encoded (UTF-8), `-` = empty.
ops:
  clean <hexpath>                         filepath.Clean of an absolute path
  join <hexdest> <hexname>                filepath.Join(dest, name), dest absolute and clean
  unzip <hexdest> <entries>               entries = `hexname:hexcontent,…` ; output files/dirs/err
  roundtrip <hexdest> <filter> <rec> <tree>   tree = `hexrel:hexcontent,…`; filter ∈ all|notskip|none
-/
namespace DrvZip
open Zip Drv

def splitAbs (p : String) : List String := (p.splitOn "/")
def showPath (p : Path) : String := "/" ++ "/".intercalate p

def insertSorted (k : String) : List String → List String
  | [] => [k]
  | x :: xs => if k < x then k :: x :: xs else x :: insertSorted k xs
def sortS (l : List String) : List String := l.foldr insertSorted []

def parsePairs (s : String) : Option (List (String × String)) :=
  if s = "-" then some [] else
  (s.splitOn ",").mapM fun (p : String) => match p.splitOn ":" with
    | [a, b] => do pure (← unhexStr a, b)     -- contents stay hex (they may be binary)
    | _ => none

def showFS (fs : FS) (err : Option UErr) : String :=
  let fl := sortS (fs.files.map fun (p, c) => hexOfStr (showPath p) ++ ":" ++ c)
  let dl := sortS (fs.dirs.map fun p => hexOfStr (showPath p))
  "files [" ++ ",".intercalate fl ++ "] dirs [" ++ ",".intercalate dl ++ "] err=" ++
    (match err with | none => "none" | some .escapes => "escapes" | some .ioError => "io")

def keepOf : String → List String → Bool
  | "all", _ => true
  | "none", _ => false
  | _, rel => match rel.getLast? with
    | some n => !n.endsWith ".skip"
    | none => true

def step1 : List String → Option String
  | ["clean", p] => do
    let p ← unhexStr p
    pure (hexOfStr (showPath (cleanAbs (splitAbs p))))
  | ["join", d, n] => do
    let d ← unhexStr d; let n ← unhexStr n
    pure (hexOfStr (showPath (target (cleanAbs (splitAbs d)) (n.splitOn "/"))))
  | ["unzip", d, es] => do
    let d ← unhexStr d
    let es ← parsePairs es
    let dest := cleanAbs (splitAbs d)
    let (fs, err) := unzip dest FS.empty (es.map fun (n, c) => { name := n.splitOn "/", content := c })
    pure (showFS fs err)
  | ["roundtrip", d, flt, rc, tree] => do
    let d ← unhexStr d
    let tr ← parsePairs tree
    let dest := cleanAbs (splitAbs d)
    let tfiles : List TFile := tr.map fun (r, c) => { rel := r.splitOn "/", content := c }
    let (fs, err) := unzip dest FS.empty (zipFolder tfiles (keepOf flt) (rc == "true"))
    pure (showFS { fs with dirs := [] } err)
  | _ => none

def comp : Component where
  σ := Unit
  init := ()
  newCase := fun _ => some ()
  step := fun _ ws => (step1 ws).map fun s => ((), s)

end DrvZip
