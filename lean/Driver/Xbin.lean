import GolibsVerif.Model.Xbin
import GolibsVerif.Generated.XbinSize
import Driver.Common
/-
Driver for C15/C16 (xbinary).  Bytes travel as lowercase hex (`-` = empty).
ops:  mu v n | uu hex | sz v | mf k v n | uf k hex | mb hex n | ub hex | szb len
      wu v | wf k v | wb hex | enc items | dec kinds hex
items: comma separated `b:5` `h:300` `w:7` `q:9` `u:300` `s:0a0b` (s:- = empty); kinds: letters bhwqus
-/
namespace DrvXbin
open Xbin Drv

def hexDigit (n : Nat) : Char := if n < 10 then Char.ofNat (48 + n) else Char.ofNat (87 + n)
def toHex (b : Bytes) : String :=
  if b.isEmpty then "-" else String.mk (b.foldr (fun x acc => hexDigit (x / 16 % 16) :: hexDigit (x % 16) :: acc) [])

def hexVal (c : Char) : Option Nat :=
  if '0' ≤ c ∧ c ≤ '9' then some (c.toNat - 48)
  else if 'a' ≤ c ∧ c ≤ 'f' then some (c.toNat - 87) else none

def fromHexChars : List Char → Option Bytes
  | [] => some []
  | [_] => none
  | a :: b :: rest => do
    let x ← hexVal a; let y ← hexVal b; let r ← fromHexChars rest
    pure ((x * 16 + y) :: r)

def fromHex (s : String) : Option Bytes := if s = "-" then some [] else fromHexChars s.toList

def showItem : Item → String
  | .byte v => s!"b:{v}" | .u16 v => s!"h:{v}" | .u32 v => s!"w:{v}" | .u64 v => s!"q:{v}"
  | .uint v => s!"u:{v}" | .bytes d => s!"s:{toHex d}"

def parseItem (s : String) : Option Item :=
  match s.splitOn ":" with
  | ["b", v] => v.toNat?.map .byte | ["h", v] => v.toNat?.map .u16 | ["w", v] => v.toNat?.map .u32
  | ["q", v] => v.toNat?.map .u64 | ["u", v] => v.toNat?.map .uint | ["s", h] => (fromHex h).map .bytes
  | _ => none

def parseKind : Char → Option Kind
  | 'b' => some .byte | 'h' => some .u16 | 'w' => some .u32 | 'q' => some .u64 | 'u' => some .uint | 's' => some .bytes
  | _ => none

def showRes : Res Bytes → String
  | .ok b => s!"ok {toHex b}" | .err => "err"

def showU : Res (Nat × Nat) → String
  | .ok (n, v) => s!"ok {n} {v}" | .err => "err 0"

def step1 : List String → Option String
  | ["mu", v, n] => do let v ← v.toNat?; let n ← n.toNat?; pure (showRes (marshalUint v n))
  | ["uu", h] => do let b ← fromHex h; pure (showU (unmarshalUint b))
  | ["sz", v] => do let v ← v.toNat?; pure s!"num {Gen.Xbin.writableUintSize v}"
  | ["mf", k, v, n] => do let k ← k.toNat?; let v ← v.toNat?; let n ← n.toNat?; pure (showRes (marshalFixed k v n))
  | ["uf", k, h] => do let k ← k.toNat?; let b ← fromHex h; pure (showU (unmarshalFixed k b))
  | ["mb", h, n] => do let d ← fromHex h; let n ← n.toNat?; pure (showRes (marshalBytes d n))
  | ["mbz", l, n] => do
    let l ← l.toNat?; let n ← n.toNat?
    pure (match marshalBytes (List.replicate l 0) n with
      | .ok b => s!"ok len={b.length} prefix={toHex (b.take (b.length - l))}" | .err => "err")
  | ["ub", h] => do
    let b ← fromHex h
    pure (match unmarshalBytes b with
      | .ret n d false => s!"ok {n} {toHex d}" | .ret n _ true => s!"err {n}" | .panic => "panic")
  | ["szb", l] => do let l ← l.toNat?; pure s!"num {Gen.Xbin.writableUintSize l + l}"
  | ["wu", v] => do let v ← v.toNat?; pure (toHex (writerItem (.uint v)))
  | ["wf", k, v] => do let k ← k.toNat?; let v ← v.toNat?; pure (toHex (putBE k v))
  | ["wb", h] => do let d ← fromHex h; pure (toHex (writerItem (.bytes d)))
  | ["enc", its] => do
    let items ← (its.splitOn ",").mapM parseItem
    pure (toHex (items.map writerItem).flatten)
  | ["dec", ks, h] => do
    let kinds ← ks.toList.mapM parseKind
    let b ← fromHex h
    pure (match decodeAll kinds b with
      | some (items, rest) => ",".intercalate (items.map showItem) ++ " rest=" ++ toHex rest
      | none => "err")
  | _ => none

def comp : Component where
  σ := Unit
  init := ()
  newCase := fun _ => some ()
  step := fun _ ws => (step1 ws).map fun s => ((), s)

end DrvXbin
