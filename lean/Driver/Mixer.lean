import GolibsVerif.Model.Mixer
import Driver.Common
/-
Driver for C18.  case line: `case <id> <sel> <l1> <l2> <r1> <r2> [<g1> <g2>]`; sel ∈ lt|le|ge|true|false|mod;
g1/g2 ("true"/"false", default false) = that input's tail vanishes (HasNext true, then Next (0,false)).
ops: hasNext → `b <bool>` | next → `nx <v> <ok>` | reset → `rs ok|unimplemented|dataLoss`
When both sources are resettable the Spec (reference merge) is run alongside the I-model.
-/
namespace DrvMixer
open Mixer Drv

def selOf : String → Option (Nat → Nat → Bool)
  | "lt" => some fun a b => a < b
  | "le" => some fun a b => a ≤ b
  | "ge" => some fun a b => a ≥ b
  | "true" => some fun _ _ => true
  | "false" => some fun _ _ => false
  | "mod" => some fun a b => (a + b) % 2 == 0
  | _ => none

def showOut : Out → String
  | .b v => s!"b {v}"
  | .nx v ok => s!"nx {v} {ok}"
  | .rs .ok => "rs ok" | .rs .unimplemented => "rs unimplemented" | .rs .dataLoss => "rs dataLoss"

structure St where
  sf : Nat → Nat → Bool
  m : Mx
  s : S
  withSpec : Bool

def comp : Component where
  σ := St
  init := { sf := fun _ _ => true, m := Mx.init [] [], s := (Mx.init [] []).abs, withSpec := true }
  newCase := fun ws => match ws with
    | [sel, l1, l2, r1, r2] => do
      let sf ← selOf sel
      let a ← parseNatList? l1
      let b ← parseNatList? l2
      let m := Mx.init a b (r1 == "true") (r2 == "true")
      pure { sf := sf, m := m, s := m.abs, withSpec := r1 == "true" && r2 == "true" }
    | [sel, l1, l2, r1, r2, g1, g2] => do
      let sf ← selOf sel
      let a ← parseNatList? l1
      let b ← parseNatList? l2
      let m := Mx.init a b (r1 == "true") (r2 == "true") (g1 == "true") (g2 == "true")
      pure { sf := sf, m := m, s := m.abs, withSpec := r1 == "true" && r2 == "true" }
    | _ => none
  step := fun st ws =>
    let op? : Option Op := match ws with
      | ["hasNext"] => some .hasNext | ["next"] => some .next | ["reset"] => some .reset | _ => none
    op?.map fun op =>
      let (m', o) := st.m.step st.sf op
      let (s', os) := st.s.step st.sf op
      let txt := showOut o
      let txt := if !st.withSpec || o = os then txt else txt ++ " !spec=" ++ showOut os
      ({ st with m := m', s := s' }, txt)

end DrvMixer
