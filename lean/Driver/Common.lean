/-
Line protocol shared by all component drivers.

Input line:   `<op tokens> | <implementation output>`   (or `# comment`, or `case <id> ...`)
For every op line the component's `step` computes the model output; a mismatch prints
`DIFF <lineNo> case=<id> :: <op> :: impl=<..> model=<..>`.  The last line is
`DONE lines=<n> ops=<k> diffs=<d>`.
-/
namespace Drv

def splitBar (line : String) : String × String :=
  match line.splitOn " | " with
  | [a] => (a.trim, "")
  | a :: rest => (a.trim, (" | ".intercalate rest).trim)
  | [] => ("", "")

def words (s : String) : List String := (s.splitOn " ").filter (· ≠ "")

def parseInt? (s : String) : Option Int := s.toInt?
def parseNat? (s : String) : Option Nat := s.toNat?

def natList (l : List Nat) : String := "[" ++ ",".intercalate (l.map toString) ++ "]"
def intList (l : List Int) : String := "[" ++ ",".intercalate (l.map toString) ++ "]"

/-- parse `1,2,3` or `-` (empty) -/
def parseNatList? (s : String) : Option (List Nat) :=
  if s = "-" ∨ s = "" then some [] else (s.splitOn ",").mapM (·.toNat?)
def parseIntList? (s : String) : Option (List Int) :=
  if s = "-" ∨ s = "" then some [] else (s.splitOn ",").mapM (·.toInt?)

def hexVal (c : Char) : Option Nat :=
  if '0' ≤ c ∧ c ≤ '9' then some (c.toNat - 48)
  else if 'a' ≤ c ∧ c ≤ 'f' then some (c.toNat - 87) else none

def unhexBytes : List Char → Option (List UInt8)
  | [] => some []
  | [_] => none
  | a :: b :: rest => do
    let x ← hexVal a; let y ← hexVal b; let r ← unhexBytes rest
    pure (UInt8.ofNat (x * 16 + y) :: r)

/-- hex → UTF-8 string (`-` = empty) -/
def unhexStr (s : String) : Option String :=
  if s = "-" then some "" else do
    let bs ← unhexBytes s.toList
    String.fromUTF8? (ByteArray.mk bs.toArray)

def hexDigitC (n : Nat) : Char := if n < 10 then Char.ofNat (48 + n) else Char.ofNat (87 + n)
def hexOfStr (s : String) : String :=
  if s.isEmpty then "-" else
  String.ofList (s.toUTF8.toList.foldr (fun x acc => hexDigitC (x.toNat / 16) :: hexDigitC (x.toNat % 16) :: acc) [])

/-- A component: a state, a way to start a case from the `case` line's words, and a step that
maps an op (as words) to the model output text.  `none` from `step` = malformed op line. -/
structure Component where
  σ : Type
  init : σ
  newCase : List String → Option σ
  step : σ → List String → Option (σ × String)

partial def loop (c : Component) (h : IO.FS.Stream) (st : c.σ) (caseId : String)
    (lineNo ops diffs : Nat) : IO (Nat × Nat × Nat) := do
  let line ← h.getLine
  if line.isEmpty then return (lineNo, ops, diffs)
  let line := line.trimRight
  let lineNo := lineNo + 1
  if line.isEmpty ∨ line.startsWith "#" then loop c h st caseId lineNo ops diffs
  else
    let (opS, expS) := splitBar line
    match words opS with
    | "case" :: id :: rest =>
      match c.newCase rest with
      | some st' => loop c h st' id lineNo ops diffs
      | none =>
        IO.println s!"DIFF {lineNo} case={id} :: {opS} :: bad-case-line"
        loop c h st id lineNo ops (diffs + 1)
    | "mon" :: _ =>
      -- property monitor evaluated by the harness directly on the real code: must report ok
      if expS = "ok" then loop c h st caseId lineNo ops diffs
      else
        IO.println s!"DIFF {lineNo} case={caseId} :: {opS} :: impl={expS} model=ok"
        loop c h st caseId lineNo ops (diffs + 1)
    | ws =>
      match c.step st ws with
      | some (st', out) =>
        if out = expS then loop c h st' caseId lineNo (ops + 1) diffs
        else
          IO.println s!"DIFF {lineNo} case={caseId} :: {opS} :: impl={expS} model={out}"
          loop c h st' caseId lineNo (ops + 1) (diffs + 1)
      | none =>
        IO.println s!"DIFF {lineNo} case={caseId} :: {opS} :: bad-op"
        loop c h st caseId lineNo ops (diffs + 1)

def run (c : Component) : IO UInt32 := do
  let h ← IO.getStdin
  let (n, ops, diffs) ← loop c h c.init "-" 0 0 0
  IO.println s!"DONE lines={n} ops={ops} diffs={diffs}"
  return 0

end Drv
