import GolibsVerif.Model.LockExec
import Driver.Common
/-
Trace-refinement driver for C01/C04/C05: replays a trace of the REAL kvsLock goroutines (recorded
under the controlled scheduler of harness/cmd/conc) through `Lock.Exec.handle`.
case line: `case <id> lk=<l0,l1,…> pv=<p0,p1,…>`  (worker i uses Locker lk[i]; Locker j belongs to provider pv[j])
events (one per line, expected output `ok`):
  call g lock | call g lockctx | call g lockctx-cancelled | call g try | call g unlock
  at g create | rel g create ok|exists|reqlost|replylost|ctxerr | rel g wait cond|fault
  at g delete | rel g delete effect|reqlost | ret g acquired|not <token> <cntr>
  cancel g | shutdown p | expire | fireall | rel cas <ver> ok|definitive|reqlost|replylost
  check holders=<list> rec=<ver|-> armed=<n> sups=<n>      (observed on the real system after settling)
An event the model does not allow prints `not-enabled …`.
-/
namespace DrvLockTrace
open Lock Lock.Exec Drv

structure TS where
  cfg : Cfg
  n : Nat                    -- number of workers
  s : Option St

def showPc : Pc → String
  | .idle => "idle" | .lSelect => "lSelect" | .lCtxCheck => "lCtxCheck" | .lCreate => "lCreate"
  | .lWait v => s!"lWait({v})" | .lFail => "lFail" | .tSelect => "tSelect" | .tCreate => "tCreate"
  | .tFail => "tFail" | .uCancel => "uCancel" | .uDelete => "uDelete" | .uToken => "uToken"

def describe (ts : TS) (s : St) : String :=
  let gs := List.range ts.n
  "pcs=[" ++ ",".intercalate (gs.map fun g => showPc (s.pc g) ++ (if s.holds g then "*" else "")) ++ "] rec=" ++
    (match s.lrec with | some r => toString r.ver | none => "-") ++
    s!" armed={s.armed.length} sups={s.sups.length} tokens=[" ++
    ",".intercalate (gs.map fun g => toString (s.token (ts.cfg.lk g))) ++ "]"

def parseEvent : List String → Option Event
  | ["call", g, "lock"] => g.toNat?.map fun g => .callLock g false false
  | ["call", g, "lockctx"] => g.toNat?.map fun g => .callLock g true false
  | ["call", g, "lockctx-cancelled"] => g.toNat?.map fun g => .callLock g true true
  | ["call", g, "lockctx-shut"] => g.toNat?.map fun g => .callLock g true false   -- the Shutdown it triggers is its own event
  | ["call", g, "try"] => g.toNat?.map .callTry
  | ["call", g, "unlock"] => g.toNat?.map .callUnlock
  | ["at", g, "create"] => g.toNat?.map .atCreate
  | ["rel", g, "create", r] => do
    let g ← g.toNat?
    let r ← match r with
      | "ok" => some CreateRes.ok | "exists" => some .exists_ | "reqlost" => some .reqLost
      | "replylost" => some .replyLost | "ctxerr" => some .ctxErr | _ => none
    pure (.relCreate g r)
  | ["rel", g, "wait", k] => g.toNat?.map fun g => .relWait g (k == "fault")
  | ["at", g, "delete"] => g.toNat?.map .atDelete
  | ["rel", g, "delete", k] => g.toNat?.map fun g => .relDelete g (k == "reqlost")
  | ["ret", g, k] => do
    -- token / counter are not observed at return time (other goroutines of the Locker may already be
    -- running); the candidates are tried by `retEvent`, the settled Locker state is compared by `lockstate`
    pure (.ret (← g.toNat?) (if k == "acquired" then .acquired else .notAcquired) true 0)
  | ["cancel", g] => g.toNat?.map .cancel
  | ["shutdown", p] => p.toNat?.map .shutdown
  | ["expire"] => some .expire
  | ["fireall"] => some .fireAll
  | ["rel", "cas", v, r] => do
    let v ← v.toNat?
    let r ← match r with
      | "ok" => some CasRes.ok | "definitive" => some .definitive | "reqlost" => some .reqLost
      | "replylost" => some .replyLost | _ => none
    pure (.relCas v r)
  | _ => none

def listOf (l : List Nat) (i : Nat) : Nat := l.getD i 0

def comp : Component where
  σ := TS
  init := { cfg := { lk := id, pv := fun _ => 0 }, n := 0, s := some St.init }
  newCase := fun ws => match ws with
    | [lk, pv] => do
      let lks ← parseNatList? (lk.drop 3).toString
      let pvs ← parseNatList? (pv.drop 3).toString
      pure { cfg := { lk := listOf lks, pv := listOf pvs }, n := lks.length, s := some St.init }
    | _ => none
  step := fun ts ws =>
    match ts.s with
    | none => some (ts, "model-lost")
    | some s =>
      match ws with
      | "check" :: rest =>
        let holders := (List.range ts.n).filter fun g => s.holds g
        let txt := s!"holders={natList holders} rec=" ++ (match s.lrec with | some r => toString r.ver | none => "-") ++
          s!" armed={s.armed.length} sups={s.sups.length}"
        let obs := " ".intercalate rest
        some (ts, if obs = txt then "ok" else s!"state-differs model[{txt}] {describe ts s}")
      | "lockstate" :: rest =>
        -- `l=token:cntr` for every Locker whose provider is up, observed after the system settled
        let bad := rest.filter fun item =>
          match item.splitOn "=" with
          | [l, tc] => match l.toNat?, tc.splitOn ":" with
            | some l, [t, cn] => !(s.token l == (t == "true") && some (s.cntr l) == cn.toNat?)
            | _, _ => true
          | _ => true
        some (ts, if bad.isEmpty then "ok" else s!"lockstate-differs at {bad} model: {describe ts s}")
      | _ =>
        match parseEvent ws with
        | none => none
        | some e =>
          let tryE : Option St := match e with
            | .ret g k _ _ =>
              [(true, 0), (false, 1), (false, 0), (true, 1)].findSome? fun (t, cn) => handle ts.cfg s (.ret g k t cn)
            | e => handle ts.cfg s e
          match tryE with
          | some s' => some ({ ts with s := some s' }, "ok")
          | none => some ({ ts with s := none }, s!"not-enabled {describe ts s}")

end DrvLockTrace
