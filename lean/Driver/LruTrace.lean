import GolibsVerif.Model.LruConcExec
import Driver.Common
/-
Trace-refinement driver for C09: replays the critical sections and create-function calls of the REAL
ECache (recorded under the controlled scheduler) through `Lru.Conc.Exec`.
case line: `case <id> <cap> <mod> <ncallers>`  (km pk = pk % mod, mod = 0: identity)
events (expected `ok`):
  call i goc pk | call i rm pk | call i clr | sec i goc1 | begin i | end i ok v | end i fail |
  sec i goc2 | sec i rm | sec i clr | ret i <result> | state <items> <inflight> | dels <list>
  items = k:pk:v,… oldest first (`-` empty); inflight = sorted keys; dels = delete callbacks since the last `dels`
-/
namespace DrvLruTrace
open Lru Lru.Conc Lru.Conc.Exec Drv

structure TS where
  cap : Nat
  md : Nat
  s : Option St
  seenLog : Nat        -- log entries already compared

def kmOf (md : Nat) : Nat → Nat := fun pk => if md = 0 then pk else pk % md

def showItems (l : List Entry) : String :=
  if l.isEmpty then "-" else ",".intercalate (l.map fun e => s!"{e.k}:{e.pk}:{e.v}")
def insSorted (k : Nat) : List Nat → List Nat
  | [] => [k]
  | x :: xs => if k < x then k :: x :: xs else x :: insSorted k xs
def showKeys (l : List Nat) : String :=
  if l.isEmpty then "-" else ",".intercalate ((l.foldr insSorted []).map toString)
def showRes : Res → String
  | .val v => s!"val {v}" | .err => "err" | .b x => s!"b {x}" | .num n => s!"num {n}"
def showPcs (s : St) : String := toString (s.pcs.map fun p => match p with
  | .idle => "idle" | .start _ => "start" | .waiting _ k => s!"waiting({k})" | .creating _ k => s!"creating({k})"
  | .inCreate _ k => s!"inCreate({k})" | .created _ k _ => s!"created({k})" | .done r => "done:" ++ showRes r)

def comp : Component where
  σ := TS
  init := { cap := 1, md := 0, s := some (St.init 0), seenLog := 0 }
  newCase := fun ws => match ws with
    | [cap, md, n] => do pure { cap := ← cap.toNat?, md := ← md.toNat?, s := some (St.init (← n.toNat?)), seenLog := 0 }
    | _ => none
  step := fun ts ws =>
    match ts.s with
    | none => some (ts, "model-lost")
    | some s =>
      match ws with
      | ["state", items, infl] =>
        let t := showItems s.items ++ " " ++ showKeys s.inflight
        some (ts, if t = items ++ " " ++ infl then "ok" else s!"state-differs model[{t}] pcs={showPcs s}")
      | ["dels", d] =>
        let news := (s.log.drop ts.seenLog).filterMap fun e => match e with
          | .delete pk v => some s!"{pk}:{v}" | _ => none
        let t := if news.isEmpty then "-" else ",".intercalate news
        some ({ ts with seenLog := s.log.length }, if t = d then "ok" else s!"delete-callbacks-differ model[{t}]")
      | "ret" :: i :: r =>
        match i.toNat? with
        | none => none
        | some i =>
          let want := " ".intercalate r
          match s.pcs[i]? with
          | some (.done res) =>
            if showRes res = want then
              match handle ts.cap (kmOf ts.md) s (.ret i) with
              | some s' => some ({ ts with s := some s' }, "ok")
              | none => some ({ ts with s := none }, "not-enabled ret")
            else some (ts, s!"result-differs model[{showRes res}]")
          | _ => some (ts, s!"return-not-enabled pcs={showPcs s}")
      | _ =>
        let ev? : Option Event := match ws with
          | ["call", i, "goc", pk] => do pure (.call (← i.toNat?) (.goc (← pk.toNat?)))
          | ["call", i, "rm", pk] => do pure (.call (← i.toNat?) (.rm (← pk.toNat?)))
          | ["call", i, "clr"] => i.toNat?.map fun i => .call i .clr
          | ["sec", i, "goc1"] => i.toNat?.map .sec1
          | ["sec", i, "goc2"] => i.toNat?.map .sec2
          | ["sec", i, "rm"] => i.toNat?.map .secRm
          | ["sec", i, "clr"] => i.toNat?.map .secClr
          | ["begin", i] => i.toNat?.map .createBegin
          | ["end", i, "ok", v] => do pure (.createEnd (← i.toNat?) (some (← v.toNat?)))
          | ["end", i, "fail"] => i.toNat?.map fun i => .createEnd i none
          | _ => none
        ev?.map fun e => match handle ts.cap (kmOf ts.md) s e with
          | some s' => ({ ts with s := some s' }, "ok")
          | none => ({ ts with s := none }, s!"not-enabled items={showItems s.items} inflight={showKeys s.inflight} pcs={showPcs s}")

end DrvLruTrace
