import Driver.Kv
/-
Driver for C02: validates a linearization WITNESS of a concurrent history of a kvs.Storage.
case line: `case <id> <backend>`.  Every op line carries the logical timestamps of the operation's
invocation and response and is listed in the claimed linearization order:
    <inv> <ret> <thread> <op…> | <result>
The driver checks (1) real-time order: no operation is placed after one that was invoked only
after it had responded (ret_j > inv_i for all i before j), and (2) legality: replaying the ops in
this order through the CONTRACT (`Kv.Spec`, time 0) yields exactly the observed results (versions
renamed by first occurrence).  (Order of atomic steps ⇒ linearization: Props/Lin.lean.)
-/
namespace DrvKvLin
open Kv Drv DrvKv

structure LSt where
  sp : Spec
  seen : List Nat
  maxInv : Nat

def comp : Component where
  σ := LSt
  init := { sp := Spec.new, seen := [], maxInv := 0 }
  newCase := fun _ => some { sp := Spec.new, seen := [], maxInv := 0 }
  step := fun st ws => match ws with
    | ["burst", _, _] => some (st, "ok")     -- version-uniqueness stress: judged by its Go-side monitor (C02-fresh-version)
    | inv :: ret :: _thread :: rest => do
      let inv ← inv.toNat?
      let ret ← ret.toNat?
      let op ← parseOp st.seen rest
      let (sp', o) := st.sp.step 0 op
      let (seen, txt) := render st.seen o
      let st' := { sp := sp', seen := seen, maxInv := max st.maxInv inv }
      pure (st', if ret > st.maxInv then txt else txt ++ s!" !real-time-order(ret={ret} <= earlier inv={st.maxInv})")
    | _ => none

end DrvKvLin
