import GolibsVerif.Model.WaitersExec
import Driver.Common
/-
Trace-refinement driver for C07: replays the critical sections of the REAL in-memory storage
(WaitForVersionChange + mutators), recorded through the instrumented lock, through `Waiters.Exec`.
case line: `case <id> <key:ver,key:ver,…>`  — the waiters (index order); ver = ordinal of the write
whose version the waiter waits on (0 = a version that was never issued).
events (expected output `ok`):
  sec i check | sec i cancelled | sec i timer | write k | delete k | touch k | expire k | cancel i
  table k=n,…         waiter table observed on the real object after the previous section (`-` = empty)
  ret i nil|notExist|ctxErr      waiter i's WaitForVersionChange returned
-/
namespace DrvWaitTrace
open Waiters Waiters.Exec Drv

def showTable (s : St) : String :=
  if s.table.isEmpty then "-" else
  ",".intercalate ((s.table.map fun e => s!"{e.1}={e.2.2}").foldr (fun k acc =>
    -- insertion sort for a canonical order
    let rec ins (k : String) : List String → List String
      | [] => [k]
      | x :: xs => if k < x then k :: x :: xs else x :: ins k xs
    ins k acc) [])

def showState (s : St) : String :=
  s!"table={showTable s} recs={s.recs.map fun r => (r.1, r.2.ver, r.2.expired)} pcs=" ++
    toString (s.ws.map fun w => match w.pc with
      | .start => "start" | .parked c => s!"parked({c})" | .returned .nil => "ret-nil"
      | .returned .notExist => "ret-notExist" | .returned .ctxErr => "ret-ctxErr") ++ s!" closed={s.closed}"

def parseWs (s : String) : Option (List W) :=
  if s = "-" then some [] else
  (s.splitOn ",").mapM fun (p : String) => match p.splitOn ":" with
    | [k, v] => v.toNat?.map fun v => { key := k, ver := v, pc := .start, ctxDone := false }
    | _ => none

def comp : Component where
  σ := Option St
  init := some (St.init [])
  newCase := fun ws => match ws with
    | [w] => (parseWs w).map fun l => some (St.init l)
    | _ => none
  step := fun st ws =>
    match st with
    | none => some (none, "model-lost")
    | some s =>
      match ws with
      | ["table", t] => some (st, if showTable s = t then "ok" else s!"table-differs model {showState s}")
      | ["ret", i, r] => do
        let i ← i.toNat?
        let want := match r with | "nil" => WPc.returned .nil | "notExist" => .returned .notExist | _ => .returned .ctxErr
        pure (st, match s.ws[i]? with
          | some w => if w.pc = want then "ok" else s!"return-differs model {showState s}"
          | none => "no-such-waiter")
      | _ =>
        let ev? : Option Event := match ws with
          | ["sec", i, "check"] => i.toNat?.map .secCheck
          | ["sec", i, "cancelled"] => i.toNat?.map .secCancelled
          | ["sec", i, "timer"] => i.toNat?.map .secTimer
          | ["write", k] => some (.write k)
          | ["delete", k] => some (.delete k)
          | ["touch", k] => some (.touch k)
          | ["expire", k] => some (.expire k)
          | ["cancel", i] => i.toNat?.map .ctxCancel
          | _ => none
        ev?.map fun e => match handle s e with
          | some s' => (some s', "ok")
          | none => (none, s!"not-enabled {showState s}")

end DrvWaitTrace
