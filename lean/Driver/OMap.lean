import GolibsVerif.Model.OMap
import Driver.Common
/-
Driver for C10/C11 (container/iterable Map).  State = (I-model or undefined, Spec).
ops: add k v | remove k | get k | len | first | iter | hasNext h | next h | close h | chain
`chain` dumps the linked nodes from the head: `chain [st:refCnt:key,…]`.
-/
namespace DrvOMap
open OMap Drv

def showOut : Out → String
  | .ok => "ok" | .errExists => "ErrExists" | .none => "none" | .kv k v => s!"kv {k} {v}"
  | .key k => s!"key {k}" | .num n => s!"num {n}" | .b v => s!"b {v}" | .handle h => s!"h {h}"
  | .badHandle => "badHandle"

def parseOp : List String → Option Op
  | ["add", k, v] => do pure (.add (← k.toNat?) (← v.toNat?))
  | ["remove", k] => k.toNat?.map .remove
  | ["get", k] => k.toNat?.map .get
  | ["len"] => some .len
  | ["first"] => some .first
  | ["iter"] => some .iterator
  | ["hasNext", h] => h.toNat?.map .hasNext
  | ["next", h] => h.toNat?.map .next
  | ["close", h] => h.toNat?.map .close
  | _ => none

def showNode (n : Node) : String :=
  match n.st with
  | .last => s!"last:{n.refCnt}"
  | .ok => s!"ok:{n.refCnt}:{n.key}"
  | .deleted => s!"deleted:{n.refCnt}:{n.key}"

def comp : Component where
  σ := Option M × S
  init := (some M.new, S.new)
  newCase := fun _ => some (some M.new, S.new)
  step := fun (m?, s) ws =>
    match ws with
    | ["chain"] => some ((m?, s), match m? with
        | some m => "chain [" ++ ",".intercalate (m.chain.map showNode) ++ "]"
        | none => "undefined")
    | _ => (parseOp ws).map fun op =>
      let (s', os) := s.step op
      match m? with
      | none => ((none, s'), "undefined !spec=" ++ showOut os)
      | some m => match m.step false op with
        | none => ((none, s'), "undefined !spec=" ++ showOut os)
        | some (m', o) =>
          let txt := showOut o
          ((some m', s'), if o = os then txt else txt ++ " !spec=" ++ showOut os)

end DrvOMap
