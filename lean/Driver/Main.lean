import Driver.Common
import Driver.Ring

def main (args : List String) : IO UInt32 := do
  match args with
  | ["ring"] => Drv.run DrvRing.comp
  | _ => IO.eprintln "usage: driver <component>"; return 2
