import Driver.Common
import Driver.Ring
import Driver.Mixer
import Driver.Xbin
import Driver.Errs
import Driver.OMap
import Driver.Lru
import Driver.Blk
import Driver.Tmo
import Driver.Kv
import Driver.LockTrace
import Driver.Zip
import Driver.KvLin
import Driver.Monitors
import Driver.WaitTrace
import Driver.LruTrace
import Driver.PoolTrace
import Driver.RedisTrace
import Driver.LruOver
import Driver.RedisWait

def main (args : List String) : IO UInt32 := do
  match args with
  | ["ring"] => Drv.run DrvRing.comp
  | ["mixer"] => Drv.run DrvMixer.comp
  | ["xbin"] => Drv.run DrvXbin.comp
  | ["errs"] => Drv.run DrvErrs.comp
  | ["omap"] => Drv.run DrvOMap.comp
  | ["lru"] => Drv.run DrvLru.comp
  | ["blk"] => Drv.run DrvBlk.comp
  | ["tmo"] => Drv.run DrvTmo.comp
  | ["kv"] => Drv.run DrvKv.comp
  | ["locktrace"] => Drv.run DrvLockTrace.comp
  | ["zip"] => Drv.run DrvZip.comp
  | ["kvlin"] => Drv.run DrvKvLin.comp
  | ["monitors"] => Drv.run DrvMonitors.comp
  | ["waittrace"] => Drv.run DrvWaitTrace.comp
  | ["lrutrace"] => Drv.run DrvLruTrace.comp
  | ["pooltrace"] => Drv.run DrvPoolTrace.comp
  | ["redistrace"] => Drv.run DrvRedisTrace.comp
  | ["lruover"] => Drv.run DrvLruOver.comp
  | ["rediswait"] => Drv.run DrvRedisWait.comp
  | _ => IO.eprintln "usage: driver <component>"; return 2
