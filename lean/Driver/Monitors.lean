import Driver.Common
/-
`monitors`: a stream that carries only Go-side monitor verdicts (real-time runs whose behaviour the
untimed models do not predict).  Every op line is acknowledged with `ok`; `mon` lines are checked by
the common loop.
-/
namespace DrvMonitors
open Drv

def comp : Component where
  σ := Unit
  init := ()
  newCase := fun _ => some ()
  step := fun _ _ => some ((), "ok")

end DrvMonitors
