import GolibsVerif.Model.LruOver
import Driver.Common
/-
Driver for C11 (LRU half): replays histories of a REAL lru.ECache (identity key mapping) through
`LruOver.lstep` — the cache expressed as programs over the ordered map's node-chain model — and
compares, after every operation, the node chain of the cache's internal map (`st:refCnt:key`, sentinel
`last:refCnt`).  case line: `case <id> <cap>`.
ops:  goc k v   (GetOrCreate(k); the create function would return v)   | goc k fail | rm k | clear
output: `chain [n1,n2,…]`
-/
namespace DrvLruOver
open OMap LruOver Drv

def showNode (n : Node) : String :=
  match n.st with
  | .last => s!"last:{n.refCnt}"
  | .ok => s!"ok:{n.refCnt}:{n.key}"
  | .deleted => s!"deleted:{n.refCnt}:{n.key}"

def showChain (m : M) : String := "chain [" ++ ",".intercalate (m.chain.map showNode) ++ "]"

structure St where
  cap : Nat
  m : Option M

def comp : Component where
  σ := St
  init := { cap := 1, m := some M.new }
  newCase := fun ws => match ws with
    | [c] => c.toNat?.map fun c => { cap := c, m := some M.new }
    | _ => none
  step := fun st ws =>
    match st.m with
    | none => some (st, "model-panicked")
    | some m =>
      let op? : Option LOp := match ws with
        | ["goc", k, "fail"] => k.toNat?.map fun k => .goc k none
        | ["goc", k, v] => do pure (.goc (← k.toNat?) (some (← v.toNat?)))
        | ["rm", k] => k.toNat?.map .remove
        | ["clear"] => some .clear
        | _ => none
      op?.map fun op => match lstep st.cap m op with
        | some (m', _) => ({ st with m := some m' }, showChain m')
        | none => ({ st with m := none }, "model-panicked")

end DrvLruOver
