import GolibsVerif.Model.Blk
import Driver.Common
/-
Driver for C17 (container/bytes Blocks).  case line: `case <id> <P> <bs> <size> <fit> <presets>`
presets = comma separated `offset:value` header bytes written before opening (`-` = none).
ops: open | arrange | free i | block i | avail | count | reopen | hdr
The Spec (set of allocated indices) runs alongside the I-model once the allocator is open.
-/
namespace DrvBlk
open Blk Drv

structure St where
  P : Nat
  bs : Int
  mem : List Nat
  fit : Bool
  b : Option B
  s : Option S

def showErr : Err → String
  | .invalid => "ErrInvalid" | .notExist => "ErrNotExist" | .exhausted => "ErrExhausted"
  | .diverge => "diverge" | .panic => "panic"

def showOut : Out → String
  | .idx i => s!"idx {i}" | .ok => "ok" | .range o l => s!"range {o} {l}" | .num n => s!"num {n}"
  | .err e => s!"err {showErr e}"

def hexDigit (n : Nat) : Char := if n < 10 then Char.ofNat (48 + n) else Char.ofNat (87 + n)
def toHex (b : List Nat) : String :=
  String.ofList (b.foldr (fun x acc => hexDigit (x / 16 % 16) :: hexDigit (x % 16) :: acc) [])

def parsePresets (s : String) : Option (List (Nat × Nat)) :=
  if s = "-" then some [] else
  (s.splitOn ",").mapM fun p => match p.splitOn ":" with
    | [a, b] => do pure (← a.toNat?, ← b.toNat?)
    | _ => none

def comp : Component where
  σ := St
  init := { P := 4096, bs := 1, mem := [], fit := false, b := none, s := none }
  newCase := fun ws => match ws with
    | [p, bs, size, fit, presets] => do
      let ps ← parsePresets presets
      let mem := ps.foldl (fun m (o, v) => m.set o v) (List.replicate (← size.toNat?) 0)
      pure { P := ← p.toNat?, bs := ← bs.toInt?, mem := mem, fit := fit == "true", b := none, s := none }
    | _ => none
  step := fun st ws =>
    match ws, st.b, st.s with
    | ["open"], _, _ =>
      match newBlocks st.P st.bs st.mem st.fit with
      | .ok b => some ({ st with b := some b, s := some b.abs }, s!"ok segs={b.segs} avail={b.avail}")
      | .error e => some (st, s!"err {showErr e}")
    | ["hdr"], some b, _ =>
      some (st, "hdr " ++ toHex ((List.range b.segs).flatMap fun s => (b.mem.drop (s * b.segmSize)).take b.bs))
    | _, some b, some s =>
      let op? : Option Op := match ws with
        | ["arrange"] => some .arrange
        | ["free", i] => i.toInt?.map .free
        | ["block", i] => i.toInt?.map .block
        | ["avail"] => some .available
        | ["count"] => some .count
        | ["reopen"] => some .reopen
        | _ => none
      op?.map fun op =>
        let (b', o) := b.step st.P op
        let (s', os) := s.step op
        let txt := showOut o
        ({ st with b := some b', s := some s' }, if o = os then txt else txt ++ " !spec=" ++ showOut os)
    | _, _, _ => none

end DrvBlk
