import GolibsVerif.Model.Lru
import Driver.Common
/-
Driver for C08 (container/lru).  case line: `case <id> <cap> <mod> <failSpec> <ttl>`
  key mapping km pk = pk % mod (mod = 0: identity); the create function returns value
  v = 1000*pk + n (n = number of create calls before this one) and fails when `n` is listed in
  failSpec (comma separated call numbers, `-` = never); a value's expiry is  (virtual time of its
  creation) + ttl — the harness encodes it as expOf v = createTime(n) which the op line carries:
ops: goc pk | rm pk | clear | gocx now pk      (gocx: ExpirableCache at virtual time `now`)
create times: every `goc`/`gocx` line may carry `@t` = virtual time at which the call runs
(used for expOf); plain caches use ttl = 0 and never look at it.
output: `<res> ; <events>` with res = val v | err | b true/false | num n, events = c:pk:v / c:pk:fail / d:pk:v
-/
namespace DrvLru
open Lru Drv

structure St where
  cap : Nat
  md : Nat
  fails : List Nat
  ttl : Nat
  times : List (Nat × Nat)     -- create call number ↦ virtual time of that call
  now : Nat
  ec : EC
  rf : Ref

def cfgOf (st : St) : Cfg :=
  { cap := st.cap
    km := fun pk => if st.md = 0 then pk else pk % st.md
    cr := fun pk n => if st.fails.contains n then none else some (1000 * pk + n)
    -- expiry of value v = time of the create call that produced it + ttl
    expOf := fun v => ((st.times.find? (·.1 == v % 1000)).map (·.2)).getD st.now + st.ttl }

def showRes : Res → String
  | .val v => s!"val {v}" | .err => "err" | .b x => s!"b {x}" | .num n => s!"num {n}"
def showEv : Ev → String
  | .create pk (some v) => s!"c:{pk}:{v}" | .create pk none => s!"c:{pk}:fail" | .delete pk v => s!"d:{pk}:{v}"
def showAll (r : Res) (ev : List Ev) : String :=
  showRes r ++ " ; " ++ (if ev.isEmpty then "-" else ",".intercalate (ev.map showEv))

def comp : Component where
  σ := St
  init := { cap := 1, md := 0, fails := [], ttl := 0, times := [], now := 0, ec := EC.new, rf := Ref.new }
  newCase := fun ws => match ws with
    | [cap, md, fails, ttl] => do
      let f ← parseNatList? fails
      pure { cap := ← cap.toNat?, md := ← md.toNat?, fails := f, ttl := ← ttl.toNat?, times := [], now := 0,
             ec := EC.new, rf := Ref.new }
    | _ => none
  step := fun st ws =>
    let op? : Option (Op × Nat) := match ws with
      | ["goc", pk] => pk.toNat?.map fun p => (.getOrCreate p, st.now)
      | ["rm", pk] => pk.toNat?.map fun p => (.remove p, st.now)
      | ["clear"] => some (.clear, st.now)
      | ["gocx", now, pk] => do pure (.getOrCreateExp (← now.toNat?) (← pk.toNat?), ← now.toNat?)
      | _ => none
    op?.map fun (op, now) =>
      -- every create call possibly made by this op happens at `now`: pre-register the next two call numbers
      let st1 := { st with now := now, times := (st.ec.calls, now) :: (st.ec.calls + 1, now) :: st.times }
      let c := cfgOf st1
      let (ec', r, ev) := st1.ec.step c op
      let (rf', r2, ev2) := st1.rf.step c op
      let txt := showAll r ev
      let txt := if r = r2 ∧ ev = ev2 then txt else txt ++ " !spec=" ++ showAll r2 ev2
      ({ st1 with ec := ec', rf := rf' }, txt)

end DrvLru
