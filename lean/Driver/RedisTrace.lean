import GolibsVerif.Model.RedisConc
import Driver.Common
/-
Trace-refinement driver for C02 (Redis backend): replays command-level executions of the REAL
kvs/redis client (every Redis command of every client released one at a time by the harness) through
`RedisConc.step`.  case line: `case <id> <number of clients>`.
  call t <op…>  | ok          create k v [x<abs>] | get k | getmany k1,k2 | put k v [x<abs>] |
                              putmany k1=v1[@<abs>],k2=v2[@<abs>] | cas k ver v [x<abs>] | delete k
                              (`x<abs>` / `@<abs>`: absolute expiry in ms; absent = no expiry; value `-` = empty)
  tick d        | now <new now>     the clock advances by d ms (`tick-blocked …` if a client is inside a TTL window)
  cmd t         | <name> <reply>    the model computes the command client t issues next and the server's reply;
                                    a write with expiry e is labelled `… px<ttl>`: the relative TTL it carries,
                                    `deadlineOf e now − now` = max 1 (e − now)  (so `px1` for a past or present expiry)
  ret t         | <result>          the model's `done r` (`ok` for the loop path of PutMany)
Versions are ordinals of the write that stored them (0 = a version never stored).
Records are shown as `val:ver`, or `val:ver@<exp>` when they have an expiry: the PAYLOAD expiry, i.e.
the absolute expiry that was requested (also when it lies in the past); whether a record is visible
follows the server purged at `now` (key deadline `deadlineOf e <time of the write>` ≤ now: gone).
Keys are shown as the client gave them; the server is keyed by `rKey k` ("/kvs/" + k without leading
slashes), so aliasing keys ("s", "/s") hit the same record and the same watch.
-/
namespace DrvRedisTrace
open Kv RedisConc Drv

def showVal (v : String) : String := if v.isEmpty then "-" else v

def showExp : Option Nat → String
  | some e => s!"@{e}"
  | none => ""

def showRec (r : Rec) : String := s!"{showVal r.val}:{r.ver}{showExp r.exp}"

def showOut : Out → String
  | .okVer v => s!"okVer {v}"
  | .errExist (some v) => s!"errExist {v}"
  | .errExist none => "errExist 0"
  | .record v ver e => s!"rec {showVal v}:{ver}{showExp e}"
  | .recs l => "recs [" ++ ",".intercalate (l.map fun x => match x with
      | some (v, ver, e) => s!"{showVal v}:{ver}{showExp e}" | none => "nil") ++ "]"
  | .ok => "ok" | .errNotExist => "errNotExist" | .errConflict => "errConflict"
  | .keys l => s!"keys {l}" | .waitNil => "waitNil" | .blocks => "blocks" | .otherErr => "other"

/-- the look-up every command does: the key on the server purged at `now` -/
def look (s : St) (k : String) : Option Rec := (s.psrv.srv.get (rKey k)).map (·.r)

def showGet (s : St) (k : String) : String :=
  match look s k with
  | some r => "get " ++ showRec r
  | none => "get nil"

/-- the relative TTL a write command carries: ` px<deadlineOf e now - now>` (at least 1 ms); nothing without expiry -/
def showPx (s : St) (e : Option Nat) : String :=
  match deadlineOf e s.now with
  | some d => s!" px{d - s.now}"
  | none => ""

/-- name and reply of the command client t issues next (computed on the state BEFORE the command) -/
def cmdLabel (s : St) (t : Nat) : String :=
  match s.pc[t]? with
  | some (.create1 k _ e) => match look s k with
    | some _ => "setnx 0"
    | none => s!"setnx 1 {s.srv.nextVer}{showPx s e}"
  | some (.create2 k _ _) => showGet s k
  | some (.get k) => showGet s k
  | some (.getMany ks) => "mget [" ++ ",".intercalate (ks.map fun k => match look s k with
      | some r => showRec r | none => "nil") ++ "]"
  | some (.put _ _ e) => s!"set OK {s.srv.nextVer}{showPx s e}"
  | some (.putMany rs) => "mset OK " ++ ",".intercalate ((List.range rs.length).map fun i => toString (s.srv.nextVer + i))
  | some (.putLoop ((_, _, e) :: _)) => s!"set OK {s.srv.nextVer}{showPx s e}"
  | some (.del k) => match look s k with
    | some _ => "del 1"
    | none => "del 0"
  | some (.casWatch _ _ _ _) => "watch OK"
  | some (.casGet k _ _ _) => showGet s k
  | some (.casExec _ _ _ e) => match s.watch[t]? with
    | some (some (_, false)) => s!"exec ok {s.srv.nextVer}{showPx s e}"
    | _ => "exec nil"
  | _ => "no-command-expected"

def showPc : Pc → String
  | .idle => "idle" | .create1 k _ e => s!"create1({k}{showExp e})" | .create2 k _ e => s!"create2({k}{showExp e})"
  | .get k => s!"get({k})"
  | .getMany _ => "getMany" | .put k _ e => s!"put({k}{showExp e})" | .putMany _ => "putMany"
  | .putLoop rs => s!"putLoop({rs.map fun r => r.1 ++ showExp r.2.2})" | .loopDone => "loopDone"
  | .del k => s!"del({k})"
  | .casWatch k v _ e => s!"casWatch({k},{v}{showExp e})" | .casGet k v _ e => s!"casGet({k},{v}{showExp e})"
  | .casExec k v _ e => s!"casExec({k},{v}{showExp e})"
  | .done r => s!"done({showOut r})"

def showDeadline : Option Nat → String
  | some d => s!"!{d}"
  | none => ""

/-- diagnostic dump: the server purged at `now` (Redis key without the "/kvs/" prefix, record with its
payload expiry, `!<deadline>` = the key's absolute deadline), the id source, the pcs, the watches (Redis keys) -/
def showState (s : St) : String :=
  s!"now={s.now} store={s.psrv.srv.keys.map fun e => (String.ofList (e.1.toList.drop 5), showRec e.2.r ++ showDeadline e.2.deadline)} next={s.srv.nextVer} pcs={s.pc.map showPc} watch={s.watch}"

def unval (v : String) : String := if v = "-" then "" else v

/-- `x<abs>`: an absolute expiry -/
def parseX (w : String) : Option Nat :=
  if w.startsWith "x" then (w.drop 1).toNat? else none

/-- `k=v` or `k=v@<abs>` -/
def parseKv (p : String) : Option (String × String × Option Nat) :=
  match p.splitOn "=" with
  | [k, ve] => match ve.splitOn "@" with
    | [v] => some (k, unval v, none)
    | [v, e] => e.toNat?.map fun n => (k, unval v, some n)
    | _ => none
  | _ => none

def parseOp : List String → Option Op
  | ["create", k, v] => some (.create k (unval v) none)
  | ["create", k, v, x] => (parseX x).map fun e => .create k (unval v) (some e)
  | ["get", k] => some (.get k)
  | ["getmany", ks] => some (.getMany (ks.splitOn ","))
  | ["put", k, v] => some (.put k (unval v) none)
  | ["put", k, v, x] => (parseX x).map fun e => .put k (unval v) (some e)
  | ["putmany", rs] => ((rs.splitOn ",").mapM parseKv).map .putMany
  | ["cas", k, ver, v] => ver.toNat?.map fun n => .cas k n (unval v) none
  | ["cas", k, ver, v, x] => do
    let n ← ver.toNat?
    let e ← parseX x
    pure (.cas k n (unval v) (some e))
  | ["delete", k] => some (.delete k)
  | _ => none

def comp : Component where
  σ := Option St
  init := some (St.init 0)
  newCase := fun ws => match ws with
    | [n] => n.toNat?.map fun n => some (St.init n)
    | _ => none
  step := fun st ws =>
    match st with
    | none => some (none, "model-lost")
    | some s =>
      match ws with
      | "call" :: t :: rest => do
        let t ← t.toNat?
        let op ← parseOp rest
        pure (match step s (.call t op) with
          | some (s', _) => (some s', "ok")
          | none => (none, s!"call-not-enabled {showState s}"))
      | ["cmd", t] => do
        let t ← t.toNat?
        let lbl := cmdLabel s t
        pure (match step s (.cmd t) with
          | some (s', _) => (some s', lbl)
          | none => (none, s!"no-command-expected {showState s}"))
      | ["ret", t] => do
        let t ← t.toNat?
        pure (match s.pc[t]? with
          | some (.done r) => match step s (.ret t r) with
            | some (s', _) => (some s', showOut r)
            | none => (none, "ret-rejected")
          | some .loopDone => match step s (.ret t .ok) with
            | some (s', _) => (some s', showOut .ok)
            | none => (none, "ret-rejected")
          | _ => (none, s!"return-not-expected {showState s}"))
      | ["tick", d] => do
        let d ← d.toNat?
        pure (match step s (.tick d) with
          | some (s', _) => (some s', s!"now {s'.now}")
          | none => (none, s!"tick-blocked {showState s}"))
      | _ => none

end DrvRedisTrace
