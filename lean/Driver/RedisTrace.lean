import GolibsVerif.Model.RedisConc
import Driver.Common
/-
Trace-refinement driver for C02 (Redis backend): replays command-level executions of the REAL
kvs/redis client (every Redis command of every client released one at a time by the harness) through
`RedisConc.step`.  case line: `case <id> <number of clients>`.
  call t <op…>  | ok          create k v | get k | getmany k1,k2 | put k v | putmany k1=v1,k2=v2 | cas k ver v | delete k
  cmd t         | <name> <reply>    the model computes the command client t issues next and the server's reply
  ret t         | <result>          the model's `done r`
Versions are ordinals of the write that stored them (0 = a version never stored).
-/
namespace DrvRedisTrace
open Kv RedisConc Drv

def showVal (v : String) : String := if v.isEmpty then "-" else v

def showRec (r : Rec) : String := s!"{showVal r.val}:{r.ver}"

def showOut : Out → String
  | .okVer v => s!"okVer {v}"
  | .errExist (some v) => s!"errExist {v}"
  | .errExist none => "errExist 0"
  | .record v ver _ => s!"rec {showVal v}:{ver}"
  | .recs l => "recs [" ++ ",".intercalate (l.map fun x => match x with
      | some (v, ver, _) => s!"{showVal v}:{ver}" | none => "nil") ++ "]"
  | .ok => "ok" | .errNotExist => "errNotExist" | .errConflict => "errConflict"
  | .keys l => s!"keys {l}" | .waitNil => "waitNil" | .blocks => "blocks" | .otherErr => "other"

def showGet (s : St) (k : String) : String :=
  match s.srv.live 0 k with
  | some r => "get " ++ showRec r
  | none => "get nil"

/-- name and reply of the command client t issues next (computed on the state BEFORE the command) -/
def cmdLabel (s : St) (t : Nat) : String :=
  match s.pc[t]? with
  | some (.create1 k _) => match s.srv.live 0 k with
    | some _ => "setnx 0"
    | none => s!"setnx 1 {s.srv.nextVer}"
  | some (.create2 k _) => showGet s k
  | some (.get k) => showGet s k
  | some (.getMany ks) => "mget [" ++ ",".intercalate (ks.map fun k => match s.srv.live 0 k with
      | some r => showRec r | none => "nil") ++ "]"
  | some (.put _ _) => s!"set OK {s.srv.nextVer}"
  | some (.putMany rs) => "mset OK " ++ ",".intercalate ((List.range rs.length).map fun i => toString (s.srv.nextVer + i))
  | some (.del k) => match s.srv.live 0 k with
    | some _ => "del 1"
    | none => "del 0"
  | some (.casWatch _ _ _) => "watch OK"
  | some (.casGet k _ _) => showGet s k
  | some (.casExec _ _ _) => match s.watch[t]? with
    | some (some (_, false)) => s!"exec ok {s.srv.nextVer}"
    | _ => "exec nil"
  | _ => "no-command-expected"

def showPc : Pc → String
  | .idle => "idle" | .create1 k _ => s!"create1({k})" | .create2 k _ => s!"create2({k})" | .get k => s!"get({k})"
  | .getMany _ => "getMany" | .put k _ => s!"put({k})" | .putMany _ => "putMany" | .del k => s!"del({k})"
  | .casWatch k v _ => s!"casWatch({k},{v})" | .casGet k v _ => s!"casGet({k},{v})" | .casExec k v _ => s!"casExec({k},{v})"
  | .done r => s!"done({showOut r})"

def showState (s : St) : String :=
  s!"store={s.srv.store.map fun e => (e.1, showRec e.2)} next={s.srv.nextVer} pcs={s.pc.map showPc} watch={s.watch}"

def unval (v : String) : String := if v = "-" then "" else v

def parseOp : List String → Option Op
  | ["create", k, v] => some (.create k (unval v) none)
  | ["get", k] => some (.get k)
  | ["getmany", ks] => some (.getMany (ks.splitOn ","))
  | ["put", k, v] => some (.put k (unval v) none)
  | ["putmany", rs] => ((rs.splitOn ",").mapM fun (p : String) => match p.splitOn "=" with
      | [k, v] => some (k, unval v, (none : Option Nat))
      | _ => none).map .putMany
  | ["cas", k, ver, v] => ver.toNat?.map fun n => .cas k n (unval v) none
  | ["delete", k] => some (.delete k)
  | _ => none

def comp : Component where
  σ := Option St
  init := some (St.init 0)
  newCase := fun ws => match ws with
    | [n] => n.toNat?.map fun n => some (St.init n)
    | _ => none
  step := fun st ws =>
    match st with
    | none => some (none, "model-lost")
    | some s =>
      match ws with
      | "call" :: t :: rest => do
        let t ← t.toNat?
        let op ← parseOp rest
        pure (match step s (.call t op) with
          | some (s', _) => (some s', "ok")
          | none => (none, s!"call-not-enabled {showState s}"))
      | ["cmd", t] => do
        let t ← t.toNat?
        let lbl := cmdLabel s t
        pure (match step s (.cmd t) with
          | some (s', _) => (some s', lbl)
          | none => (none, s!"no-command-expected {showState s}"))
      | ["ret", t] => do
        let t ← t.toNat?
        pure (match s.pc[t]? with
          | some (.done r) => match step s (.ret t r) with
            | some (s', _) => (some s', showOut r)
            | none => (none, "ret-rejected")
          | _ => (none, s!"return-not-expected {showState s}"))
      | _ => none

end DrvRedisTrace
