import GolibsVerif.Model.Tmo
import Driver.Common
/-
Driver for C12 (timeout heap).  ops: add t | cancel id | pop | popIfDue now | snap
`snap` renders the heap array as id:idx:fireT and the idx field of every future created so far.
-/
namespace DrvTmo
open Tmo Drv

def showOut : Out → String
  | .id n => s!"id {n}" | .ok => "ok" | .popped id st => s!"popped {id} {st}"
  | .notDue => "notDue" | .empty => "empty" | .undefined => "undefined"

def comp : Component where
  σ := Heap
  init := Heap.new
  newCase := fun _ => some Heap.new
  step := fun h ws =>
    match ws with
    | ["snap"] =>
      let hv := h.arr.map fun id => match h.get id with
        | some f => s!"{id}:{f.idx}:{f.fireT}" | none => s!"{id}:?:?"
      some (h, "snap [" ++ ",".intercalate hv ++ "] idx " ++ intList (h.fut.map (·.2.idx)))
    | _ =>
      let op? : Option Op := match ws with
        | ["add", t] => t.toNat?.map .add
        | ["cancel", i] => i.toNat?.map .cancel
        | ["pop"] => some .rawPop
        | ["popIfDue", n] => n.toNat?.map .popIfDue
        | _ => none
      op?.map fun op => let (h', o) := h.step op; (h', showOut o)

end DrvTmo
