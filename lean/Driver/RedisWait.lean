import GolibsVerif.Model.RedisWait
import Driver.Common
/-
Trace driver for C07 (Redis backend): replays executions of the REAL polling `WaitForVersionChange`
of kvs/redis (every GET of every waiter released one at a time by the harness, writers in between)
through `RedisWait.step`.  case line: `case <id> <number of waiters>`.
  put k v [x<abs>]        | okVer <n>                               complete operations of other clients
  create k v [x<abs>]     | okVer <n> | errExist <n>                (`x<abs>`: absolute expiry in ms; absent = none;
  cas k <ver> v [x<abs>]  | okVer <n> | errConflict | errNotExist    value `-` = empty)
  delete k                | ok | errNotExist
  tick d                  | now <new now>
  start i k <ver>         | ok                  waiter i calls WaitForVersionChange(k, ver)  (`start-refused …` + lost)
  poll i                  | get nil | get <val>:<ver>[@<exp>] | get ctx
                                                what waiter i's GET saw (`get ctx`: the context is done, the GET failed
                                                with the context's error); computed on the state BEFORE the GET
  wake i                  | ok                  waiter i's select takes ctx.Done  (`not-enabled …` + lost)
  cancel i                | ok                  the context of waiter i is cancelled
  ret i                   | waitNil | errNotExist | ctxErr      the model's `done r`  (`return-not-expected …` + lost)
Versions are ordinals of the write that stored them (0 = a version never issued).
After the state is lost every line answers `model-lost`.
-/
namespace DrvRedisWait
open Kv RedisWait Drv

def showVal (v : String) : String := if v.isEmpty then "-" else v

def showExp : Option Nat → String
  | some e => s!"@{e}"
  | none => ""

def showRec (r : Rec) : String := s!"{showVal r.val}:{r.ver}{showExp r.exp}"

def showOut : Out → String
  | .okVer v => s!"okVer {v}"
  | .errExist (some v) => s!"errExist {v}"
  | .errExist none => "errExist 0"
  | .ok => "ok" | .errNotExist => "errNotExist" | .errConflict => "errConflict"
  | _ => "unexpected-output"

def showRes : Res → String
  | .waitNil => "waitNil" | .errNotExist => "errNotExist" | .ctxErr => "ctxErr"

def showPc : WPc → String
  | .idle => "idle" | .polling k ver => s!"polling({k},{ver})" | .sleeping k ver => s!"sleeping({k},{ver})"
  | .done r => s!"done({showRes r})"

def showState (s : St) : String :=
  s!"now={s.now} store={s.srv.store.map fun e => (e.1, showRec e.2)} next={s.srv.nextVer} w={s.w.map showPc} ctxDone={s.ctxDone}"

/-- what waiter i's next GET sees (computed on the state BEFORE the GET) -/
def pollLabel (s : St) (i : Nat) : String :=
  if s.ctxDone[i]? = some true then "get ctx" else
  match s.w[i]? with
  | some (.polling k _) | some (.sleeping k _) =>
    match s.srv.live s.now k with
    | some r => "get " ++ showRec r
    | none => "get nil"
  | _ => "no-get-expected"

def unval (v : String) : String := if v = "-" then "" else v

/-- `x<abs>`: an absolute expiry -/
def parseX (w : String) : Option Nat :=
  if w.startsWith "x" then (w.drop 1).toNat? else none

def parseOp : List String → Option Op
  | ["create", k, v] => some (.create k (unval v) none)
  | ["create", k, v, x] => (parseX x).map fun e => .create k (unval v) (some e)
  | ["put", k, v] => some (.put k (unval v) none)
  | ["put", k, v, x] => (parseX x).map fun e => .put k (unval v) (some e)
  | ["cas", k, ver, v] => ver.toNat?.map fun n => .cas k n (unval v) none
  | ["cas", k, ver, v, x] => do
    let n ← ver.toNat?
    let e ← parseX x
    pure (.cas k n (unval v) (some e))
  | ["delete", k] => some (.delete k)
  | _ => none

def comp : Component where
  σ := Option St
  init := some (St.init 0)
  newCase := fun ws => match ws with
    | [n] => n.toNat?.map fun n => some (St.init n)
    | _ => none
  step := fun st ws =>
    match st with
    | none => some (none, "model-lost")
    | some s =>
      match ws with
      | ["tick", d] => do
        let d ← d.toNat?
        pure (match step s (.tick d) with
          | some s' => (some s', s!"now {s'.now}")
          | none => (none, s!"tick-refused {showState s}"))
      | ["start", i, k, ver] => do
        let i ← i.toNat?
        let ver ← ver.toNat?
        pure (match step s (.start i k ver) with
          | some s' => (some s', "ok")
          | none => (none, s!"start-refused {showState s}"))
      | ["poll", i] => do
        let i ← i.toNat?
        let lbl := pollLabel s i
        pure (match step s (.poll i) with
          | some s' => (some s', lbl)
          | none => (none, s!"not-enabled {showState s}"))
      | ["wake", i] => do
        let i ← i.toNat?
        pure (match step s (.wakeCtx i) with
          | some s' => (some s', "ok")
          | none => (none, s!"not-enabled {showState s}"))
      | ["cancel", i] => do
        let i ← i.toNat?
        pure (match step s (.cancel i) with
          | some s' => (some s', "ok")
          | none => (none, s!"not-enabled {showState s}"))
      | ["ret", i] => do
        let i ← i.toNat?
        pure (match s.w[i]? with
          | some (.done r) => match step s (.ret i r) with
            | some s' => (some s', showRes r)
            | none => (none, "ret-rejected")
          | _ => (none, s!"return-not-expected {showState s}"))
      | _ => do
        let op ← parseOp ws
        let out := (s.srv.step s.now op).2
        pure (match step s (.env op) with
          | some s' => (some s', showOut out)
          | none => (none, s!"not-enabled {showState s}"))

end DrvRedisWait
