import GolibsVerif.Model.Ring
import Driver.Common
/-
Driver for C14.  State = (I-model, Spec).  The model output text carries the I-model's API
output, a `!spec=` suffix if the Spec disagrees with the I-model (never, by C14.refines_queue)
and the backing array (the property talks about consumed slots).
ops: write v | read | readN k | skip n | at i | clear | len | cap | buf
-/
namespace DrvRing
open Ring Drv

def showOut : Out → String
  | .ok => "ok" | .errExhausted => "ErrExhausted" | .eof => "EOF"
  | .val v => s!"val {v}" | .vals l => s!"vals {natList l}" | .num n => s!"num {n}"
  | .panic => "panic" | .diverge => "diverge"

def parseOp : List String → Option Op
  | ["write", v] => v.toNat?.map .write
  | ["read"] => some .read
  | ["readN", k] => k.toNat?.map .readN
  | ["skip", n] => n.toInt?.map .skip
  | ["at", i] => i.toInt?.map .at
  | ["clear"] => some .clear
  | ["len"] => some .len
  | ["cap"] => some .cap
  | _ => none

def comp : Component where
  σ := RB × Q
  init := (RB.new 0, (RB.new 0).abs)
  newCase := fun ws => match ws with
    | [c] => c.toNat?.map fun n => (RB.new n, { cap := n, items := [] })
    | _ => none
  step := fun (b, q) ws =>
    match ws with
    | ["buf"] => some ((b, q), s!"buf {natList b.buf} r={b.r} w={b.w}")
    | _ => (parseOp ws).map fun op =>
      let (b', o) := b.step op
      let (q', os) := q.step op
      let txt := showOut o
      let txt := if o = os then txt else txt ++ " !spec=" ++ showOut os
      ((b', q'), txt)

end DrvRing
