import GolibsVerif.Model.Kv
import Driver.Common
/-
Driver for C03/C06 (kvs backends, sequential).  case line: `case <id> <backend>`, backend ∈ inmem|redis.
Every op line starts with the virtual time:  `<now> <op…>`
ops: create k v exp | get k | getmany k1,k2 | put k v exp | putmany k:v:exp,… | cas k ver v exp |
     delete k | list pat | wait k ver
values/expiries: `-` = empty / none.  Versions are renamed by first occurrence in the outputs
(`v1`, `v2`, …) on both sides; an input `vN` means the N-th distinct version observed so far, `uN` a
version that was never issued.  The Spec runs alongside the chosen I-model.
-/
namespace DrvKv
open Kv Drv

structure St where
  redis : Bool
  down : Bool := false
  im : Inmem
  rd : Redis
  sp : Spec
  seenI : List Nat        -- I-model versions in order of first occurrence
  seenS : List Nat        -- Spec versions likewise

/-- the token "~" stands for the EMPTY key / pattern -/
def kk (s : String) : String := if s = "~" then "" else s
def showK (s : String) : String := if s.isEmpty then "~" else s

def optS (s : String) : String := if s = "-" then "" else s
def showS (s : String) : String := if s.isEmpty then "-" else s
def parseExp (s : String) : Option (Option Nat) :=
  if s = "-" then some none else if s = "z" then some (some 0) else s.toNat?.map some   -- `z`: the zero time (long past)
def showExp : Option Nat → String | none => "-" | some e => toString e

/-- canonical name of a version, extending the seen list -/
def nameOf (seen : List Nat) (v : Nat) : List Nat × String :=
  match seen.idxOf? v with
  | some i => (seen, s!"v{i + 1}")
  | none => (seen ++ [v], s!"v{seen.length + 1}")

def verOf (seen : List Nat) (s : String) : Option Nat :=
  if s.startsWith "v" then (s.drop 1).toNat?.map fun n => if n = 0 then 2000000000 else (seen[n - 1]?).getD (2000000000 + n)
  else if s.startsWith "u" then (s.drop 1).toNat?.map (· + 1000000000)
  else none

def render (seen : List Nat) : Out → List Nat × String
  | .okVer v => let (s, n) := nameOf seen v; (s, s!"ok {n}")
  | .errExist (some v) => let (s, n) := nameOf seen v; (s, s!"ErrExist {n}")
  | .errExist none => (seen, "ErrExist -")
  | .record val v exp => let (s, n) := nameOf seen v; (s, s!"rec {showS val} {n} {showExp exp}")
  | .recs l =>
    let (s, parts) := l.foldl (fun (s, acc) x => match x with
      | none => (s, acc ++ ["nil"])
      | some (val, v, exp) => let (s', n) := nameOf s v; (s', acc ++ [s!"{showS val}:{n}:{showExp exp}"])) (seen, [])
    (s, "recs [" ++ ",".intercalate parts ++ "]")
  | .ok => (seen, "ok") | .errNotExist => (seen, "ErrNotExist") | .errConflict => (seen, "ErrConflict")
  | .keys l => (seen, "keys [" ++ ",".intercalate (sortStrings (l.map showK)) ++ "]")
  | .waitNil => (seen, "nil") | .blocks => (seen, "blocks") | .otherErr => (seen, "otherErr")

def parseOp (seen : List Nat) : List String → Option Op
  | ["create", k, v, e] => do pure (.create (kk k) (optS v) (← parseExp e))
  | ["get", k] => some (.get (kk k))
  | ["getmany", ks] => some (.getMany (if ks = "-" then [] else (ks.splitOn ",").map kk))
  | ["put", k, v, e] => do pure (.put (kk k) (optS v) (← parseExp e))
  | ["putmany", rs] =>
    if rs = "-" then some (.putMany []) else
    (rs.splitOn ",").mapM (fun (r : String) => match r.splitOn ":" with
      | [k, v, e] => do pure (kk k, optS v, ← parseExp e)
      | _ => none) |>.map .putMany
  | ["cas", k, ver, v, e] => do pure (.cas (kk k) (← verOf seen ver) (optS v) (← parseExp e))
  | ["delete", k] => some (.delete (kk k))
  | ["list", p] => some (.list (kk p))
  | ["wait", k, ver] => do pure (.wait (kk k) (← verOf seen ver))
  | _ => none

def stepPlain (st : St) (now : String) (rest : List String) : Option (St × String) := do
      let now ← now.toNat?
      let opI ← parseOp st.seenI rest
      let opS ← parseOp st.seenS rest
      let (st1, oI) : St × Out :=
        if st.redis then let (r, o) := st.rd.step now opI; ({ st with rd := r }, o)
        else let (i, o) := st.im.step now opI; ({ st with im := i }, o)
      let (sp', oS) := st1.sp.step now opS
      let (seenI, txtI) := render st1.seenI oI
      let (seenS, txtS) := render st1.seenS oS
      pure ({ st1 with sp := sp', seenI := seenI, seenS := seenS },
        if txtI = txtS then txtI else txtI ++ " !spec=" ++ txtS)

def comp : Component where
  σ := St
  init := { redis := false, im := Inmem.new, rd := Redis.new, sp := Spec.new, seenI := [], seenS := [] }
  newCase := fun ws => match ws with
    | b :: _ => some { redis := b == "redis", im := Inmem.new, rd := Redis.new, sp := Spec.new, seenI := [], seenS := [] }
    | _ => none
  step := fun st ws => match ws with
    | _ :: "down" :: _ => some ({ st with down := true }, "ok")     -- the server is gone: every later call fails
    | _ :: "subms" :: _ => some (st, "ok")     -- sub-millisecond expiry scenario: Go-side monitor only (the model's clock ticks in ms)
    | now :: op :: rest =>
      if op.startsWith "!" then
        -- a call made with a context that was already done and REFUSED for that reason: nothing changes
        some (st, "ctxErr")
      else if st.down then some (st, "otherErr")
      else stepPlain st now (op :: rest)
    | _ => none

end DrvKv
