// Package rec writes the line protocol consumed by the Lean driver and collects the coverage
// statistics that end up in the evidence file.
package rec

import (
	"bufio"
	"encoding/json"
	"fmt"
	"hash/fnv"
	"os"
	"sort"
	"strings"
	"sync"
	"time"
)

// Watchdog for calls into the real code: the harness brackets every such call with Enter/Leave; a call
// that does not come back within the limit cannot be interrupted in-process, so the trace recorded so
// far is flushed together with a `mon HANG` line and the process exits with code 3 (the check turns
// that into a violation whose replay is the case recorded so far).
var wd struct {
	mu     sync.Mutex
	active bool
	depth  int // brackets may nest (a guarded call inside a guarded step): the watch ends with the OUTERMOST Leave
	since  time.Time
	r      *Recorder
}

func (r *Recorder) Enter() {
	wd.mu.Lock()
	wd.depth++
	wd.active, wd.since, wd.r = true, time.Now(), r
	wd.mu.Unlock()
}

func (r *Recorder) Leave() {
	wd.mu.Lock()
	if wd.depth > 0 {
		wd.depth--
	}
	wd.active = wd.depth > 0
	wd.since = time.Now() // (an inner call came back: that is progress)
	wd.mu.Unlock()
}

// StartWatchdog starts the monitor goroutine (once per process).
func StartWatchdog(limit time.Duration) {
	go func() {
		for {
			time.Sleep(200 * time.Millisecond)
			wd.mu.Lock()
			hung := wd.active && time.Since(wd.since) > limit
			r := wd.r
			wd.mu.Unlock()
			if hung {
				// the goroutine that writes the trace is the one that hangs, so the writer is ours now
				fmt.Fprintf(r.w, "mon HANG | a call into the real code did not return within %v (the operation after the last one recorded in this case)\n", limit)
				r.w.Flush()
				r.f.Close()
				os.Exit(3)
			}
		}
	}()
}

type Recorder struct {
	w        *bufio.Writer
	f        *os.File
	caseN    int
	curOps   []string
	curNT    bool
	curOpen  bool
	curHdr   string
	seen     map[uint64]struct{}
	Stats    Stats
	maxSampl int
}

type Stats struct {
	Component          string         `json:"component"`
	Cases              int            `json:"cases"`
	Ops                int            `json:"ops"`
	DistinctCases      int            `json:"distinct_cases"`
	DistinctNontrivial int            `json:"distinct_nontrivial"`
	OpKinds            map[string]int `json:"op_kinds"`
	Outcomes           map[string]int `json:"outcomes"`
	Branches           map[string]int `json:"branches"`
	Sizes              map[string]int `json:"sizes"`
	Samples            []string       `json:"samples"`
	ImplPanics         int            `json:"impl_panics"`
	PerOp              bool           `json:"per_op"` // stateless component: every op is an independent case
	Notes              []string       `json:"notes,omitempty"`
	Extra              map[string]any `json:"extra,omitempty"`
}

func New(path, component string) (*Recorder, error) {
	f, err := os.Create(path)
	if err != nil {
		return nil, err
	}
	return &Recorder{w: bufio.NewWriterSize(f, 1<<20), f: f, seen: map[uint64]struct{}{},
		Stats: Stats{Component: component, OpKinds: map[string]int{}, Outcomes: map[string]int{},
			Branches: map[string]int{}, Sizes: map[string]int{}, Extra: map[string]any{}, Samples: []string{}}, maxSampl: 6}, nil
}

// Case starts a new case; params are the words after the case id on the `case` line.
func (r *Recorder) Case(params ...any) {
	r.endCase()
	r.caseN++
	r.Stats.Cases++
	parts := make([]string, len(params))
	for i, p := range params {
		parts[i] = fmt.Sprint(p)
	}
	r.curHdr = strings.Join(parts, " ")
	r.w.Flush() // a crash of the process loses at most the current case
	fmt.Fprintf(r.w, "case c%d %s\n", r.caseN, r.curHdr)
	r.curOps = r.curOps[:0]
	r.curNT = false
	r.curOpen = true
}

// Op records one operation and the implementation's canonical output.
func (r *Recorder) Op(op, out string) {
	fmt.Fprintf(r.w, "%s | %s\n", op, out)
	r.Stats.Ops++
	kind := op
	if i := strings.IndexByte(op, ' '); i >= 0 {
		kind = op[:i]
	}
	r.Stats.OpKinds[kind]++
	okind := out
	if i := strings.IndexByte(out, ' '); i >= 0 {
		okind = out[:i]
	}
	r.Stats.Outcomes[kind+"→"+okind]++
	r.curOps = append(r.curOps, op)
	if r.Stats.PerOp {
		h := fnv.New64a()
		h.Write([]byte(op))
		k := h.Sum64()
		if _, ok := r.seen[k]; !ok {
			r.seen[k] = struct{}{}
			r.Stats.DistinctCases++
			if r.curNT {
				r.Stats.DistinctNontrivial++
				if len(r.Stats.Samples) < r.maxSampl || (len(r.Stats.Samples) < 3*r.maxSampl && r.Stats.DistinctNontrivial%997 == 0) {
					smp := op + " → " + out
					if len(smp) > 300 {
						smp = smp[:300] + "…"
					}
					r.Stats.Samples = append(r.Stats.Samples, smp)
				}
			}
		}
		r.curNT = false
	}
}

// PerOp switches to per-operation counting (stateless components): call Nontrivial BEFORE the Op it refers to.
func (r *Recorder) PerOp() { r.Stats.PerOp = true }

// Quiet records a line without counting it as an operation (state dumps).
func (r *Recorder) Quiet(op, out string) {
	if strings.HasPrefix(op, "mon ") && out != "ok" && (Focus == "" || strings.HasPrefix(op, "mon "+Focus) || strings.HasPrefix(op, "mon HANG")) {
		// (only monitors of the property this run is about: a run for C01 must not stop early because monitors of
		// C04 or C05, which its check ignores, have failed)
		badMonitors++
	}
	fmt.Fprintf(r.w, "%s | %s\n", op, out)
}

var badMonitors int

// Focus is the property id the harness was started for ("" = none)
var Focus string

// Enough reports whether this run has already written so many failing monitor lines (each of them a reported
// violation) that generating further cases only costs time: on a broken tree every failing case of a concurrent
// harness runs into a "did not settle" bound of several seconds.
func (r *Recorder) Enough() bool { return badMonitors >= 6 }

func (r *Recorder) Comment(s string) { fmt.Fprintf(r.w, "# %s\n", s) }

// Nontrivial marks the current case as non-trivial by the property's rule.
func (r *Recorder) Nontrivial(branch string) {
	r.curNT = true
	r.Stats.Branches[branch]++
}
func (r *Recorder) Branch(branch string) { r.Stats.Branches[branch]++ }
func (r *Recorder) Size(name string)     { r.Stats.Sizes[name]++ }

func (r *Recorder) endCase() {
	if !r.curOpen {
		return
	}
	r.curOpen = false
	if r.Stats.PerOp {
		return
	}
	h := fnv.New64a()
	h.Write([]byte(r.curHdr))
	for _, o := range r.curOps {
		h.Write([]byte{0})
		h.Write([]byte(o))
	}
	k := h.Sum64()
	if _, ok := r.seen[k]; ok {
		return
	}
	r.seen[k] = struct{}{}
	r.Stats.DistinctCases++
	if r.curNT {
		r.Stats.DistinctNontrivial++
		if len(r.Stats.Samples) < r.maxSampl {
			ops := r.curOps
			more := ""
			if len(ops) > 30 {
				more = fmt.Sprintf("; … (+%d more ops)", len(ops)-12)
				ops = ops[:12]
			}
			smp := "case " + r.curHdr + " :: " + strings.Join(ops, "; ") + more
			if len(smp) > 1500 {
				smp = smp[:1500] + "…"
			}
			r.Stats.Samples = append(r.Stats.Samples, smp)
		}
	}
}

func (r *Recorder) Close(statsPath string) error {
	r.endCase()
	if err := r.w.Flush(); err != nil {
		return err
	}
	if err := r.f.Close(); err != nil {
		return err
	}
	b, _ := json.MarshalIndent(r.Stats, "", " ")
	return os.WriteFile(statsPath, b, 0o644)
}

// SortedKeys is a helper for canonical map-ordered output.
func SortedKeys[V any](m map[string]V) []string {
	ks := make([]string, 0, len(m))
	for k := range m {
		ks = append(ks, k)
	}
	sort.Strings(ks)
	return ks
}

func IntList(xs []int) string {
	parts := make([]string, len(xs))
	for i, x := range xs {
		parts[i] = fmt.Sprint(x)
	}
	return "[" + strings.Join(parts, ",") + "]"
}
