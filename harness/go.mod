module verifharness

go 1.20

require (
	github.com/acquirecloud/golibs v0.0.0
	google.golang.org/grpc v1.55.0
)

require (
	github.com/golang/protobuf v1.5.3 // indirect
	google.golang.org/genproto v0.0.0-20230306155012-7f2fa6fef1f4 // indirect
	google.golang.org/protobuf v1.30.0 // indirect
)

replace github.com/acquirecloud/golibs => /repo
