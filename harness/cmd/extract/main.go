// Command extract regenerates Lean definitions and skeleton facts from /repo's CURRENT sources
// (tie "X" of DESIGN.md).  It only reads; output files are rewritten only when their content changes.
//
//	extract -repo /repo -out /verif/lean/GolibsVerif/Generated -facts /verif/.work/facts.json
package main

import (
	"bytes"
	"encoding/json"
	"flag"
	"fmt"
	"go/ast"
	"go/parser"
	"go/token"
	"os"
	"path/filepath"
	"sort"
	"strconv"
	"strings"
)

type facts struct {
	Errors []string       `json:"errors"`
	Facts  map[string]any `json:"facts"`
}

var fc = facts{Facts: map[string]any{}}

func fail(what string, err any) { fc.Errors = append(fc.Errors, fmt.Sprintf("%s: %v", what, err)) }

func writeIfChanged(path string, content []byte) {
	old, err := os.ReadFile(path)
	if err == nil && bytes.Equal(old, content) {
		return
	}
	if err := os.WriteFile(path, content, 0o644); err != nil {
		fail("write "+path, err)
	}
}

func main() {
	repo := flag.String("repo", "/repo", "repository root")
	out := flag.String("out", "", "directory for Generated/*.lean")
	factsPath := flag.String("facts", "", "facts.json")
	flag.Parse()
	os.MkdirAll(*out, 0o755)

	genXbin(*repo, *out)
	genErrs(*repo, *out)
	genLock(*repo, *out)
	genSkeleton(*repo)

	b, _ := json.MarshalIndent(fc, "", " ")
	if *factsPath != "" {
		os.WriteFile(*factsPath, b, 0o644)
	}
	if len(fc.Errors) > 0 {
		fmt.Fprintln(os.Stderr, strings.Join(fc.Errors, "\n"))
		os.Exit(1)
	}
}

func parseFile(path string) (*token.FileSet, *ast.File, error) {
	fset := token.NewFileSet()
	f, err := parser.ParseFile(fset, path, nil, parser.ParseComments)
	return fset, f, err
}

func findFunc(f *ast.File, name string, recv string) *ast.FuncDecl {
	for _, d := range f.Decls {
		fd, ok := d.(*ast.FuncDecl)
		if !ok || fd.Name.Name != name {
			continue
		}
		if recv == "" && fd.Recv == nil {
			return fd
		}
		if recv != "" && fd.Recv != nil && len(fd.Recv.List) == 1 {
			if strings.Contains(exprString(fd.Recv.List[0].Type), recv) {
				return fd
			}
		}
	}
	return nil
}

func exprString(e ast.Expr) string {
	switch x := e.(type) {
	case *ast.Ident:
		return x.Name
	case *ast.StarExpr:
		return "*" + exprString(x.X)
	case *ast.SelectorExpr:
		return exprString(x.X) + "." + x.Sel.Name
	case *ast.IndexExpr:
		return exprString(x.X) + "[" + exprString(x.Index) + "]"
	case *ast.IndexListExpr:
		return exprString(x.X) + "[..]"
	case *ast.CallExpr:
		args := []string{}
		for _, a := range x.Args {
			args = append(args, exprString(a))
		}
		return exprString(x.Fun) + "(" + strings.Join(args, ",") + ")"
	case *ast.BasicLit:
		return x.Value
	case *ast.UnaryExpr:
		return x.Op.String() + exprString(x.X)
	case *ast.BinaryExpr:
		return exprString(x.X) + x.Op.String() + exprString(x.Y)
	case *ast.ParenExpr:
		return "(" + exprString(x.X) + ")"
	case *ast.CompositeLit:
		return exprString(x.Type) + "{..}"
	case *ast.FuncLit:
		return "func{..}"
	case *ast.TypeAssertExpr:
		return exprString(x.X) + ".(T)"
	case *ast.SliceExpr:
		return exprString(x.X) + "[:]"
	case *ast.ArrayType:
		return "[]" + exprString(x.Elt)
	case *ast.MapType:
		return "map[" + exprString(x.Key) + "]" + exprString(x.Value)
	}
	return fmt.Sprintf("<%T>", e)
}

// ---------------------------------------------------------------- xbinary: WritableUintSize

// leanNatExpr translates an integer expression over Nat.
func leanNatExpr(e ast.Expr) (string, error) {
	switch x := e.(type) {
	case *ast.Ident:
		return x.Name, nil
	case *ast.BasicLit:
		if x.Kind == token.INT {
			v, err := strconv.ParseUint(x.Value, 0, 64)
			if err != nil {
				return "", err
			}
			return strconv.FormatUint(v, 10), nil
		}
	case *ast.ParenExpr:
		s, err := leanNatExpr(x.X)
		return "(" + s + ")", err
	case *ast.BinaryExpr:
		a, err := leanNatExpr(x.X)
		if err != nil {
			return "", err
		}
		b, err := leanNatExpr(x.Y)
		if err != nil {
			return "", err
		}
		switch x.Op {
		case token.SHL:
			return "(" + a + " <<< " + b + ")", nil
		case token.SHR:
			return "(" + a + " >>> " + b + ")", nil
		case token.ADD:
			return "(" + a + " + " + b + ")", nil
		case token.SUB:
			return "(" + a + " - " + b + ")", nil
		case token.MUL:
			return "(" + a + " * " + b + ")", nil
		}
	}
	return "", fmt.Errorf("unsupported integer expression %s", exprString(e))
}

func leanCond(e ast.Expr) (string, error) {
	switch x := e.(type) {
	case *ast.ParenExpr:
		s, err := leanCond(x.X)
		return "(" + s + ")", err
	case *ast.BinaryExpr:
		switch x.Op {
		case token.LAND, token.LOR:
			a, err := leanCond(x.X)
			if err != nil {
				return "", err
			}
			b, err := leanCond(x.Y)
			if err != nil {
				return "", err
			}
			op := " ∧ "
			if x.Op == token.LOR {
				op = " ∨ "
			}
			return "(" + a + op + b + ")", nil
		case token.GEQ, token.GTR, token.LEQ, token.LSS, token.EQL, token.NEQ:
			a, err := leanNatExpr(x.X)
			if err != nil {
				return "", err
			}
			b, err := leanNatExpr(x.Y)
			if err != nil {
				return "", err
			}
			op := map[token.Token]string{token.GEQ: "≥", token.GTR: ">", token.LEQ: "≤", token.LSS: "<", token.EQL: "=", token.NEQ: "≠"}[x.Op]
			return a + " " + op + " " + b, nil
		}
	}
	return "", fmt.Errorf("unsupported condition %s", exprString(e))
}

// leanBlock translates a statement list in which every path ends in `return <int expr>`.
func leanBlock(stmts []ast.Stmt, ind string) (string, error) {
	if len(stmts) == 0 {
		return "", fmt.Errorf("path without return")
	}
	switch s := stmts[0].(type) {
	case *ast.ReturnStmt:
		if len(s.Results) != 1 {
			return "", fmt.Errorf("return arity")
		}
		return leanNatExpr(s.Results[0])
	case *ast.IfStmt:
		if s.Init != nil {
			return "", fmt.Errorf("if with init")
		}
		c, err := leanCond(s.Cond)
		if err != nil {
			return "", err
		}
		thenS, err := leanBlock(append(append([]ast.Stmt{}, s.Body.List...), stmts[1:]...), ind+"  ")
		if err != nil {
			return "", err
		}
		var elseStmts []ast.Stmt
		switch el := s.Else.(type) {
		case nil:
			elseStmts = stmts[1:]
		case *ast.BlockStmt:
			elseStmts = append(append([]ast.Stmt{}, el.List...), stmts[1:]...)
		case *ast.IfStmt:
			elseStmts = append([]ast.Stmt{el}, stmts[1:]...)
		}
		elseS, err := leanBlock(elseStmts, ind+"  ")
		if err != nil {
			return "", err
		}
		return "if " + c + " then\n" + ind + "  " + thenS + "\n" + ind + "else\n" + ind + "  " + elseS, nil
	}
	return "", fmt.Errorf("unsupported statement %T", stmts[0])
}

func genXbin(repo, out string) {
	path := filepath.Join(repo, "xbinary", "xbinary.go")
	_, f, err := parseFile(path)
	if err != nil {
		fail("parse xbinary.go", err)
		return
	}
	var b strings.Builder
	b.WriteString("/- GENERATED by harness/cmd/extract from xbinary/xbinary.go — do not edit. -/\nnamespace Gen.Xbin\n\n")
	// integer constants of the file
	for _, d := range f.Decls {
		gd, ok := d.(*ast.GenDecl)
		if !ok || gd.Tok != token.CONST {
			continue
		}
		for _, sp := range gd.Specs {
			vs := sp.(*ast.ValueSpec)
			for i, n := range vs.Names {
				if i >= len(vs.Values) {
					continue
				}
				s, err := leanNatExpr(vs.Values[i])
				if err != nil {
					continue
				}
				fmt.Fprintf(&b, "def %s : Nat := %s\n", n.Name, s)
			}
		}
	}
	fd := findFunc(f, "WritableUintSize", "")
	if fd == nil || len(fd.Type.Params.List) != 1 || len(fd.Type.Params.List[0].Names) != 1 {
		fail("xbinary.WritableUintSize", "function not found or unexpected signature")
		return
	}
	arg := fd.Type.Params.List[0].Names[0].Name
	body, err := leanBlock(fd.Body.List, "  ")
	if err != nil {
		fail("xbinary.WritableUintSize", err)
		return
	}
	fmt.Fprintf(&b, "\n/-- Go: `WritableUintSize(%s uint64) int` -/\ndef writableUintSize (%s : Nat) : Nat :=\n  %s\n\nend Gen.Xbin\n", arg, arg, body)
	writeIfChanged(filepath.Join(out, "XbinSize.lean"), []byte(b.String()))
	fc.Facts["xbin.size_translated"] = true
}

// ---------------------------------------------------------------- errors: tables

func genErrs(repo, out string) {
	_, fe, err := parseFile(filepath.Join(repo, "errors", "errors.go"))
	if err != nil {
		fail("parse errors.go", err)
		return
	}
	_, fg, err := parseFile(filepath.Join(repo, "errors", "grpc.go"))
	if err != nil {
		fail("parse grpc.go", err)
		return
	}
	var classes []string
	marker := ""
	for _, d := range fe.Decls {
		gd, ok := d.(*ast.GenDecl)
		if !ok {
			continue
		}
		for _, sp := range gd.Specs {
			vs, ok := sp.(*ast.ValueSpec)
			if !ok {
				continue
			}
			for i, n := range vs.Names {
				if gd.Tok == token.VAR && strings.HasPrefix(n.Name, "Err") {
					classes = append(classes, n.Name)
				}
				if gd.Tok == token.CONST && n.Name == "jsonErrorMarker" && i < len(vs.Values) {
					if bl, ok := vs.Values[i].(*ast.BasicLit); ok {
						marker, _ = strconv.Unquote(bl.Value)
					}
				}
			}
		}
	}
	tables := map[string][][2]string{}
	for _, d := range fg.Decls {
		gd, ok := d.(*ast.GenDecl)
		if !ok || gd.Tok != token.VAR {
			continue
		}
		for _, sp := range gd.Specs {
			vs := sp.(*ast.ValueSpec)
			for i, n := range vs.Names {
				if n.Name != "grpcToErrors" && n.Name != "errorsToCode" {
					continue
				}
				cl, ok := vs.Values[i].(*ast.CompositeLit)
				if !ok {
					fail(n.Name, "not a composite literal")
					continue
				}
				for _, el := range cl.Elts {
					kv := el.(*ast.KeyValueExpr)
					tables[n.Name] = append(tables[n.Name], [2]string{exprString(kv.Key), exprString(kv.Value)})
				}
			}
		}
	}
	if len(classes) == 0 || len(tables["grpcToErrors"]) == 0 || len(tables["errorsToCode"]) == 0 {
		fail("errors tables", "class list or tables not found")
		return
	}
	inClasses := func(s string) bool {
		for _, c := range classes {
			if c == s {
				return true
			}
		}
		return false
	}
	code := func(s string) (string, bool) {
		if !strings.HasPrefix(s, "codes.") {
			return "", false
		}
		return "Code.c" + strings.TrimPrefix(s, "codes."), true
	}
	var b strings.Builder
	b.WriteString("import GolibsVerif.Model.ErrsBase\n/- GENERATED by harness/cmd/extract from errors/errors.go and errors/grpc.go — do not edit. -/\nnamespace Gen.Errs\nopen _root_.Errs\n\n")
	b.WriteString("/-- the general error classes declared in errors.go -/\ninductive Cls where\n")
	for _, c := range classes {
		fmt.Fprintf(&b, "  | %s\n", c)
	}
	b.WriteString("deriving DecidableEq, Repr\n\n")
	b.WriteString("def allClasses : List Cls := [" + strings.Join(mapS(classes, func(s string) string { return "." + s }), ", ") + "]\n\n")
	b.WriteString("def Cls.name : Cls → String\n")
	for _, c := range classes {
		fmt.Fprintf(&b, "  | .%s => %q\n", c, c)
	}
	b.WriteString("\n/-- Go: `grpcToErrors` (value `none` = nil) -/\ndef grpcToErrors : List (Code × Option Cls) := [\n")
	var rows []string
	for _, kv := range tables["grpcToErrors"] {
		k, ok := code(kv[0])
		if !ok {
			fail("grpcToErrors key", kv[0])
			return
		}
		v := "none"
		if kv[1] != "nil" {
			if !inClasses(kv[1]) {
				fail("grpcToErrors value", kv[1])
				return
			}
			v = "some Cls." + kv[1]
		}
		rows = append(rows, fmt.Sprintf("  (%s, %s)", k, v))
	}
	b.WriteString(strings.Join(rows, ",\n") + "]\n\n/-- Go: `errorsToCode` -/\ndef errorsToCode : List (Cls × Code) := [\n")
	rows = nil
	for _, kv := range tables["errorsToCode"] {
		v, ok := code(kv[1])
		if !ok || !inClasses(kv[0]) {
			fail("errorsToCode entry", kv[0]+":"+kv[1])
			return
		}
		rows = append(rows, fmt.Sprintf("  (Cls.%s, %s)", kv[0], v))
	}
	b.WriteString(strings.Join(rows, ",\n") + "]\n\n")
	fmt.Fprintf(&b, "/-- Go: `jsonErrorMarker` -/\ndef jsonErrorMarker : String := %s\n\nend Gen.Errs\n", leanString(marker))
	writeIfChanged(filepath.Join(out, "ErrTables.lean"), []byte(b.String()))
	fc.Facts["errors.classes"] = classes
	fc.Facts["errors.marker_hex"] = fmt.Sprintf("%x", marker)
}

func leanString(s string) string {
	var b strings.Builder
	b.WriteByte('"')
	for _, r := range s {
		switch {
		case r == '"' || r == '\\':
			b.WriteByte('\\')
			b.WriteRune(r)
		case r < 0x20 || r == 0x7f:
			fmt.Fprintf(&b, "\\x%02x", r)
		default:
			b.WriteRune(r)
		}
	}
	b.WriteByte('"')
	return b.String()
}

func mapS(xs []string, f func(string) string) []string {
	r := make([]string, len(xs))
	for i, x := range xs {
		r[i] = f(x)
	}
	return r
}

func sortedKeys(m map[string]any) []string {
	ks := make([]string, 0, len(m))
	for k := range m {
		ks = append(ks, k)
	}
	sort.Strings(ks)
	return ks
}
