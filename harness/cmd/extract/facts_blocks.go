package main

import (
	"fmt"
	"go/ast"
	"go/token"
	"path/filepath"
	"sort"
	"strings"
)

// blocks: the structural fact behind "concurrent callers are linearized by the allocator's mutex" (C17Conc):
// in every exported method of *Blocks, every read or write of the bookkeeping — the free hint `bks.freeIdx`
// and the bytes of a buffer obtained from `bks.bts.Buffer(..)` through an index expression — lies inside the
// region opened by `bks.lock.Lock()`; an `Unlock()` that is not directly followed by a return closes it.
// (`bks.available` is only touched through sync/atomic; Block() hands out a data slice without reading it.)
func init() {
	skeletonExtractors = append(skeletonExtractors, func(repo string) {
		_, f, err := parseFile(filepath.Join(repo, "container", "bytes", "blocks.go"))
		if err != nil {
			fail("parse blocks.go", err)
			return
		}
		var unlocked, locked []string
		for _, d := range f.Decls {
			fd, ok := d.(*ast.FuncDecl)
			if !ok || fd.Recv == nil || fd.Body == nil || !ast.IsExported(fd.Name.Name) {
				continue
			}
			if len(fd.Recv.List) != 1 || exprString(fd.Recv.List[0].Type) != "*Blocks" || len(fd.Recv.List[0].Names) != 1 {
				continue
			}
			recv := fd.Recv.List[0].Names[0].Name
			// buffers: identifiers bound to the first result of <recv>.bts.Buffer(..)
			bufs := map[string]bool{}
			ast.Inspect(fd.Body, func(n ast.Node) bool {
				as, ok := n.(*ast.AssignStmt)
				if !ok || len(as.Rhs) != 1 {
					return true
				}
				if c, ok := as.Rhs[0].(*ast.CallExpr); ok && exprString(c.Fun) == recv+".bts.Buffer" {
					if id, ok := as.Lhs[0].(*ast.Ident); ok {
						bufs[id.Name] = true
					}
				}
				return true
			})
			var lockPos token.Pos
			var closing []token.Pos // Unlock() calls that are NOT directly followed by a return
			var visitBlock func(list []ast.Stmt)
			visitBlock = func(list []ast.Stmt) {
				for i, st := range list {
					if es, ok := st.(*ast.ExprStmt); ok {
						switch exprString(es.X) {
						case recv + ".lock.Lock()":
							if lockPos == 0 {
								lockPos = es.Pos()
							}
						case recv + ".lock.Unlock()":
							ret := false
							if i+1 < len(list) {
								_, ret = list[i+1].(*ast.ReturnStmt)
							} else if len(fd.Body.List) > 0 && st == fd.Body.List[len(fd.Body.List)-1] {
								ret = true // the function ends here
							}
							if !ret {
								closing = append(closing, es.Pos())
							}
						}
					}
				}
			}
			ast.Inspect(fd.Body, func(n ast.Node) bool {
				switch b := n.(type) {
				case *ast.BlockStmt:
					visitBlock(b.List)
				case *ast.CaseClause:
					visitBlock(b.Body)
				}
				return true
			})
			var acc []struct {
				pos token.Pos
				txt string
			}
			ast.Inspect(fd.Body, func(n ast.Node) bool {
				switch x := n.(type) {
				case *ast.SelectorExpr:
					if exprString(x) == recv+".freeIdx" {
						acc = append(acc, struct {
							pos token.Pos
							txt string
						}{x.Pos(), exprString(x)})
					}
				case *ast.IndexExpr:
					if id, ok := x.X.(*ast.Ident); ok && bufs[id.Name] {
						acc = append(acc, struct {
							pos token.Pos
							txt string
						}{x.Pos(), exprString(x)})
					}
				}
				return true
			})
			if lockPos != 0 {
				locked = append(locked, fd.Name.Name)
			}
			seen := map[string]bool{}
			for _, a := range acc {
				out := lockPos == 0 || a.pos < lockPos
				for _, c := range closing {
					if a.pos > c {
						out = true
					}
				}
				if out {
					k := fmt.Sprintf("%s: %s", fd.Name.Name, strings.Join(strings.Fields(a.txt), " "))
					if !seen[k] {
						seen[k] = true
						unlocked = append(unlocked, k)
					}
				}
			}
		}
		sort.Strings(unlocked)
		sort.Strings(locked)
		if unlocked == nil {
			unlocked = []string{}
		}
		fc.Facts["blocks.unlocked_state_access"] = unlocked
		fc.Facts["blocks.locked_methods"] = locked
	})
}
