package main

import (
	"fmt"
	"go/ast"
	"go/token"
	"path/filepath"
	"sort"
	"strings"
)

// Lock-region facts: the structural premise of "concurrent callers are linearized by the object's mutex"
// (C17Conc, C09, C12/C13, C02/C07).  For every method of the receiver type, every read or write of the
// protected state lies inside a region opened by `<recv>.lock.Lock()`; `defer <recv>.lock.Unlock()` keeps the
// region open to the end of the function, an `Unlock()` directly followed by a return leaves through an exit,
// any other `Unlock()` closes the region until the next `Lock()` (source order stands for control flow: the
// functions concerned are straight-line code with early exits and one retry loop).
// Protected state: the named fields of the receiver; optionally the bytes of a buffer obtained from a call of
// bufCall (index expressions on the identifier it was bound to); optionally the named fields of ANY value
// (fields of objects owned by the structure, e.g. future.idx).
type lockTarget struct {
	key       string   // fact name prefix
	path      []string // file
	recvType  string
	fields    []string // fields of the receiver
	bufCall   string   // "<recv>.bts.Buffer" style suffix after the receiver name, "" = none
	anyFields []string // fields protected on any expression
	helpers   []string // methods that run under the caller's lock by contract: not examined themselves, a CALL of one counts as an access
	only      func(name string) bool
}

func lockRegionFacts(repo string, t lockTarget) {
	_, f, err := parseFile(filepath.Join(append([]string{repo}, t.path...)...))
	if err != nil {
		fail("parse "+strings.Join(t.path, "/"), err)
		return
	}
	var unlocked, locked []string
	for _, d := range f.Decls {
		fd, ok := d.(*ast.FuncDecl)
		if !ok || fd.Recv == nil || fd.Body == nil {
			continue
		}
		if len(fd.Recv.List) != 1 || len(fd.Recv.List[0].Names) != 1 {
			continue
		}
		rt := exprString(fd.Recv.List[0].Type)
		if i := strings.Index(rt, "["); i >= 0 {
			rt = rt[:i] // generic receiver: *ECache[PK, K, V]
		}
		if rt != t.recvType || (t.only != nil && !t.only(fd.Name.Name)) {
			continue
		}
		isHelper := false
		for _, h := range t.helpers {
			if h == fd.Name.Name {
				isHelper = true
			}
		}
		if isHelper {
			continue
		}
		recv := fd.Recv.List[0].Names[0].Name
		bufs := map[string]bool{}
		if t.bufCall != "" {
			ast.Inspect(fd.Body, func(n ast.Node) bool {
				as, ok := n.(*ast.AssignStmt)
				if !ok || len(as.Rhs) != 1 {
					return true
				}
				if c, ok := as.Rhs[0].(*ast.CallExpr); ok && exprString(c.Fun) == recv+t.bufCall {
					if id, ok := as.Lhs[0].(*ast.Ident); ok {
						bufs[id.Name] = true
					}
				}
				return true
			})
		}
		type ev struct {
			pos  token.Pos
			kind int // 1 lock, 2 closing unlock, 3 deferred unlock
		}
		var evs []ev
		visitBlock := func(list []ast.Stmt) {
			for i, st := range list {
				switch x := st.(type) {
				case *ast.ExprStmt:
					switch exprString(x.X) {
					case recv + ".lock.Lock()":
						evs = append(evs, ev{x.Pos(), 1})
					case recv + ".lock.Unlock()":
						exit := false
						if i+1 < len(list) {
							switch list[i+1].(type) {
							case *ast.ReturnStmt, *ast.BranchStmt: // return / continue / break: leaves the region through an exit
								exit = true
							}
						} else if len(fd.Body.List) > 0 && st == fd.Body.List[len(fd.Body.List)-1] {
							exit = true // the function ends here
						}
						if !exit {
							evs = append(evs, ev{x.Pos(), 2})
						}
					}
				case *ast.DeferStmt:
					if exprString(x.Call) == recv+".lock.Unlock()" {
						evs = append(evs, ev{x.Pos(), 3})
					}
				}
			}
		}
		ast.Inspect(fd.Body, func(n ast.Node) bool {
			switch b := n.(type) {
			case *ast.BlockStmt:
				visitBlock(b.List)
			case *ast.CaseClause:
				visitBlock(b.Body)
			case *ast.CommClause:
				visitBlock(b.Body)
			case *ast.FuncLit:
				return false
			}
			return true
		})
		sort.Slice(evs, func(i, j int) bool { return evs[i].pos < evs[j].pos })
		inside := func(p token.Pos) bool {
			in := false
			for _, e := range evs {
				if e.pos > p {
					break
				}
				switch e.kind {
				case 1:
					in = true
				case 2:
					in = false
				}
			}
			return in
		}
		hasLock := false
		for _, e := range evs {
			if e.kind == 1 {
				hasLock = true
			}
		}
		if hasLock {
			locked = append(locked, fd.Name.Name)
		}
		seen := map[string]bool{}
		flag := func(pos token.Pos, txt string) {
			if inside(pos) {
				return
			}
			k := fmt.Sprintf("%s: %s", fd.Name.Name, strings.Join(strings.Fields(txt), " "))
			if !seen[k] {
				seen[k] = true
				unlocked = append(unlocked, k)
			}
		}
		ast.Inspect(fd.Body, func(n ast.Node) bool {
			switch x := n.(type) {
			case *ast.FuncLit:
				return false
			case *ast.SelectorExpr:
				for _, fl := range t.fields {
					if exprString(x) == recv+"."+fl {
						flag(x.Pos(), exprString(x))
					}
				}
				for _, fl := range t.anyFields {
					if x.Sel.Name == fl && exprString(x.X) != recv {
						flag(x.Pos(), exprString(x))
					}
				}
			case *ast.IndexExpr:
				if id, ok := x.X.(*ast.Ident); ok && bufs[id.Name] {
					flag(x.Pos(), exprString(x))
				}
			case *ast.CallExpr:
				for _, h := range t.helpers {
					if exprString(x.Fun) == recv+"."+h {
						flag(x.Pos(), exprString(x.Fun)+"()")
					}
				}
			}
			return true
		})
	}
	sort.Strings(unlocked)
	sort.Strings(locked)
	if unlocked == nil {
		unlocked = []string{}
	}
	fc.Facts[t.key+".unlocked_state_access"] = unlocked
	fc.Facts[t.key+".locked_methods"] = locked
}

func init() {
	skeletonExtractors = append(skeletonExtractors, func(repo string) {
		// (`bks.available` is only touched through sync/atomic; Block() hands out a data slice without reading it)
		lockRegionFacts(repo, lockTarget{key: "blocks", path: []string{"container", "bytes", "blocks.go"}, recvType: "*Blocks",
			fields: []string{"freeIdx"}, bufCall: ".bts.Buffer", only: ast.IsExported})
		// the LRU cache: the ordered map of residents and the in-flight table
		lockRegionFacts(repo, lockTarget{key: "ecache", path: []string{"container", "lru", "ecache.go"}, recvType: "*ECache",
			fields: []string{"items", "inflight"}})
		// the timeout dispatcher: the heap of pending futures, the watcher counter, and the heap position / callback
		// of any future
		lockRegionFacts(repo, lockTarget{key: "timeout", path: []string{"timeout", "timeout.go"}, recvType: "*callControl",
			fields: []string{"futures", "watchers"}, anyFields: []string{"idx", "f"}})
		// the in-memory KV store: the records and the waiter table; live / leaveWaiter / notifyWaiters run under the
		// caller's lock by contract: a call of one of them is an access
		lockRegionFacts(repo, lockTarget{key: "inmem", path: []string{"kvs", "inmem", "inmem.go"}, recvType: "*service",
			fields: []string{"recs", "verChange"}, helpers: []string{"live", "leaveWaiter", "notifyWaiters"}})
	})
}
