package main

// genSkeleton records structural facts of the concurrent code that the hand-written models were
// built on (which statements sit inside which lock region, order of storage calls, ...).
// Filled in per component (see facts_*.go).
func genSkeleton(repo string) {
	for _, f := range skeletonExtractors {
		f(repo)
	}
}

var skeletonExtractors []func(repo string)
