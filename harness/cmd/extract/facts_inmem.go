package main

import (
	"go/ast"
	"path/filepath"
	"sort"
)

// inmem: which methods of *service are ONE critical section (`s.lock.Lock(); defer s.lock.Unlock()` as
// their first two statements) — the structural fact behind "every in-memory operation is atomic" (C02).
func init() {
	skeletonExtractors = append(skeletonExtractors, func(repo string) {
		_, f, err := parseFile(filepath.Join(repo, "kvs", "inmem", "inmem.go"))
		if err != nil {
			fail("parse inmem.go", err)
			return
		}
		var atomic, other []string
		for _, d := range f.Decls {
			fd, ok := d.(*ast.FuncDecl)
			if !ok || fd.Recv == nil || fd.Body == nil || !ast.IsExported(fd.Name.Name) {
				continue
			}
			if len(fd.Recv.List) != 1 || exprString(fd.Recv.List[0].Type) != "*service" {
				continue
			}
			ok2 := false
			if len(fd.Body.List) >= 2 {
				s0, isExpr := fd.Body.List[0].(*ast.ExprStmt)
				s1, isDefer := fd.Body.List[1].(*ast.DeferStmt)
				if isExpr && isDefer && exprString(s0.X) == "s.lock.Lock()" && exprString(s1.Call) == "s.lock.Unlock()" {
					ok2 = true
				}
			}
			if ok2 {
				atomic = append(atomic, fd.Name.Name)
			} else {
				other = append(other, fd.Name.Name)
			}
		}
		sort.Strings(atomic)
		sort.Strings(other)
		fc.Facts["inmem.single_section_methods"] = atomic
		fc.Facts["inmem.other_methods"] = other
	})
}
