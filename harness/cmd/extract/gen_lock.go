package main

// Lease arithmetic of kvs/distlock/kvlock.go, regenerated on every run into Generated/LockConsts.lean:
//   - the divisor N of every `timeout.Call(func() { l.supportTimeout(..) }, l.dlp.leaseTTL/N)`, per enclosing function
//     (renewal period after an acquisition / after a successful renewal, retry period after a transient error),
//   - whether every record literal written by Create / CasByVersion computes `ExpiresAt` from a clock reading taken
//     right there (time.Now().Add(leaseTTL) inside the call's argument), and whether the one in lockWithCtx sits INSIDE
//     its retry loop (so that the deadline is fixed when the record is written, not when the call was entered),
//   - the default lease in milliseconds.
// The theorems of Props/C05Timed.lean are stated over these definitions.

import (
	"fmt"
	"go/ast"
	"go/token"
	"path/filepath"
	"sort"
	"strconv"
	"strings"
)

func genLock(repo, out string) {
	_, f, err := parseFile(filepath.Join(repo, "kvs", "distlock", "kvlock.go"))
	if err != nil {
		fail("parse kvlock.go", err)
		return
	}
	type call struct {
		fn  string
		div int
		pos token.Pos
	}
	var calls []call
	freshAll := true
	inLoop := false
	nLits := 0
	for _, d := range f.Decls {
		fd, ok := d.(*ast.FuncDecl)
		if !ok || fd.Body == nil {
			continue
		}
		// which positions are inside a for statement of this function
		var loops [][2]token.Pos
		ast.Inspect(fd.Body, func(n ast.Node) bool {
			if fs, ok := n.(*ast.ForStmt); ok {
				loops = append(loops, [2]token.Pos{fs.Pos(), fs.End()})
			}
			return true
		})
		ast.Inspect(fd.Body, func(n ast.Node) bool {
			switch x := n.(type) {
			case *ast.CallExpr:
				if exprString(x.Fun) == "timeout.Call" && len(x.Args) == 2 {
					src := exprString(x.Args[1])
					if be, ok := x.Args[1].(*ast.BinaryExpr); ok && be.Op == token.QUO && strings.HasSuffix(exprString(be.X), "leaseTTL") {
						if lit, ok := be.Y.(*ast.BasicLit); ok {
							if v, err := strconv.Atoi(lit.Value); err == nil {
								calls = append(calls, call{fd.Name.Name, v, x.Pos()})
								return true
							}
						}
					}
					fail("kvlock.go: timeout.Call period is not `leaseTTL/<literal>`", src)
				}
			case *ast.KeyValueExpr:
				if k, ok := x.Key.(*ast.Ident); ok && k.Name == "ExpiresAt" {
					nLits++
					v := exprString(x.Value)
					if !(strings.Contains(v, "time.Now().Add(") && strings.Contains(v, "leaseTTL")) {
						freshAll = false
					}
					if fd.Name.Name == "lockWithCtx" {
						for _, l := range loops {
							if x.Pos() > l[0] && x.Pos() < l[1] {
								inLoop = true
							}
						}
					}
				}
			}
			return true
		})
	}
	sort.Slice(calls, func(i, j int) bool { return calls[i].pos < calls[j].pos })
	var acq, sup []int
	for _, c := range calls {
		if c.fn == "supportTimeout" {
			sup = append(sup, c.div)
		} else {
			acq = append(acq, c.div)
		}
	}
	leaseMs := -1
	for _, d := range f.Decls {
		gd, ok := d.(*ast.GenDecl)
		if !ok {
			continue
		}
		for _, s := range gd.Specs {
			vs, ok := s.(*ast.ValueSpec)
			if !ok || len(vs.Names) != 1 || vs.Names[0].Name != "defaultLeaseTimeout" || len(vs.Values) != 1 {
				continue
			}
			switch exprString(vs.Values[0]) {
			default:
				if be, ok := vs.Values[0].(*ast.BinaryExpr); ok && be.Op == token.MUL {
					unit := map[string]int{"time.Second": 1000, "time.Millisecond": 1, "time.Minute": 60000}
					for _, pair := range [][2]ast.Expr{{be.X, be.Y}, {be.Y, be.X}} {
						if u, ok := unit[exprString(pair[0])]; ok {
							if lit, ok := pair[1].(*ast.BasicLit); ok {
								if v, err := strconv.Atoi(lit.Value); err == nil {
									leaseMs = u * v
								}
							}
						}
					}
				}
			}
		}
	}
	if leaseMs < 0 {
		fail("kvlock.go", "defaultLeaseTimeout is not `<literal> * time.<unit>`")
	}
	// the order of the operations on l.future, the timers and the storage, per function (evaluation order:
	// arguments before the call; function literals are not entered — they run later, as timer callbacks)
	type skel struct {
		fn  string
		ops []string
	}
	var skels []skel
	for _, d := range f.Decls {
		fd, ok := d.(*ast.FuncDecl)
		if !ok || fd.Body == nil {
			continue
		}
		var ops []string
		touches := false
		var walk func(n ast.Node)
		walk = func(n ast.Node) {
			ast.Inspect(n, func(m ast.Node) bool {
				switch x := m.(type) {
				case *ast.FuncLit:
					return false
				case *ast.CallExpr:
					// children first (receiver expression and arguments), then the call itself
					walk(x.Fun)
					for _, a := range x.Args {
						walk(a)
					}
					fun := exprString(x.Fun)
					switch {
					case strings.HasSuffix(fun, ".future.Load"):
						ops, touches = append(ops, "load"), true
					case strings.HasSuffix(fun, ".future.Store"):
						ops, touches = append(ops, "store"), true
					case strings.HasSuffix(fun, ".future.CompareAndSwap"):
						ops, touches = append(ops, "cas"), true
					case strings.HasSuffix(fun, ".future.Swap"):
						ops, touches = append(ops, "swap"), true
					case fun == "timeout.Call":
						ops, touches = append(ops, "arm"), true
					case strings.HasSuffix(fun, ".Cancel"):
						ops, touches = append(ops, "cancel"), true
					case strings.HasSuffix(fun, ".Storage.Create"):
						ops = append(ops, "Create")
					case strings.HasSuffix(fun, ".Storage.CasByVersion"):
						ops = append(ops, "CasByVersion")
					case strings.HasSuffix(fun, ".Storage.Delete"):
						ops = append(ops, "Delete")
					case strings.HasSuffix(fun, ".Storage.WaitForVersionChange"):
						ops = append(ops, "Wait")
					case strings.HasSuffix(fun, ".Storage.Put") || strings.HasSuffix(fun, ".Storage.PutMany") || strings.HasSuffix(fun, ".Storage.Get") || strings.HasSuffix(fun, ".Storage.GetMany"):
						ops = append(ops, fun[strings.LastIndex(fun, ".")+1:])
					}
					return false
				}
				return true
			})
		}
		walk(fd.Body)
		if touches {
			skels = append(skels, skel{fd.Name.Name, ops})
		}
	}
	sort.Slice(skels, func(i, j int) bool { return skels[i].fn < skels[j].fn })
	var skelParts []string
	for _, k := range skels {
		q := make([]string, len(k.ops))
		for i, o := range k.ops {
			q[i] = strconv.Quote(o)
		}
		skelParts = append(skelParts, fmt.Sprintf("(%s, [%s])", strconv.Quote(k.fn), strings.Join(q, ", ")))
	}
	skelSrc := "[" + strings.Join(skelParts, ",\n   ") + "]"
	natList := func(l []int) string {
		p := make([]string, len(l))
		for i, v := range l {
			p[i] = strconv.Itoa(v)
		}
		return "[" + strings.Join(p, ", ") + "]"
	}
	src := fmt.Sprintf(`/- GENERATED by harness/cmd/extract from kvs/distlock/kvlock.go — do not edit. -/
namespace LockConsts

/-- divisors N of the first renewal period leaseTTL/N armed after a successful acquisition (TryLock, lockWithCtx) -/
def acquireDivs : List Nat := %s
/-- divisors inside supportTimeout, in source order: retry period after a transient error, renewal period after a success -/
def supportDivs : List Nat := %s
/-- the default lease in milliseconds -/
def leaseMs : Nat := %d
/-- every record written for the lock carries ExpiresAt = (clock read at that very call) + leaseTTL -/
def deadlineFromFreshClock : Bool := %v
/-- the record literal of lockWithCtx is built inside its retry loop (not once before the first wait) -/
def deadlineInsideRetryLoop : Bool := %v
/-- number of record literals with an ExpiresAt found -/
def recordLiterals : Nat := %d
/-- per function that touches l.future / arms or cancels a timer: its operations on l.future (load, store, cas =
CompareAndSwap, swap), timers (arm = timeout.Call, cancel) and the storage, in evaluation order -/
def futureSkeleton : List (String × List String) :=
  %s

end LockConsts
`, natList(acq), natList(sup), leaseMs, freshAll, inLoop, nLits, skelSrc)
	writeIfChanged(filepath.Join(out, "LockConsts.lean"), []byte(src))
	fc.Facts["lock.acquire_divs"] = acq
	fc.Facts["lock.support_divs"] = sup
	fc.Facts["lock.future_skeleton"] = skelParts
}
