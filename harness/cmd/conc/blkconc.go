package main

// Component "blkconc" (C17, concurrent callers): real goroutines call ArrangeBlock / FreeBlock of ONE
// allocator.  The instrumented copy of blocks.go announces the point right BEFORE each `lock.Lock()`: a caller
// is parked there, so whatever it did before taking the lock (reading a header byte, computing an index) is
// done, then other callers run complete calls, then it goes on.  Calls are written out in the order in which
// they take effect (the order of their locked sections; a call that never reaches the lock at its return) in the
// syntax of the sequential `blk` driver: the model must explain the concurrent run as that sequence —
// results, Available and header bytes after every call.  Go-side monitors: no index handed out twice, a
// second allocator opened on a copy of the bytes sees exactly the allocated set.
// A free-running part (several goroutines hammering the blocks of one header byte, no scheduler) looks for
// the same violations under real parallelism.

import (
	"encoding/hex"
	"errors"
	"fmt"
	"os"
	"sort"
	"strings"
	"sync"
	"sync/atomic"
	"time"

	cbytes "github.com/acquirecloud/golibs/container/bytes"
	gerrors "github.com/acquirecloud/golibs/errors"
)

func init() { components["blkconc"] = runBlkConc }

func bcErr(err error) string {
	switch {
	case errors.Is(err, gerrors.ErrInvalid):
		return "err ErrInvalid"
	case errors.Is(err, gerrors.ErrNotExist):
		return "err ErrNotExist"
	case errors.Is(err, gerrors.ErrExhausted):
		return "err ErrExhausted"
	}
	return "err other:" + err.Error()
}

type bcWorker struct {
	idx    int
	gid    int64
	cmd    chan string
	res    chan string
	parked chan struct{} // signalled when the worker stands before the lock
	gate   chan struct{} // closed/sent to let it go on
	busy   bool
	isPark bool
	op     string
}

type bcCase struct {
	ctx     *Ctx
	blocks  *cbytes.Blocks
	raw     []byte
	bs      int
	workers []*bcWorker
	mu      sync.Mutex
	byGid   map[int64]*bcWorker
	alloc   map[int]int // index -> owner worker
	nontriv bool
	failed  bool
}

func (c *bcCase) hdrLine() {
	segSize := (8*c.bs + 1) * c.bs
	var hb []byte
	for s := 0; s < c.blocks.Segments(); s++ {
		hb = append(hb, c.raw[s*segSize:s*segSize+c.bs]...)
	}
	c.ctx.R.Quiet("hdr", "hdr "+hex.EncodeToString(hb))
}

// complete: the call of worker w has returned with `out`: it took effect now
func (c *bcCase) complete(w *bcWorker, out string) {
	f := strings.Fields(w.op)
	c.ctx.R.Op(w.op, out)
	switch {
	case f[0] == "arrange" && strings.HasPrefix(out, "idx "):
		var idx int
		fmt.Sscanf(out, "idx %d", &idx)
		if o, dup := c.alloc[idx]; dup {
			c.ctx.R.Quiet("mon C17-no-double-allocation", fmt.Sprintf("index %d handed out to caller %d while caller %d still owns it", idx, w.idx, o))
			c.failed = true
		}
		c.alloc[idx] = w.idx
	case f[0] == "arrange" && out == "err ErrExhausted":
		if len(c.alloc) != c.blocks.Count() {
			c.ctx.R.Quiet("mon C17-exhausted-iff-full", fmt.Sprintf("ErrExhausted with %d of %d blocks allocated", len(c.alloc), c.blocks.Count()))
		}
	case f[0] == "free" && out == "ok":
		var idx int
		fmt.Sscanf(f[1], "%d", &idx)
		delete(c.alloc, idx)
	}
	if c.blocks.Available() != c.blocks.Count()-len(c.alloc) {
		c.ctx.R.Quiet("mon C17-available-exact", fmt.Sprintf("Available=%d Count=%d allocated=%d", c.blocks.Available(), c.blocks.Count(), len(c.alloc)))
		c.failed = true
	}
	c.hdrLine()
	w.busy, w.isPark = false, false
}

// start a call on an idle worker; returns when the worker is parked before the lock or has returned
func (c *bcCase) start(w *bcWorker, op string) {
	w.op, w.busy = op, true
	c.ctx.R.Enter()
	w.cmd <- op
	select {
	case <-w.parked:
		w.isPark = true
	case out := <-w.res:
		c.complete(w, out)
	}
	c.ctx.R.Leave()
}

// let a parked worker take the lock and finish its call
func (c *bcCase) resume(w *bcWorker) {
	c.ctx.R.Enter()
	w.gate <- struct{}{}
	for {
		select {
		case <-w.parked: // a second lock in the same call: no other caller runs in between
			w.gate <- struct{}{}
			continue
		case out := <-w.res:
			c.complete(w, out)
		}
		break
	}
	c.ctx.R.Leave()
}

func runBlkConcCase(ctx *Ctx, bs, segs, nworkers, steps int, directed []string) {
	page := os.Getpagesize()
	size := segs * (8*bs + 1) * bs
	store := cbytes.NewInMemBytes(size)
	raw, _ := store.Buffer(0, size)
	blocks, err := cbytes.NewBlocks(bs, store, false)
	ctx.R.Case(page, bs, size, false, "-")
	if err != nil {
		ctx.R.Op("open", bcErr(err))
		return
	}
	ctx.R.Op("open", fmt.Sprintf("ok segs=%d avail=%d", blocks.Segments(), blocks.Available()))
	c := &bcCase{ctx: ctx, blocks: blocks, raw: raw, bs: bs, byGid: map[int64]*bcWorker{}, alloc: map[int]int{}}
	cbytes.VerifSectionHook = func(kind, site string, obj any) {
		if kind != "before" || obj != any(blocks) {
			return
		}
		c.mu.Lock()
		w := c.byGid[goid()]
		c.mu.Unlock()
		if w == nil {
			return
		}
		w.parked <- struct{}{}
		<-w.gate
	}
	defer func() { cbytes.VerifSectionHook = nil }()
	var wg sync.WaitGroup
	for i := 0; i < nworkers; i++ {
		w := &bcWorker{idx: i, cmd: make(chan string), res: make(chan string, 1), parked: make(chan struct{}), gate: make(chan struct{})}
		c.workers = append(c.workers, w)
		ready := make(chan struct{})
		wg.Add(1)
		go func() {
			defer wg.Done()
			c.mu.Lock()
			w.gid = goid()
			c.byGid[w.gid] = w
			c.mu.Unlock()
			close(ready)
			for op := range w.cmd {
				f := strings.Fields(op)
				out := func() (out string) {
					defer func() {
						if r := recover(); r != nil {
							out = "panic"
						}
					}()
					switch f[0] {
					case "arrange":
						idx, err := blocks.ArrangeBlock()
						if err != nil {
							return bcErr(err)
						}
						return fmt.Sprintf("idx %d", idx)
					case "free":
						var i int
						fmt.Sscanf(f[1], "%d", &i)
						if err := blocks.FreeBlock(i); err != nil {
							return bcErr(err)
						}
						return "ok"
					}
					return "bad-op"
				}()
				w.res <- out
			}
		}()
		<-ready
	}
	r := ctx.Rnd
	owned := func(w int) []int {
		var o []int
		for i, ow := range c.alloc {
			if ow == w {
				o = append(o, i)
			}
		}
		sort.Ints(o)
		return o
	}
	act := func(a string) {
		f := strings.Fields(a)
		var wi int
		fmt.Sscanf(f[1], "%d", &wi)
		w := c.workers[wi%len(c.workers)]
		switch f[0] {
		case "call":
			if w.busy {
				return
			}
			op := strings.Join(f[2:], " ")
			if op == "free own" {
				o := owned(w.idx)
				if len(o) == 0 {
					return
				}
				op = fmt.Sprintf("free %d", o[r.Intn(len(o))])
			}
			parkedOthers := 0
			for _, x := range c.workers {
				if x != w && x.isPark {
					parkedOthers++
				}
			}
			c.start(w, op)
			if parkedOthers > 0 {
				c.nontriv = true
			}
		case "go":
			if w.isPark {
				c.resume(w)
			}
		}
	}
	if directed != nil {
		for _, a := range directed {
			act(a)
		}
	} else {
		for s := 0; s < steps && !c.failed; s++ {
			wi := r.Intn(nworkers)
			w := c.workers[wi]
			switch {
			case w.isPark:
				if r.Chance(1, 2) {
					act(fmt.Sprintf("go %d", wi))
				}
			case r.Chance(1, 2) || len(owned(wi)) == 0:
				act(fmt.Sprintf("call %d arrange", wi))
			case r.Chance(1, 8):
				// somebody else's or a free index: an error path (not part of well-behaved use, the model predicts it anyway)
				act(fmt.Sprintf("call %d free %d", wi, r.Intn(blocks.Count()+1)))
			default:
				act(fmt.Sprintf("call %d free own", wi))
			}
		}
	}
	for _, w := range c.workers {
		if w.isPark {
			c.resume(w)
		}
	}
	for _, w := range c.workers {
		close(w.cmd)
	}
	wg.Wait()
	if c.nontriv {
		ctx.R.Nontrivial("a call ran while another one stood before the lock")
	}
	// a second allocator opened on a copy of the bytes sees exactly the allocated set
	cp := cbytes.NewInMemBytes(len(raw))
	nb, _ := cp.Buffer(0, len(raw))
	copy(nb, raw)
	if b2, err := cbytes.NewBlocks(bs, cp, false); err == nil {
		got := 0
		same := b2.Available() == blocks.Count()-len(c.alloc)
		for i := 0; i < b2.Count(); i++ {
			if b2.FreeBlock(i) == nil {
				got++
				if _, ok := c.alloc[i]; !ok {
					same = false
				}
			}
		}
		if !same || got != len(c.alloc) {
			ctx.R.Quiet("mon C17-reopen-same-state", fmt.Sprintf("reopened allocator sees %d allocated blocks (available %d), the callers own %d", got, b2.Available(), len(c.alloc)))
		}
	}
}

// free-running: G goroutines allocate and free blocks which share header bytes; an index must never be
// handed to two owners, and at the end the bytes, Available and the owners' sets agree
func blkFreeRun(ctx *Ctx, bs, segs, g, rounds int) {
	size := segs * (8*bs + 1) * bs
	store := cbytes.NewInMemBytes(size)
	raw, _ := store.Buffer(0, size)
	blocks, err := cbytes.NewBlocks(bs, store, false)
	if err != nil {
		return
	}
	owner := make([]int32, blocks.Count())
	var bad atomic.Value
	var wg sync.WaitGroup
	finalOwned := make([][]int, g)
	for w := 0; w < g; w++ {
		wg.Add(1)
		go func(w int) {
			defer wg.Done()
			var mine []int
			seed := uint64(w)*7919 + ctx.Seed
			for i := 0; i < rounds && bad.Load() == nil; i++ {
				seed = seed*6364136223846793005 + 1442695040888963407
				if (seed>>33)%2 == 0 || len(mine) == 0 {
					idx, err := blocks.ArrangeBlock()
					if err != nil {
						continue
					}
					if !atomic.CompareAndSwapInt32(&owner[idx], 0, int32(w+1)) {
						bad.Store(fmt.Sprintf("mon C17-no-double-allocation|index %d handed out to goroutine %d while goroutine %d still owns it (free-running, %d goroutines)", idx, w, atomic.LoadInt32(&owner[idx])-1, g))
						return
					}
					mine = append(mine, idx)
				} else {
					k := int((seed >> 40) % uint64(len(mine)))
					idx := mine[k]
					mine = append(mine[:k], mine[k+1:]...)
					atomic.StoreInt32(&owner[idx], 0)
					if err := blocks.FreeBlock(idx); err != nil {
						bad.Store(fmt.Sprintf("mon C17-no-double-allocation|FreeBlock(%d) of a block the caller owns failed: %v (free-running, %d goroutines)", idx, err, g))
						return
					}
				}
			}
			finalOwned[w] = mine
		}(w)
	}
	done := make(chan struct{})
	go func() { wg.Wait(); close(done) }()
	select {
	case <-done:
	case <-time.After(15 * time.Second):
		ctx.R.Quiet("mon C17-concurrent-callers-return", "the free-running goroutines did not finish within 15 s")
		return
	}
	// monitors only (no model run): a case of the degenerate geometry which the driver opens and leaves alone
	ctx.R.Case(os.Getpagesize(), 1, 0, false, "-")
	ctx.R.Nontrivial("free-running goroutines")
	ctx.R.Comment(fmt.Sprintf("freerun bs=%d segments=%d goroutines=%d rounds=%d", bs, segs, g, rounds))
	ctx.R.Stats.OpKinds["freerun"]++
	if b := bad.Load(); b != nil {
		p := strings.SplitN(b.(string), "|", 2)
		ctx.R.Quiet(p[0], p[1])
		return
	}
	total := 0
	for _, m := range finalOwned {
		total += len(m)
	}
	if blocks.Available() != blocks.Count()-total {
		ctx.R.Quiet("mon C17-available-exact", fmt.Sprintf("after the free run: Available=%d Count=%d owned=%d", blocks.Available(), blocks.Count(), total))
	}
	cp := cbytes.NewInMemBytes(len(raw))
	nb, _ := cp.Buffer(0, len(raw))
	copy(nb, raw)
	if b2, err := cbytes.NewBlocks(bs, cp, false); err == nil {
		got := 0
		for i := 0; i < b2.Count(); i++ {
			if b2.FreeBlock(i) == nil {
				got++
			}
		}
		if got != total {
			ctx.R.Quiet("mon C17-reopen-same-state", fmt.Sprintf("after the free run a reopened allocator sees %d allocated blocks, the goroutines own %d", got, total))
		}
	}
}

func runBlkConc(ctx *Ctx) {
	r := ctx.Rnd
	// directed: a Free stands before the lock while another caller allocates / frees a block of the same header
	// byte, and the other way round
	for _, d := range [][]string{
		{"call 0 arrange", "go 0", "call 1 arrange", "go 1", "call 0 free 0", "call 1 free 1", "call 2 arrange", "go 2", "go 0", "go 1", "call 2 arrange", "go 2", "call 0 arrange", "go 0"},
		{"call 0 arrange", "go 0", "call 0 free 0", "call 1 arrange", "go 1", "go 0", "call 2 arrange", "go 2", "call 1 arrange", "go 1"},
		{"call 0 arrange", "call 1 arrange", "call 2 arrange", "go 2", "go 0", "go 1", "call 0 free own", "call 1 free own", "go 1", "go 0"},
	} {
		runBlkConcCase(ctx, 1, 1, 3, 0, d)
	}
	n := 300
	if ctx.Thorough {
		n = 6000
	}
	for i := 0; i < n; i++ {
		bs := []int{1, 1, 2}[r.Intn(3)]
		segs := r.Range(1, 2)
		runBlkConcCase(ctx, bs, segs, r.Range(2, 4), r.Range(8, 60), nil)
	}
	rounds := 20000
	if ctx.Thorough {
		rounds = 300000
	}
	for _, g := range []int{2, 4, 8} {
		blkFreeRun(ctx, 1, 1, g, rounds)
		blkFreeRun(ctx, 2, 2, g, rounds)
	}
}
