// Command conc: controlled-scheduler executors for the concurrent components (tie "T").
// `conc <component> -seed N -tier quick|thorough -out trace.txt -stats stats.json`
// Real goroutines of the REAL code run under a scheduler that decides, one action at a time, which
// blocked goroutine proceeds; every run yields a genuine execution trace at storage-call
// granularity which the Lean driver replays.
package main

import (
	"time"
	"flag"
	"fmt"
	"os"

	"verifharness/internal/gen"
	"verifharness/internal/rec"
)

type Ctx struct {
	Seed     uint64
	Thorough bool
	R        *rec.Recorder
	Rnd      *gen.Rand
	Focus    string
	Replay   string
}

var components = map[string]func(*Ctx){}

func main() {
	if len(os.Args) < 2 {
		fmt.Fprintln(os.Stderr, "usage: conc <component> [flags]")
		os.Exit(2)
	}
	comp := os.Args[1]
	fs := flag.NewFlagSet("conc", flag.ExitOnError)
	seed := fs.Uint64("seed", 1, "PRNG seed")
	tier := fs.String("tier", "quick", "quick|thorough")
	out := fs.String("out", "trace.txt", "event lines")
	stats := fs.String("stats", "stats.json", "coverage statistics")
	focus := fs.String("focus", "", "property id")
	replay := fs.String("replay", "", "re-execute the schedule of this replay file")
	fs.String("corpus", "", "unused")
	fs.Parse(os.Args[2:])
	f, ok := components[comp]
	if !ok {
		fmt.Fprintln(os.Stderr, "unknown component", comp)
		os.Exit(2)
	}
	r, err := rec.New(*out, comp)
	if err != nil {
		fmt.Fprintln(os.Stderr, err)
		os.Exit(2)
	}
	// calls made by the scheduler goroutine itself into the real code (Call, Cancel, Put, …) are bracketed with
	// R.Enter / R.Leave: one that does not return within the limit ends the run with `mon HANG` (exit 3)
	rec.Focus = *focus
	rec.StartWatchdog(20 * time.Second)
	ctx := &Ctx{Seed: *seed, Thorough: *tier == "thorough", R: r, Rnd: gen.New(*seed), Focus: *focus, Replay: *replay}
	f(ctx)
	if err := r.Close(*stats); err != nil {
		fmt.Fprintln(os.Stderr, err)
		os.Exit(2)
	}
}
