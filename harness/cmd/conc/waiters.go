package main

import (
	"context"
	"errors"
	"fmt"
	"sort"
	"strings"
	"sync"
	"time"

	gerrors "github.com/acquirecloud/golibs/errors"
	"github.com/acquirecloud/golibs/kvs"
	"github.com/acquirecloud/golibs/kvs/inmem"
)

func init() { components["waiters"] = runWaiters }

type secRec struct {
	gid  int64
	site string
	tbl  string
	at   time.Time
}

type wtWaiter struct {
	idx     int
	key     string
	verOrd  int
	gid     int64
	started bool
	done    bool
	result  chan string
	cancel  context.CancelFunc
	cancelled bool
	// scheduler control: with hold set, the waiter's goroutine is parked just BEFORE it takes the lock of
	// its next critical section (hook "before"), until release
	resolved string // the version string the waiter was started with
	hold   bool
	atGate bool
	gate   chan struct{}
	// startheld: park before the holdAt-th lock the waiter's goroutine takes (counted in locks), whichever
	// critical section that is in the current source
	holdAt int
	locks  int
}

type wtTimer struct {
	tm       *time.Timer
	deadline int
}

type wtCase struct {
	ctx      *Ctx
	st       kvs.Storage
	mu       sync.Mutex
	secs     []secRec
	flushed  int
	waiters  []*wtWaiter
	versions []string // by write ordinal (1-based)
	expiry   map[string]int // key -> virtual expiry time (ms) of the record written last, if it has one
	vnow     int            // virtual clock (ms); moves only at `expire`
	base     time.Time
	timers   map[int64]wtTimer // goroutine -> the expiry timer it sleeps on
	lapsed   map[string]bool   // key -> its record's expiry has passed (virtual time) and nobody has rewritten it since
	failed   bool
	mainGid  int64
	nontriv  bool
	// lost: the waiter ran a critical section the model has no notion of (the code was restructured): from
	// then on the case goes on WITHOUT the model (events become comments), the Go-side monitors still judge it
	lost   bool
	script []string
}

// how: the harness script of the case, appended to a verdict once the event trace no longer tells the story
func (c *wtCase) how() string {
	if !c.lost {
		return ""
	}
	return " [harness script: " + strings.Join(c.script, "; ") + "]"
}

// op writes an event line for the driver, or a comment once the model has been left behind
func (c *wtCase) op(op, out string) {
	if c.lost {
		c.ctx.R.Comment(op + " | " + out)
		return
	}
	c.ctx.R.Op(op, out)
}

func fmtTable(m map[string]int) string {
	if len(m) == 0 {
		return "-"
	}
	ks := make([]string, 0, len(m))
	for k := range m {
		ks = append(ks, k)
	}
	sort.Strings(ks)
	p := make([]string, len(ks))
	for i, k := range ks {
		p[i] = fmt.Sprintf("%s=%d", k, m[k])
	}
	return strings.Join(p, ",")
}

func (c *wtCase) waiterOf(gid int64) *wtWaiter {
	for _, w := range c.waiters {
		if w.gid == gid && w.started {
			return w
		}
	}
	return nil
}

// flush turns the critical sections recorded since the last flush into trace events.
// Sections of the main goroutine are announced by the caller (it knows which mutation it made).
func (c *wtCase) flush(mainEvent string) {
	c.mu.Lock()
	recs := append([]secRec{}, c.secs[c.flushed:]...)
	c.flushed = len(c.secs)
	c.mu.Unlock()
	for _, r := range recs {
		if r.gid == c.mainGid {
			if mainEvent != "" {
				for _, ev := range strings.Split(mainEvent, ";") {
					c.op(ev, "ok") // (a PutMany is several writes inside ONE critical section)
				}
				mainEvent = ""
			} else {
				continue
			}
		} else if w := c.waiterOf(r.gid); w != nil {
			kind := map[string]string{"WaitForVersionChange#1": "check", "WaitForVersionChange#2": "cancelled", "WaitForVersionChange#3": "timer"}[r.site]
			if kind == "" {
				if !c.lost {
					c.ctx.R.Quiet("mon MODEL-waiter-sections-known", "waiter ran a critical section the model does not know: "+r.site+" (the rest of this case is judged by the Go-side monitors only)")
					c.lost = true
				}
				continue
			}
			c.op(fmt.Sprintf("sec %d %s", w.idx, kind), "ok")
		} else {
			continue
		}
		c.op("table "+r.tbl, "ok")
	}
}

// settle: wait until every started waiter has returned or is parked in its select.
func (c *wtCase) settle() {
	deadline := time.Now().Add(settleBound)
	for {
		stable := true
		var gs map[int64]goState
		for _, w := range c.waiters {
			if !w.started || w.done {
				continue
			}
			select {
			case r := <-w.result:
				w.done = true
				c.flush("")
				c.op(fmt.Sprintf("ret %d %s", w.idx, r), "ok")
				// C07 monitor on the real call: the verdict is sound w.r.t. the harness' own view of the store
				continue
			default:
			}
			c.mu.Lock()
			held := w.atGate
			c.mu.Unlock()
			if held {
				continue
			}
			if gs == nil {
				gs = allGoroutines()
			}
			g := gs[w.gid]
			if !(g.state == "select" && strings.Contains(g.stack, "WaitForVersionChange")) {
				stable = false
			}
		}
		if stable {
			c.flush("")
			c.missedWakeups()
			return
		}
		if time.Now().After(deadline) {
			c.ctx.R.Quiet("mon C07-returns-promptly", "a waiter neither returned nor parked within 10s")
			c.failed = true
			return
		}
		time.Sleep(20 * time.Microsecond)
	}
}

func (c *wtCase) startWaiter(i int) {
	w := c.waiters[i]
	ver := "never-issued-version"
	if w.verOrd >= 1 && w.verOrd <= len(c.versions) {
		ver = c.versions[w.verOrd-1]
	}
	w.resolved = ver
	cx, cancel := context.WithCancel(context.Background())
	w.cancel = cancel
	ready := make(chan int64)
	goAhead := make(chan struct{})
	go func() {
		ready <- goid()
		<-goAhead
		err := c.st.WaitForVersionChange(cx, w.key, ver)
		switch {
		case err == nil:
			w.result <- "nil"
		case errors.Is(err, gerrors.ErrNotExist):
			w.result <- "notExist"
		case errors.Is(err, context.Canceled):
			w.result <- "ctxErr"
		default:
			w.result <- "other:" + err.Error()
		}
	}()
	g := <-ready
	c.mu.Lock()
	w.gid = g
	w.started = true
	c.mu.Unlock()
	close(goAhead)
	c.settle()
}

// missedWakeups is the property's own condition on the real store: once everything has settled, a waiter
// still parked in its select awaits a version that is no longer the key's (the record was rewritten or
// deleted) — the change was missed.  (A record that has merely EXPIRED wakes its waiters by their timer.)
func (c *wtCase) missedWakeups() {
	// a consistent snapshot: no critical section ran between the two reads of the section log, and the
	// goroutine states were sampled in between
	c.mu.Lock()
	n0 := len(c.secs)
	c.mu.Unlock()
	vers := inmem.VerifVersions(c.st)
	gs := allGoroutines()
	c.mu.Lock()
	n1 := len(c.secs)
	c.mu.Unlock()
	if n0 != n1 {
		return
	}
	for _, w := range c.waiters {
		if g := gs[w.gid]; !(g.state == "select" && strings.Contains(g.stack, "WaitForVersionChange")) {
			continue
		}
		select {
		case r := <-w.result:
			w.result <- r
			continue
		default:
		}
		c.mu.Lock()
		held := w.atGate
		c.mu.Unlock()
		if !w.started || w.done || held || w.resolved == "" {
			continue
		}
		if c.lapsed[w.key] {
			// a fired timer wakes its goroutine asynchronously: look again after a generous pause
			time.Sleep(150 * time.Millisecond)
			g2 := allGoroutines()[w.gid]
			if !(g2.state == "select" && strings.Contains(g2.stack, "WaitForVersionChange")) {
				return
			}
			c.ctx.R.Quiet("mon C07-no-missed-wakeup", fmt.Sprintf("waiter %d is still parked on %s although the record's expiry has passed and every due expiry timer was fired (no timer armed for this waiter?)", w.idx, w.key)+c.how())
			c.failed = true
			continue
		}
		if cur, ok := vers[w.key]; !ok || cur != w.resolved {
			c.ctx.R.Quiet("mon C07-no-missed-wakeup", fmt.Sprintf("waiter %d is parked awaiting a change of %s from version ordinal %d, but the record is %s", w.idx, w.key, w.verOrd, map[bool]string{true: "at another version", false: "gone"}[ok])+c.how())
			c.failed = true
		}
	}
}

// release lets a held waiter take its lock (or just disarms a hold that never triggered)
func (c *wtCase) release(i int) {
	w := c.waiters[i]
	c.mu.Lock()
	at, gate := w.atGate, w.gate
	w.hold, w.atGate = false, false
	if at {
		w.gate = make(chan struct{})
	}
	c.mu.Unlock()
	if at {
		c.nontriv = true
		close(gate)
		c.settle()
	}
}

func (c *wtCase) parkedOn(key string) int {
	n := 0
	for _, w := range c.waiters {
		if w.started && !w.done && w.key == key {
			n++
		}
	}
	return n
}

func runWaitersCase(ctx *Ctx, specs [][2]interface{}, script []string) {
	c := &wtCase{ctx: ctx, script: script, st: inmem.New(), expiry: map[string]int{}, mainGid: goid(), timers: map[int64]wtTimer{}, lapsed: map[string]bool{},
		base: time.Date(2031, 1, 1, 0, 0, 0, 0, time.UTC)}
	// virtual time: the in-memory store reads the clock through verifNow() and takes its expiry timers from
	// the harness, which fires them when the virtual clock has passed their deadline (`expire` op)
	inmem.VerifSetClock(func() time.Time {
		c.mu.Lock()
		defer c.mu.Unlock()
		return c.base.Add(time.Duration(c.vnow) * time.Millisecond)
	})
	inmem.VerifTimerHook = func(d time.Duration) *time.Timer {
		tm := time.NewTimer(time.Hour)
		c.mu.Lock()
		c.timers[goid()] = wtTimer{tm: tm, deadline: c.vnow + int(d/time.Millisecond)}
		c.mu.Unlock()
		return tm
	}
	defer func() { inmem.VerifTimerHook = nil; inmem.VerifSetClock(nil) }()
	var hdr []string
	for i, s := range specs {
		w := &wtWaiter{idx: i, key: s[0].(string), verOrd: s[1].(int), result: make(chan string, 1), gate: make(chan struct{})}
		c.waiters = append(c.waiters, w)
		hdr = append(hdr, fmt.Sprintf("%s:%d", w.key, w.verOrd))
	}
	inmem.VerifSectionHook = func(kind, site string, obj any) {
		if kind == "before" {
			g := goid()
			var gate chan struct{}
			c.mu.Lock()
			for _, w := range c.waiters {
				if w.started && w.gid == g {
					w.locks++
					if w.hold || (w.holdAt > 0 && w.locks == w.holdAt) {
						w.hold, w.atGate, gate = false, true, w.gate
					}
				}
			}
			c.mu.Unlock()
			if gate != nil {
				<-gate
			}
			return
		}
		if kind == "enter" {
			// a waiter that runs a section again has left its select: its previous expiry timer is obsolete
			c.mu.Lock()
			delete(c.timers, goid())
			c.mu.Unlock()
			return
		}
		if kind != "leave" {
			return
		}
		t := fmtTable(inmem.VerifWaitersLocked(obj))
		c.mu.Lock()
		c.secs = append(c.secs, secRec{gid: goid(), site: site, tbl: t, at: time.Now()})
		c.mu.Unlock()
	}
	defer func() { inmem.VerifSectionHook = nil }()
	h := "-"
	if len(hdr) > 0 {
		h = strings.Join(hdr, ",")
	}
	ctx.R.Case(h)
	bg := context.Background()
	for _, line := range script {
		if c.failed {
			break
		}
		// every script step calls into the real store from this goroutine: one that does not come back within the
		// watchdog's limit (a wedged mutex) ends the run with `mon HANG` instead of hanging the check
		ctx.R.Enter()
		f := strings.Fields(line)
		switch f[0] {
		case "start":
			var i int
			fmt.Sscan(f[1], &i)
			c.startWaiter(i)
		case "startheld":
			// start waiter i; it will stand before the k-th lock it takes
			var i, k int
			fmt.Sscan(f[1], &i)
			fmt.Sscan(f[2], &k)
			c.waiters[i].holdAt = k
			c.startWaiter(i)
		case "hold":
			// park waiter i just before the lock of its NEXT critical section (whenever that comes)
			var i int
			fmt.Sscan(f[1], &i)
			c.mu.Lock()
			if w := c.waiters[i]; w.started && !w.done && !w.atGate {
				w.hold = true
			}
			c.mu.Unlock()
		case "release":
			var i int
			fmt.Sscan(f[1], &i)
			c.release(i)
		case "cancel":
			var i int
			fmt.Sscan(f[1], &i)
			w := c.waiters[i]
			if !w.started || w.done || w.cancelled {
				continue
			}
			w.cancelled = true
			if c.parkedOn(w.key) > 1 {
				c.nontriv = true
			}
			c.op(fmt.Sprintf("cancel %d", i), "ok")
			w.cancel()
			c.settle()
		case "put", "putx", "putpast":
			// putx: with a short expiry; putpast: with an expiry that is ALREADY over — the key goes from live to absent
			// by a write, and its waiters must hear of it like of a Delete
			rec := kvs.Record{Key: f[1], Value: []byte("v")}
			if f[0] == "putpast" {
				c.mu.Lock()
				t := c.base.Add(time.Duration(c.vnow-5) * time.Millisecond)
				c.mu.Unlock()
				rec.ExpiresAt = &t
				delete(c.expiry, f[1])
				c.lapsed[f[1]] = true
			} else if f[0] == "putx" {
				c.mu.Lock()
				ex := c.vnow + 12
				c.mu.Unlock()
				t := c.base.Add(time.Duration(ex) * time.Millisecond)
				rec.ExpiresAt = &t
				c.expiry[f[1]] = ex
				delete(c.lapsed, f[1])
			} else {
				delete(c.expiry, f[1])
				delete(c.lapsed, f[1])
			}
			if c.parkedOn(f[1]) > 0 {
				c.nontriv = true
			}
			r, err := c.st.Put(bg, rec)
			if err != nil {
				c.failed = true
				continue
			}
			c.versions = append(c.versions, r.Version)
			if f[0] == "putpast" {
				c.flush("write " + f[1] + ";expire " + f[1])
			} else {
				c.flush("write " + f[1])
			}
			c.settle()
			case "putmany":
			// several records in one call: every key's waiters must be woken
			ks := strings.Split(f[1], ",")
			var recs []kvs.Record
			for _, k := range ks {
				recs = append(recs, kvs.Record{Key: k, Value: []byte("m")})
				delete(c.expiry, k)
				delete(c.lapsed, k)
				if c.parkedOn(k) > 0 {
					c.nontriv = true
				}
			}
			if err := c.st.PutMany(bg, recs); err != nil {
				c.failed = true
				continue
			}
			vers := inmem.VerifVersions(c.st)
			var evs []string
			for i, k := range ks {
				v := vers[k]
				for _, k2 := range ks[i+1:] {
					if k2 == k {
						v = "overwritten-within-the-batch"
					}
				}
				c.versions = append(c.versions, v)
				evs = append(evs, "write "+k)
			}
			c.flush(strings.Join(evs, ";"))
			c.settle()
		case "create":
			v, err := c.st.Create(bg, kvs.Record{Key: f[1], Value: []byte("c")})
			if err == nil {
				c.versions = append(c.versions, v)
				delete(c.expiry, f[1])
				delete(c.lapsed, f[1])
				c.flush("write " + f[1])
			} else {
				c.flush("touch " + f[1])
			}
			c.settle()
		case "get":
			// a read purges an expired record (and must then wake its waiters) but changes nothing else
			c.st.Get(bg, f[1])
			c.flush("touch " + f[1])
			c.settle()
		case "getmany", "list":
			if f[0] == "getmany" {
				c.st.GetMany(bg, "a", "b", "a")
			} else if it, err := c.st.ListKeys(bg, "*"); err == nil {
				for it.HasNext() {
					it.Next()
				}
			}
			c.flush("touch a;touch b")
			c.settle()
		case "cas":
			// cas with the CURRENT version (succeeds) or a stale one (conflict)
			cur, err := c.st.Get(bg, f[1])
			c.flush("touch " + f[1])
			if err == nil {
				ver := cur.Version
				if f[2] == "stale" {
					ver = "stale-version"
				}
				if c.parkedOn(f[1]) > 0 && f[2] != "stale" {
					c.nontriv = true
				}
				casRec := kvs.Record{Key: f[1], Value: []byte("s"), Version: ver}
				if f[2] == "same" || f[2] == "samex" {
					// the value stays what it is, only the version (and the expiry) moves: a lease refresh
					casRec.Value = append([]byte{}, cur.Value...)
				}
				casEx := -1
				if f[2] == "currentx" || f[2] == "samex" {
					c.mu.Lock()
					casEx = c.vnow + 12
					c.mu.Unlock()
					tx := c.base.Add(time.Duration(casEx) * time.Millisecond)
					casRec.ExpiresAt = &tx
				}
				r, err := c.st.CasByVersion(bg, casRec)
				if err == nil {
					c.versions = append(c.versions, r.Version)
					delete(c.expiry, f[1])
					delete(c.lapsed, f[1])
					if casEx >= 0 {
						c.expiry[f[1]] = casEx
					}
					c.flush("write " + f[1])
				} else {
					c.flush("touch " + f[1])
				}
			}
			c.settle()
		case "delete":
			if c.parkedOn(f[1]) > 0 {
				c.nontriv = true
			}
			if err := c.st.Delete(bg, f[1]); err == nil {
				delete(c.expiry, f[1])
				delete(c.lapsed, f[1])
				c.flush("delete " + f[1])
			} else {
				c.flush("touch " + f[1])
			}
			c.settle()
		case "expire":
			ex, ok := c.expiry[f[1]]
			if !ok {
				continue
			}
			// the record's ExpiresAt passes (environment step of the model) …
			c.mu.Lock()
			if c.vnow < ex+2 {
				c.vnow = ex + 2
			}
			now := c.vnow
			c.mu.Unlock()
			delete(c.expiry, f[1])
			c.lapsed[f[1]] = true
			c.op("expire "+f[1], "ok")
			// the clock is shared: every other record whose expiry lies before the new time has lapsed too
			for _, k2 := range []string{"a", "b"} {
				if e2, ok := c.expiry[k2]; ok && e2 < now {
					delete(c.expiry, k2)
					c.lapsed[k2] = true
					c.op("expire "+k2, "ok")
				}
			}
			// … and every expiry timer whose deadline has passed fires
			c.mu.Lock()
			var due []*time.Timer
			expect := 0
			for g, tm := range c.timers {
				if tm.deadline <= now {
					due = append(due, tm.tm)
					delete(c.timers, g)
					for _, w := range c.waiters {
						if w.started && !w.done && w.gid == g && !w.atGate {
							expect++ // parked in its select: it will run its `timer` section
						}
					}
				}
			}
			n0 := len(c.secs)
			c.mu.Unlock()
			for _, tm := range due {
				tm.Reset(0)
			}
			// every woken waiter must be seen to act (its `timer` section) before the system counts as settled
			for i := 0; i < 3000 && expect > 0; i++ {
				c.mu.Lock()
				acted := len(c.secs) >= n0+expect
				c.mu.Unlock()
				if acted {
					break
				}
				time.Sleep(10 * time.Microsecond)
			}
			c.settle()
		}
	}
	ctx.R.Enter() // (the end phase talks to the store as well)
	defer ctx.R.Leave()
	// cancel whoever is still waiting; then no bookkeeping may be left (C07)
	for i := range c.waiters {
		if !c.failed {
			c.release(i)
		}
	}
	for _, w := range c.waiters {
		if w.started && !w.done && !c.failed && w.cancelled {
			c.settle()
		}
		if w.started && !w.done && !c.failed {
			c.op(fmt.Sprintf("cancel %d", w.idx), "ok")
			w.cancel()
			c.settle()
		}
	}
	if !c.failed {
		if t := inmem.VerifWaiters(c.st); len(t) != 0 {
			ctx.R.Quiet("mon C07-no-bookkeeping-left", "all waiters are gone but the waiter table still holds "+fmtTable(t))
		}
	}
	if c.nontriv {
		ctx.R.Nontrivial("a mutation / cancellation hit a key with parked waiters")
	}
}

func runWaiters(ctx *Ctx) {
	r := ctx.Rnd
	n := 150
	if ctx.Thorough {
		n = 3000
	}
	keys := []string{"a", "b"}
	for c := 0; c < n; c++ {
		nw := r.Range(1, 3)
		nk := r.Range(1, 2)
		// a prefix of writes so that waiters can refer to current / stale versions by ordinal
		var script []string
		writes := 0
		keyLast := map[string]int{}
		for i := 0; i < r.Range(1, 3); i++ {
			k := keys[r.Intn(nk)]
			if i == 0 {
				k = keys[0]
			}
			if r.Chance(1, 4) {
				script = append(script, "putx "+k)
			} else {
				script = append(script, "put "+k)
			}
			writes++
			keyLast[k] = writes
		}
		var specs [][2]interface{}
		for i := 0; i < nw; i++ {
			k := keys[r.Intn(nk)]
			ver := 0 // unknown
			if r.Chance(2, 3) {
				k = keys[0]
			}
			switch r.Intn(7) {
			case 0, 1, 2, 3:
				ver = keyLast[k] // current (0 if the key was never written)
			case 4:
				if writes > 0 {
					ver = r.Range(1, writes) // possibly stale / other key's
				}
			case 5:
				ver = writes + r.Range(1, 2) // the version a LATER write will produce (current by the time the waiter starts, if it starts after it)
			}
			specs = append(specs, [2]interface{}{k, ver})
		}
		started := map[int]bool{}
		if r.Chance(2, 3) {
			for w := 0; w < nw; w++ {
				if r.Chance(3, 4) {
					started[w] = true
					script = append(script, fmt.Sprintf("start %d", w))
				}
			}
		}
		for i := 0; i < r.Range(3, 9); i++ {
			k := keys[r.Intn(nk)]
			switch x := r.Intn(100); {
			case x < 30:
				w := r.Intn(nw)
				if !started[w] {
					started[w] = true
					script = append(script, fmt.Sprintf("start %d", w))
				}
			case x < 38:
				script = append(script, fmt.Sprintf("cancel %d", r.Intn(nw)))
			case x < 44:
				// a waiter's next critical section is delayed past whatever comes next
				w := r.Intn(nw)
				script = append(script, fmt.Sprintf("hold %d", w))
				if r.Chance(1, 2) {
					script = append(script, fmt.Sprintf("cancel %d", w))
				}
			case x < 48:
				script = append(script, fmt.Sprintf("release %d", r.Intn(nw)))
			case x < 50:
				script = append(script, "put "+k)
			case x < 55:
				script = append(script, "putmany "+[]string{"a,b", "b,a", "a,a", "a,b,a", "b"}[r.Intn(5)])
			case x < 62:
				script = append(script, "putx "+k)
			case x < 70:
				script = append(script, "create "+k)
			case x < 73:
				script = append(script, "cas "+k+" "+[]string{"current", "same"}[r.Intn(2)])
			case x < 76:
				script = append(script, "cas "+k+" "+[]string{"currentx", "samex"}[r.Intn(2)])
			case x < 78:
				script = append(script, []string{"get " + k, "getmany", "list", "putpast " + k}[r.Intn(4)])
			case x < 83:
				script = append(script, "cas "+k+" stale")
			case x < 93:
				script = append(script, "delete "+k)
			default:
				script = append(script, "expire "+k)
			}
		}
		for w := 0; w < nw; w++ {
			if !started[w] && r.Chance(1, 2) {
				script = append(script, fmt.Sprintf("start %d", w))
			}
		}
		if nw >= 2 && r.Chance(1, 5) {
			// directed: a leaving waiter (cancelled / expiry timer) reaches its critical section only after a
			// write replaced the waiter record and another waiter registered on the new one
			specs = [][2]interface{}{{"a", 1}, {"a", 2}}
			if nw == 3 {
				specs = append(specs, [2]interface{}{"a", 2})
			}
			first := "put a"
			leave := "cancel 0"
			if r.Chance(1, 3) {
				first, leave = "putx a", "expire a"
			}
			script = []string{first, "start 0", "hold 0", leave, "put a", "start 1"}
			if nw == 3 && r.Chance(1, 2) {
				script = append(script, "start 2")
			}
			script = append(script, "release 0")
			for i := 0; i < r.Range(1, 3); i++ {
				script = append(script, []string{"put a", "delete a", "cancel 1", "cas a current", "cas a samex", "cas a same"}[r.Intn(6)])
			}
		}
		if r.Chance(1, 8) {
			// directed: a lease refresh (CasByVersion with the SAME value, with or without an expiry) while waiters are
			// parked on the key: a new version is a change whatever the value is
			specs = [][2]interface{}{{"a", 1}, {"a", 1}}
			script = []string{[]string{"put a", "putx a"}[r.Intn(2)], "start 0", "start 1", "cas a " + []string{"samex", "same", "samex"}[r.Intn(3)]}
			if r.Chance(1, 2) {
				script = append(script, "cas a samex")
			}
		}
		if r.Chance(1, 8) {
			// directed: a write lands between two consecutive lock acquisitions of a waiter (for the code as it is:
			// between being woken and looking again; for a check split from the registration: right in the gap)
			specs = [][2]interface{}{{"a", 1}}
			script = []string{"put a", "startheld 0 2", []string{"put a", "delete a", "cas a current"}[r.Intn(3)], "release 0"}
			if r.Chance(1, 2) {
				script = append(script, "put a")
			}
		}
		if nw >= 2 && r.Chance(1, 6) {
			// directed: several waiters on ONE expiring record; some of them give up before the expiry; nobody
			// touches the key afterwards: every remaining waiter must be woken by its own expiry timer
			specs = [][2]interface{}{{"a", 1}, {"a", 1}}
			script = []string{"putx a", "start 0", "start 1"}
			if nw == 3 {
				specs = append(specs, [2]interface{}{"a", 1})
				script = append(script, "start 2")
			}
			if r.Chance(1, 3) {
				script = append(script, "put b") // an unrelated write in between
			}
			script = append(script, fmt.Sprintf("cancel %d", r.Intn(nw)))
			if nw == 3 && r.Chance(1, 2) {
				script = append(script, fmt.Sprintf("cancel %d", r.Intn(nw)))
			}
			script = append(script, "expire a")
		}
		if r.Chance(1, 8) {
			// directed: the key goes from live to absent by a WRITE (a Put whose expiry is already over) while waiters
			// are parked on it, on a record without / with an expiry of its own
			specs = [][2]interface{}{{"a", 1}, {"a", 1}}
			script = []string{[]string{"put a", "putx a"}[r.Intn(2)], "start 0", "start 1", "putpast a"}
			if r.Chance(1, 2) {
				script = append(script, "put a")
			}
		}
		if ctx.R.Enough() {
			ctx.R.Comment("several violations recorded already: the remaining cases are skipped")
			break
		}
		runWaitersCase(ctx, specs, script)
		}
		}
