package main

import (
	"strconv"
	"fmt"
	"strings"
	"sync"
	"time"

	"github.com/acquirecloud/golibs/timeout"
)

func init() { components["pool"] = runPool }

type ptRec struct {
	gid  int64
	kind string // sec | sleep | start
	a, b, c int
}

type ptThread struct {
	idx      int
	gid      int64
	timer    *time.Timer
	deadline int
	sleeping bool
	exited   bool
}

type ptCase struct {
	ctx     *Ctx
	mu      sync.Mutex
	vnow    int
	recs    []ptRec
	flushed int
	threads []*ptThread
	mainGid int64
	failed  bool
	fireT   map[int]int
	cancelled map[int]bool
	started map[int]int
	futs    []timeout.Future
	base    time.Time
	nontriv bool
	pendingSleep map[int64][2]interface{}
	// scheduler control: with holdNext armed, the next watcher that is about to go to sleep is parked between
	// leaving its locked section and entering its select (inside the timer hook) until release
	holdNext bool
	heldGid  int64
	heldGate chan struct{}
	// holdLock: the next watcher that is about to take the dispatcher's lock (any lock site of the current
	// source) is parked right before it; heldAtLock tells settle() that the held goroutine stands there
	holdLock   bool
	holdSkip   int
	heldAtLock bool
	// lost: a watcher ran a critical section the model has no notion of (the code was restructured): the rest of
	// the case goes on without the model (events become comments), the Go-side monitors still judge it
	lost   bool
	script []string
	unknownSite string
	// cancellers: goroutines that call Cancel() concurrently; each is parked just BEFORE it takes the
	// dispatcher's lock (hook "before") until `release`, so that a watcher can pop / other futures can move in between
	cancellers map[int64]*ptCanceller
}

type ptCanceller struct {
	fut     int
	gate    chan struct{}
	parked  bool
	done    chan struct{}
	hBefore int
}

// op writes an event line for the driver, or a comment once the model has been left behind
func (c *ptCase) op(op, out string) {
	if c.lost {
		c.ctx.R.Comment(op + " | " + out)
		return
	}
	c.ctx.R.Op(op, out)
}

func (c *ptCase) how() string {
	if !c.lost {
		return ""
	}
	return " [harness script: " + strings.Join(c.script, "; ") + "]"
}

func (c *ptCase) thread(gid int64) *ptThread {
	for _, t := range c.threads {
		if t.gid == gid {
			return t
		}
	}
	return nil
}

// watcherGoroutines lists the live goroutines running cc.watcher()
func watcherGoroutines(gs map[int64]goState) []int64 {
	var ids []int64
	for id, g := range gs {
		if strings.Contains(g.stack, "(*callControl).watcher") {
			ids = append(ids, id)
		}
	}
	return ids
}

// applyPending attaches sleep timers recorded before their goroutine was registered
func (c *ptCase) applyPending() {
	for _, t := range c.threads {
		if ps, ok := c.pendingSleep[t.gid]; ok && t.timer != ps[0].(*time.Timer) {
			t.timer, t.sleeping, t.deadline = ps[0].(*time.Timer), true, ps[1].(int)
		}
	}
}

// settleBound is how long the harness waits for the real goroutines to park or return before it calls them
// stuck.  Generous on purpose: the checks run on loaded machines, and a stuck goroutine stays stuck.
const settleBound = 10 * time.Second

func (c *ptCase) settle() {
	c.ctx.R.Enter()
	defer c.ctx.R.Leave()
	deadline := time.Now().Add(settleBound)
	for {
		// (the watcher counter is raised by Call itself, the goroutine it spawns may not be visible yet on a
		// loaded machine: the system is only settled once every counted watcher is seen parked)
		wcount, _, _ := timeout.VerifPool()
		gs := allGoroutines()
		c.mu.Lock()
		stable := wcount == len(watcherGoroutines(gs))
		for _, id := range watcherGoroutines(gs) {
			_, asleep := c.pendingSleep[id]
			if id == c.heldGid && (asleep || c.heldAtLock) {
				continue // parked by the harness just before its select / just before a lock
			}
			if !(gs[id].state == "select" && asleep) {
				stable = false
			}
		}
		n := len(c.recs)
		c.mu.Unlock()
		if stable {
			time.Sleep(50 * time.Microsecond)
			gs2 := allGoroutines()
			c.mu.Lock()
			again := len(c.recs) != n || len(watcherGoroutines(gs2)) != len(watcherGoroutines(gs))
			c.mu.Unlock()
			if !again {
				c.flush(gs2)
				c.someoneResponsible()
				return
			}
			continue
		}
		if time.Now().After(deadline) {
			c.ctx.R.Quiet("mon C13-no-stuck-watcher", "the dispatcher did not settle within "+settleBound.String())
			c.failed = true
			return
		}
		time.Sleep(30 * time.Microsecond)
	}
}

// someoneResponsible is C13's own liveness condition evaluated on the settled REAL dispatcher: if a future
// is pending, then some watcher's sleep ends no later than the earliest fire time (or has already run
// out and is about to be served), or a wake token is waiting for a sleeping watcher.  Otherwise the
// future is served only when some idle timer happens to run out — lateness in the order of idleTimeout
// although no callback blocks.
func (c *ptCase) someoneResponsible() {
	w, h, tk := timeout.VerifPool()
	c.mu.Lock()
	awakeAtLock := c.heldAtLock && c.heldGid != 0
	c.mu.Unlock()
	if h == 0 || c.failed || awakeAtLock {
		// (a watcher the harness holds right before a lock is awake: it is the responsible one)
		return
	}
	head, hid := -1, -1
	for id, t := range c.fireT {
		if !c.cancelled[id] && c.started[id] == 0 && (head < 0 || t < head) {
			head, hid = t, id
		}
	}
	if head < 0 {
		return
	}
	c.mu.Lock()
	defer c.mu.Unlock()
	lim := head
	if c.vnow > lim {
		lim = c.vnow
	}
	var dls []int
	nsleep := 0
	for _, t := range c.threads {
		if !t.exited && t.sleeping {
			nsleep++
			dls = append(dls, t.deadline)
			if t.deadline <= lim {
				return
			}
		}
	}
	for g, ps := range c.pendingSleep {
		if c.thread(g) == nil {
			nsleep++
			dls = append(dls, ps[1].(int))
			if ps[1].(int) <= lim {
				return
			}
		}
	}
	if tk > 0 && nsleep > 0 {
		return
	}
	if nsleep != w {
		return // a watcher is not asleep (about to act): it is responsible
	}
	c.ctx.R.Quiet("mon C13-someone-responsible", fmt.Sprintf("future %d (fire time %d) is pending at virtual time %d, but all %d watcher(s) sleep until %v and no wake token is queued", hid, head, c.vnow, w, dls)+c.how())
	c.failed = true
}

func (c *ptCase) flush(gs map[int64]goState) {
	c.mu.Lock()
	recs := append([]ptRec{}, c.recs[c.flushed:]...)
	c.flushed = len(c.recs)
	c.mu.Unlock()
	c.mu.Lock()
	us := c.unknownSite
	c.mu.Unlock()
	if us != "" && !c.lost {
		c.ctx.R.Quiet("mon MODEL-pool-sections-known", "a watcher ran a critical section the model does not know: "+us+" (the rest of this case is judged by the Go-side monitors only)")
		c.lost = true
	}
	for _, r := range recs {
		if r.gid == c.mainGid {
			// (a wake token sent while a watcher is blocked in its select is handed over at once: the channel
			// length seen inside add()/cancel() is not comparable with the model's token count; the state is
			// compared after the watcher sections that follow)
			continue
		}
		if r.kind == "csec" {
			// a concurrent Cancel(fut) ran its locked section: if the heap shrank it removed a future — which,
			// by the API's contract, can only be `fut`
			if r.b == 1 {
				c.cancelled[r.a] = true
				c.op(fmt.Sprintf("cancel %d", r.a), "ok")
			} else if r.b != 0 {
				c.ctx.R.Quiet("mon C12-cancel-removes-exactly", fmt.Sprintf("Cancel of future %d changed the number of pending futures by %d", r.a, -r.b))
			}
			continue
		}
		if r.kind == "held" {
			// a watcher stands before a lock: if it was asleep (and the harness did not fire its timer) it has
			// taken a wake token by now — tell the model WHEN (the channel's cap makes the order matter)
			if t := c.thread(r.gid); t != nil && t.sleeping {
				t.sleeping = false
				c.op(fmt.Sprintf("wake %d", t.idx), "ok")
			}
			continue
		}
		t := c.thread(r.gid)
		if t == nil {
			// watcher threads that have not acted yet are indistinguishable (all at the top of their loop
			// with nothing done): number them in the order of their first action
			c.mu.Lock()
			c.threads = append(c.threads, &ptThread{idx: len(c.threads), gid: r.gid})
			t = c.threads[len(c.threads)-1]
			c.applyPending()
			c.mu.Unlock()
		}
		switch r.kind {
		case "sec":
			c.op(fmt.Sprintf("sec %d", t.idx), "ok")
			c.op(fmt.Sprintf("obs %d %d %d", r.a, r.b, r.c), "ok")
		case "sleep":
			c.op(fmt.Sprintf("sleep %d %d", t.idx, r.a), "ok")
		case "start":
			c.op(fmt.Sprintf("start %d %d", t.idx, r.a), "ok")
			// never early (virtual time), at most once
			if !(r.b >= c.fireT[r.a]) {
				c.ctx.R.Quiet("mon C13-never-early", fmt.Sprintf("future %d (fire time %d) started at virtual time %d", r.a, c.fireT[r.a], r.b))
			}
			if c.started[r.a] > 1 {
				c.ctx.R.Quiet("mon C13-at-most-once", fmt.Sprintf("future %d started %d times", r.a, c.started[r.a]))
			}
			if c.cancelled[r.a] {
				c.ctx.R.Quiet("mon C13-cancelled-never-starts", fmt.Sprintf("future %d was cancelled before it was due but started", r.a))
			}
		}
	}
	for _, t := range c.threads {
		if t.exited {
			continue
		}
		if g, alive := gs[t.gid]; !alive || !strings.Contains(g.stack, "(*callControl).watcher") {
			t.exited = true
			t.sleeping = false
			c.op(fmt.Sprintf("exit %d", t.idx), "ok")
		}
	}
}

func runPoolCase(ctx *Ctx, maxWorkers, idle int, script []string) {
	// the whole case runs under the call watchdog (every settle() inside marks progress): the harness looks into the
	// dispatcher under the dispatcher's own mutex, and a worker that leaves with that mutex held would hold the
	// harness for ever — `mon HANG` after 20 s without progress instead
	ctx.R.Enter()
	defer ctx.R.Leave()
	c := &ptCase{ctx: ctx, script: script, mainGid: goid(), fireT: map[int]int{}, cancelled: map[int]bool{}, started: map[int]int{}, pendingSleep: map[int64][2]interface{}{}, heldGate: make(chan struct{}), cancellers: map[int64]*ptCanceller{},
		base: time.Date(2030, 1, 1, 0, 0, 0, 0, time.UTC)}
	// what one unit of the virtual clock stands for: a millisecond unless the script says otherwise
	// ("unit <microseconds>"): nothing in the dispatcher may depend on the absolute size of a delay
	unit := time.Millisecond
	if len(script) > 0 && strings.HasPrefix(script[0], "unit ") {
		us, _ := strconv.Atoi(strings.Fields(script[0])[1])
		unit = time.Duration(us) * time.Microsecond
		script = script[1:]
	}
	om, oi := timeout.VerifSetPool(maxWorkers, time.Duration(idle)*unit)
	timeout.VerifSetClock(func() time.Time {
		c.mu.Lock()
		defer c.mu.Unlock()
		return c.base.Add(time.Duration(c.vnow) * unit)
	})
	timeout.VerifTimerHook = func(d time.Duration) *time.Timer {
		tm := time.NewTimer(time.Hour)
		g := goid()
		c.mu.Lock()
		dl := c.vnow + int((d+unit-1)/unit)
		c.pendingSleep[g] = [2]interface{}{tm, dl}
		if t := c.thread(g); t != nil {
			t.timer, t.sleeping, t.deadline = tm, true, dl
		}
		c.recs = append(c.recs, ptRec{gid: g, kind: "sleep", a: dl})
		var gate chan struct{}
		if c.holdNext {
			c.holdNext, c.heldGid, gate = false, g, c.heldGate
		}
		c.mu.Unlock()
		if gate != nil {
			<-gate
		}
		return tm
	}
	timeout.VerifSectionHook = func(kind, site string, obj any) {
		if !timeout.VerifIsDispatcher(obj) {
			return
		}
		if kind == "before" || kind == "enter" {
			g := goid()
			c.mu.Lock()
			cn := c.cancellers[g]
			var gate chan struct{}
			if cn != nil && kind == "before" && cn.gate != nil {
				cn.parked, gate = true, cn.gate
			}
			if cn == nil && kind == "before" && g != c.mainGid && c.holdLock && c.heldGid == 0 {
				if c.holdSkip > 0 {
					c.holdSkip-- // (`holdlock k`: the k-th lock acquisition from now)
				} else {
					c.holdLock, c.heldGid, c.heldAtLock, gate = false, g, true, c.heldGate
					c.recs = append(c.recs, ptRec{gid: g, kind: "held"})
				}
			}
			c.mu.Unlock()
			if gate != nil {
				<-gate
			}
			if cn != nil && kind == "enter" {
				_, h, _ := timeout.VerifPoolLocked(obj)
				c.mu.Lock()
				cn.hBefore = h
				c.mu.Unlock()
			}
			return
		}
		if kind != "leave" {
			return
		}
		w, h, tk := timeout.VerifPoolLocked(obj)
		g := goid()
		c.mu.Lock()
		if cn := c.cancellers[g]; cn != nil {
			// the locked section of a concurrent Cancel(): did it remove something?
			c.recs = append(c.recs, ptRec{gid: g, kind: "csec", a: cn.fut, b: cn.hBefore - h, c: h})
			c.mu.Unlock()
			return
		}
		if t := c.thread(g); t != nil {
			t.sleeping = false
		}
		delete(c.pendingSleep, g)
		if g != c.mainGid && !strings.HasPrefix(site, "watcher#") && !c.lost {
			c.unknownSite = site
		}
		c.recs = append(c.recs, ptRec{gid: g, kind: "sec", a: w, b: h, c: tk})
		c.mu.Unlock()
	}
	defer func() {
		timeout.VerifSectionHook = nil
		timeout.VerifTimerHook = nil
		timeout.VerifSetClock(nil)
		timeout.VerifSetPool(om, oi)
	}()
	ctx.R.Case(maxWorkers, idle)
	if unit != time.Millisecond {
		c.op(fmt.Sprintf("unit %d", int(unit/time.Microsecond)), "ok")
	}
	mk := func(id int) func() {
		return func() {
			g := goid()
			c.mu.Lock()
			c.started[id]++
			c.recs = append(c.recs, ptRec{gid: g, kind: "start", a: id, b: c.vnow})
			c.mu.Unlock()
		}
	}
	release := func() {
		// parked concurrent Cancel() calls go first, one at a time
		for {
			var cn *ptCanceller
			c.mu.Lock()
			for _, x := range c.cancellers {
				if x.gate != nil && x.parked {
					cn = x
					break
				}
			}
			var gate chan struct{}
			if cn != nil {
				gate, cn.gate = cn.gate, nil
			}
			c.mu.Unlock()
			if cn == nil {
				break
			}
			close(gate)
			select {
			case <-cn.done:
			case <-time.After(settleBound):
				c.ctx.R.Quiet("mon C13-no-stuck-watcher", "a concurrent Cancel() did not return within "+settleBound.String())
				c.failed = true
			}
			c.settle()
		}
		c.mu.Lock()
		g, gate := c.heldGid, c.heldGate
		c.holdNext = false
		if g != 0 {
			c.heldGid, c.heldGate, c.heldAtLock = 0, make(chan struct{}), false
		}
		c.holdLock = false
		c.mu.Unlock()
		if g != 0 {
			c.nontriv = true
			close(gate)
			c.settle()
		}
	}
	sleepers := func() []*ptThread {
		var r []*ptThread
		for _, t := range c.threads {
			if !t.exited && t.sleeping && t.gid != c.heldGid {
				r = append(r, t)
			}
		}
		return r
	}
	do := func(line string) {
		f := strings.Fields(line)
		var x int
		if len(f) > 1 {
			fmt.Sscan(f[1], &x)
		}
		switch f[0] {
		case "holdsleep":
			c.mu.Lock()
			if c.heldGid == 0 {
				c.holdNext = true
			}
			c.mu.Unlock()
		case "cancelvoid":
			// Cancel on the package's VoidFuture (what a holder is initialised with before anything was scheduled):
			// a no-op — it must not touch anybody's pending call
			_, h0, _ := timeout.VerifPool()
			ctx.R.Enter()
			timeout.VoidFuture.Cancel()
			ctx.R.Leave()
			if _, h1, _ := timeout.VerifPool(); h1 != h0 {
				ctx.R.Quiet("mon C12-cancel-removes-exactly", fmt.Sprintf("VoidFuture.Cancel() changed the number of pending futures from %d to %d", h0, h1))
			}
			c.settle()
		case "holdlock":
			c.mu.Lock()
			if c.heldGid == 0 {
				c.holdLock, c.holdSkip = true, 0
				if x > 1 {
					c.holdSkip = x - 1
				}
			}
			c.mu.Unlock()
		case "release":
			release()
		case "add":
			id := len(c.futs)
			c.mu.Lock()
			ft := c.vnow + x
			c.mu.Unlock()
			// distinct fire times: which of several futures with EQUAL fire time the heap pops first is not
			// fixed by the pool model (ties are covered by the C12 heap correspondence)
			for used := true; used; {
				used = false
				for _, t := range c.fireT {
					if t == ft {
						used = true
						ft++
						x++
					}
				}
			}
			c.fireT[id] = ft
			for j, t := range c.fireT {
				if j != id && !c.cancelled[j] && c.started[j] == 0 && t > ft {
					c.nontriv = true // an arrival precedes the current head
				}
			}
			c.op(fmt.Sprintf("add %d", ft), "ok")
			ctx.R.Enter()
			fu := timeout.Call(mk(id), time.Duration(x)*unit)
			ctx.R.Leave()
			c.futs = append(c.futs, fu)
			c.settle()
		case "cancelhold":
			// Cancel(x) from another goroutine, parked right before it takes the dispatcher's lock
			if x >= len(c.futs) || c.cancelled[x] {
				return
			}
			cn := &ptCanceller{fut: x, gate: make(chan struct{}), done: make(chan struct{})}
			gch := make(chan int64)
			goAhead := make(chan struct{})
			go func() {
				gch <- goid()
				<-goAhead
				c.futs[x].Cancel()
				close(cn.done)
			}()
			g := <-gch
			c.mu.Lock()
			c.cancellers[g] = cn
			c.mu.Unlock()
			close(goAhead)
			for i := 0; i < 20000; i++ {
				c.mu.Lock()
				p := cn.parked
				c.mu.Unlock()
				if p {
					break
				}
				select {
				case <-cn.done:
					i = 20000
				default:
					time.Sleep(10 * time.Microsecond)
				}
			}
			c.nontriv = true
		case "cancel":
			if x >= len(c.futs) || c.cancelled[x] || c.started[x] > 0 {
				return
			}
			// still pending in the model's sense only if not yet popped: a popped-but-not-yet-started future cannot occur after settle
			c.cancelled[x] = true
			c.op(fmt.Sprintf("cancel %d", x), "ok")
			ctx.R.Enter()
			c.futs[x].Cancel()
			ctx.R.Leave()
			c.settle()
		case "tick":
			c.mu.Lock()
			c.vnow += x
			c.mu.Unlock()
			c.op(fmt.Sprintf("ticks %d", x), "ok")
		case "fire":
			// let one eligible sleeper's timer expire (chosen by x among those whose deadline has passed)
			var el []*ptThread
			for _, t := range sleepers() {
				if t.deadline <= c.vnow {
					el = append(el, t)
				}
			}
			if len(el) == 0 {
				return
			}
			t := el[x%len(el)]
			c.op(fmt.Sprintf("fire %d", t.idx), "ok")
			c.mu.Lock()
			t.sleeping = false
			n0 := len(c.recs)
			tm := t.timer
			c.mu.Unlock()
			tm.Reset(0)
			// the woken watcher must be seen to act before the system counts as settled again
			for i := 0; i < 20000; i++ {
				c.mu.Lock()
				acted := len(c.recs) > n0 || (c.heldAtLock && c.heldGid == t.gid) // (… or to stand where the harness holds it)
				c.mu.Unlock()
				if acted {
					break
				}
				time.Sleep(10 * time.Microsecond)
			}
			c.settle()
		}
	}
	for _, l := range script {
		if c.failed {
			break
		}
		do(l)
	}
	release()
	// fair completion: advance time past every fire time and keep firing eligible timers; then every live
	// future must have started (C13) …
	if !c.failed {
		maxT := 0
		for id, t := range c.fireT {
			// (only what is still to fire: time is not pushed past the fire time of a CANCELLED future — a watcher
			// still sleeping towards it has to be gone by idleness, not by that time coming)
			if t > maxT && !c.cancelled[id] {
				maxT = t
			}
		}
		if maxT+1 > c.vnow {
			do(fmt.Sprintf("tick %d", maxT+1-c.vnow))
		}
		for round := 0; round < 40 && !c.failed; round++ {
			pendingDue := false
			for id, t := range c.fireT {
				if !c.cancelled[id] && c.started[id] == 0 && t < c.vnow {
					pendingDue = true
				}
			}
			if !pendingDue {
				break
			}
			n := len(sleepers())
			for i := 0; i < n; i++ {
				do(fmt.Sprintf("fire %d", i))
			}
			do("tick 1")
		}
		for id, t := range c.fireT {
			if !c.cancelled[id] && c.started[id] == 0 {
				ctx.R.Quiet("mon C13-every-live-future-fires", fmt.Sprintf("future %d (fire time %d) was never started although time advanced to %d and every expired sleep timer was served", id, t, c.vnow)+c.how())
			}
		}
		// … and with nothing pending the pool winds down to zero watchers after idle rounds
		for round := 0; round < 12 && !c.failed && timeout.VerifWatchers() > 0; round++ {
			do(fmt.Sprintf("tick %d", idle+1))
			n := len(sleepers())
			for i := 0; i < n; i++ {
				do(fmt.Sprintf("fire %d", i))
			}
		}
		if w := timeout.VerifWatchers(); w != 0 && !c.failed {
			ctx.R.Quiet("mon C13-winds-down", fmt.Sprintf("nothing is pending and every idle timer was served 12 times, but %d watcher(s) are still alive", w))
		}
	}
	if c.nontriv {
		ctx.R.Nontrivial("an arrival preceded the current head / burst")
	}
	// make sure nothing leaks into the next case
	release()
	timeout.VerifDrain()
	for i := 0; i < 50 && timeout.VerifWatchers() > 0; i++ {
		c.mu.Lock()
		c.vnow += idle + 1
		c.mu.Unlock()
		for _, t := range sleepers() {
			t.sleeping = false
			t.timer.Reset(0)
		}
		time.Sleep(300 * time.Microsecond)
		gs := allGoroutines()
		for _, t := range c.threads {
			if g, alive := gs[t.gid]; !alive || !strings.Contains(g.stack, "(*callControl).watcher") {
				t.exited = true
			}
		}
	}
}

func runPool(ctx *Ctx) {
	r := ctx.Rnd
	// the pool model assumes what init() sets up: a wake channel that can hold one token per watcher
	if mw, cp, _ := timeout.VerifInitConfig(); true {
		ctx.R.Case(mw, cp)
		if cp != mw || mw < 1 {
			ctx.R.Quiet("mon C13-init-config", fmt.Sprintf("init() gives the wake channel capacity %d for maxWorkers %d (the dispatcher's tokens are lost unless a watcher is parked in its select at that instant)", cp, mw))
		} else {
			ctx.R.Quiet("mon C13-init-config", "ok")
		}
	}
	n := 150
	if ctx.Thorough {
		n = 3000
	}
	for cse := 0; cse < n; cse++ {
		maxWorkers := []int{1, 2, 3, 10}[r.Intn(4)]
		idle := []int{5, 20, 100}[r.Intn(3)]
		var script []string
		adds := 0
		for i := 0; i < r.Range(4, 16); i++ {
			switch x := r.Intn(100); {
			case x < 30:
				d := []int{0, 1, 3, 10, 50, 500}[r.Intn(6)] // near / far
				script = append(script, fmt.Sprintf("add %d", d))
				adds++
			case x < 38:
				// burst larger than the pool, all due at once
				for j := 0; j < maxWorkers+2; j++ {
					script = append(script, "add 2")
					adds++
				}
				script = append(script, "tick 5")
			case x < 50:
				if adds > 0 {
					script = append(script, fmt.Sprintf("cancel %d", r.Intn(adds)))
				}
			case x < 75:
				script = append(script, fmt.Sprintf("tick %d", []int{1, 2, 5, 11, idle + 1, 60}[r.Intn(6)]))
			case x < 90:
				script = append(script, fmt.Sprintf("fire %d", r.Intn(4)))
			case x < 93:
				if adds > 0 {
					// Cancel from another goroutine, stopped right before the dispatcher's lock; released later
					script = append(script, fmt.Sprintf("cancelhold %d", r.Intn(adds)))
				}
			case x < 95:
				// the next watcher about to sleep is stopped between its section and its select
				script = append(script, "holdsleep")
			case x < 97:
				// the next watcher about to take the dispatcher's lock is stopped right before it
				script = append(script, "holdlock")
			case x < 98:
				script = append(script, "cancelvoid")
			default:
				script = append(script, "release")
			}
		}
		if maxWorkers >= 2 && r.Chance(1, 6) {
			// directed: a watcher's sleep ends EXACTLY at the head's fire time while other watchers idle
			script = []string{"add 0", "add 1", "tick 2", "fire 0", "add 1", "tick 1", "fire 0", "fire 0", "tick 1"}
			if r.Chance(1, 2) {
				script = append(script, "add 3", "tick 3", "fire 0", "fire 1")
			}
		}
		if maxWorkers >= 2 && r.Chance(1, 6) {
			// directed: a burst grows the pool, then ONE far future stays pending while the idle watchers time out
			// one after the other — the last one must stay (or a new one must be responsible) until it fires
			script = nil
			for j := 0; j < maxWorkers+1; j++ {
				script = append(script, "add 2")
			}
			script = append(script, "tick 5")
			for j := 0; j < 2*maxWorkers+2; j++ {
				script = append(script, fmt.Sprintf("fire %d", j))
			}
			script = append(script, fmt.Sprintf("add %d", 20*idle))
			for round := 0; round < 5; round++ {
				script = append(script, fmt.Sprintf("tick %d", idle+1))
				for j := 0; j < maxWorkers+1; j++ {
					script = append(script, "fire 0")
				}
			}
		} else if r.Chance(1, 6) {
			// directed: Cancel(X) is stopped right before the lock; X fires meanwhile (and/or is cancelled a second
			// time); other futures occupy the heap; then the stopped Cancel goes on: it must not touch anybody else
			script = []string{"add 2", "add 5", "add 9", "add 40", "cancelhold 0"}
			switch r.Intn(3) {
			case 0:
				script = append(script, "tick 3", "fire 0", "release", "tick 50", "fire 0", "fire 0", "fire 0")
			case 1:
				script = append(script, "cancel 0", "release", "tick 50", "fire 0", "fire 0", "fire 0")
			case 2:
				script = append(script, "cancelhold 0", "tick 3", "fire 0", "add 1", "release", "tick 50", "fire 0", "fire 0")
			}
		} else if r.Chance(1, 6) {
			// directed: a Call arrives while the only watcher is between its locked section and its select —
			// the wake token must wait for it in the channel
			script = []string{"add 50", "holdsleep", "add 500", fmt.Sprintf("add %d", []int{1, 3, 10}[r.Intn(3)])}
			if r.Chance(1, 2) {
				// … and more Calls with ever earlier deadlines while it stands there: the wake channel fills up
				script = append(script, "add 9", "add 4", "add 2")
			}
			script = append(script, "release", "tick 2")
			if r.Chance(1, 2) {
				script = append(script, "fire 0", "tick 12", "fire 0")
			}
		}
		if r.Chance(1, 10) {
			// directed: the ONLY pending future is far away (the single watcher sleeps uncapped towards it) and gets
			// cancelled: with nothing pending the pool must wind down within idle rounds, not when that time comes
			script = nil
			if r.Chance(1, 2) {
				script = append(script, "add 1", "tick 2", "fire 0")
			}
			script = append(script, fmt.Sprintf("add %d", 50*idle+7))
			if r.Chance(1, 3) {
				script = append(script, "tick 3")
			}
			script = append(script, fmt.Sprintf("cancel %d", len(script)/3))
		}
		if r.Chance(1, 8) {
			// directed: the LAST watcher stands before a lock on its way out (idle rounds used up) when a Call
			// arrives: whoever decides "somebody is still there" must be right about it
			script = []string{"add 1", "tick 2", "fire 0"}
			for round := 0; round < 3; round++ {
				k := r.Range(1, 2) // the next lock the watcher takes, or the one after it
				script = append(script, fmt.Sprintf("tick %d", idle+1), "fire 0", fmt.Sprintf("holdlock %d", k), fmt.Sprintf("tick %d", idle+1), "fire 0", fmt.Sprintf("add %d", []int{0, 1, 3}[r.Intn(3)]), "release", "tick 5", "fire 0", "fire 0")
			}
		}
		if r.Chance(1, 3) {
			// a finer clock: one unit = 20 or 2 microseconds (delays and the idle time-out shrink with it)
			script = append([]string{fmt.Sprintf("unit %d", []int{20, 2}[r.Intn(2)])}, script...)
		}
		if ctx.R.Enough() {
			ctx.R.Comment("several violations recorded already: the remaining cases are skipped")
			break
		}
		runPoolCase(ctx, maxWorkers, idle, script)
	}
}
