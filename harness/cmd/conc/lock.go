package main

import (
	"sync/atomic"
	"os"
	"context"
	"errors"
	"fmt"
	"sort"
	"strconv"
	"strings"
	"sync"
	"time"

	gerrors "github.com/acquirecloud/golibs/errors"
	"github.com/acquirecloud/golibs/kvs"
	dist "github.com/acquirecloud/golibs/kvs/distlock"
	"github.com/acquirecloud/golibs/container/iterable"
	gsync "github.com/acquirecloud/golibs/sync"
	"github.com/acquirecloud/golibs/timeout"
)

func init() { components["lock"] = runLock }

// ---------------------------------------------------------------------------------------------
// GateStore: a kvs.Storage whose every call parks at a gate until the scheduler releases it with a
// decision; the effect is then applied atomically to a one-record store.

type gateCall struct {
	id      int
	gid     int64  // goroutine id of the caller
	op      string // create | wait | delete | cas
	ver     string // wait / cas: the version argument
	ctx     context.Context
	release chan string // ok | reqlost | replylost (wait: cond | fault)
}

type GateStore struct {
	mu      sync.Mutex
	rec     *kvs.Record
	nextVer int
	pending map[int]*gateCall
	nextID  int
	errLost error
	foreign []string // storage operations the lock protocol model does not know, used since the last check
}

func newGateStore() *GateStore {
	return &GateStore{nextVer: 1, pending: map[int]*gateCall{}, errLost: errors.New("storage unavailable (injected)")}
}

func (s *GateStore) gate(op, ver string, ctx context.Context) (*gateCall, string) {
	s.mu.Lock()
	c := &gateCall{id: s.nextID, gid: goid(), op: op, ver: ver, ctx: ctx, release: make(chan string, 1)}
	s.nextID++
	s.pending[c.id] = c
	s.mu.Unlock()
	d := <-c.release
	return c, d
}

func (s *GateStore) snapshot() []*gateCall {
	s.mu.Lock()
	defer s.mu.Unlock()
	res := make([]*gateCall, 0, len(s.pending))
	for _, c := range s.pending {
		res = append(res, c)
	}
	sort.Slice(res, func(i, j int) bool { return res[i].id < res[j].id })
	return res
}

func (s *GateStore) done(c *gateCall) {
	s.mu.Lock()
	delete(s.pending, c.id)
	s.mu.Unlock()
}

func (s *GateStore) newVersion() string {
	v := strconv.Itoa(s.nextVer)
	s.nextVer++
	return v
}

func (s *GateStore) Create(ctx context.Context, r kvs.Record) (string, error) {
	c, d := s.gate("create", "", ctx)
	defer s.done(c)
	s.mu.Lock()
	defer s.mu.Unlock()
	switch d {
	case "ctxerr":
		return "", ctx.Err()
	case "reqlost":
		return "", s.errLost
	}
	if s.rec != nil {
		if d == "replylost" {
			return "", s.errLost
		}
		return s.rec.Version, gerrors.ErrExist
	}
	r.Version = s.newVersion()
	cp := r.Copy()
	s.rec = &cp
	if d == "replylost" {
		return "", s.errLost
	}
	return r.Version, nil
}

func (s *GateStore) WaitForVersionChange(ctx context.Context, key, ver string) error {
	c, d := s.gate("wait", ver, ctx)
	defer s.done(c)
	s.mu.Lock()
	defer s.mu.Unlock()
	if d == "fault" {
		return s.errLost
	}
	if ctx.Err() != nil {
		return ctx.Err()
	}
	if s.rec == nil {
		return gerrors.ErrNotExist
	}
	return nil
}

func (s *GateStore) Delete(ctx context.Context, key string) error {
	c, d := s.gate("delete", "", ctx)
	defer s.done(c)
	s.mu.Lock()
	defer s.mu.Unlock()
	if d == "reqlost" {
		return s.errLost
	}
	if s.rec == nil {
		return gerrors.ErrNotExist
	}
	s.rec = nil
	return nil
}

func (s *GateStore) CasByVersion(ctx context.Context, r kvs.Record) (kvs.Record, error) {
	c, d := s.gate("cas", r.Version, ctx)
	defer s.done(c)
	s.mu.Lock()
	defer s.mu.Unlock()
	if d == "reqlost" {
		return kvs.Record{}, s.errLost
	}
	if s.rec == nil {
		return kvs.Record{}, gerrors.ErrNotExist
	}
	if s.rec.Version != r.Version {
		return kvs.Record{}, gerrors.ErrConflict
	}
	r.Version = s.newVersion()
	cp := r.Copy()
	s.rec = &cp
	if d == "replylost" {
		return kvs.Record{}, s.errLost
	}
	return r, nil
}

// The operations below are NOT part of the lock protocol as modelled (kvlock.go uses Create, Delete,
// CasByVersion and WaitForVersionChange only).  They are implemented faithfully (un-gated, atomic) so that a
// changed kvlock.go that starts using them behaves as it would on a real store, and every use is noted: the
// trace then carries `mon C01-storage-calls-known`, which the check reports (the model has no such step).
func (s *GateStore) note(op string) {
	s.mu.Lock()
	s.foreign = append(s.foreign, op)
	s.mu.Unlock()
}

func (s *GateStore) takeForeign() []string {
	s.mu.Lock()
	defer s.mu.Unlock()
	f := s.foreign
	s.foreign = nil
	return f
}

func (s *GateStore) Get(ctx context.Context, key string) (kvs.Record, error) {
	s.note("Get")
	s.mu.Lock()
	defer s.mu.Unlock()
	if s.rec == nil {
		return kvs.Record{}, gerrors.ErrNotExist
	}
	return s.rec.Copy(), nil
}
func (s *GateStore) GetMany(ctx context.Context, keys ...string) ([]*kvs.Record, error) {
	s.note("GetMany")
	s.mu.Lock()
	defer s.mu.Unlock()
	res := make([]*kvs.Record, len(keys))
	for i := range keys {
		if s.rec != nil && s.rec.Key == keys[i] {
			cp := s.rec.Copy()
			res[i] = &cp
		}
	}
	return res, nil
}
func (s *GateStore) Put(ctx context.Context, r kvs.Record) (kvs.Record, error) {
	s.note("Put")
	s.mu.Lock()
	defer s.mu.Unlock()
	r.Version = s.newVersion()
	cp := r.Copy()
	s.rec = &cp
	return r, nil
}
func (s *GateStore) PutMany(ctx context.Context, rs []kvs.Record) error {
	for _, r := range rs {
		s.Put(ctx, r)
	}
	return nil
}
func (s *GateStore) ListKeys(ctx context.Context, p string) (iterable.Iterator[string], error) {
	s.note("ListKeys")
	return nil, errors.New("GateStore: ListKeys is not supported")
}

func (s *GateStore) recVer() string {
	s.mu.Lock()
	defer s.mu.Unlock()
	if s.rec == nil {
		return "-"
	}
	return s.rec.Version
}

// ---------------------------------------------------------------------------------------------

type lockWorker struct {
	idx     int
	locker  gsync.Locker
	gid     int64
	start   chan string // call kind
	result  chan string // acquired | not
	running bool
	kind    string
	cancel  context.CancelFunc
	hasCtx  bool
	holds   bool
	inUnlock bool // inside Unlock, Delete not yet applied
	calls   int
	onDone  func() // for lockctx-shut
	downAtCall bool // the worker's provider had been shut down before this call was made
	}

// shutCtx runs fn the first time Done() is called
type shutCtx struct {
	context.Context
	once sync.Once
	fn   func()
}

func (c *shutCtx) Done() <-chan struct{} {
	c.once.Do(c.fn)
	return c.Context.Done()
}

func (w *lockWorker) loop(ready chan<- int64) {
	ready <- goid()
	for kind := range w.start {
		res := "not"
		func() {
			defer func() {
				if p := recover(); p != nil {
					res = "not" // Lock() panics on a storage error / after shutdown: the lock is not held
				}
			}()
			switch kind {
			case "lock":
				w.locker.Lock()
				res = "acquired"
			case "lockctx", "lockctx-cancelled":
				ctx, cancel := context.WithCancel(context.Background())
				w.cancel = cancel
				if kind == "lockctx-cancelled" {
					cancel()
				}
				if w.locker.LockWithCtx(ctx) == nil {
					res = "acquired"
				}
			case "lockctx-shut":
				// a context whose Done() — evaluated by lockInternal when it enters its select — shuts the provider
				// down: Shutdown lands exactly between whatever the code checked before and the select itself
				ctx, cancel := context.WithCancel(context.Background())
				w.cancel = cancel
				if w.locker.LockWithCtx(&shutCtx{Context: ctx, fn: w.onDone}) == nil {
					res = "acquired"
				}
			case "try":
				if w.locker.TryLock(context.Background()) {
					res = "acquired"
				}
			case "unlock":
				w.locker.Unlock()
			}
		}()
		w.result <- res
	}
}

type lockCase struct {
	ctx      *Ctx
	store    *GateStore
	workers  []*lockWorker
	provs    []dist.LockProvider
	provDown []bool
	lk, pv   []int
	known    map[int]bool // gate call ids already reported with `at`
	owner    int          // ghost: worker whose successful Create started the record's chain (-1 none)
	faults   int
	maxFault int
	heap0    int
	failed   bool
	schedule []string
	overlap  bool
	faulted  bool
	replyLostInTenure bool
	weak     bool // the scripted history lets the lease lapse while an Unlock is stalled before its Delete (KF-1)
	shutMode bool  // this case may use the call kind lockctx-shut (once)
	shutUsed bool
	shutBy   int32 // provider+1 shut down from inside a Done() call, not yet reported as a trace event
}

func (lc *lockCase) ev(line string) {
	lc.schedule = append(lc.schedule, line)
	if lc.weak {
		// outside the lease assumption: not a behaviour the model is claimed for; monitors only
		lc.ctx.R.Comment(line)
		return
	}
	lc.ctx.R.Op(line, "ok")
}

func (lc *lockCase) workerOf(gid int64) int {
	for _, w := range lc.workers {
		if w.gid == gid {
			return w.idx
		}
	}
	return -1
}

// settle waits until every running worker is parked (at a gate, on the Locker's token, or returned)
// and reports new arrivals / returns as trace events.
func (lc *lockCase) settle(expectCas int) bool {
	// (the harness itself calls into the timeout package — heap length, fire-all — whose lock a wedged Cancel may hold
	// for ever: every step runs under the call watchdog, `mon HANG` after 20 s without progress)
	lc.ctx.R.Enter()
	defer lc.ctx.R.Leave()
	deadline := time.Now().Add(settleBound)
	casSeen := func() int {
		n := 0
		for _, c := range lc.store.snapshot() {
			if c.op == "cas" && !lc.known[c.id] {
				n++
			}
		}
		return n
	}
	for {
		if p := atomic.SwapInt32(&lc.shutBy, 0); p > 0 {
			// the provider was shut down from inside the attempt's select evaluation: environment step
			lc.provDown[p-1] = true
			lc.ev(fmt.Sprintf("shutdown %d", p-1))
		}
		// collect returns
		for _, w := range lc.workers {
			if !w.running {
				continue
			}
			select {
			case res := <-w.result:
				// (a Shutdown issued from inside this very attempt was recorded before the attempt could return: it
				// must be in the trace BEFORE the return, even if the look at shutBy above came too early)
				if p := atomic.SwapInt32(&lc.shutBy, 0); p > 0 {
					lc.provDown[p-1] = true
					lc.ev(fmt.Sprintf("shutdown %d", p-1))
				}
				w.running = false
				if w.kind == "unlock" {
					w.inUnlock = false
				} else if res == "acquired" {
					w.holds = true
					// "acquired" must mean held: the Locker's counter says so (an attempt that gave up — shutdown, cancellation,
					// a storage error — and still reports success leaves a caller inside the lock that holds nothing)
					if _, cn := dist.VerifLockState(w.locker); cn != 1 {
						lc.ctx.R.Quiet("mon C04-acquired-means-held", fmt.Sprintf("worker %d: the call returned success, but its Locker's counter is %d (nothing is held)", w.idx, cn))
						lc.ctx.R.Quiet("mon C01-acquired-means-held", fmt.Sprintf("worker %d: the call returned success, but its Locker's counter is %d (nothing is held)", w.idx, cn))
						lc.failed = true
					}
					if w.downAtCall && w.kind != "unlock" {
						// (whatever the select of the attempt picks: the token case may be ready together with the done case)
						lc.ctx.R.Quiet("mon C04-after-shutdown-no-acquire", fmt.Sprintf("worker %d (%s): its provider had been shut down before the call was made, yet the attempt acquired the lock", w.idx, w.kind))
					}
					if w.kind == "lockctx-shut" {
						lc.ctx.R.Quiet("mon C04-after-shutdown-no-acquire", fmt.Sprintf("worker %d: the provider was shut down while the attempt stood at the select of lockInternal (Shutdown had returned), yet the attempt went on and acquired the lock", w.idx))
					}
				}
				lc.reportArrivals()
				lc.ev(fmt.Sprintf("ret %d %s", w.idx, res))
			default:
			}
		}
		casMissing := casSeen() < expectCas
		stable := true
		var gs map[int64]goState
		if stable {
			for _, w := range lc.workers {
				if !w.running {
					continue
				}
				atGate := false
				for _, c := range lc.store.snapshot() {
					if c.gid == w.gid {
						atGate = true
					}
				}
				if atGate {
					continue
				}
				if gs == nil {
					gs = allGoroutines()
				}
				g := gs[w.gid]
				parked := g.state == "select" && strings.Contains(g.stack, "lockInternal")
				if !parked {
					stable = false
				}
			}
		}
		if stable {
			// a renewal goroutine (supportTimeout) that is not parked at a storage gate is still on its way
			// (arming the next timer after its CAS came back): the state is not settled before it is done
			if gs == nil {
				gs = allGoroutines()
			}
			gated := map[int64]bool{}
			for _, c := range lc.store.snapshot() {
				gated[c.gid] = true
			}
			for id, g := range gs {
				if strings.Contains(g.stack, ").supportTimeout") && !gated[id] {
					stable = false
				}
			}
		}
		if stable && casMissing {
			// everything else stands still, only the renewal call(s) of the lease timer(s) just fired are missing
			if time.Now().After(deadline) {
				lc.ctx.R.Quiet("mon C05-fired-timer-renews", fmt.Sprintf("%d lease timer(s) fired, but only %d renewal call(s) reached the storage within 10s: a supportTimeout returned without trying to extend the lease (%s)", expectCas, casSeen(), lc.describe()))
				lc.failed = true
				return false
			}
			time.Sleep(30 * time.Microsecond)
			continue
		}
		if stable {
			// one more look for returns that raced with the inspection
			again := false
			for _, w := range lc.workers {
				if w.running && len(w.result) > 0 {
					again = true
				}
			}
			if !again {
				lc.reportArrivals()
				return true
			}
			continue
		}
		if time.Now().After(deadline) {
			lc.ctx.R.Quiet("mon C04-no-stuck-goroutine", "the system did not settle within 10s: "+lc.describe())
			lc.failed = true
			return false
		}
		time.Sleep(30 * time.Microsecond)
	}
}

func (lc *lockCase) reportArrivals() {
	for _, c := range lc.store.snapshot() {
		if lc.known[c.id] {
			continue
		}
		lc.known[c.id] = true
		w := lc.workerOf(c.gid)
		switch c.op {
		case "create":
			lc.ev(fmt.Sprintf("at %d create", w))
		case "delete":
			lc.ev(fmt.Sprintf("at %d delete", w))
		}
		// wait and cas arrivals are implied by the preceding release / fireall
	}
}

func (lc *lockCase) describe() string {
	var parts []string
	for _, w := range lc.workers {
		parts = append(parts, fmt.Sprintf("w%d{running=%v kind=%s holds=%v}", w.idx, w.running, w.kind, w.holds))
	}
	for _, c := range lc.store.snapshot() {
		parts = append(parts, fmt.Sprintf("gate{%s by %d ver=%s}", c.op, lc.workerOf(c.gid), c.ver))
	}
	return strings.Join(parts, " ")
}

// check emits the observable state of the real system; the driver compares it with the model's.
func (lc *lockCase) check() {
	// (the harness itself calls into the timeout package — heap length, fire-all — whose lock a wedged Cancel may hold
	// for ever: every step runs under the call watchdog, `mon HANG` after 20 s without progress)
	lc.ctx.R.Enter()
	defer lc.ctx.R.Leave()
	if f := lc.store.takeForeign(); len(f) > 0 && !lc.failed {
		lc.ctx.R.Quiet("mon MODEL-storage-calls-known", "kvsLock called Storage."+strings.Join(f, ",")+": the lock protocol model has no such step")
	}
	var holders []string
	nh := 0
	for _, w := range lc.workers {
		if w.holds {
			holders = append(holders, strconv.Itoa(w.idx))
			nh++
		}
	}
	if nh > 1 {
		why := ""
		if lc.weak {
			why = " [history: an Unlock's Delete was stalled past the lease, then removed the next holder's record]"
		}
		lc.ctx.R.Quiet("mon C01-at-most-one-holder", fmt.Sprintf("%d callers hold the lock at the same time: workers %s%s", nh, strings.Join(holders, ","), why))
	}
	if lc.weak {
		return
	}
	casPending := 0
	for _, c := range lc.store.snapshot() {
		if c.op == "cas" {
			casPending++
		}
	}
	armed := timeout.VerifHeapLen() - lc.heap0
	lc.ctx.R.Op(fmt.Sprintf("check holders=[%s] rec=%s armed=%d sups=%d", strings.Join(holders, ","), lc.store.recVer(), armed, casPending), "ok")
	// settled state of every Locker whose provider is up (after shutdown a token may legitimately be lost)
	var ls []string
	seen := map[int]bool{}
	for _, w := range lc.workers {
		l := lc.lk[w.idx]
		if seen[l] || lc.provDown[lc.pv[l]] {
			continue
		}
		seen[l] = true
		tok, cn := dist.VerifLockState(w.locker)
		ls = append(ls, fmt.Sprintf("%d=%v:%d", l, tok, cn))
	}
	if len(ls) > 0 && !lc.failed {
		lc.ctx.R.Quiet("lockstate "+strings.Join(ls, " "), "ok")
	}
	// C05 monitor: while somebody holds, the renewal chain of the record is alive
	if nh == 1 && armed+casPending == 0 && !lc.failed {
		lc.ctx.R.Quiet("mon C05-renewal-chain-alive", "a caller holds the lock but no lease timer is armed and no renewal is in flight"+lc.replySuffix())
	}
}

var lastCasReplyLost, definitiveCas bool

func (lc *lockCase) replySuffix() string {
	if lc.replyLostInTenure {
		return " (after a renewal CAS whose reply was lost)"
	}
	return ""
}

type action struct {
	kind string
	w    int
	c    *gateCall
	arg  string
}

func (lc *lockCase) enabled(budget int) []action {
	var as []action
	for _, w := range lc.workers {
		if !w.running && w.calls < budget {
			if w.holds {
				as = append(as, action{kind: "call", w: w.idx, arg: "unlock"})
			} else {
				for _, k := range []string{"lock", "lockctx", "try", "lockctx-cancelled"} {
					as = append(as, action{kind: "call", w: w.idx, arg: k})
				}
				if lc.shutMode && !lc.shutUsed && !lc.provDown[lc.pv[lc.lk[w.idx]]] {
					as = append(as, action{kind: "call", w: w.idx, arg: "lockctx-shut"})
				}
			}
		}
		if w.running && w.hasCtx && w.cancel != nil {
			as = append(as, action{kind: "cancel", w: w.idx})
		}
	}
	for _, c := range lc.store.snapshot() {
		switch c.op {
		case "create":
			as = append(as, action{kind: "rel", c: c, arg: "apply"}, action{kind: "rel", c: c, arg: "apply"})
			if c.ctx.Err() != nil {
				as = append(as, action{kind: "rel", c: c, arg: "ctxerr"})
			}
			if lc.faults < lc.maxFault {
				as = append(as, action{kind: "rel", c: c, arg: "reqlost"}, action{kind: "rel", c: c, arg: "replylost"})
			}
		case "wait":
			cond := c.ctx.Err() != nil || lc.store.recVer() == "-" || lc.store.recVer() != c.ver
			if cond {
				as = append(as, action{kind: "rel", c: c, arg: "cond"}, action{kind: "rel", c: c, arg: "cond"})
			} else if lc.faults < lc.maxFault {
				as = append(as, action{kind: "rel", c: c, arg: "fault"})
			}
		case "delete":
			as = append(as, action{kind: "rel", c: c, arg: "effect"}, action{kind: "rel", c: c, arg: "effect"})
			if lc.faults < lc.maxFault {
				as = append(as, action{kind: "rel", c: c, arg: "reqlost"})
			}
		case "cas":
			as = append(as, action{kind: "rel", c: c, arg: "apply"}, action{kind: "rel", c: c, arg: "apply"})
			if lc.faults < lc.maxFault {
				as = append(as, action{kind: "rel", c: c, arg: "reqlost"}, action{kind: "rel", c: c, arg: "replylost"})
			}
		}
	}
	casPending := false
	for _, c := range lc.store.snapshot() {
		if c.op == "cas" {
			casPending = true
		}
	}
	// (a dispatcher worker blocked inside a renewal callback cannot serve newly due timers: fire only when none is in flight)
	if timeout.VerifHeapLen()-lc.heap0 > 0 && !casPending {
		as = append(as, action{kind: "fireall"})
	}
	// lease assumption: the record may lapse only when its owner neither holds nor is inside Unlock before its Delete
	if lc.store.recVer() != "-" {
		ok := true
		if lc.owner >= 0 {
			o := lc.workers[lc.owner]
			ok = !o.holds && !o.inUnlock
		}
		if ok {
			as = append(as, action{kind: "expire"})
		}
	}
	return as
}

func (lc *lockCase) perform(a action) {
	// (the harness itself calls into the timeout package — heap length, fire-all — whose lock a wedged Cancel may hold
	// for ever: every step runs under the call watchdog, `mon HANG` after 20 s without progress)
	lc.ctx.R.Enter()
	defer lc.ctx.R.Leave()
	switch a.kind {
	case "call":
		w := lc.workers[a.w]
		w.calls++
		w.kind = a.arg
		w.running = true
		w.downAtCall = lc.provDown[lc.pv[lc.lk[w.idx]]]
		w.hasCtx = strings.HasPrefix(a.arg, "lockctx")
		w.cancel = nil
		if a.arg == "unlock" {
			w.holds = false
			w.inUnlock = true
		}
		others := 0
		for _, o := range lc.workers {
			if o.running && o != w && o.kind != "unlock" {
				others++
			}
		}
		if others > 0 && a.arg != "unlock" {
			lc.overlap = true
		}
		evKind := a.arg
		if a.arg == "lockctx-shut" {
			// (for the model it is a LockWithCtx with a live context; the shutdown is a separate event)
			lc.shutUsed = true
			p := lc.pv[lc.lk[a.w]]
			w.onDone = func() {
				lc.provs[p].Shutdown()
				atomic.StoreInt32(&lc.shutBy, int32(p+1))
			}
		}
		lc.ev(fmt.Sprintf("call %d %s", a.w, evKind))
		w.start <- a.arg
		lc.settle(0)
	case "cancel":
		w := lc.workers[a.w]
		lc.ev(fmt.Sprintf("cancel %d", a.w))
		w.cancel()
		w.hasCtx = false
		lc.faulted = true
		// a goroutine parked on the token select or inside a released Wait reacts at once; one parked at a gate does not
		lc.settle(0)
	case "rel":
		c := a.c
		w := lc.workerOf(c.gid)
		switch c.op {
		case "create":
			d := a.arg
			out := d
			if d == "apply" {
				d = "ok"
				if lc.store.recVer() != "-" {
					out = "exists"
				} else {
					out = "ok"
					lc.owner = w
					lc.replyLostInTenure = false
				}
			} else if d == "replylost" {
				if lc.store.recVer() == "-" {
					lc.owner = -1
				} else {
					out = "reqlost" // nothing to apply: indistinguishable from a lost request
				}
				lc.faults++
				lc.faulted = true
			} else if d == "reqlost" {
				lc.faults++
				lc.faulted = true
			}
			lc.ev(fmt.Sprintf("rel %d create %s", w, out))
			c.release <- d
		case "wait":
			if a.arg == "fault" {
				lc.faults++
				lc.faulted = true
			}
			lc.ev(fmt.Sprintf("rel %d wait %s", w, a.arg))
			c.release <- a.arg
		case "delete":
			if a.arg == "reqlost" {
				lc.faults++
				lc.faulted = true
				if lc.owner == w {
					lc.owner = -1
				}
			}
			lc.workers[w].inUnlock = false
			lc.ev(fmt.Sprintf("rel %d delete %s", w, a.arg))
			c.release <- a.arg
		case "cas":
			d := a.arg
			out := d
			lastCasReplyLost = false
			cur := lc.store.recVer()
			if d == "apply" {
				d = "ok"
				if cur == c.ver {
					out = "ok"
				} else {
					out = "definitive"
				}
			} else if d == "replylost" {
				if cur != c.ver {
					out = "definitive" // nothing applied and the answer is a definitive error anyway
					d = "ok"
				} else {
					lastCasReplyLost = true
					lc.replyLostInTenure = true
					lc.faults++
					lc.faulted = true
				}
			} else {
				lc.faults++
				lc.faulted = true
			}
			lc.ev(fmt.Sprintf("rel cas %s %s", c.ver, out))
			armedBefore := timeout.VerifHeapLen()
			definitiveCas = out == "definitive"
			defer func(ver string) {
				// a renewal that was told ErrNotExist / ErrConflict belongs to a tenure that is over: it changes nothing
				// and ARMS nothing (only this one call was released: nobody else can have armed a timer meanwhile)
				if definitiveCas && !lc.failed && timeout.VerifHeapLen() > armedBefore {
					lc.ctx.R.Quiet("mon C05-finished-tenure-arms-nothing", fmt.Sprintf("the renewal of version %s was answered with a definitive error (record gone or replaced), yet afterwards %d more timer(s) are armed: the renewal chain of a finished tenure goes on (%s)", ver, timeout.VerifHeapLen()-armedBefore, lc.describe()))
				}
			}(c.ver)
			c.release <- d
		}
		// wait until the released call has left the store
		for i := 0; i < 100000; i++ {
			gone := true
			for _, p := range lc.store.snapshot() {
				if p.id == c.id {
					gone = false
				}
			}
			if gone {
				break
			}
			time.Sleep(10 * time.Microsecond)
		}
		if c.op == "cas" {
			time.Sleep(300 * time.Microsecond) // the timer goroutine re-arms and swaps after its CAS returned
		}
		lc.settle(0)
	case "fireall":
		// let the dispatcher's pool wind down to one worker first: a saturated pool of SLEEPING workers
		// does not wake a second worker for the second due timer while the first callback is blocked
		for i := 0; i < 2000 && timeout.VerifWatchers() > 1; i++ {
			time.Sleep(100 * time.Microsecond)
		}
		n := timeout.VerifFireAll()
		lc.ev("fireall")
		lc.settle(n)
		for _, c := range lc.store.snapshot() {
			lc.known[c.id] = true
		}
	case "expire":
		lc.ev("expire")
		lc.store.mu.Lock()
		lc.store.rec = nil
		lc.store.mu.Unlock()
		lc.owner = -1
	case "shutdown":
	}
}

func runLockScript(ctx *Ctx, lk, pv []int, events []string) {
	runLockCaseX(ctx, lk, pv, 0, 99, 99, -1, events)
}

func runLockCase(ctx *Ctx, lk, pv []int, steps, budget, maxFault int, shutdownAt int) {
	runLockCaseX(ctx, lk, pv, steps, budget, maxFault, shutdownAt, nil)
}

func runLockCaseX(ctx *Ctx, lk, pv []int, steps, budget, maxFault int, shutdownAt int, script []string) {
	timeout.VerifDrain()
	lc := &lockCase{ctx: ctx, store: newGateStore(), lk: lk, pv: pv, known: map[int]bool{}, owner: -1, maxFault: maxFault, shutMode: shutdownAt == -2}
	lc.heap0 = timeout.VerifHeapLen()
	np := 0
	for _, p := range pv {
		if p+1 > np {
			np = p + 1
		}
	}
	for i := 0; i < np; i++ {
		p := dist.NewKvsLockProvider(lc.store, "/locks/")
		dist.VerifSetLease(p, time.Hour)
		lc.provs = append(lc.provs, p)
	}
	lc.provDown = make([]bool, np)
	nl := len(pv)
	lockers := make([]gsync.Locker, nl)
	for j := 0; j < nl; j++ {
		lockers[j] = lc.provs[pv[j]].NewLocker("the-lock")
	}
	ready := make(chan int64)
	for i, l := range lk {
		w := &lockWorker{idx: i, locker: lockers[l], start: make(chan string), result: make(chan string, 1)}
		lc.workers = append(lc.workers, w)
		go w.loop(ready)
		w.gid = <-ready
	}
	ctx.R.Case("lk="+joinInts(lk), "pv="+joinInts(pv))
	r := ctx.Rnd
	for _, line := range script {
		if lc.failed {
			break
		}
		w := strings.Fields(line)
		find := func(op string, wk int, ver string) *gateCall {
			for _, c := range lc.store.snapshot() {
				if c.op == op && (wk < 0 || lc.workerOf(c.gid) == wk) && (ver == "" || c.ver == ver) {
					return c
				}
			}
			return nil
		}
		atoi := func(x string) int { v, _ := strconv.Atoi(x); return v }
		var a *action
		switch {
		case w[0] == "call":
			a = &action{kind: "call", w: atoi(w[1]), arg: w[2]}
		case w[0] == "cancel":
			a = &action{kind: "cancel", w: atoi(w[1])}
		case w[0] == "expire!":
			lc.weak = true
			a = &action{kind: "expire"}
		case w[0] == "expire" || w[0] == "fireall":
			a = &action{kind: w[0]}
		case w[0] == "shutdown":
			p := atoi(w[1])
			if lc.provDown[p] {
				continue // already shut down from inside a lockctx-shut call
			}
			lc.provDown[p] = true
			lc.ev(line)
			lc.provs[p].Shutdown()
			lc.settle(0)
			lc.check()
		case w[0] == "rel" && w[1] == "cas":
			if c := find("cas", -1, w[2]); c != nil {
				arg := map[string]string{"ok": "apply", "definitive": "apply", "reqlost": "reqlost", "replylost": "replylost"}[w[3]]
				a = &action{kind: "rel", c: c, arg: arg}
			}
		case w[0] == "rel":
			if c := find(w[2], atoi(w[1]), ""); c != nil {
				arg := w[3]
				if w[2] == "create" && (arg == "ok" || arg == "exists") {
					arg = "apply"
				}
				a = &action{kind: "rel", c: c, arg: arg}
			}
		}
		if a != nil {
			if a.kind == "call" && lc.workers[a.w].running {
				ctx.R.Comment("replay: worker busy, skipped: " + line)
				continue
			}
			lc.perform(*a)
			lc.check()
		}
	}
	if script != nil {
		steps = 0
	}
	for step := 0; step < steps && !lc.failed; step++ {
		if step == shutdownAt {
			p := r.Intn(np)
			if !lc.provDown[p] {
				lc.provDown[p] = true
				lc.ev(fmt.Sprintf("shutdown %d", p))
				lc.provs[p].Shutdown()
				lc.settle(0)
			}
		}
		as := lc.enabled(budget)
		if len(as) == 0 {
			break
		}
		lc.perform(as[r.Intn(len(as))])
		lc.check()
	}
	// drain: let everything finish (these are legitimate steps too)
	for i := 0; i < 400 && !lc.failed; i++ {
		progressed := false
		for _, c := range lc.store.snapshot() {
			switch c.op {
			case "wait":
				cond := c.ctx.Err() != nil || lc.store.recVer() == "-" || lc.store.recVer() != c.ver
				if cond {
					lc.perform(action{kind: "rel", c: c, arg: "cond"})
					progressed = true
				}
			case "create", "cas":
				lc.perform(action{kind: "rel", c: c, arg: "apply"})
				progressed = true
			case "delete":
				lc.perform(action{kind: "rel", c: c, arg: "effect"})
				progressed = true
			}
			if progressed {
				break
			}
		}
		if progressed {
			lc.check()
			continue
		}
		for _, w := range lc.workers {
			if !w.running && w.holds {
				lc.perform(action{kind: "call", w: w.idx, arg: "unlock"})
				progressed = true
				break
			}
		}
		if progressed {
			lc.check()
			continue
		}
		// waiters whose condition does not hold: the record is an orphan (lost reply / lost Delete) -> lease lapses
		stuck := false
		for _, w := range lc.workers {
			if w.running {
				stuck = true
			}
		}
		if !stuck {
			break
		}
		if lc.store.recVer() != "-" {
			as := lc.enabled(0)
			exp := false
			for _, a := range as {
				if a.kind == "expire" {
					exp = true
				}
			}
			if exp {
				lc.perform(action{kind: "expire"})
				lc.check()
				continue
			}
		}
		// somebody waits on the token of a Locker lost after shutdown, or nothing can move: cancel contexts
		moved := false
		for _, w := range lc.workers {
			if w.running && w.hasCtx && w.cancel != nil {
				lc.perform(action{kind: "cancel", w: w.idx})
				moved = true
				break
			}
		}
		if !moved {
			break
		}
	}
	// C04 monitors at quiescence
	quiet := true
	for _, w := range lc.workers {
		if w.running || w.holds {
			quiet = false
		}
	}
	anyDown := false
	for _, d := range lc.provDown {
		anyDown = anyDown || d
	}
	if quiet && !lc.failed && lc.faults == 0 {
		// (also after a Shutdown: a holder that unlocks then still removes its record; only the local token of a
		// Locker may stay taken by design once its provider is down)
		if v := lc.store.recVer(); v != "-" {
			ctx.R.Quiet("mon C04-no-residue", "every call returned and nobody holds, but the lock record (version "+v+") is still there"+map[bool]string{true: " (a provider was shut down before the last Unlock)", false: ""}[anyDown])
		}
	}
	if quiet && !lc.failed && lc.faults == 0 && !anyDown {
		for _, w := range lc.workers {
			tok, cn := dist.VerifLockState(w.locker)
			if !tok || cn != 0 {
				ctx.R.Quiet("mon C04-no-residue", fmt.Sprintf("at quiescence Locker of worker %d has token=%v counter=%d", w.idx, tok, cn))
			}
		}
	}
	if !quiet && !lc.failed && !anyDown {
		ctx.R.Quiet("mon C04-everyone-served", "calls did not finish although every storage call was answered: "+lc.describe())
	}
	if lc.overlap || lc.faulted {
		ctx.R.Nontrivial(map[bool]string{true: "fault or cancel hit an attempt", false: ">=2 goroutines inside an acquire"}[lc.faulted])
	}
	// tear down
	for _, w := range lc.workers {
		if w.cancel != nil {
			w.cancel()
		}
	}
	for _, c := range lc.store.snapshot() {
		c.release <- "reqlost"
	}
	time.Sleep(200 * time.Microsecond)
	for _, w := range lc.workers {
		if !w.running {
			close(w.start)
		}
	}
	timeout.VerifDrain()
}

func joinInts(xs []int) string {
	p := make([]string, len(xs))
	for i, x := range xs {
		p[i] = strconv.Itoa(x)
	}
	return strings.Join(p, ",")
}

// replayLock re-executes the schedule of a replay file (case line + event lines) on the real code.
func replayLock(ctx *Ctx, path string) {
	data, err := os.ReadFile(path)
	if err != nil {
		fmt.Fprintln(os.Stderr, err)
		os.Exit(2)
	}
	var lk, pv []int
	var events []string
	for _, line := range strings.Split(string(data), "\n") {
		line = strings.TrimSpace(line)
		if i := strings.Index(line, " | "); i >= 0 {
			line = line[:i]
		}
		w := strings.Fields(line)
		if len(w) == 0 {
			continue
		}
		if w[0] == "case" {
			for _, f := range w[2:] {
				if strings.HasPrefix(f, "lk=") {
					lk = parseIntList(f[3:])
				}
				if strings.HasPrefix(f, "pv=") {
					pv = parseIntList(f[3:])
				}
			}
			continue
		}
		events = append(events, line)
	}
	runLockScript(ctx, lk, pv, events)
}

func parseIntList(s string) []int {
	var r []int
	for _, p := range strings.Split(s, ",") {
		v, _ := strconv.Atoi(p)
		r = append(r, v)
	}
	return r
}

func runLock(ctx *Ctx) {
	defer timeout.VerifSetIdle(timeout.VerifSetIdle(300 * time.Microsecond))
	if ctx.Replay != "" {
		replayLock(ctx, ctx.Replay)
		return
	}
	r := ctx.Rnd
	if ctx.Focus == "C01" || ctx.Focus == "" {
		// KF-1 (known finding): A.Unlock stalls before its Delete, the lease lapses, B acquires, A's Delete
		// removes B's record, C acquires while B holds.  `expire!` = lapse outside the lease assumption.
		runLockScript(ctx, []int{0, 1, 2}, []int{0, 0, 0}, []string{
			"call 0 lock", "rel 0 create ok", "call 0 unlock", "expire!", "call 1 lock", "rel 1 create ok",
			"rel 0 delete effect", "call 2 lock", "rel 2 create ok"})
	}
	cfgs := []struct{ lk, pv []int }{
		{[]int{0, 1}, []int{0, 0}},          // two Lockers of one provider
		{[]int{0, 1}, []int{0, 1}},          // two providers
		{[]int{0, 0}, []int{0}},             // two goroutines sharing one Locker
		{[]int{0, 0, 1}, []int{0, 0}},       // sharing + a second Locker
		{[]int{0, 1, 2}, []int{0, 1, 1}},    // three Lockers, two providers
		{[]int{0, 0, 1, 1}, []int{0, 1}},
	}
	n := 250
	if ctx.Thorough {
		n = 6000
	}
	if v := os.Getenv("VERIF_LOCK_CASES"); v != "" {
		n, _ = strconv.Atoi(v)
	}
	for c := 0; c < n; c++ {
		cfg := cfgs[r.Intn(len(cfgs))]
		maxFault := []int{0, 0, 1, 2}[r.Intn(4)]
		if ctx.Focus == "C04" {
			maxFault = 0
		}
		shutdownAt := -1
		if r.Chance(1, 8) {
			shutdownAt = r.Range(2, 25)
		} else if r.Chance(1, 7) {
			shutdownAt = -2 // Shutdown from inside an attempt's select evaluation (call kind lockctx-shut)
		}
		if ctx.R.Enough() {
			ctx.R.Comment("several violations recorded already: the remaining cases are skipped")
			break
		}
		runLockCase(ctx, cfg.lk, cfg.pv, r.Range(8, 45), r.Range(2, 4), maxFault, shutdownAt)
	}
}
