package main

// Component "rediswait" (property C07, Redis backend): the polling WaitForVersionChange of kvs/redis under a
// controlled scheduler.  W waiter goroutines call the REAL WaitForVersionChange against an in-process miniredis;
// a go-redis hook parks every GET of a waiter before it is sent; the scheduler interleaves complete operations
// of a writer (Put / Create / CasByVersion / Delete, some with expiries), clock ticks (virtual clock of the client
// and of miniredis), cancellations, and the release of ONE parked GET at a time.  Trace lines (replayed by the
// Lean driver `rediswait` through Model/RedisWait):
//   put|create|cas|delete …  | result     a complete writer operation
//   tick d                   | now <n>
//   start i k <ver>          | ok         waiter i calls WaitForVersionChange(k, ver)
//   poll i                   | get …      waiter i's GET was executed and answered (`get ctx`: refused, context done)
//   wake i                   | ok         waiter i left its sleep through ctx.Done (no GET)
//   cancel i                 | ok
//   ret i                    | waitNil | errNotExist | ctxErr
// After a poll that saw the unchanged version the harness waits until the waiter stands at its next GET (its
// sleep timer is real: 2..64 ms), unless it cancels the waiter right away to exercise the ctx.Done branch.
// A second, free-running phase (Go-side monitors only) checks promptness in real time without any gate.

import (
	"context"
	"errors"
	"fmt"
	"strings"
	"sync/atomic"
	"time"

	gerrors "github.com/acquirecloud/golibs/errors"
	"github.com/acquirecloud/golibs/kvs"
	kredis "github.com/acquirecloud/golibs/kvs/redis"
	"github.com/alicebob/miniredis/v2"
	goredis "github.com/go-redis/redis/v8"
)

func init() { components["rediswait"] = runRedisWait }

type rwTidKey struct{}

// rwMaxGap bounds the sleep between two polls of a waiter, and how long a free-running waiter may take to notice a
// change (the code polls every 4..64 ms; the bound leaves room for a loaded machine)
const rwMaxGap = 500 * time.Millisecond

type rwEvent struct {
	i     int
	kind  string // gate | after | done
	label string
}

type rwCase struct {
	ctx     *Ctx
	events  chan rwEvent
	resume  []chan struct{}
	verNum  map[string]int
	nextVer int
	now     int64
	failed  bool
}

type rwHook struct{ c *rwCase }

func (h rwHook) BeforeProcess(ctx context.Context, cmd goredis.Cmder) (context.Context, error) {
	if i, ok := ctx.Value(rwTidKey{}).(int); ok && cmd.Name() == "get" {
		h.c.events <- rwEvent{i: i, kind: "gate"}
		<-h.c.resume[i]
	}
	return ctx, nil
}

func (h rwHook) AfterProcess(ctx context.Context, cmd goredis.Cmder) error {
	i, ok := ctx.Value(rwTidKey{}).(int)
	if !ok || cmd.Name() != "get" {
		return nil
	}
	label := "get "
	switch err := cmd.Err(); {
	case err == goredis.Nil:
		label += "nil"
	case err != nil && (errors.Is(err, context.Canceled) || errors.Is(err, context.DeadlineExceeded)):
		label += "ctx"
	case err != nil:
		label += "error:" + strings.ReplaceAll(err.Error(), " ", "_")
	default:
		v, ver, exp := kredis.VerifDecodeExp(cmd.(*goredis.StringCmd).Val())
		if v == "" {
			v = "-"
		}
		label += fmt.Sprintf("%s:%d%s", v, h.c.verNum[ver], rcAbs(exp))
	}
	h.c.events <- rwEvent{i: i, kind: "after", label: label}
	return nil
}

func (h rwHook) BeforeProcessPipeline(ctx context.Context, cmds []goredis.Cmder) (context.Context, error) {
	return ctx, nil
}
func (h rwHook) AfterProcessPipeline(ctx context.Context, cmds []goredis.Cmder) error { return nil }

func rwVerdict(err error) string {
	switch {
	case err == nil:
		return "waitNil"
	case errors.Is(err, gerrors.ErrNotExist):
		return "errNotExist"
	case errors.Is(err, context.Canceled) || errors.Is(err, context.DeadlineExceeded):
		return "ctxErr"
	}
	return "other:" + strings.ReplaceAll(err.Error(), " ", "_")
}

type rwWaiter struct {
	state  string // idle | gate | flight (released, not yet heard of) | done
	cancel context.CancelFunc
	used   bool
	key    string
}

func runRedisWaitCase(ctx *Ctx, nw int, steps int, script []string) {
	r := ctx.Rnd
	c := &rwCase{ctx: ctx, events: make(chan rwEvent, 16), verNum: map[string]int{}}
	mr, err := miniredis.Run()
	if err != nil {
		panic(err)
	}
	mr.SetTime(rcBase)
	st := kredis.New(&goredis.Options{Addr: mr.Addr()})
	kredis.VerifAddHook(st, rwHook{c})
	kredis.VerifSetClock(func() time.Time { return rcBase.Add(time.Duration(atomic.LoadInt64(&c.now)) * time.Millisecond) })
	defer func() { kredis.VerifClose(st); mr.Close(); kredis.VerifSetClock(nil) }()
	ctx.R.Case(nw)
	ws := make([]*rwWaiter, nw)
	for i := range ws {
		ws[i] = &rwWaiter{state: "idle"}
		c.resume = append(c.resume, make(chan struct{}))
	}
	bg := context.Background()
	keys := []string{"a", "b"}
	curVer := map[string]string{}  // key -> version string stored last (as far as the writer knows)
	prevVer := map[string]string{} // an older one
	curExp := map[string]int{}
	val := 0
	nv := func() string { val++; return fmt.Sprintf("v%d", val) }
	wrote := func(k, ver string) int {
		c.nextVer++
		c.verNum[ver] = c.nextVer
		if curVer[k] != "" {
			prevVer[k] = curVer[k]
		}
		curVer[k] = ver
		return c.nextVer
	}
	// wait for the next event of waiter i (it either parks at its next GET or returns)
	next := func(i int, limit time.Duration) (rwEvent, bool) {
		select {
		case e := <-c.events:
			if e.i != i {
				ctx.R.Quiet("mon C07-scheduler-control", fmt.Sprintf("waiter %d acted while only waiter %d could (%s %s)", e.i, i, e.kind, e.label))
				c.failed = true
				return e, false
			}
			return e, true
		case <-time.After(limit):
			return rwEvent{}, false
		}
	}
	settle := func(i int, afterSleepOK bool) {
		// after a start / a released poll: the waiter parks at a GET (possibly after its sleep) or returns
		t0 := time.Now()
		e, ok := next(i, settleBound)
		if ok && e.kind == "gate" && afterSleepOK && time.Since(t0) > rwMaxGap {
			// the lateness of a wake-up is the length of one sleep: the code's back-off stays below 100 ms
			ctx.R.Quiet("mon C07-returns-promptly", fmt.Sprintf("waiter %d slept %v between two polls (the record was unchanged): a change made right after a poll is noticed that late", i, time.Since(t0).Round(time.Millisecond)))
			c.failed = true
		}
		if c.failed {
			return
		}
		if !ok {
			ctx.R.Quiet("mon C07-returns-promptly", fmt.Sprintf("waiter %d neither returned nor reached its next GET within %v", i, settleBound))
			c.failed = true
			return
		}
		switch e.kind {
		case "gate":
			ws[i].state = "gate"
		case "done":
			ws[i].state = "idle"
			ctx.R.Op(fmt.Sprintf("ret %d", i), e.label)
		}
	}
	expOf := func(ttl int) (string, *time.Time, int) {
		if ttl == 0 {
			return "", nil, 0
		}
		abs := int(atomic.LoadInt64(&c.now)) + ttl
		return fmt.Sprintf(" x%d", abs), rcExp(abs), abs
	}
	do := func(a string) {
		f := strings.Fields(a)
		switch f[0] {
		case "put", "create", "cas":
			k := f[1]
			ttl := 0
			if len(f) > 2 {
				fmt.Sscanf(f[2], "%d", &ttl)
			}
			xs, eat, abs := expOf(ttl)
			v := nv()
			switch f[0] {
			case "put":
				rec, err := st.Put(bg, kvs.Record{Key: k, Value: []byte(v), ExpiresAt: eat})
				if err != nil {
					ctx.R.Op(fmt.Sprintf("put %s %s%s", k, v, xs), "other:"+err.Error())
					return
				}
				ctx.R.Op(fmt.Sprintf("put %s %s%s", k, v, xs), fmt.Sprintf("okVer %d", wrote(k, rec.Version)))
				curExp[k] = abs
			case "create":
				ver, err := st.Create(bg, kvs.Record{Key: k, Value: []byte(v), ExpiresAt: eat})
				switch {
				case err == nil:
					ctx.R.Op(fmt.Sprintf("create %s %s%s", k, v, xs), fmt.Sprintf("okVer %d", wrote(k, ver)))
					curExp[k] = abs
				case errors.Is(err, gerrors.ErrExist):
					ctx.R.Op(fmt.Sprintf("create %s %s%s", k, v, xs), fmt.Sprintf("errExist %d", c.verNum[ver]))
				default:
					ctx.R.Op(fmt.Sprintf("create %s %s%s", k, v, xs), "other:"+err.Error())
				}
			case "cas":
				arg := curVer[k]
				if len(f) > 3 && f[3] == "stale" {
					arg = prevVer[k]
				}
				if arg == "" {
					arg = "never-issued"
				}
				rec, err := st.CasByVersion(bg, kvs.Record{Key: k, Value: []byte(v), Version: arg, ExpiresAt: eat})
				text := fmt.Sprintf("cas %s %d %s%s", k, c.verNum[arg], v, xs)
				switch {
				case err == nil:
					ctx.R.Op(text, fmt.Sprintf("okVer %d", wrote(k, rec.Version)))
					curExp[k] = abs
				case errors.Is(err, gerrors.ErrConflict):
					ctx.R.Op(text, "errConflict")
				case errors.Is(err, gerrors.ErrNotExist):
					ctx.R.Op(text, "errNotExist")
				default:
					ctx.R.Op(text, "other:"+err.Error())
				}
			}
		case "delete":
			err := st.Delete(bg, f[1])
			switch {
			case err == nil:
				ctx.R.Op("delete "+f[1], "ok")
			case errors.Is(err, gerrors.ErrNotExist):
				ctx.R.Op("delete "+f[1], "errNotExist")
			default:
				ctx.R.Op("delete "+f[1], "other:"+err.Error())
			}
		case "tick":
			d := 0
			fmt.Sscanf(f[1], "%d", &d)
			mr.FastForward(time.Duration(d) * time.Millisecond)
			ctx.R.Op(fmt.Sprintf("tick %d", d), fmt.Sprintf("now %d", atomic.AddInt64(&c.now, int64(d))))
		case "start":
			i := 0
			fmt.Sscanf(f[1], "%d", &i)
			if ws[i].state != "idle" || ws[i].used {
				return
			}
			k := f[2]
			arg := ""
			switch f[3] {
			case "cur":
				arg = curVer[k]
			case "stale":
				arg = prevVer[k]
			}
			if arg == "" {
				arg = "never-issued"
			}
			cx, cancel := context.WithCancel(context.WithValue(bg, rwTidKey{}, i))
			ws[i].cancel, ws[i].used, ws[i].key = cancel, true, k
			ctx.R.Op(fmt.Sprintf("start %d %s %d", i, k, c.verNum[arg]), "ok")
			go func() {
				err := st.WaitForVersionChange(cx, k, arg)
				c.events <- rwEvent{i: i, kind: "done", label: rwVerdict(err)}
			}()
			ws[i].state = "flight"
			settle(i, false)
		case "poll":
			i := 0
			fmt.Sscanf(f[1], "%d", &i)
			if ws[i].state != "gate" {
				return
			}
			c.resume[i] <- struct{}{}
			e, ok := next(i, settleBound)
			if !ok || e.kind != "after" {
				if !c.failed {
					ctx.R.Quiet("mon C07-scheduler-control", fmt.Sprintf("waiter %d: expected the reply of its GET, got %q %q", i, e.kind, e.label))
					c.failed = true
				}
				return
			}
			ctx.R.Op(fmt.Sprintf("poll %d", i), e.label)
			ws[i].state = "flight"
			if len(f) > 2 && f[2] == "cancel" {
				// cancel right after the reply: if the waiter went to sleep, its select must take ctx.Done
				ws[i].cancel()
				ctx.R.Op(fmt.Sprintf("cancel %d", i), "ok")
				e2, ok2 := next(i, settleBound)
				switch {
				case c.failed:
				case !ok2:
					ctx.R.Quiet("mon C07-returns-promptly", fmt.Sprintf("waiter %d, cancelled right after a poll, neither returned nor polled again within %v", i, settleBound))
					c.failed = true
				case e2.kind == "gate":
					ws[i].state = "gate" // the timer won: the next GET will be refused
				case e2.kind == "done":
					if strings.Contains(e.label, ":") && e2.label == "ctxErr" {
						// (the GET showed a record — the unchanged one, or the verdict would not be the context's
						// error — so the waiter was asleep and left through ctx.Done)
						ctx.R.Op(fmt.Sprintf("wake %d", i), "ok")
					}
					ws[i].state = "idle"
					ctx.R.Op(fmt.Sprintf("ret %d", i), e2.label)
				}
				return
			}
			settle(i, true)
		case "cancel":
			i := 0
			fmt.Sscanf(f[1], "%d", &i)
			if ws[i].cancel == nil || ws[i].state != "gate" {
				return
			}
			ws[i].cancel()
			ctx.R.Op(fmt.Sprintf("cancel %d", i), "ok")
		}
	}
	for _, a := range script {
		if c.failed {
			break
		}
		do(a)
	}
	ttl := func() int { return []int{0, 0, 0, 3, 7, 15}[r.Intn(6)] }
	for s := 0; s < steps && !c.failed; s++ {
		k := keys[r.Intn(len(keys))]
		i := r.Intn(nw)
		switch x := r.Intn(100); {
		case x < 14:
			do(fmt.Sprintf("put %s %d", k, ttl()))
		case x < 22:
			do(fmt.Sprintf("create %s %d", k, ttl()))
		case x < 30:
			do(fmt.Sprintf("cas %s %d %s", k, ttl(), []string{"cur", "cur", "stale"}[r.Intn(3)]))
		case x < 38:
			do("delete " + k)
		case x < 46:
			// never AT an expiry instant: expiries are odd, the clock stays even
			do(fmt.Sprintf("tick %d", []int{2, 4, 8, 16}[r.Intn(4)]))
		case x < 62:
			do(fmt.Sprintf("start %d %s %s", i, k, []string{"cur", "cur", "cur", "stale", "never"}[r.Intn(5)]))
		case x < 90:
			if r.Chance(1, 8) {
				do(fmt.Sprintf("poll %d cancel", i))
			} else {
				do(fmt.Sprintf("poll %d", i))
			}
		default:
			do(fmt.Sprintf("cancel %d", i))
		}
	}
	// end: every waiter still inside its call is cancelled and must return the context's error at its next step
	for i, w := range ws {
		if c.failed {
			break
		}
		if w.state == "gate" {
			w.cancel()
			ctx.R.Op(fmt.Sprintf("cancel %d", i), "ok")
			do(fmt.Sprintf("poll %d", i))
		}
	}
	if c.failed {
		for i := range ws {
			if ws[i].cancel != nil {
				ws[i].cancel()
			}
			select {
			case c.resume[i] <- struct{}{}:
			default:
			}
		}
		go func() {
			for range c.events {
			}
		}()
	}
}

func runRedisWait(ctx *Ctx) {
	r := ctx.Rnd
	cases := 150
	if ctx.Thorough {
		cases = 2000
	}
	directed := [][]string{
		// the version changes while the waiter sleeps: the next poll returns nil
		{"put a 0", "start 0 a cur", "poll 0", "put a 0", "poll 0"},
		// the record is deleted while the waiter sleeps
		{"put a 0", "start 0 a cur", "poll 0", "delete a", "poll 0"},
		// … expires while the waiter sleeps
		{"put a 7", "start 0 a cur", "poll 0", "tick 8", "poll 0"},
		// deleted and created anew between two polls: another version
		{"put a 0", "start 0 a cur", "poll 0", "delete a", "create a 0", "poll 0"},
		// a stale / never-issued version: the first poll returns
		{"put a 0", "put a 0", "start 0 a stale", "start 1 a never", "poll 0", "poll 1"},
		// an absent key
		{"start 0 b cur", "poll 0"},
		// cancelled while sleeping / while parked at the GET; the other waiter is not disturbed
		{"put a 0", "start 0 a cur", "start 1 a cur", "poll 0 cancel", "poll 1", "put a 0", "poll 1"},
		{"put a 0", "start 0 a cur", "start 1 a cur", "cancel 0", "poll 0", "poll 1", "poll 1", "cas a 0 cur", "poll 1"},
		// a write that keeps value and lifetime but not the version
		{"put a 0", "start 0 a cur", "poll 0", "cas a 0 cur", "poll 0"},
		// a key that stays quiet for many polls: the sleep between polls must stay short, then the change is seen at once
		{"put a 0", "start 0 a cur", "poll 0", "poll 0", "poll 0", "poll 0", "poll 0", "poll 0", "poll 0", "poll 0", "put a 0", "poll 0"},
		// a losing CAS and a losing Create change nothing: the waiter keeps sleeping
		{"put a 0", "put a 0", "start 0 a cur", "poll 0", "cas a 0 stale", "create a 0", "poll 0", "poll 0", "delete a", "poll 0"},
	}
	for _, d := range directed {
		runRedisWaitCase(ctx, 2, 0, d)
	}
	ctx.R.Nontrivial("directed")
	for cse := 0; cse < cases; cse++ {
		if ctx.R.Enough() {
			ctx.R.Comment("several violations recorded already: the remaining cases are skipped")
			break
		}
		runRedisWaitCase(ctx, r.Range(1, 3), r.Range(8, 30), []string{"put a 0"})
		ctx.R.Nontrivial(fmt.Sprintf("random %d", cse))
	}
	rwFreeRunning(ctx)
	rwTransportFault(ctx)
}

// rwFaultHook fails the n-th GET it sees with a transport error (nothing reaches the server)
type rwFaultHook struct {
	n    int32
	seen int32
}

func (h *rwFaultHook) BeforeProcess(ctx context.Context, cmd goredis.Cmder) (context.Context, error) {
	if cmd.Name() == "get" && atomic.AddInt32(&h.seen, 1) == h.n {
		return ctx, errors.New("read tcp 127.0.0.1: connection reset by peer (injected)")
	}
	return ctx, nil
}
func (h *rwFaultHook) AfterProcess(ctx context.Context, cmd goredis.Cmder) error { return nil }
func (h *rwFaultHook) BeforeProcessPipeline(ctx context.Context, cmds []goredis.Cmder) (context.Context, error) {
	return ctx, nil
}
func (h *rwFaultHook) AfterProcessPipeline(ctx context.Context, cmds []goredis.Cmder) error { return nil }

// rwTransportFault: the k-th poll of a waiter fails with a transport error while its context is live and nobody
// has touched the key.  The waiter may report the error or go on polling — what it may not do is report a change
// (nil) or an absence (ErrNotExist) that nobody has seen.
func rwTransportFault(ctx *Ctx) {
	for _, k := range []int32{1, 2, 3} {
		mr, err := miniredis.Run()
		if err != nil {
			return
		}
		st := kredis.New(&goredis.Options{Addr: mr.Addr()})
		bg := context.Background()
		ctx.R.Case(0)
		ctx.R.Comment(fmt.Sprintf("scenario transport-fault at poll %d", k))
		rec, err := st.Put(bg, kvs.Record{Key: "f", Value: []byte("x")})
		if err == nil {
			kredis.VerifAddHook(st, &rwFaultHook{n: k})
			cx, cancel := context.WithCancel(bg)
			done := make(chan string, 1)
			go func() { done <- rwVerdict(st.WaitForVersionChange(cx, "f", rec.Version)) }()
			select {
			case v := <-done:
				if v == "waitNil" || v == "errNotExist" {
					ctx.R.Quiet("mon C07-no-invented-change", fmt.Sprintf("poll %d of a waiter failed with a transport error; its context was live, the key existed with exactly the version it was given and nobody touched it — the waiter returned %s", k, v))
				}
			case <-time.After(400 * time.Millisecond):
			}
			cancel()
			select {
			case <-done:
			case <-time.After(rwMaxGap):
			}
			ctx.R.Nontrivial("transport fault")
		}
		kredis.VerifClose(st)
		mr.Close()
	}
}

// rwFreeRunning: no gates, real time.  A waiter on the current version must still be blocked after a quiet period
// without a change (now 1.2 s), must return nil / ErrNotExist within rwMaxGap of a Put / Delete, and the
// context's error within rwMaxGap of a cancellation.
func rwFreeRunning(ctx *Ctx) {
	mr, err := miniredis.Run()
	if err != nil {
		panic(err)
	}
	st := kredis.New(&goredis.Options{Addr: mr.Addr()})
	defer func() { kredis.VerifClose(st); mr.Close() }()
	bg := context.Background()
	ctx.R.Case(0) // (no waiter of the model: Go-side monitors only)
	type scen struct {
		name string
		act  func(cancel context.CancelFunc)
		want string
	}
	scens := []scen{
		{"put", func(context.CancelFunc) { st.Put(bg, kvs.Record{Key: "f", Value: []byte("y")}) }, "waitNil"},
		{"delete", func(context.CancelFunc) { st.Delete(bg, "f") }, "errNotExist"},
		{"cancel", func(c context.CancelFunc) { c() }, "ctxErr"},
	}
	for _, sc := range scens {
		rec, err := st.Put(bg, kvs.Record{Key: "f", Value: []byte("x")})
		if err != nil {
			ctx.R.Quiet("mon C07-returns-promptly", "free-running: Put failed: "+err.Error())
			return
		}
		cx, cancel := context.WithCancel(bg)
		done := make(chan string, 1)
		go func() { done <- rwVerdict(st.WaitForVersionChange(cx, "f", rec.Version)) }()
		ctx.R.Comment("scenario free-" + sc.name)
		select {
		case v := <-done:
			ctx.R.Quiet("mon C07-no-invented-change", fmt.Sprintf("free-running %s: the waiter returned %s although the record had not changed and its context was live", sc.name, v))
			cancel()
			continue
		case <-time.After(1200 * time.Millisecond): // (long enough for a growing back-off to show)
		}
		t0 := time.Now()
		sc.act(cancel)
		select {
		case v := <-done:
			if v != sc.want {
				ctx.R.Quiet("mon C07-right-verdict", fmt.Sprintf("free-running %s: the waiter returned %s, expected %s", sc.name, v, sc.want))
			}
		case <-time.After(rwMaxGap):
			ctx.R.Quiet("mon C07-returns-promptly", fmt.Sprintf("free-running %s: after 1.2 s without a change the waiter had not returned %v after the change / cancellation", sc.name, time.Since(t0).Round(time.Millisecond)))
		}
		cancel()
	}
}
