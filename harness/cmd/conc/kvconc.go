package main

import (
	"github.com/acquirecloud/golibs/ulidutils"
	"context"
	"errors"
	"fmt"
	"sort"
	"strings"
	"sync"
	"sync/atomic"
	"time"

	gerrors "github.com/acquirecloud/golibs/errors"
	"github.com/acquirecloud/golibs/kvs"
	"github.com/acquirecloud/golibs/kvs/inmem"
	kredis "github.com/acquirecloud/golibs/kvs/redis"
	"github.com/alicebob/miniredis/v2"
	goredis "github.com/go-redis/redis/v8"
)

func init() {
	components["kvconc-inmem"] = func(ctx *Ctx) { runKvConc(ctx, "inmem") }
	components["kvconc-redis"] = func(ctx *Ctx) { runKvConc(ctx, "redis") }
}

var kvClock int64

func tick() int64 { return atomic.AddInt64(&kvClock, 1) }

type kvOp struct {
	thread   int
	text     string // op text in driver syntax, versions as raw strings prefixed with "@"
	kind     string
	key      string
	keys     []string
	val      string
	ver      string // raw version argument (cas)
	inv, ret int64
	sec      int64 // in-memory: stamp of the critical section
	nsec     int
	// observed
	errc     string   // "" ok | ErrExist | ErrNotExist | ErrConflict | otherErr:…
	newVer   string   // version produced (create/put/cas ok) or reported (ErrExist)
	rec      [2]string // get: val, ver
	recs     [][2]string // getmany: per key (val, ver) or {"nil",""}
}

func kvcErr(err error) string {
	switch {
	case err == nil:
		return ""
	case errors.Is(err, gerrors.ErrExist):
		return "ErrExist"
	case errors.Is(err, gerrors.ErrNotExist):
		return "ErrNotExist"
	case errors.Is(err, gerrors.ErrConflict):
		return "ErrConflict"
	}
	return "otherErr:" + strings.ReplaceAll(err.Error(), " ", "_")
}

func sv(b []byte) string {
	if len(b) == 0 {
		return "-"
	}
	return string(b)
}

func (o *kvOp) run(c context.Context, st kvs.Storage) {
	switch o.kind {
	case "create":
		v, err := st.Create(c, kvs.Record{Key: o.key, Value: []byte(o.val)})
		o.errc, o.newVer = kvcErr(err), v
	case "get":
		r, err := st.Get(c, o.key)
		o.errc, o.rec = kvcErr(err), [2]string{sv(r.Value), r.Version}
	case "put":
		r, err := st.Put(c, kvs.Record{Key: o.key, Value: []byte(o.val)})
		o.errc, o.newVer = kvcErr(err), r.Version
	case "cas":
		r, err := st.CasByVersion(c, kvs.Record{Key: o.key, Value: []byte(o.val), Version: o.ver})
		o.errc, o.newVer = kvcErr(err), r.Version
	case "delete":
		o.errc = kvcErr(st.Delete(c, o.key))
	case "getmany":
		rs, err := st.GetMany(c, o.keys...)
		o.errc = kvcErr(err)
		for _, r := range rs {
			if r == nil {
				o.recs = append(o.recs, [2]string{"nil", ""})
			} else {
				o.recs = append(o.recs, [2]string{sv(r.Value), r.Version})
			}
		}
	case "putmany":
		var recs []kvs.Record
		for _, k := range o.keys {
			recs = append(recs, kvs.Record{Key: k, Value: []byte(o.val), Version: "caller-supplied"})
		}
		o.errc = kvcErr(st.PutMany(c, recs))
	}
}

// ---- Go transcription of the contract, used ONLY to search for a linearization witness (the Lean
// driver re-validates the witness against Kv.Spec) ----

type kvRec struct{ val, ver string }
type kvState map[string]kvRec

func (s kvState) clone() kvState {
	n := kvState{}
	for k, v := range s {
		n[k] = v
	}
	return n
}
func (s kvState) hash() string {
	ks := make([]string, 0, len(s))
	for k, v := range s {
		ks = append(ks, k+"="+v.val+"@"+v.ver)
	}
	sort.Strings(ks)
	return strings.Join(ks, ";")
}

var placeholderN int

// verMatch: does the observed version fit the stored one?  A placeholder (version written by PutMany,
// never observed yet) may be bound to the observed version only if no other write already owns it.
func verMatchIn(s kvState, stored, observed string) bool {
	if stored == observed {
		return true
	}
	if strings.HasPrefix(stored, "?") {
		_, used := s["\x00used:"+observed]
		return !used && observed != ""
	}
	return false
}

func (s kvState) use(ver string) { s["\x00used:"+ver] = kvRec{} }
func (s kvState) fresh(ver string) bool {
	_, used := s["\x00used:"+ver]
	return !used && ver != ""
}

// apply checks whether op's observed outcome is what the contract prescribes in state s.
func (o *kvOp) apply(s kvState) (kvState, bool) {
	n := s.clone()
	r, ex := s[o.key]
	switch o.kind {
	case "create":
		if ex {
			if o.errc != "ErrExist" || !(verMatchIn(s, r.ver, o.newVer)) {
				return nil, false
			}
			n[o.key] = kvRec{r.val, o.newVer}
			n.use(o.newVer)
			return n, true
		}
		if o.errc != "" || !s.fresh(o.newVer) {
			return nil, false
		}
		n[o.key] = kvRec{o.val, o.newVer}
		n.use(o.newVer)
		return n, true
	case "get":
		if !ex {
			return n, o.errc == "ErrNotExist"
		}
		if o.errc != "" || o.rec[0] != dash(r.val) || !verMatchIn(s, r.ver, o.rec[1]) {
			return nil, false
		}
		n[o.key] = kvRec{r.val, o.rec[1]}
		n.use(o.rec[1])
		return n, true
	case "put":
		if o.errc != "" || !s.fresh(o.newVer) {
			return nil, false
		}
		n[o.key] = kvRec{o.val, o.newVer}
		n.use(o.newVer)
		return n, true
	case "cas":
		if !ex {
			return n, o.errc == "ErrNotExist"
		}
		if strings.HasPrefix(r.ver, "?") {
			// unknown stored version (written by PutMany and never read): a CAS with a concrete version cannot match
			return n, o.errc == "ErrConflict"
		}
		if r.ver != o.ver {
			return n, o.errc == "ErrConflict"
		}
		if o.errc != "" || !s.fresh(o.newVer) {
			return nil, false
		}
		n[o.key] = kvRec{o.val, o.newVer}
		n.use(o.newVer)
		return n, true
	case "delete":
		if !ex {
			return n, o.errc == "ErrNotExist"
		}
		if o.errc != "" {
			return nil, false
		}
		delete(n, o.key)
		return n, true
	case "getmany":
		if o.errc != "" || len(o.recs) != len(o.keys) {
			return nil, false
		}
		for i, k := range o.keys {
			r, ex := n[k]
			if !ex {
				if o.recs[i][0] != "nil" {
					return nil, false
				}
				continue
			}
			if o.recs[i][0] != dash(r.val) || !verMatchIn(n, r.ver, o.recs[i][1]) {
				return nil, false
			}
			n[k] = kvRec{r.val, o.recs[i][1]}
			n.use(o.recs[i][1])
		}
		return n, true
	case "putmany":
		if o.errc != "" {
			return nil, false
		}
		for _, k := range o.keys {
			placeholderN++
			n[k] = kvRec{o.val, fmt.Sprintf("?%d", placeholderN)}
		}
		return n, true
	}
	return nil, false
}

func dash(s string) string {
	if s == "" {
		return "-"
	}
	return s
}

// linearize searches for an order compatible with real time in which every observed outcome is legal.
func linearize(ops []*kvOp) []*kvOp {
	n := len(ops)
	seen := map[string]bool{}
	var order []*kvOp
	var rec func(done uint64, s kvState) bool
	rec = func(done uint64, s kvState) bool {
		if len(order) == n {
			return true
		}
		key := fmt.Sprintf("%d|%s", done, s.hash())
		if seen[key] {
			return false
		}
		seen[key] = true
		// earliest response among the remaining ops bounds who may come first
		minRet := int64(1 << 62)
		for i, o := range ops {
			if done&(1<<uint(i)) == 0 && o.ret < minRet {
				minRet = o.ret
			}
		}
		for i, o := range ops {
			if done&(1<<uint(i)) != 0 || o.inv > minRet {
				continue
			}
			if ns, ok := o.apply(s); ok {
				order = append(order, o)
				if rec(done|1<<uint(i), ns) {
					return true
				}
				order = order[:len(order)-1]
			}
		}
		return false
	}
	if rec(0, kvState{}) {
		return order
	}
	return nil
}

// ---- rendering in the driver's syntax, versions renamed by first occurrence in the witness order ----

type verNames struct{ seen []string }

func (v *verNames) name(s string) string {
	for i, x := range v.seen {
		if x == s {
			return fmt.Sprintf("v%d", i+1)
		}
	}
	v.seen = append(v.seen, s)
	return fmt.Sprintf("v%d", len(v.seen))
}
func (v *verNames) arg(s string) string {
	for i, x := range v.seen {
		if x == s {
			return fmt.Sprintf("v%d", i+1)
		}
	}
	return "u0"
}

func (o *kvOp) render(v *verNames) (string, string) {
	head := fmt.Sprintf("%d %d %d ", o.inv, o.ret, o.thread)
	errOut := func() string { return strings.SplitN(o.errc, ":", 2)[0] }
	switch o.kind {
	case "create":
		op := head + fmt.Sprintf("create %s %s -", o.key, dash(o.val))
		if o.errc == "" {
			return op, "ok " + v.name(o.newVer)
		}
		if o.errc == "ErrExist" {
			if o.newVer == "" {
				return op, "ErrExist -"
			}
			return op, "ErrExist " + v.name(o.newVer)
		}
		return op, errOut()
	case "get":
		op := head + "get " + o.key
		if o.errc != "" {
			return op, errOut()
		}
		return op, fmt.Sprintf("rec %s %s -", o.rec[0], v.name(o.rec[1]))
	case "put":
		op := head + fmt.Sprintf("put %s %s -", o.key, dash(o.val))
		if o.errc != "" {
			return op, errOut()
		}
		return op, "ok " + v.name(o.newVer)
	case "cas":
		op := head + fmt.Sprintf("cas %s %s %s -", o.key, v.arg(o.ver), dash(o.val))
		if o.errc != "" {
			return op, errOut()
		}
		return op, "ok " + v.name(o.newVer)
	case "delete":
		op := head + "delete " + o.key
		if o.errc != "" {
			return op, errOut()
		}
		return op, "ok"
	case "getmany":
		op := head + "getmany " + strings.Join(o.keys, ",")
		if o.errc != "" {
			return op, errOut()
		}
		parts := make([]string, len(o.recs))
		for i, r := range o.recs {
			if r[0] == "nil" {
				parts[i] = "nil"
			} else {
				parts[i] = fmt.Sprintf("%s:%s:-", r[0], v.name(r[1]))
			}
		}
		return op, "recs [" + strings.Join(parts, ",") + "]"
	case "putmany":
		ps := make([]string, len(o.keys))
		for i, k := range o.keys {
			ps[i] = fmt.Sprintf("%s:%s:-", k, dash(o.val))
		}
		op := head + "putmany " + strings.Join(ps, ",")
		if o.errc != "" {
			return op, errOut()
		}
		return op, "ok"
	}
	return head + "bad", "bad"
}

func describeHistory(ops []*kvOp) string {
	var parts []string
	byInv := append([]*kvOp{}, ops...)
	sort.Slice(byInv, func(i, j int) bool { return byInv[i].inv < byInv[j].inv })
	v := &verNames{}
	for _, o := range byInv {
		op, out := o.render(v)
		parts = append(parts, fmt.Sprintf("[%s -> %s]", op, out))
	}
	return strings.Join(parts, " ")
}

// ---- pause hook: lets the harness stop a Redis CAS between its GET and its EXEC ----

type pauseCtl struct{ reached, resume chan struct{} }
type pauseKeyT struct{}

type pauseHook struct{}

func (pauseHook) BeforeProcess(ctx context.Context, cmd goredis.Cmder) (context.Context, error) {
	return ctx, nil
}
func (pauseHook) AfterProcess(ctx context.Context, cmd goredis.Cmder) error {
	if p, ok := ctx.Value(pauseKeyT{}).(*pauseCtl); ok && cmd.Name() == "get" {
		select {
		case p.reached <- struct{}{}:
			<-p.resume
		default:
		}
	}
	return nil
}
func (pauseHook) BeforeProcessPipeline(ctx context.Context, cmds []goredis.Cmder) (context.Context, error) {
	return ctx, nil
}
func (pauseHook) AfterProcessPipeline(ctx context.Context, cmds []goredis.Cmder) error { return nil }

// ---------------------------------------------------------------------------------------------

func runKvConcCase(ctx *Ctx, kind string, progs [][]*kvOp, forceRace bool) {
	ctx.R.Enter() // (a free-running case takes well under a second; see kvVersionBurst)
	defer ctx.R.Leave()
	var st kvs.Storage
	var cleanup func()
	secBy := map[int64][]int64{} // goroutine id -> section stamps
	var secMu sync.Mutex
	if kind == "redis" {
		mr, err := miniredis.Run()
		if err != nil {
			panic(err)
		}
		st = kredis.New(&goredis.Options{Addr: mr.Addr()})
		kredis.VerifAddHook(st, pauseHook{})
		cleanup = func() { kredis.VerifClose(st); mr.Close() }
	} else {
		st = inmem.New()
		inmem.VerifSectionHook = func(k, site string, obj any) {
			if k == "enter" {
				g := goid()
				s := tick()
				secMu.Lock()
				secBy[g] = append(secBy[g], s)
				secMu.Unlock()
			}
		}
		cleanup = func() { inmem.VerifSectionHook = nil }
	}
	defer cleanup()
	ctx.R.Case(kind)
	var wg sync.WaitGroup
	overlap := false
	if forceRace && kind == "redis" {
		// deterministic WATCH/EXEC race: A's CAS is stopped after its GET, B writes, A resumes
		a, b := progs[0], progs[1]
		for _, o := range a[:len(a)-1] {
			o.inv = tick()
			o.run(context.Background(), st)
			o.ret = tick()
			if o.newVer != "" && o.errc == "" {
				a[len(a)-1].ver = o.newVer
			}
		}
		p := &pauseCtl{reached: make(chan struct{}), resume: make(chan struct{})}
		last := a[len(a)-1]
		wg.Add(1)
		go func() {
			defer wg.Done()
			last.inv = tick()
			last.run(context.WithValue(context.Background(), pauseKeyT{}, p), st)
			last.ret = tick()
		}()
		select {
		case <-p.reached:
			for _, o := range b {
				o.inv = tick()
				o.run(context.Background(), st)
				o.ret = tick()
			}
			close(p.resume)
		case <-time.After(2 * time.Second):
		}
		wg.Wait()
		overlap = true
	} else {
		start := make(chan struct{})
		for t, prog := range progs {
			wg.Add(1)
			go func(t int, prog []*kvOp) {
				defer wg.Done()
				g := goid()
				lastVer := map[string]string{}
				<-start
				for i, o := range prog {
					if o.kind == "cas" && o.ver == "" {
						o.ver = lastVer[o.key]
						if o.ver == "" {
							o.ver = "never-issued"
						}
					}
					if (i+t)%3 == 0 {
						time.Sleep(time.Duration((i*7+t*13)%40) * time.Microsecond)
					}
					secMu.Lock()
					n0 := len(secBy[g])
					secMu.Unlock()
					o.inv = tick()
					o.run(context.Background(), st)
					o.ret = tick()
					secMu.Lock()
					secs := secBy[g][n0:]
					o.nsec = len(secs)
					if len(secs) > 0 {
						o.sec = secs[0]
					}
					secMu.Unlock()
					switch {
					case o.errc == "" && o.newVer != "":
						lastVer[o.key] = o.newVer
					case o.errc == "" && o.kind == "get":
						lastVer[o.key] = o.rec[1]
					case o.errc == "ErrExist" && o.newVer != "":
						lastVer[o.key] = o.newVer
					}
				}
			}(t, prog)
		}
		close(start)
		wg.Wait()
	}
	var all []*kvOp
	for _, p := range progs {
		all = append(all, p...)
	}
	// non-trivial: >= 2 operations on one key overlapped in real time and at least one was a write
	for i, a := range all {
		for _, b := range all[i+1:] {
			if a.thread != b.thread && a.key == b.key && a.key != "" && a.inv < b.ret && b.inv < a.ret &&
				(a.kind != "get" || b.kind != "get") {
				overlap = true
			}
		}
	}
	if overlap {
		ctx.R.Nontrivial("overlapping operations on one key, one of them a write")
	}
	// C02 monitors on raw version strings
	issued := map[string]string{}
	for _, o := range all {
		if o.errc == "" && o.newVer != "" && (o.kind == "create" || o.kind == "put" || o.kind == "cas") {
			if prev, dup := issued[o.newVer]; dup {
				ctx.R.Quiet("mon C02-fresh-version", fmt.Sprintf("version %q handed out twice: by %s and by %s %s", o.newVer, prev, o.kind, o.key))
			}
			issued[o.newVer] = o.kind + " " + o.key
		}
		if strings.HasPrefix(o.errc, "otherErr") {
			ctx.R.Quiet("mon C02-documented-outcome", fmt.Sprintf("%s %s returned an undocumented error: %s", o.kind, o.key, o.errc))
		}
	}
	casWins := map[string]int{}
	for _, o := range all {
		if o.kind == "cas" && o.errc == "" {
			casWins[o.key+"@"+o.ver]++
			if casWins[o.key+"@"+o.ver] > 1 {
				ctx.R.Quiet("mon C02-cas-at-most-once", fmt.Sprintf("CasByVersion(%s, version %s) succeeded more than once", o.key, o.ver))
			}
		}
	}
	var order []*kvOp
	if kind == "inmem" {
		// every operation is ONE critical section between its invocation and its response: the order
		// of the sections is the linearization
		for _, o := range all {
			if o.nsec != 1 || !(o.inv < o.sec && o.sec < o.ret) {
				ctx.R.Quiet("mon C02-one-atomic-section", fmt.Sprintf("%s %s: %d critical sections, stamps inv=%d section=%d ret=%d", o.kind, o.key, o.nsec, o.inv, o.sec, o.ret))
			}
		}
		order = append([]*kvOp{}, all...)
		sort.Slice(order, func(i, j int) bool { return order[i].sec < order[j].sec })
		// independent search for ANY witness: decides whether a disagreement is a property violation
		if linearize(all) == nil {
			ctx.R.Quiet("mon C02-linearizable", "no sequential order compatible with real time explains this history: "+describeHistory(all))
		}
	} else {
		order = linearize(all)
		if order == nil {
			ctx.R.Quiet("mon C02-linearizable", "no sequential order compatible with real time explains this history: "+describeHistory(all))
			return
		}
	}
	v := &verNames{}
	for _, o := range order {
		op, out := o.render(v)
		ctx.R.Op(op, out)
	}
}

func genKvProgs(ctx *Ctx, threads, perThread int, withMany bool) [][]*kvOp {
	r := ctx.Rnd
	// key names: plain ones, and names which a backend might be tempted to normalise (leading / doubled slashes,
	// a glob character): never two names that differ ONLY in leading slashes (known finding KF-2 of C03)
	keys := [][]string{{"a", "b"}, {"a", "b"}, {"a", "b"}, {"/cfg/a", "b"}, {"a/b", "a//b"}, {"//x", "*"}}[r.Intn(6)]
	var progs [][]*kvOp
	for t := 0; t < threads; t++ {
		var p []*kvOp
		for i := 0; i < perThread; i++ {
			k := keys[r.Intn(2)]
			if r.Chance(3, 4) {
				k = keys[0]
			}
			o := &kvOp{thread: t, key: k, val: fmt.Sprintf("t%d%d", t, i)}
			switch x := r.Intn(100); {
			case x < 22:
				o.kind = "create"
			case x < 40:
				o.kind = "get"
			case x < 55:
				o.kind = "put"
			case x < 78:
				o.kind = "cas"
			case x < 88:
				o.kind = "delete"
			case x < 92 || !withMany:
				o.kind = "get"
			case x < 97:
				o.kind, o.keys, o.key = "getmany", []string{keys[0], keys[1], keys[0]}, ""
			default:
				o.kind, o.keys, o.key = "putmany", []string{keys[0], keys[1]}, ""
			}
			p = append(p, o)
		}
		progs = append(progs, p)
	}
	return progs
}

// kvVersionBurst: G goroutines write their own keys in barrier-aligned rounds (so that the calls really overlap):
// every successful write must get a version never handed out before — by this storage, to anybody.  (The
// in-memory backend draws its versions under the store's mutex, the Redis backend in the callers' goroutines.)
func kvVersionBurst(ctx *Ctx, kind string, g, rounds int) {
	// (under the call watchdog: a storage whose mutex is never released would hold every writer, and this harness, for ever)
	ctx.R.Enter()
	defer ctx.R.Leave()
	var st kvs.Storage
	if kind == "redis" {
		mr, err := miniredis.Run()
		if err != nil {
			return
		}
		defer mr.Close()
		st = kredis.New(&goredis.Options{Addr: mr.Addr()})
	} else {
		st = inmem.New()
	}
	ctx.R.Case(kind, "burst")
	ctx.R.Nontrivial("barrier-aligned concurrent writes")
	vers := make([][]string, g)
	var wg sync.WaitGroup
	start := make([]chan struct{}, rounds)
	for i := range start {
		start[i] = make(chan struct{})
	}
	arrive := make(chan struct{}, g)
	bg := context.Background()
	for w := 0; w < g; w++ {
		wg.Add(1)
		go func(w int) {
			defer wg.Done()
			defer func() {
				if p := recover(); p != nil {
					vers[w] = append(vers[w], fmt.Sprintf("panic:%v", p))
					// keep the barrier going for the others
					for {
						arrive <- struct{}{}
					}
				}
			}()
			key := fmt.Sprintf("k%d", w)
			for r := 0; r < rounds; r++ {
				arrive <- struct{}{}
				<-start[r]
				rec, err := st.Put(bg, kvs.Record{Key: key, Value: []byte("v")})
				if err == nil {
					vers[w] = append(vers[w], rec.Version)
				}
			}
		}(w)
	}
	ctx.R.Enter()
	for r := 0; r < rounds; r++ {
		for k := 0; k < g; k++ {
			select {
			case <-arrive:
			case <-time.After(10 * time.Second):
				ctx.R.Quiet("mon C02-documented-outcome", "a concurrent Put did not return within 10 s")
				ctx.R.Leave()
				return
			}
		}
		close(start[r])
	}
	wg.Wait()
	ctx.R.Leave()
	seen := map[string]int{}
	dups, total := 0, 0
	example := ""
	for w := range vers {
		for _, v := range vers[w] {
			total++
			if strings.HasPrefix(v, "panic:") {
				ctx.R.Quiet("mon C02-documented-outcome", "a concurrent Put panicked: "+v)
				continue
			}
			if o, dup := seen[v]; dup {
				dups++
				if example == "" {
					example = fmt.Sprintf("version %s was handed to the writers of k%d and k%d", v, o, w)
				}
			}
			seen[v] = w
		}
	}
	ctx.R.Op(fmt.Sprintf("burst %d %d", g, rounds), "ok")
	if dups > 0 {
		ctx.R.Quiet("mon C02-fresh-version", fmt.Sprintf("%d of %d successful concurrent writes got a version that had been handed out before (%s)", dups, total, example))
	}
}

// kvVersionStream: the version source itself (ulidutils.NewID, which both backends call for every write), asked
// millions of times in a row from one goroutine and from four at once: no id may come back that was handed out
// among the last 65536 — a repeat within one millisecond (a wrapped or zero increment of a hand-rolled monotonic
// generator) is far too rare per pair of calls to show in a few thousand writes.
func kvVersionStream(ctx *Ctx, n int) {
	// (under the call watchdog: a storage whose mutex is never released would hold every writer, and this harness, for ever)
	ctx.R.Enter()
	defer ctx.R.Leave()
	ctx.R.Case("inmem", "burst")
	var mu sync.Mutex
	const win = 1 << 16
	ring := make([]string, win)
	seen := make(map[string]int, win)
	pos, dups := 0, 0
	example := ""
	note := func(id string) {
		if at, dup := seen[id]; dup {
			dups++
			if example == "" {
				example = fmt.Sprintf("id %s was handed out again %d calls later", id, pos-at)
			}
		}
		if old := ring[pos%win]; old != "" && seen[old] == pos-win {
			delete(seen, old)
		}
		ring[pos%win] = id
		seen[id] = pos
		pos++
	}
	for i := 0; i < n; i++ {
		note(ulidutils.NewID())
	}
	var wg sync.WaitGroup
	for g := 0; g < 4; g++ {
		wg.Add(1)
		go func() {
			defer wg.Done()
			for i := 0; i < n/8; i++ {
				id := ulidutils.NewID()
				mu.Lock()
				note(id)
				mu.Unlock()
			}
		}()
	}
	wg.Wait()
	ctx.R.Op(fmt.Sprintf("burst 1 %d", pos), "ok")
	ctx.R.Nontrivial("version stream")
	if dups > 0 {
		ctx.R.Quiet("mon C02-fresh-version", fmt.Sprintf("%d of %d consecutive ids of the version source repeat an id handed out among the previous 65536 (%s): a write can get the version the record already has, or had", dups, pos, example))
	}
}

func runKvConc(ctx *Ctx, kind string) {
	if kind == "inmem" {
		if ctx.Thorough {
			kvVersionStream(ctx, 12000000)
		} else {
			kvVersionStream(ctx, 3000000)
		}
	}
	if ctx.Thorough {
		kvVersionBurst(ctx, kind, 8, 6000)
	} else {
		kvVersionBurst(ctx, kind, 8, 1200)
	}
	n := 400
	if ctx.Thorough {
		n = 8000
	}
	if kind == "redis" {
		n /= 4
		// forced WATCH/EXEC races first (D8)
		for i := 0; i < 6; i++ {
			a := []*kvOp{{thread: 0, kind: "put", key: "a", val: "x"}, {thread: 0, kind: "cas", key: "a", val: "ya"}}
			b := []*kvOp{{thread: 1, kind: []string{"put", "delete", "cas"}[i%3], key: "a", val: "zb", ver: "never-issued"}}
			runKvConcCase(ctx, kind, [][]*kvOp{a, b}, true)
		}
	}
	for c := 0; c < n; c++ {
		threads := ctx.Rnd.Range(2, 4)
		per := ctx.Rnd.Range(2, 5)
		runKvConcCase(ctx, kind, genKvProgs(ctx, threads, per, true), false)
	}
}
