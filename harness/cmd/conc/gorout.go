package main

import (
	"bytes"
	"runtime"
	"strconv"
)

// goid returns the id of the calling goroutine (parsed from the stack header).
func goid() int64 {
	var buf [64]byte
	n := runtime.Stack(buf[:], false)
	// "goroutine 123 [running]:"
	f := bytes.Fields(buf[:n])
	if len(f) < 2 {
		return -1
	}
	id, _ := strconv.ParseInt(string(f[1]), 10, 64)
	return id
}

type goState struct {
	state string // running, select, chan receive, ...
	stack string
}

// allGoroutines parses runtime.Stack(all).
func allGoroutines() map[int64]goState {
	buf := make([]byte, 1<<20)
	for {
		n := runtime.Stack(buf, true)
		if n < len(buf) {
			buf = buf[:n]
			break
		}
		buf = make([]byte, 2*len(buf))
	}
	res := map[int64]goState{}
	for _, blk := range bytes.Split(buf, []byte("\n\n")) {
		if !bytes.HasPrefix(blk, []byte("goroutine ")) {
			continue
		}
		nl := bytes.IndexByte(blk, '\n')
		if nl < 0 {
			nl = len(blk)
		}
		hdr := blk[:nl]
		f := bytes.Fields(hdr)
		if len(f) < 3 {
			continue
		}
		id, _ := strconv.ParseInt(string(f[1]), 10, 64)
		lb := bytes.IndexByte(hdr, '[')
		rb := bytes.LastIndexByte(hdr, ']')
		st := ""
		if lb >= 0 && rb > lb {
			st = string(hdr[lb+1 : rb])
		}
		res[id] = goState{state: st, stack: string(blk[nl:])}
	}
	return res
}
