package main

import (
	"github.com/acquirecloud/golibs/timeout"
	"context"
	"errors"
	"fmt"
	"runtime"
	"strings"
	"sync"
	"sync/atomic"
	"time"

	"github.com/acquirecloud/golibs/kvs"
	dist "github.com/acquirecloud/golibs/kvs/distlock"
	"github.com/acquirecloud/golibs/kvs/inmem"
)

func init() { components["lockrt"] = runLockRT }

// rtStore wraps the real in-memory storage (real clock): can fail chosen CasByVersion calls
// (transient error, nothing applied) and counts renewal calls.
type rtStore struct {
	kvs.Storage
	casCalls  int32
	casOK     int32
	waits     int32 // WaitForVersionChange calls entered
	failAt    int32 // fail the k-th CAS (1-based), 0 = none
	failSet   map[int32]bool // fail these CAS calls (1-based ordinals)
	delHold   int32          // hold the ANSWER of the k-th Delete (1-based) after applying it, until delResume is closed
	delCalls  int32
	delReached chan struct{}
	delResume  chan struct{}
	failAfter int32 // "holder death": every CAS from this call number on fails
	lastCas   atomic.Value
	// the k-th CAS (holdAt, 1-based) is kept in flight until `resume` is closed, then fails transiently
	holdAt  int32
	// holdApplied: the held call is APPLIED first and its (successful) answer delivered after `resume`
	holdApplied bool
	// holdLate: the held call is kept back BEFORE it reaches the storage and goes through (applied, answered) after `resume`
	holdLate bool
	reached  chan struct{}
	// honourCtx: like a networked storage, every call is refused with the context's error when its context has ended
	honourCtx  bool
	failCreate int32 // fail this Create call (1-based ordinal) with a storage error, nothing applied
	creates    int32
	resume  chan struct{}
	mu      sync.Mutex
	okBy    map[string][]time.Time // Locker (receiver pointer of supportTimeout) -> times of its successful renewals
}

// renewalOwner finds the receiver of the supportTimeout frame on the calling goroutine's stack: the Locker
// whose renewal chain issued this storage call ("" if the call does not come from a renewal).
func renewalOwner() string {
	buf := make([]byte, 8192)
	n := runtime.Stack(buf, false)
	s := string(buf[:n])
	i := strings.Index(s, ").supportTimeout(")
	if i < 0 {
		return ""
	}
	rest := s[i+len(").supportTimeout("):]
	j := strings.IndexAny(rest, ",)")
	if j < 0 {
		return ""
	}
	return strings.TrimSpace(rest[:j])
}

func (s *rtStore) Delete(ctx context.Context, key string) error {
	n := atomic.AddInt32(&s.delCalls, 1)
	err := s.Storage.Delete(ctx, key)
	if n == atomic.LoadInt32(&s.delHold) && s.delResume != nil {
		close(s.delReached)
		<-s.delResume
	}
	return err
}

func (s *rtStore) WaitForVersionChange(ctx context.Context, key, ver string) error {
	atomic.AddInt32(&s.waits, 1)
	return s.Storage.WaitForVersionChange(ctx, key, ver)
}

// Put: the lock protocol as it is never overwrites a record unconditionally; a renewal that does (instead of its
// compare-and-set) is a renewal call all the same: counted, held and failed like one, so that "the holder died",
// "a renewal is in flight" and "renewal calls after Unlock" mean what they say whatever call the renewal uses.
func (s *rtStore) Put(ctx context.Context, r kvs.Record) (kvs.Record, error) {
	if renewalOwner() == "" {
		return s.Storage.Put(ctx, r) // (not from a renewal: the harness's own writes)
	}
	return s.renewal(func() (kvs.Record, error) { return s.ctxCall(ctx, func() (kvs.Record, error) { return s.Storage.Put(ctx, r) }) })
}

func (s *rtStore) CasByVersion(ctx context.Context, r kvs.Record) (kvs.Record, error) {
	return s.renewal(func() (kvs.Record, error) {
		return s.ctxCall(ctx, func() (kvs.Record, error) { return s.Storage.CasByVersion(ctx, r) })
	})
}

func (s *rtStore) ctxCall(ctx context.Context, call func() (kvs.Record, error)) (kvs.Record, error) {
	if s.honourCtx && ctx.Err() != nil {
		return kvs.Record{}, ctx.Err()
	}
	return call()
}

func (s *rtStore) Create(ctx context.Context, r kvs.Record) (string, error) {
	n := atomic.AddInt32(&s.creates, 1)
	if s.honourCtx && ctx.Err() != nil {
		return "", ctx.Err()
	}
	if n == atomic.LoadInt32(&s.failCreate) {
		return "", errors.New("storage temporarily unavailable (injected, nothing applied)")
	}
	return s.Storage.Create(ctx, r)
}

func (s *rtStore) renewal(call func() (kvs.Record, error)) (kvs.Record, error) {
	n := atomic.AddInt32(&s.casCalls, 1)
	s.lastCas.Store(time.Now())
	owner := renewalOwner()
	if n == atomic.LoadInt32(&s.holdAt) && s.resume != nil && s.holdApplied {
		res, err := call()
		close(s.reached)
		<-s.resume
		return res, err
	}
	if n == atomic.LoadInt32(&s.holdAt) && s.resume != nil && s.holdLate {
		close(s.reached)
		<-s.resume
		return call()
	}
	if n == atomic.LoadInt32(&s.holdAt) && s.resume != nil {
		close(s.reached)
		<-s.resume
		return kvs.Record{}, errors.New("connection reset by peer (injected after the call was held in flight)")
	}
	if n == atomic.LoadInt32(&s.failAt) || s.failSet[n] || (atomic.LoadInt32(&s.failAfter) > 0 && n >= atomic.LoadInt32(&s.failAfter)) {
		return kvs.Record{}, errors.New("storage temporarily unavailable (injected)")
	}
	res, err := call()
	if err == nil {
		atomic.AddInt32(&s.casOK, 1)
		s.mu.Lock()
		if s.okBy == nil {
			s.okBy = map[string][]time.Time{}
		}
		s.okBy[owner] = append(s.okBy[owner], time.Now())
		s.mu.Unlock()
	}
	return res, err
}

type rtResult struct {
	name string
	bad  string // "" = fine
	info string
}

// rtScenario: holder locks, a contender of another provider waits; the holder holds for `hold`
// lease periods; kind ∈ steady | transient | death | unlock-race
func rtScenario(kind string, k int, lease time.Duration) rtResult {
	name := fmt.Sprintf("%s k=%d lease=%v", kind, k, lease)
	st := &rtStore{Storage: inmem.New()}
	if kind == "transient" {
		st.failAt = int32(k)
	}
	ph := dist.NewKvsLockProvider(st, "/rt/")
	pc := dist.NewKvsLockProvider(st, "/rt/")
	dist.VerifSetLease(ph, lease)
	dist.VerifSetLease(pc, lease)
	defer ph.Shutdown()
	defer pc.Shutdown()
	holder := ph.NewLocker("l")
	cont := pc.NewLocker("l")
	holder.Lock()
	t0 := time.Now()
	var holding int32 = 1
	acquired := make(chan time.Duration, 1)
	var wg sync.WaitGroup
	ctx, cancel := context.WithTimeout(context.Background(), 12*lease)
	defer cancel()
	wg.Add(1)
	var overlapAt time.Duration = -1
	go func() {
		defer wg.Done()
		if cont.LockWithCtx(ctx) == nil {
			d := time.Since(t0)
			if atomic.LoadInt32(&holding) == 1 {
				overlapAt = d
			}
			acquired <- d
			cont.Unlock()
		}
	}()
	res := rtResult{name: name}
	switch kind {
	case "steady", "transient":
		time.Sleep(6 * lease)
		if overlapAt >= 0 {
			res.bad = fmt.Sprintf("the contender acquired the lock %v after the holder did, while the holder (alive, storage answering) still held it; renewal calls=%d ok=%d", overlapAt, st.casCalls, st.casOK)
		}
		atomic.StoreInt32(&holding, 0)
		tu := time.Now()
		holder.Unlock()
		select {
		case <-acquired:
			if res.bad == "" && time.Since(tu) > 3*lease {
				res.bad = "after Unlock the waiting contender needed more than 3 lease periods to acquire"
			}
		case <-time.After(3 * lease):
			if res.bad == "" {
				res.bad = "after Unlock the waiting contender did not acquire within 3 lease periods"
			}
		}
		res.info = fmt.Sprintf("renewals=%d ok=%d", st.casCalls, st.casOK)
	case "death":
		// the holder dies at a random phase of the renewal cycle: from now on none of its renewals reaches the storage
		time.Sleep(time.Duration(k) * lease / 7)
		atomic.StoreInt32(&st.failAfter, atomic.LoadInt32(&st.casCalls)+1)
		atomic.StoreInt32(&holding, 0) // a dead holder does not count as holding
		td := time.Now()
		select {
		case <-acquired:
			res.info = fmt.Sprintf("contender acquired %v after the holder's death", time.Since(td).Round(time.Millisecond))
		case <-time.After(3 * lease):
			res.bad = "the holder died (no renewal reaches the storage any more) but the waiting contender did not acquire within 3 lease periods"
		}
	case "unlock-race":
		// Unlock right when a renewal is due: at most one more renewal call may reach the storage, and it must not succeed
		time.Sleep(lease/2 + time.Duration(k-2)*time.Millisecond)
		atomic.StoreInt32(&holding, 0)
		holder.Unlock()
		calls0, ok0 := atomic.LoadInt32(&st.casCalls), atomic.LoadInt32(&st.casOK)
		<-acquired
		time.Sleep(2 * lease)
		calls1, ok1 := atomic.LoadInt32(&st.casCalls), atomic.LoadInt32(&st.casOK)
		// the contender held only for an instant, so later calls all belong to the first tenure
		if calls1-calls0 > 1 || ok1-ok0 > 0 {
			res.bad = fmt.Sprintf("after Unlock %d renewal calls of the finished tenure reached the storage, %d of them succeeded", calls1-calls0, ok1-ok0)
		}
		res.info = fmt.Sprintf("post-unlock renewal calls=%d ok=%d", calls1-calls0, ok1-ok0)
	}
	cancel()
	wg.Wait()
	return res
}

// rtAdoptScenario: a renewal of holder A is in flight when A unlocks; B acquires; the in-flight call then
// fails transiently.  The chain of A's finished tenure must die out: no renewal issued for Locker A may
// SUCCEED after A's Unlock returned (it would be renewing somebody else's record).
func rtAdoptScenario(lease time.Duration) rtResult {
	res := rtResult{name: fmt.Sprintf("adopt lease=%v", lease)}
	st := &rtStore{Storage: inmem.New(), holdAt: 1, reached: make(chan struct{}), resume: make(chan struct{})}
	pa := dist.NewKvsLockProvider(st, "/rt/")
	pb := dist.NewKvsLockProvider(st, "/rt/")
	dist.VerifSetLease(pa, lease)
	dist.VerifSetLease(pb, lease)
	defer pa.Shutdown()
	defer pb.Shutdown()
	a := pa.NewLocker("l")
	b := pb.NewLocker("l")
	a.Lock()
	select {
	case <-st.reached:
	case <-time.After(3 * lease):
		res.bad = "no renewal was issued within 3 lease periods"
		close(st.resume)
		a.Unlock()
		return res
	}
	a.Unlock()
	tu := time.Now()
	b.Lock()
	close(st.resume) // A's in-flight renewal now fails with a transient error
	time.Sleep(2 * lease)
	owner := fmt.Sprintf("%p", a)
	st.mu.Lock()
	late := 0
	for _, at := range st.okBy[owner] {
		if at.After(tu) {
			late++
		}
	}
	known := len(st.okBy)
	st.mu.Unlock()
	if late > 0 {
		res.bad = fmt.Sprintf("%d renewal(s) issued for the Locker that had ALREADY unlocked succeeded afterwards: the chain of the finished tenure renews the next holder's record", late)
	}
	res.info = fmt.Sprintf("renewals ok per locker: %d lockers seen, late successes of the unlocked one: %d", known, late)
	b.Unlock()
	return res
}

// rtLateRenewalScenario: the holder's renewal call is on its way to the storage (not yet there) when the holder
// unlocks; Unlock completes (record deleted, token back), then the call arrives.  Every holder has unlocked:
// from then on the storage holds no record of the lock and another Locker acquires at once — a renewal that
// arrives late must find nothing to renew and leave nothing behind.
func rtLateRenewalScenario(lease time.Duration) rtResult {
	res := rtResult{name: fmt.Sprintf("late-renewal lease=%v", lease)}
	st := &rtStore{Storage: inmem.New(), holdAt: 1, holdLate: true, reached: make(chan struct{}), resume: make(chan struct{})}
	pa := dist.NewKvsLockProvider(st, "/rt/")
	pt := dist.NewKvsLockProvider(st, "/rt/")
	dist.VerifSetLease(pa, lease)
	dist.VerifSetLease(pt, lease)
	defer pa.Shutdown()
	defer pt.Shutdown()
	a := pa.NewLocker("l")
	third := pt.NewLocker("l").(tryLocker)
	a.Lock()
	select {
	case <-st.reached:
	case <-time.After(3 * lease):
		res.bad = "no renewal was issued within 3 lease periods"
		close(st.resume)
		a.Unlock()
		return res
	}
	a.Unlock()
	close(st.resume) // the renewal call reaches the storage now
	bg := context.Background()
	t0 := time.Now()
	time.Sleep(lease / 5)
	// (one lease and a half: a record resurrected ONCE would lapse within a lease; one that is kept alive does not)
	for time.Since(t0) < lease*3/2 {
		time.Sleep(lease / 10)
	}
	if it, err := st.ListKeys(bg, "*"); err == nil && it.HasNext() {
		res.bad = fmt.Sprintf("every holder has unlocked, yet %v after Unlock the storage holds a record of the lock again: a renewal that arrived after the Unlock re-created it and keeps it alive (renewal calls=%d ok=%d)", time.Since(t0).Round(time.Millisecond), atomic.LoadInt32(&st.casCalls), atomic.LoadInt32(&st.casOK))
	} else if !third.TryLock(bg) {
		res.bad = fmt.Sprintf("every holder has unlocked, yet %v after Unlock another Locker's TryLock fails", time.Since(t0).Round(time.Millisecond))
	} else {
		third.Unlock()
	}
	res.info = fmt.Sprintf("renewal calls=%d ok=%d", atomic.LoadInt32(&st.casCalls), atomic.LoadInt32(&st.casOK))
	return res
}

// rtRelockScenario: a renewal of the holder's first tenure has been APPLIED by the storage but its answer is
// still on the way when the holder unlocks and at once locks again through the SAME Locker; then the answer
// arrives.  The second tenure (holder alive, storage answering) must keep its lease: for three lease periods
// the record exists and a third party cannot acquire.
func rtRelockScenario(lease time.Duration) rtResult {
	res := rtResult{name: fmt.Sprintf("relock lease=%v", lease)}
	st := &rtStore{Storage: inmem.New(), holdAt: 1, holdApplied: true, reached: make(chan struct{}), resume: make(chan struct{})}
	pa := dist.NewKvsLockProvider(st, "/rt/")
	pt := dist.NewKvsLockProvider(st, "/rt/")
	dist.VerifSetLease(pa, lease)
	dist.VerifSetLease(pt, lease)
	defer pa.Shutdown()
	defer pt.Shutdown()
	a := pa.NewLocker("l")
	third := pt.NewLocker("l").(tryLocker)
	a.Lock()
	select {
	case <-st.reached:
	case <-time.After(3 * lease):
		res.bad = "no renewal was issued within 3 lease periods"
		close(st.resume)
		a.Unlock()
		return res
	}
	a.Unlock()
	a.Lock()
	t2 := time.Now()
	close(st.resume) // the answer of the first tenure's renewal arrives now
	bg := context.Background()
	end := t2.Add(3 * lease)
	for time.Now().Before(end) {
		if third.TryLock(bg) {
			res.bad = fmt.Sprintf("a third Locker acquired the lock %v after the holder's second acquisition while it was held (holder alive, storage answering)", time.Since(t2).Round(time.Millisecond))
			third.Unlock()
			break
		}
		if it, err := st.ListKeys(bg, "*"); err == nil && !it.HasNext() {
			res.bad = fmt.Sprintf("the record of the held lock is gone %v after it was acquired (lease %v): the answer of the previous tenure's renewal arrived after the re-lock", time.Since(t2).Round(time.Millisecond), lease)
			break
		}
		time.Sleep(lease / 40)
	}
	res.info = fmt.Sprintf("renewals=%d ok=%d", atomic.LoadInt32(&st.casCalls), atomic.LoadInt32(&st.casOK))
	a.Unlock()
	return res
}

// rtShutdownHeldScenario: the holder's provider is shut down while the lock is held (Shutdown stops new
// acquisitions; it does not release what is held): for three lease periods the record stays and a Locker of
// another provider cannot acquire; after Unlock it can.
func rtShutdownHeldScenario(lease time.Duration) rtResult {
	res := rtResult{name: fmt.Sprintf("shutdown-held lease=%v", lease)}
	st := &rtStore{Storage: inmem.New()}
	pa := dist.NewKvsLockProvider(st, "/rt/")
	pt := dist.NewKvsLockProvider(st, "/rt/")
	dist.VerifSetLease(pa, lease)
	dist.VerifSetLease(pt, lease)
	defer pt.Shutdown()
	a := pa.NewLocker("l")
	third := pt.NewLocker("l").(tryLocker)
	a.Lock()
	t0 := time.Now()
	pa.Shutdown()
	bg := context.Background()
	end := t0.Add(3 * lease)
	for time.Now().Before(end) {
		if third.TryLock(bg) {
			res.bad = fmt.Sprintf("another provider's Locker acquired the lock %v after the holder did, while the holder (alive, storage answering, its provider shut down meanwhile) still held it", time.Since(t0).Round(time.Millisecond))
			third.Unlock()
			break
		}
		if it, err := st.ListKeys(bg, "*"); err == nil && !it.HasNext() {
			res.bad = fmt.Sprintf("the record of the held lock is gone %v after it was acquired (lease %v): renewal stopped when the holder's provider was shut down", time.Since(t0).Round(time.Millisecond), lease)
			break
		}
		time.Sleep(lease / 40)
	}
	res.info = fmt.Sprintf("renewals=%d ok=%d", atomic.LoadInt32(&st.casCalls), atomic.LoadInt32(&st.casOK))
	a.Unlock()
	return res
}

// rtTransientsScenario: isolated transient renewal errors over a long hold (the 2nd, 4th and 6th renewal call fail
// once each, every other one succeeds): the record must be there all the time and a contender stays out.
func rtTransientsScenario(lease time.Duration) rtResult {
	return rtTransientsWith(lease, "transients", map[int32]bool{2: true, 4: true, 6: true})
}

// rtBurstScenario: twice the storage refuses TWO renewal calls in a row (nothing applied) and then answers again
// a quarter of a lease before the record would lapse (retries come every lease/8; the lease is doubled here to
// keep that margin comfortable on a loaded machine): the holder must keep its lock — a bounded number of
// attempts per renewal would let the record lapse although the storage has recovered.
func rtBurstScenario(lease time.Duration) rtResult {
	return rtTransientsWith(2*lease, "burst", map[int32]bool{2: true, 3: true, 6: true, 7: true})
}

func rtTransientsWith(lease time.Duration, name string, fails map[int32]bool) rtResult {
	res := rtResult{name: fmt.Sprintf("%s lease=%v", name, lease)}
	st := &rtStore{Storage: inmem.New(), failSet: fails}
	ph := dist.NewKvsLockProvider(st, "/rt/")
	pt := dist.NewKvsLockProvider(st, "/rt/")
	dist.VerifSetLease(ph, lease)
	dist.VerifSetLease(pt, lease)
	defer ph.Shutdown()
	defer pt.Shutdown()
	h := ph.NewLocker("l")
	third := pt.NewLocker("l").(tryLocker)
	h.Lock()
	t0 := time.Now()
	bg := context.Background()
	for time.Since(t0) < 5*lease && atomic.LoadInt32(&st.casCalls) < 11 {
		if third.TryLock(bg) {
			res.bad = fmt.Sprintf("a contender acquired the lock %v after the holder did, while the holder (alive; transient renewal errors, the storage answering again well within the lease) still held it; renewal calls=%d ok=%d", time.Since(t0).Round(time.Millisecond), atomic.LoadInt32(&st.casCalls), atomic.LoadInt32(&st.casOK))
			third.Unlock()
			break
		}
		if it, err := st.ListKeys(bg, "*"); err == nil && !it.HasNext() {
			res.bad = fmt.Sprintf("the record of the held lock is gone %v after it was acquired (lease %v) after transient renewal errors (the storage answers again well within the lease); renewal calls=%d ok=%d", time.Since(t0).Round(time.Millisecond), lease, atomic.LoadInt32(&st.casCalls), atomic.LoadInt32(&st.casOK))
			break
		}
		time.Sleep(lease / 50)
	}
	res.info = fmt.Sprintf("renewals=%d ok=%d", atomic.LoadInt32(&st.casCalls), atomic.LoadInt32(&st.casOK))
	h.Unlock()
	return res
}

// rtSharedScenario: two goroutines share ONE Locker object.  G1's Unlock is in flight — its Delete has been applied,
// the answer is on its way — when G2 tries the same Locker (TryLock; if that is refused it waits with Lock); then
// the answer arrives and G1's Unlock finishes.  G2 holds for three lease periods: whatever G1's Unlock still did
// must not touch G2's lease.
func rtSharedScenario(lease time.Duration) rtResult {
	res := rtResult{name: fmt.Sprintf("shared lease=%v", lease)}
	st := &rtStore{Storage: inmem.New(), delHold: 1, delReached: make(chan struct{}), delResume: make(chan struct{})}
	pa := dist.NewKvsLockProvider(st, "/rt/")
	pt := dist.NewKvsLockProvider(st, "/rt/")
	dist.VerifSetLease(pa, lease)
	dist.VerifSetLease(pt, lease)
	defer pa.Shutdown()
	defer pt.Shutdown()
	l := pa.NewLocker("l")
	third := pt.NewLocker("l").(tryLocker)
	l.Lock()
	unlocked := make(chan struct{})
	go func() { l.Unlock(); close(unlocked) }()
	select {
	case <-st.delReached:
	case <-time.After(3 * lease):
		res.bad = "Unlock did not reach the storage within 3 lease periods"
		close(st.delResume)
		return res
	}
	got := false
	if tl, ok := l.(tryLocker); ok {
		got = tl.TryLock(context.Background())
	}
	close(st.delResume)
	<-unlocked
	if !got {
		l.Lock()
	}
	t0 := time.Now()
	bg := context.Background()
	for time.Since(t0) < 3*lease {
		if third.TryLock(bg) {
			res.bad = fmt.Sprintf("another provider's Locker acquired the lock %v after the second goroutine of the shared Locker did, while it still held it (its acquisition overlapped the first goroutine's Unlock)", time.Since(t0).Round(time.Millisecond))
			third.Unlock()
			break
		}
		if it, err := st.ListKeys(bg, "*"); err == nil && !it.HasNext() {
			res.bad = fmt.Sprintf("the record of the held lock is gone %v after the second goroutine of the shared Locker acquired it (its acquisition overlapped the first goroutine's Unlock)", time.Since(t0).Round(time.Millisecond))
			break
		}
		time.Sleep(lease / 40)
	}
	res.info = fmt.Sprintf("trylock during unlock=%v renewals=%d", got, atomic.LoadInt32(&st.casCalls))
	l.Unlock()
	return res
}

// rtCrossScenario: two Lockers with DIFFERENT names in one process.  A's renewal is in flight when B acquires its
// own lock and A then unlocks: nothing A does with its timers may touch B's lease — B holds for three lease
// periods, its record stays and a Locker of another provider cannot take B's lock.
func rtCrossScenario(lease time.Duration) rtResult {
	res := rtResult{name: fmt.Sprintf("cross lease=%v", lease)}
	st := &rtStore{Storage: inmem.New(), holdAt: 1, holdApplied: true, reached: make(chan struct{}), resume: make(chan struct{})}
	pa := dist.NewKvsLockProvider(st, "/rt/")
	pt := dist.NewKvsLockProvider(st, "/rt/")
	dist.VerifSetLease(pa, lease)
	dist.VerifSetLease(pt, lease)
	defer pa.Shutdown()
	defer pt.Shutdown()
	a := pa.NewLocker("a")
	b := pa.NewLocker("b")
	third := pt.NewLocker("b").(tryLocker)
	a.Lock()
	select {
	case <-st.reached: // A's first renewal is applied, its answer on the way
	case <-time.After(3 * lease):
		res.bad = "no renewal was issued within 3 lease periods"
		close(st.resume)
		a.Unlock()
		return res
	}
	b.Lock()
	t0 := time.Now()
	a.Unlock()
	close(st.resume)
	bg := context.Background()
	end := t0.Add(3 * lease)
	for time.Now().Before(end) {
		if third.TryLock(bg) {
			res.bad = fmt.Sprintf("another provider's Locker acquired lock b %v after B did, while B (alive, storage answering) still held it — an Unlock of the unrelated lock a overlapped one of a's renewals", time.Since(t0).Round(time.Millisecond))
			third.Unlock()
			break
		}
		if r, err := st.Get(bg, "/rt/b"); err != nil || r.Key == "" {
			res.bad = fmt.Sprintf("the record of the held lock b is gone %v after it was acquired (lease %v): its renewal was disturbed by the Unlock of the unrelated lock a", time.Since(t0).Round(time.Millisecond), lease)
			break
		}
		time.Sleep(lease / 40)
	}
	res.info = fmt.Sprintf("renewals=%d ok=%d", atomic.LoadInt32(&st.casCalls), atomic.LoadInt32(&st.casOK))
	b.Unlock()
	return res
}

// rtCancelHandoffScenario (real in-memory storage): a caller waits in the storage wait behind a holder of another
// Locker; the holder unlocks and the waiter's context is cancelled at the same moment, many times over.
// Whatever the waiter got, afterwards nobody holds: the lock must be acquirable at once and the storage must
// still answer (no call may hang).
func rtCancelHandoffScenario(rounds int) rtResult {
	res := rtResult{name: fmt.Sprintf("cancel-at-handoff rounds=%d", rounds)}
	st := &rtStore{Storage: inmem.New()}
	pa := dist.NewKvsLockProvider(st, "/rt/")
	pb := dist.NewKvsLockProvider(st, "/rt/")
	pt := dist.NewKvsLockProvider(st, "/rt/")
	defer pa.Shutdown()
	defer pb.Shutdown()
	defer pt.Shutdown()
	a := pa.NewLocker("l")
	b := pb.NewLocker("l")
	third := pt.NewLocker("l").(tryLocker)
	within := func(d time.Duration, f func()) bool {
		done := make(chan struct{})
		go func() { f(); close(done) }()
		select {
		case <-done:
			return true
		case <-time.After(d):
			return false
		}
	}
	for i := 0; i < rounds && res.bad == ""; i++ {
		a.Lock()
		ctx, cancel := context.WithCancel(context.Background())
		got := make(chan error, 1)
		go func() { got <- b.LockWithCtx(ctx) }()
		// let B reach the storage wait (its Create has lost against A's record)
		for j := 0; j < 2000 && atomic.LoadInt32(&st.waits) == int32(i) && len(got) == 0; j++ {
			time.Sleep(50 * time.Microsecond)
		}
		var wg sync.WaitGroup
		wg.Add(2)
		go func() { defer wg.Done(); a.Unlock() }()
		go func() { defer wg.Done(); cancel() }()
		if !within(3*time.Second, wg.Wait) {
			res.bad = fmt.Sprintf("round %d: Unlock of the holder did not return within 3 s while the waiter's context was cancelled at the hand-off", i)
			break
		}
		var err error
		select {
		case err = <-got:
		case <-time.After(3 * time.Second):
			res.bad = fmt.Sprintf("round %d: the waiting LockWithCtx neither acquired nor returned its context's error within 3 s", i)
		}
		if res.bad != "" {
			break
		}
		if err == nil {
			b.Unlock()
		}
		ok := false
		if !within(3*time.Second, func() { ok = third.TryLock(context.Background()) }) {
			res.bad = fmt.Sprintf("round %d: nobody holds the lock, but a TryLock of another Locker did not even return within 3 s (a storage call hangs)", i)
		} else if !ok {
			res.bad = fmt.Sprintf("round %d: every holder has unlocked and the waiter returned (%v), but another Locker cannot acquire", i, err)
		} else {
			third.Unlock()
		}
		cancel()
	}
	res.info = fmt.Sprintf("rounds=%d", rounds)
	return res
}

// rtHandoverScenario: the contender waits behind the holder for `waitLeases` lease periods (the holder is
// alive and renewing, or dead from the start), acquires, and then HOLDS for two lease periods: its record must
// be there all the time and nobody else may get the lock — the lease of a lock obtained after a long wait is as
// good as any other.
func rtHandoverScenario(lease time.Duration, dead bool) rtResult {
	name := fmt.Sprintf("handover dead=%v lease=%v", dead, lease)
	res := rtResult{name: name}
	st := &rtStore{Storage: inmem.New()}
	ph := dist.NewKvsLockProvider(st, "/rt/")
	pc := dist.NewKvsLockProvider(st, "/rt/")
	pt := dist.NewKvsLockProvider(st, "/rt/")
	for _, p := range []dist.LockProvider{ph, pc, pt} {
		dist.VerifSetLease(p, lease)
	}
	defer ph.Shutdown()
	defer pc.Shutdown()
	defer pt.Shutdown()
	holder := ph.NewLocker("l")
	cont := pc.NewLocker("l")
	third := pt.NewLocker("l").(tryLocker)
	holder.Lock()
	if dead {
		atomic.StoreInt32(&st.failAfter, 1) // none of the holder's renewals reaches the storage
	}
	got := make(chan struct{})
	go func() { cont.Lock(); close(got) }()
	if !dead {
		time.Sleep(lease * 3 / 2)
		holder.Unlock()
	}
	select {
	case <-got:
	case <-time.After(4 * lease):
		res.bad = "the waiting contender did not acquire within 4 lease periods"
		return res
	}
	atomic.StoreInt32(&st.failAfter, 0)
	// the contender holds: for two lease periods the record exists and the third party cannot acquire
	bg := context.Background()
	end := time.Now().Add(2 * lease)
	for time.Now().Before(end) {
		if third.TryLock(bg) {
			res.bad = "a third Locker acquired the lock while the contender (which obtained it after a long wait) was holding it"
			third.Unlock()
			break
		}
		if it, err := st.ListKeys(bg, "*"); err == nil && !it.HasNext() {
			res.bad = "the lock is held (obtained after a long wait) but its record is gone"
			break
		}
		time.Sleep(lease / 40)
	}
	cont.Unlock()
	return res
}

// rtDeadHolderQueueScenario: the holder dies (none of its renewals reaches the storage); TWO callers of other
// providers wait for the lock in the storage, the one that arrived first gives up (its context is cancelled) a
// quarter of a lease later.  The record lapses one lease after it was written and the remaining waiter must then
// acquire — whatever the storage keeps per key for its waiters, a waiter that leaves must not take the others'
// wake-up with it.
func rtDeadHolderQueueScenario(lease time.Duration) rtResult {
	res := rtResult{name: fmt.Sprintf("dead-holder-queue lease=%v", lease)}
	st := &rtStore{Storage: inmem.New()}
	ph := dist.NewKvsLockProvider(st, "/rt/")
	pb := dist.NewKvsLockProvider(st, "/rt/")
	pc := dist.NewKvsLockProvider(st, "/rt/")
	for _, p := range []dist.LockProvider{ph, pb, pc} {
		dist.VerifSetLease(p, lease)
	}
	defer ph.Shutdown()
	defer pb.Shutdown()
	defer pc.Shutdown()
	holder, b, c := ph.NewLocker("l"), pb.NewLocker("l"), pc.NewLocker("l")
	holder.Lock()
	t0 := time.Now()
	atomic.StoreInt32(&st.failAfter, 1)
	waitFor := func(n int32) {
		for j := 0; j < 4000 && atomic.LoadInt32(&st.waits) < n; j++ {
			time.Sleep(50 * time.Microsecond)
		}
	}
	bctx, cancelB := context.WithCancel(context.Background())
	bDone := make(chan error, 1)
	go func() { bDone <- b.LockWithCtx(bctx) }()
	waitFor(1)
	got := make(chan struct{})
	go func() { c.Lock(); close(got) }()
	waitFor(2)
	time.Sleep(lease / 4)
	cancelB()
	select {
	case err := <-bDone:
		if err == nil {
			res.bad = "the caller whose context was cancelled a quarter of a lease after the holder acquired reports success"
			b.Unlock()
		}
	case <-time.After(2 * lease):
		res.bad = "the cancelled caller did not return within 2 lease periods"
	}
	select {
	case <-got:
		if d := time.Since(t0); d < lease*9/10 && res.bad == "" {
			res.bad = fmt.Sprintf("the second waiter acquired %v after the (dead) holder did: before the lease of %v had run out", d.Round(time.Millisecond), lease)
		}
		res.info = fmt.Sprintf("second waiter acquired %v after the holder", time.Since(t0).Round(time.Millisecond))
		c.Unlock()
	case <-time.After(3 * lease):
		if res.bad == "" {
			res.bad = fmt.Sprintf("the holder died; of two waiting callers the first gave up after %v; the other one had not acquired %v after the holder did (lease %v): the record's lapse never reached it", lease/4, time.Since(t0).Round(time.Millisecond), lease)
		}
	}
	atomic.StoreInt32(&st.failAfter, 0)
	return res
}

// rtForeignTimerScenario: the process-wide timeout dispatcher already sleeps towards a DISTANT timer of somebody
// else (an hour ahead) when the lock is acquired, and nothing else touches the dispatcher while the lock is held:
// the lock's renewal timer (half a lease ahead) must be served all the same — the holder keeps its lock for
// three lease periods, its record stays, a third party cannot acquire.  (Runs alone: any other Call or Cancel in
// the process would wake the dispatcher and hide a missed wake-up.)
func rtForeignTimerScenario(lease time.Duration) rtResult {
	res := rtResult{name: fmt.Sprintf("foreign-timer lease=%v", lease)}
	// (leftover renewal chains of earlier scenarios die out within a lease or so: wait for a quiet dispatcher, then
	// let its pool wind down to nothing — idle workers of earlier scenarios look at the heap every idle period and
	// would serve the renewal timer by accident; their 30 s sleeps are cut short by pokes with a tiny idle period)
	for i := 0; i < 300 && timeout.VerifHeapLen() > 0; i++ {
		time.Sleep(10 * time.Millisecond)
	}
	oldIdle := timeout.VerifSetIdle(5 * time.Millisecond)
	for i := 0; i < 600 && timeout.VerifWatchers() > 0; i++ {
		if i%5 == 0 {
			timeout.Call(func() {}, 0)
		}
		time.Sleep(4 * time.Millisecond)
	}
	timeout.VerifSetIdle(oldIdle)
	left := timeout.VerifHeapLen() + 100*timeout.VerifWatchers()
	far := timeout.Call(func() {}, time.Hour)
	defer far.Cancel()
	time.Sleep(30 * time.Millisecond) // the dispatcher parks towards the distant timer
	st := &rtStore{Storage: inmem.New()}
	ph := dist.NewKvsLockProvider(st, "/rt/")
	pt := dist.NewKvsLockProvider(st, "/rt/")
	dist.VerifSetLease(ph, lease)
	dist.VerifSetLease(pt, lease)
	defer ph.Shutdown()
	defer pt.Shutdown()
	h := ph.NewLocker("l")
	third := pt.NewLocker("l").(tryLocker)
	h.Lock()
	t0 := time.Now()
	bg := context.Background()
	for time.Since(t0) < 3*lease {
		if third.TryLock(bg) {
			res.bad = fmt.Sprintf("a contender acquired the lock %v after the holder did, while the holder (alive, storage answering) still held it: with a distant timer of somebody else pending in the process no renewal was made (renewal calls=%d)", time.Since(t0).Round(time.Millisecond), atomic.LoadInt32(&st.casCalls))
			third.Unlock()
			break
		}
		if it, err := st.ListKeys(bg, "*"); err == nil && !it.HasNext() {
			res.bad = fmt.Sprintf("the record of the held lock is gone %v after it was acquired (lease %v): with a distant timer of somebody else pending in the process no renewal was made (renewal calls=%d)", time.Since(t0).Round(time.Millisecond), lease, atomic.LoadInt32(&st.casCalls))
			break
		}
		time.Sleep(lease / 10) // (only reads of the storage: nothing here touches the dispatcher)
	}
	res.info = fmt.Sprintf("renewals=%d ok=%d (pending timers + 100 x workers left over from earlier scenarios at the start: %d)", atomic.LoadInt32(&st.casCalls), atomic.LoadInt32(&st.casOK), left)
	h.Unlock()
	return res
}

// rtCtxDoneScenario: the lock is acquired with a context that only bounds the ACQUISITION (LockWithCtx / TryLock);
// that context ends while the lock is held.  The storage refuses calls whose context has ended, as networked
// storages do.  The holder (alive, storage answering) keeps its lock for three lease periods: a renewal must not
// depend on the context the lock was acquired with.
func rtCtxDoneScenario(lease time.Duration) rtResult {
	res := rtResult{name: fmt.Sprintf("ctx-done-after-acquire lease=%v", lease)}
	for _, how := range []string{"LockWithCtx", "TryLock"} {
		st := &rtStore{Storage: inmem.New(), honourCtx: true}
		ph := dist.NewKvsLockProvider(st, "/rt/")
		pt := dist.NewKvsLockProvider(st, "/rt/")
		dist.VerifSetLease(ph, lease)
		dist.VerifSetLease(pt, lease)
		h := ph.NewLocker("l")
		third := pt.NewLocker("l").(tryLocker)
		ctx, cancel := context.WithCancel(context.Background())
		ok := false
		if how == "TryLock" {
			ok = h.(tryLocker).TryLock(ctx)
		} else {
			ok = h.(interface{ LockWithCtx(context.Context) error }).LockWithCtx(ctx) == nil
		}
		cancel()
		if ok {
			t0 := time.Now()
			bg := context.Background()
			for time.Since(t0) < 3*lease && res.bad == "" {
				if third.TryLock(bg) {
					res.bad = fmt.Sprintf("%s: a contender acquired the lock %v after the holder did, while the holder (alive, storage answering) still held it — the context the lock was acquired with had ended (renewal calls=%d ok=%d)", how, time.Since(t0).Round(time.Millisecond), atomic.LoadInt32(&st.casCalls), atomic.LoadInt32(&st.casOK))
					third.Unlock()
				} else if it, err := st.ListKeys(bg, "*"); err == nil && !it.HasNext() {
					res.bad = fmt.Sprintf("%s: the record of the held lock is gone %v after it was acquired (lease %v) — the context the lock was acquired with had ended (renewal calls=%d ok=%d)", how, time.Since(t0).Round(time.Millisecond), lease, atomic.LoadInt32(&st.casCalls), atomic.LoadInt32(&st.casOK))
				}
				time.Sleep(lease / 20)
			}
			h.Unlock()
		} else {
			res.bad = how + " with a live context on a free lock did not acquire"
		}
		res.info += fmt.Sprintf("%s: renewals=%d ok=%d; ", how, atomic.LoadInt32(&st.casCalls), atomic.LoadInt32(&st.casOK))
		ph.Shutdown()
		pt.Shutdown()
		if res.bad != "" {
			break
		}
	}
	return res
}

// rtTryFailureScenario: a TryLock that FAILS — because its context had already ended, or because the storage refused
// the Create with an error — returns false and leaves nothing behind: the same Locker acquires at once afterwards
// (TryLock, then Lock after an Unlock), and so does another Locker.
func rtTryFailureScenario(time.Duration) rtResult {
	res := rtResult{name: "trylock-failure"}
	for _, why := range []string{"context ended", "storage error"} {
		st := &rtStore{Storage: inmem.New(), honourCtx: true}
		if why == "storage error" {
			st.failCreate = 1
		}
		p := dist.NewKvsLockProvider(st, "/rt/")
		l := p.NewLocker("l").(tryLocker)
		ctx, cancel := context.WithCancel(context.Background())
		if why == "context ended" {
			cancel()
		}
		if l.TryLock(ctx) {
			res.bad = fmt.Sprintf("TryLock reports success although its Create failed (%s)", why)
			l.Unlock()
		}
		cancel()
		if res.bad == "" {
			got := make(chan bool, 1)
			go func() { got <- l.TryLock(context.Background()) }()
			select {
			case ok := <-got:
				if !ok {
					res.bad = fmt.Sprintf("a TryLock failed (%s); nobody holds the lock and the storage is empty, yet the SAME Locker's next TryLock fails: the failed attempt kept the Locker's token / counter", why)
				} else {
					l.Unlock()
				}
			case <-time.After(2 * time.Second):
				res.bad = fmt.Sprintf("a TryLock failed (%s); the same Locker's next TryLock did not return within 2 s", why)
			}
		}
		p.Shutdown()
		if res.bad != "" {
			break
		}
	}
	return res
}

// rtGuard runs a real-time scenario under the call watchdog: a scenario that wedges (a Lock / Unlock that never
// returns) ends the run with `mon HANG` instead of hanging the check.
func rtGuard(ctx *Ctx, f func(time.Duration) rtResult) func(time.Duration) rtResult {
	return func(l time.Duration) rtResult {
		ctx.R.Enter()
		defer ctx.R.Leave()
		return f(l)
	}
}

func runLockRT(ctx *Ctx) {
	// FIRST, while the process-wide dispatcher has never run: a distant timer of somebody else is pending when the lock
	// is acquired (later scenarios leave workers and timers behind that would serve the renewal by accident)
	{
		rf := rtGuard(ctx, rtForeignTimerScenario)(300 * time.Millisecond)
		if rf.bad != "" {
			if r2 := rtGuard(ctx, rtForeignTimerScenario)(600 * time.Millisecond); r2.bad == "" {
				ctx.R.Stats.Notes = append(ctx.R.Stats.Notes, "timing flake discarded: "+rf.name+": "+rf.bad)
				rf.bad = ""
			} else {
				rf.bad = r2.bad
			}
		}
		ctx.R.Case("realtime")
		ctx.R.Nontrivial("foreign-timer")
		ctx.R.Op("scenario foreign-timer-1", "ok")
		ctx.R.Comment(rf.name + ": " + rf.info)
		if rf.bad != "" {
			ctx.R.Quiet("mon C05-lease-kept-while-held", rf.name+": "+rf.bad)
			if strings.Contains(rf.bad, "acquired the lock") {
				ctx.R.Quiet("mon C01-at-most-one-holder", rf.name+": "+rf.bad)
			}
		}
	}
	lease := 300 * time.Millisecond
	type sc struct {
		kind string
		k    int
	}
	scs := []sc{{"steady", 0}, {"transient", 1}, {"transient", 2}, {"transient", 3}, {"death", 1}, {"death", 4}, {"unlock-race", 1}, {"unlock-race", 3}}
	if ctx.Thorough {
		for k := 4; k <= 6; k++ {
			scs = append(scs, sc{"transient", k})
		}
		scs = append(scs, sc{"death", 2}, sc{"death", 6}, sc{"unlock-race", 2}, sc{"steady", 1})
	}
	run := func(list []sc, l time.Duration) []rtResult {
		out := make([]rtResult, len(list))
		var wg sync.WaitGroup
		for i, s := range list {
			wg.Add(1)
			go func(i int, s sc) {
				defer wg.Done()
				out[i] = rtGuard(ctx, func(l time.Duration) rtResult { return rtScenario(s.kind, s.k, l) })(l)
			}(i, s)
		}
		wg.Wait()
		return out
	}
	results := run(scs, lease)
	for i, r := range results {
		// timing flake filter: a scenario that fails is run twice more, alone, with a longer lease; a genuine
		// defect in the renewal logic reproduces
		if r.bad != "" {
			again := 0
			for j := 0; j < 2; j++ {
				if rr := rtScenario(scs[i].kind, scs[i].k, 2*lease); rr.bad != "" {
					again++
					r.bad = rr.bad
				}
			}
			if again < 2 {
				ctx.R.Stats.Notes = append(ctx.R.Stats.Notes, "timing flake discarded: "+r.name+": "+r.bad)
				r.bad = ""
			}
		}
		ctx.R.Case("realtime")
		ctx.R.Nontrivial(scs[i].kind)
		ctx.R.Op(fmt.Sprintf("scenario %s-%d", scs[i].kind, scs[i].k), "ok")
		ctx.R.Comment(r.name + ": " + r.info)
		if r.bad != "" {
			ctx.R.Quiet("mon C05-"+map[string]string{"steady": "lease-kept-while-held", "transient": "lease-kept-after-transient-error", "death": "dead-holder-released", "unlock-race": "renewal-dies-after-unlock"}[scs[i].kind], r.name+": "+r.bad)
		}
	}
	rq := rtGuard(ctx, rtDeadHolderQueueScenario)(lease)
	if rq.bad != "" {
		if r2 := rtGuard(ctx, rtDeadHolderQueueScenario)(2 * lease); r2.bad == "" {
			ctx.R.Stats.Notes = append(ctx.R.Stats.Notes, "timing flake discarded: "+rq.name+": "+rq.bad)
			rq.bad = ""
		} else {
			rq.bad = r2.bad
		}
	}
	ctx.R.Case("realtime")
	ctx.R.Nontrivial("dead-holder-queue")
	ctx.R.Op("scenario dead-holder-queue-1", "ok")
	ctx.R.Comment(rq.name + ": " + rq.info)
	if rq.bad != "" {
		ctx.R.Quiet("mon C05-dead-holder-released", rq.name+": "+rq.bad)
		ctx.R.Quiet("mon C04-everyone-served", rq.name+": "+rq.bad)
	}
	for _, dead := range []bool{false, true} {
		rh := rtGuard(ctx, func(l time.Duration) rtResult { return rtHandoverScenario(l, dead) })(lease)
		if rh.bad != "" {
			if r2 := rtGuard(ctx, func(l time.Duration) rtResult { return rtHandoverScenario(l, dead) })(2 * lease); r2.bad == "" {
				ctx.R.Stats.Notes = append(ctx.R.Stats.Notes, "timing flake discarded: "+rh.name+": "+rh.bad)
				rh.bad = ""
			} else {
				rh.bad = r2.bad
			}
		}
		ctx.R.Case("realtime")
		ctx.R.Nontrivial("handover")
		ctx.R.Op(fmt.Sprintf("scenario handover-%v", dead), "ok")
		if rh.bad != "" {
			ctx.R.Quiet("mon C05-lease-kept-while-held", rh.name+": "+rh.bad)
			if strings.Contains(rh.bad, "a third Locker acquired") {
				// … which is two callers inside the lock at once, with every storage call answered and every timer on time
				ctx.R.Quiet("mon C01-at-most-one-holder", rh.name+": "+rh.bad)
			}
		}
	}
	// Unlock while a renewal is in flight + transient failure of that call + a new holder
	ra := rtGuard(ctx, rtAdoptScenario)(lease)
	if ra.bad != "" {
		// not timing dependent in the bad direction, but confirm once with a longer lease like the others
		if rb := rtGuard(ctx, rtAdoptScenario)(2 * lease); rb.bad == "" {
			ctx.R.Stats.Notes = append(ctx.R.Stats.Notes, "timing flake discarded: "+ra.name+": "+ra.bad)
			ra.bad = ""
		}
	}
	rcx := rtGuard(ctx, rtCtxDoneScenario)(lease)
	if rcx.bad != "" {
		if r2 := rtGuard(ctx, rtCtxDoneScenario)(2 * lease); r2.bad == "" {
			ctx.R.Stats.Notes = append(ctx.R.Stats.Notes, "timing flake discarded: "+rcx.name+": "+rcx.bad)
			rcx.bad = ""
		} else {
			rcx.bad = r2.bad
		}
	}
	ctx.R.Case("realtime")
	ctx.R.Nontrivial("ctx-done-after-acquire")
	ctx.R.Op("scenario ctx-done-after-acquire-1", "ok")
	ctx.R.Comment(rcx.name + ": " + rcx.info)
	if rcx.bad != "" {
		ctx.R.Quiet("mon C05-lease-kept-while-held", rcx.name+": "+rcx.bad)
		if strings.Contains(rcx.bad, "acquired the lock") {
			ctx.R.Quiet("mon C01-at-most-one-holder", rcx.name+": "+rcx.bad)
		}
	}
	rtf := rtGuard(ctx, rtTryFailureScenario)(lease)
	ctx.R.Case("realtime")
	ctx.R.Nontrivial("trylock-failure")
	ctx.R.Op("scenario trylock-failure-1", "ok")
	if rtf.bad != "" {
		ctx.R.Quiet("mon C04-no-residue", rtf.name+": "+rtf.bad)
	}
	rl := rtGuard(ctx, rtLateRenewalScenario)(lease)
	if rl.bad != "" {
		if r2 := rtGuard(ctx, rtLateRenewalScenario)(2 * lease); r2.bad == "" {
			ctx.R.Stats.Notes = append(ctx.R.Stats.Notes, "timing flake discarded: "+rl.name+": "+rl.bad)
			rl.bad = ""
		} else {
			rl.bad = r2.bad
		}
	}
	ctx.R.Case("realtime")
	ctx.R.Nontrivial("late-renewal")
	ctx.R.Op("scenario late-renewal-1", "ok")
	ctx.R.Comment(rl.name + ": " + rl.info)
	if rl.bad != "" {
		ctx.R.Quiet("mon C04-no-residue", rl.name+": "+rl.bad)
		ctx.R.Quiet("mon C05-renewal-dies-after-unlock", rl.name+": "+rl.bad)
	}
	// two unrelated locks in one process: an Unlock overlapping a renewal in flight must not touch the other lock's lease
	rx := rtGuard(ctx, rtCrossScenario)(lease)
	if rx.bad != "" {
		if r2 := rtGuard(ctx, rtCrossScenario)(2 * lease); r2.bad == "" {
			ctx.R.Stats.Notes = append(ctx.R.Stats.Notes, "timing flake discarded: "+rx.name+": "+rx.bad)
			rx.bad = ""
		} else {
			rx.bad = r2.bad
		}
	}
	ctx.R.Case("realtime")
	ctx.R.Nontrivial("cross")
	ctx.R.Op("scenario cross-1", "ok")
	ctx.R.Comment(rx.name + ": " + rx.info)
	if rx.bad != "" {
		ctx.R.Quiet("mon C05-lease-kept-while-held", rx.name+": "+rx.bad)
		if strings.Contains(rx.bad, "acquired lock") {
			ctx.R.Quiet("mon C01-at-most-one-holder", rx.name+": "+rx.bad)
		}
	}
	for _, sc := range []struct {
		name string
		f    func(time.Duration) rtResult
	}{{"transients", rtTransientsScenario}, {"burst", rtBurstScenario}, {"shared", rtSharedScenario}} {
		rr := rtGuard(ctx, sc.f)(lease)
		if rr.bad != "" {
			if r2 := rtGuard(ctx, sc.f)(2 * lease); r2.bad == "" {
				ctx.R.Stats.Notes = append(ctx.R.Stats.Notes, "timing flake discarded: "+rr.name+": "+rr.bad)
				rr.bad = ""
			} else {
				rr.bad = r2.bad
			}
		}
		ctx.R.Case("realtime")
		ctx.R.Nontrivial(sc.name)
		ctx.R.Op("scenario "+sc.name+"-1", "ok")
		ctx.R.Comment(rr.name + ": " + rr.info)
		if rr.bad != "" {
			ctx.R.Quiet("mon C05-lease-kept-while-held", rr.name+": "+rr.bad)
			if strings.Contains(rr.bad, "acquired the lock") {
				ctx.R.Quiet("mon C01-at-most-one-holder", rr.name+": "+rr.bad)
			}
		}
	}
	// cancellation exactly at the hand-off, on the real in-memory storage
	// (a round takes well under a millisecond; the window at the hand-off is hit once in a few dozen rounds)
	nr := 400
	if ctx.Thorough {
		nr = 4000
	}
	rc := rtGuard(ctx, func(time.Duration) rtResult { return rtCancelHandoffScenario(nr) })(0)
	ctx.R.Case("realtime")
	ctx.R.Nontrivial("cancel-at-handoff")
	ctx.R.Op("scenario cancel-at-handoff-1", "ok")
	ctx.R.Comment(rc.name + ": " + rc.info)
	if rc.bad != "" {
		ctx.R.Quiet("mon C04-no-stuck-goroutine", rc.name+": "+rc.bad)
	}
	// Shutdown of the holder's provider while the lock is held
	rs := rtGuard(ctx, rtShutdownHeldScenario)(lease)
	if rs.bad != "" {
		if r2 := rtGuard(ctx, rtShutdownHeldScenario)(2 * lease); r2.bad == "" {
			ctx.R.Stats.Notes = append(ctx.R.Stats.Notes, "timing flake discarded: "+rs.name+": "+rs.bad)
			rs.bad = ""
		} else {
			rs.bad = r2.bad
		}
	}
	ctx.R.Case("realtime")
	ctx.R.Nontrivial("shutdown-held")
	ctx.R.Op("scenario shutdown-held-1", "ok")
	ctx.R.Comment(rs.name + ": " + rs.info)
	if rs.bad != "" {
		ctx.R.Quiet("mon C05-lease-kept-while-held", rs.name+": "+rs.bad)
		if strings.Contains(rs.bad, "acquired the lock") {
			ctx.R.Quiet("mon C01-at-most-one-holder", rs.name+": "+rs.bad)
		}
	}
	// Unlock + Lock on the same Locker while the answer of an applied renewal is on the way
	rr := rtGuard(ctx, rtRelockScenario)(lease)
	if rr.bad != "" {
		if r2 := rtGuard(ctx, rtRelockScenario)(2 * lease); r2.bad == "" {
			ctx.R.Stats.Notes = append(ctx.R.Stats.Notes, "timing flake discarded: "+rr.name+": "+rr.bad)
			rr.bad = ""
		} else {
			rr.bad = r2.bad
		}
	}
	ctx.R.Case("realtime")
	ctx.R.Nontrivial("relock")
	ctx.R.Op("scenario relock-1", "ok")
	ctx.R.Comment(rr.name + ": " + rr.info)
	if rr.bad != "" {
		ctx.R.Quiet("mon C05-lease-kept-while-held", rr.name+": "+rr.bad)
		if strings.Contains(rr.bad, "acquired the lock") {
			ctx.R.Quiet("mon C01-at-most-one-holder", rr.name+": "+rr.bad)
		}
	}
	ctx.R.Case("realtime")
	ctx.R.Nontrivial("adopt")
	ctx.R.Op("scenario adopt-1", "ok")
	ctx.R.Comment(ra.name + ": " + ra.info)
	if ra.bad != "" {
		ctx.R.Quiet("mon C05-renewal-dies-after-unlock", ra.name+": "+ra.bad)
	}
}

// ---------------------------------------------------------------------------------------------
// Component "lockloss" (C04, Go-side monitors only): what Unlock leaves behind when the lock record is
// no longer there (the lease was lost while the lock was held — outside the lease assumption of the
// protocol model, in which a holder's record always exists; the model's Unlock step gives the token back
// whether Delete answers ok or ErrNotExist).  The Locker must be usable again afterwards.

func init() { components["lockloss"] = runLockLoss }

type tryLocker interface {
	TryLock(ctx context.Context) bool
	LockWithCtx(ctx context.Context) error
	Lock()
	Unlock()
}

func lockLossScenario(kind string) string {
	st := inmem.New()
	p := dist.NewKvsLockProvider(st, "/loss/")
	defer p.Shutdown()
	l := p.NewLocker("l").(tryLocker)
	bg := context.Background()
	switch kind {
	case "lock":
		l.Lock()
	case "try":
		if !l.TryLock(bg) {
			return "TryLock on a free lock returned false"
		}
	case "ctx":
		if err := l.LockWithCtx(bg); err != nil {
			return "LockWithCtx on a free lock failed: " + err.Error()
		}
	}
	// a second goroutine of the same Locker queues up behind the holder (parked on the local token)
	got := make(chan error, 1)
	cx, cancel := context.WithTimeout(bg, 3*time.Second)
	defer cancel()
	queued := kind != "try"
	if queued {
		go func() { got <- l.LockWithCtx(cx) }()
		time.Sleep(5 * time.Millisecond)
	}
	// the record disappears while the lock is held
	it, err := st.ListKeys(bg, "*")
	if err != nil {
		return "ListKeys failed: " + err.Error()
	}
	n := 0
	for it.HasNext() {
		k, _ := it.Next()
		st.Delete(bg, k)
		n++
	}
	if n != 1 {
		return fmt.Sprintf("expected exactly one lock record while held, found %d", n)
	}
	done := make(chan struct{})
	go func() { l.Unlock(); close(done) }()
	select {
	case <-done:
	case <-time.After(2 * time.Second):
		return "Unlock did not return although the record was already gone"
	}
	if queued {
		if err := <-got; err != nil {
			return "a caller queued on the same Locker was not handed the lock after Unlock (record already gone at Unlock): " + err.Error()
		}
		l.Unlock()
	}
	if !l.TryLock(bg) {
		return "after Unlock (record already gone at Unlock) the same Locker cannot acquire again: TryLock = false on a free lock"
	}
	l.Unlock()
	if it, err := st.ListKeys(bg, "*"); err == nil && it.HasNext() {
		return "a lock record is left although every holder has unlocked"
	}
	return ""
}

// lockNamesScenario: Lockers are identified by (storage, path, name): different names never exclude each
// other, the same name excludes across Locker objects and providers, a name is not confused with a name it
// is a prefix of, and all of it leaves no record behind.
func lockNamesScenario() string {
	st := inmem.New()
	p1 := dist.NewKvsLockProvider(st, "/names/")
	p2 := dist.NewKvsLockProvider(st, "/names/")
	defer p1.Shutdown()
	defer p2.Shutdown()
	bg := context.Background()
	x1 := p1.NewLocker("x").(tryLocker)
	x1b := p1.NewLocker("x").(tryLocker)
	x2 := p2.NewLocker("x").(tryLocker)
	y1 := p1.NewLocker("y").(tryLocker)
	xy := p2.NewLocker("xy").(tryLocker)
	xs := p2.NewLocker("x/").(tryLocker)
	if !x1.TryLock(bg) {
		return "TryLock on a free name failed"
	}
	defer func() { recover() }()
	for name, l := range map[string]tryLocker{"y": y1, "xy": xy, "x/": xs} {
		if !l.TryLock(bg) {
			return fmt.Sprintf("name %q cannot be locked while the DIFFERENT name \"x\" is held", name)
		}
		l.Unlock()
	}
	if x2.TryLock(bg) {
		return "the same name was acquired through another provider while it is held"
	}
	if x1b.TryLock(bg) {
		return "the same name was acquired through a second NewLocker call of the same provider while it is held"
	}
	x1.Unlock()
	if !x2.TryLock(bg) {
		return "after Unlock the name cannot be acquired through the other provider"
	}
	x2.Unlock()
	if it, err := st.ListKeys(bg, "*"); err == nil && it.HasNext() {
		k, _ := it.Next()
		return "a lock record is left although every holder has unlocked: " + k
	}
	return ""
}

func runLockLoss(ctx *Ctx) {
	ctx.R.Case("lockloss")
	ctx.R.Nontrivial("names")
	ctx.R.Op("scenario names", "ok")
	if bad := lockNamesScenario(); bad != "" {
		ctx.R.Quiet("mon C04-names-independent", bad)
	} else {
		ctx.R.Quiet("mon C04-names-independent", "ok")
	}
	for _, kind := range []string{"lock", "try", "ctx"} {
		ctx.R.Case("lockloss")
		ctx.R.Nontrivial(kind)
		ctx.R.Op("scenario lease-lost-then-unlock-"+kind, "ok")
		if bad := lockLossScenario(kind); bad != "" {
			ctx.R.Quiet("mon C04-unlock-always-returns-token", bad)
		} else {
			ctx.R.Quiet("mon C04-unlock-always-returns-token", "ok")
		}
	}
}
