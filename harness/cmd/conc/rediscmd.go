package main

// Component "rediscmd": command-level controlled scheduler for the Redis backend (property C02).
// N client goroutines run KV operations of the REAL kvs/redis client against an in-process miniredis;
// a go-redis hook parks every Redis command (and every MULTI…EXEC block) of every client before it is
// sent; the scheduler releases ONE command at a time, so the order of commands on the server is known.
// Trace lines (replayed by the Lean driver `redistrace` through Model/RedisConc):
//   call t <op>            an operation is invoked by client t
//   cmd t | <name> <reply> client t's next command was executed and answered
//   ret t | <result>       the operation returned
//   tick d | now <n>       (timed cases) the virtual clock of the client AND the server's clock advance by d ms;
//                          only while no client stands between computing a relative TTL and the server applying it
// Expiries are absolute virtual milliseconds (`x<abs>` / `k=v@<abs>`); write commands show their TTL (`px<ttl>`),
// records their stored expiry (`val:ver@<abs>`).
// Versions are canonicalised to the ordinal of the write that stored them (1, 2, …); a version string
// that is written twice is reported by the monitor C02-fresh-version.

import (
	"context"
	"errors"
	"fmt"
	"strings"
	"sync/atomic"
	"time"

	gerrors "github.com/acquirecloud/golibs/errors"
	"github.com/acquirecloud/golibs/kvs"
	kredis "github.com/acquirecloud/golibs/kvs/redis"
	"github.com/alicebob/miniredis/v2"
	goredis "github.com/go-redis/redis/v8"
)

func init() { components["rediscmd"] = runRedisCmd }

type rcTidKey struct{}

type rcEvent struct {
	t     int
	kind  string // gate | after | done
	label string
	kop   *kvOp // done: the operation with its raw results (for the Go-side linearizability search)
}

type rcCase struct {
	ctx     *Ctx
	events  chan rcEvent
	resume  []chan struct{}
	verNum  map[string]int
	nextVer int
	failed  bool
	now     int64 // virtual milliseconds since rcBase (atomic)
	}

func (c *rcCase) ver(s string) int {
	if n, ok := c.verNum[s]; ok {
		return n
	}
	return 0
}

// wrote registers a version string stored by a write command
func (c *rcCase) wrote(s string) int {
	c.nextVer++
	if _, dup := c.verNum[s]; dup {
		c.ctx.R.Quiet("mon C02-fresh-version", fmt.Sprintf("a write stored version %q, which an earlier write had already stored (ordinal %d)", s, c.verNum[s]))
	}
	c.verNum[s] = c.nextVer
	return c.nextVer
}

var rcBase = time.Date(2030, 1, 1, 0, 0, 0, 0, time.UTC)

// (switched on together with the timed Lean model RedisConc)
const rcTimedEnabled = true

// rcRedisSrvModel: the Lean model's server is the Redis server model (deadlines with the 1 ms clamp, exact expiry
// instants, rKey): timed cases then also write expiries that are already over, advance the clock to any instant —
// expiry instants included — and use keys that differ only in leading slashes
const rcRedisSrvModel = true

func rcAbs(t *time.Time) string {
	if t == nil {
		return ""
	}
	return fmt.Sprintf("@%d", t.Sub(rcBase)/time.Millisecond)
}

// rcTTL reads the TTL argument (PX ms / EX s) of a SET / SETNX-style command: " px<ms>" or ""
func rcTTL(args []interface{}) string {
	for i := 3; i+1 < len(args); i++ {
		name, _ := args[i].(string)
		var n int64
		switch v := args[i+1].(type) {
		case int64:
			n = v
		case int:
			n = int64(v)
		default:
			continue
		}
		switch strings.ToLower(name) {
		case "px":
			return fmt.Sprintf(" px%d", n)
		case "ex":
			return fmt.Sprintf(" px%d", n*1000)
		}
	}
	return ""
}

func rcExp(ms int) *time.Time {
	if ms == 0 {
		return nil
	}
	t := rcBase.Add(time.Duration(ms) * time.Millisecond)
	return &t
}

type rcHook struct{ c *rcCase }

var rcGated = map[string]bool{"setnx": true, "get": true, "mget": true, "set": true, "mset": true, "del": true, "watch": true}

func (h rcHook) BeforeProcess(ctx context.Context, cmd goredis.Cmder) (context.Context, error) {
	if t, ok := ctx.Value(rcTidKey{}).(int); ok && rcGated[cmd.Name()] {
		h.c.events <- rcEvent{t: t, kind: "gate", label: cmd.Name()}
		<-h.c.resume[t]
	}
	return ctx, nil
}

func (h rcHook) recOf(x any) string {
	v, ver, exp := kredis.VerifDecodeExp(x)
	if v == "" {
		v = "-"
	}
	return fmt.Sprintf("%s:%d%s", v, h.c.ver(ver), rcAbs(exp))
}

func (h rcHook) AfterProcess(ctx context.Context, cmd goredis.Cmder) error {
	t, ok := ctx.Value(rcTidKey{}).(int)
	if !ok || !rcGated[cmd.Name()] {
		return nil
	}
	c := h.c
	label := cmd.Name()
	if err := cmd.Err(); err != nil && err != goredis.Nil {
		label += " error:" + strings.ReplaceAll(err.Error(), " ", "_")
		c.events <- rcEvent{t: t, kind: "after", label: label}
		return nil
	}
	switch cm := cmd.(type) {
	case *goredis.BoolCmd: // setnx (with an expiry go-redis sends it as SET … PX n NX)
		label = "setnx"
		if cm.Val() {
			_, ver := kredis.VerifDecode(cmd.Args()[2])
			label += fmt.Sprintf(" 1 %d%s", c.wrote(ver), rcTTL(cmd.Args()))
		} else {
			label += " 0"
		}
	case *goredis.StringCmd: // get
		if cm.Err() == goredis.Nil {
			label += " nil"
		} else {
			label += " " + h.recOf(cm.Val())
		}
	case *goredis.SliceCmd: // mget
		var p []string
		for _, v := range cm.Val() {
			if v == nil {
				p = append(p, "nil")
			} else {
				p = append(p, h.recOf(v))
			}
		}
		label += " [" + strings.Join(p, ",") + "]"
	case *goredis.StatusCmd: // set | mset | watch
		switch cmd.Name() {
		case "set":
			_, ver := kredis.VerifDecode(cmd.Args()[2])
			label += fmt.Sprintf(" OK %d%s", c.wrote(ver), rcTTL(cmd.Args()))
		case "mset":
			var p []string
			a := cmd.Args()
			for i := 2; i < len(a); i += 2 {
				_, ver := kredis.VerifDecode(a[i])
				p = append(p, fmt.Sprint(c.wrote(ver)))
			}
			label += " OK " + strings.Join(p, ",")
		default:
			label += " OK"
		}
	case *goredis.IntCmd: // del
		label += fmt.Sprintf(" %d", cm.Val())
	}
	c.events <- rcEvent{t: t, kind: "after", label: label}
	return nil
}

func (h rcHook) BeforeProcessPipeline(ctx context.Context, cmds []goredis.Cmder) (context.Context, error) {
	if t, ok := ctx.Value(rcTidKey{}).(int); ok {
		h.c.events <- rcEvent{t: t, kind: "gate", label: "exec"}
		<-h.c.resume[t]
	}
	return ctx, nil
}

func (h rcHook) AfterProcessPipeline(ctx context.Context, cmds []goredis.Cmder) error {
	t, ok := ctx.Value(rcTidKey{}).(int)
	if !ok {
		return nil
	}
	c := h.c
	label := "exec"
	var names []string
	for _, cm := range cmds {
		names = append(names, cm.Name())
	}
	if strings.Join(names, ",") != "multi,set,exec" {
		label += " shape:" + strings.Join(names, ",")
	} else if err := cmds[1].Err(); err == goredis.TxFailedErr {
		label += " nil"
	} else if err != nil {
		label += " error:" + strings.ReplaceAll(err.Error(), " ", "_")
	} else {
		_, ver := kredis.VerifDecode(cmds[1].Args()[2])
		label += fmt.Sprintf(" ok %d%s", c.wrote(ver), rcTTL(cmds[1].Args()))
	}
	c.events <- rcEvent{t: t, kind: "after", label: label}
	return nil
}

type rcOp struct {
	kind string
	key  string
	keys []string
	val  string
	vals []string
	ver  string // cas: "cur" = the version this client saw last for the key, "stale" = an older one, or a literal
	ttl  int    // timed cases: the write asks for expiry now+ttl (0 = none); exp is fixed when the operation is invoked
	ttls []int  // putmany: per record
	exp  int    // absolute expiry in virtual ms (0 = none)
	exps []int
	}

func (c *rcCase) result(o *rcOp, ver string, rec kvs.Record, recs []*kvs.Record, err error) string {
	val := func(b []byte) string {
		if len(b) == 0 {
			return "-"
		}
		return string(b)
	}
	switch {
	case err == nil:
	case errors.Is(err, gerrors.ErrExist):
		return fmt.Sprintf("errExist %d", c.ver(ver))
	case errors.Is(err, gerrors.ErrNotExist):
		return "errNotExist"
	case errors.Is(err, gerrors.ErrConflict):
		return "errConflict"
	default:
		return "other:" + strings.ReplaceAll(err.Error(), " ", "_")
	}
	switch o.kind {
	case "create", "put", "cas":
		return fmt.Sprintf("okVer %d", c.ver(ver))
	case "get":
		return fmt.Sprintf("rec %s:%d%s", val(rec.Value), c.ver(rec.Version), rcAbs(rec.ExpiresAt))
	case "getmany":
		var p []string
		for _, r := range recs {
			if r == nil {
				p = append(p, "nil")
			} else {
				p = append(p, fmt.Sprintf("%s:%d%s", val(r.Value), c.ver(r.Version), rcAbs(r.ExpiresAt)))
			}
		}
		return "recs [" + strings.Join(p, ",") + "]"
	}
	return "ok"
}

// runRedisCmdCase: progs = the clients' programs; sched = a directed prefix of scheduler choices (k < n: client k
// invokes its next operation; n+k: client k's parked command is released; 2n+d: the clock advances by d ms);
// timed = the scheduler may also advance the clock on its own.
func runRedisCmdCase(ctx *Ctx, progs [][]*rcOp, maxSteps int, sched []int, timed bool) {
	n := len(progs)
	c := &rcCase{ctx: ctx, events: make(chan rcEvent), verNum: map[string]int{}}
	mr, err := miniredis.Run()
	if err != nil {
		panic(err)
	}
	mr.SetTime(rcBase)
	st := kredis.New(&goredis.Options{Addr: mr.Addr()})
	kredis.VerifAddHook(st, rcHook{c})
	kredis.VerifSetClock(func() time.Time { return rcBase.Add(time.Duration(atomic.LoadInt64(&c.now)) * time.Millisecond) })
	defer func() { kredis.VerifClose(st); mr.Close(); kredis.VerifSetClock(nil) }()
	usesTime := timed
	ctx.R.Case(n)
	type start struct {
		o   *rcOp
		ver string
	}
	startCh := make([]chan start, n)
	for t := 0; t < n; t++ {
		c.resume = append(c.resume, make(chan struct{}))
		startCh[t] = make(chan start)
		go func(t int) {
			cx := context.WithValue(context.Background(), rcTidKey{}, t)
			for s := range startCh[t] {
				o := s.o
				var ver string
				var rec kvs.Record
				var recs []*kvs.Record
				var err error
				switch o.kind {
				case "create":
					ver, err = st.Create(cx, kvs.Record{Key: o.key, Value: []byte(o.val), ExpiresAt: rcExp(o.exp)})
				case "get":
					rec, err = st.Get(cx, o.key)
				case "getmany":
					recs, err = st.GetMany(cx, o.keys...)
				case "put":
					rec, err = st.Put(cx, kvs.Record{Key: o.key, Value: []byte(o.val), ExpiresAt: rcExp(o.exp)})
					ver = rec.Version
				case "putmany":
					var rs []kvs.Record
					for i, k := range o.keys {
						r := kvs.Record{Key: k, Value: []byte(o.vals[i])}
						if i < len(o.exps) {
							r.ExpiresAt = rcExp(o.exps[i])
						}
						rs = append(rs, r)
					}
					err = st.PutMany(cx, rs)
				case "cas":
					rec, err = st.CasByVersion(cx, kvs.Record{Key: o.key, Value: []byte(o.val), Version: s.ver, ExpiresAt: rcExp(o.exp)})
					ver = rec.Version
				case "delete":
					err = st.Delete(cx, o.key)
				}
				kop := &kvOp{thread: t, kind: o.kind, key: o.key, keys: o.keys, val: o.val, ver: s.ver, errc: kvcErr(err)}
				switch o.kind {
				case "create", "put", "cas":
					kop.newVer = ver
				case "get":
					kop.rec = [2]string{sv(rec.Value), rec.Version}
				case "getmany":
					for _, r := range recs {
						if r == nil {
							kop.recs = append(kop.recs, [2]string{"nil", ""})
						} else {
							kop.recs = append(kop.recs, [2]string{sv(r.Value), r.Version})
						}
					}
				}
				if o.kind == "putmany" && len(o.vals) > 0 {
					kop.val = o.vals[0]
				}
				c.events <- rcEvent{t: t, kind: "done", label: c.result(o, ver, rec, recs, err), kop: kop}
			}
		}(t)
	}
	defer func() {
		for t := 0; t < n; t++ {
			close(startCh[t])
		}
	}()
	// scheduler
	invAt := make([]int64, n)    // stamp of the current operation's invocation
	var history []*kvOp
	pcIdx := make([]int, n)      // next op of each client
	state := make([]string, n)   // idle | gate
	gateAt := make([]string, n)  // the command a parked client is about to send
	cur := make([]*rcOp, n)      // the operation a client is in the middle of
	for _, pr := range progs {
		for _, o := range pr {
			if o.ttl != 0 || len(o.ttls) > 0 {
				usesTime = true
			}
		}
	}
	lastSeen := map[string]string{} // key -> a version string some client has seen stored (for cas arguments)
	prevSeen := map[string]string{}
	wait := func(t int) (rcEvent, bool) {
		select {
		case e := <-c.events:
			if e.t != t {
				ctx.R.Quiet("mon C02-scheduler-control", fmt.Sprintf("client %d acted while only client %d was released (%s %s)", e.t, t, e.kind, e.label))
				c.failed = true
				return e, false
			}
			return e, true
		case <-time.After(3 * time.Second):
			ctx.R.Quiet("mon C02-no-stuck-client", fmt.Sprintf("client %d neither reached its next command nor returned within 3s", t))
			c.failed = true
			return rcEvent{}, false
		}
	}
	// after a release or a start, the client either parks at its next command or returns
	next := func(t int) {
		e, ok := wait(t)
		if !ok {
			return
		}
		switch e.kind {
		case "gate":
			state[t] = "gate"
			gateAt[t] = e.label
		case "done":
			state[t] = "idle"
			cur[t] = nil
			ctx.R.Op(fmt.Sprintf("ret %d", t), e.label)
			if e.kop != nil {
				e.kop.inv, e.kop.ret = invAt[t], tick()
				history = append(history, e.kop)
				// versions for later CAS arguments come ONLY from what some client has observed
				saw := func(k, ver string) {
					if ver != "" && lastSeen[k] != ver {
						prevSeen[k], lastSeen[k] = lastSeen[k], ver
					}
				}
				switch {
				case e.kop.kind == "get" && e.kop.errc == "":
					saw(e.kop.key, e.kop.rec[1])
				case e.kop.kind == "getmany" && e.kop.errc == "":
					for i, k := range e.kop.keys {
						if i < len(e.kop.recs) && e.kop.recs[i][0] != "nil" {
							saw(k, e.kop.recs[i][1])
						}
					}
				case e.kop.errc == "" || e.kop.errc == "ErrExist":
					saw(e.kop.key, e.kop.newVer)
				}
			}
		}
	}
	raced := false
	for step := 0; step < maxSteps && !c.failed; step++ {
		var choices []int // t = start next op of t; n+t = release t
		for t := 0; t < n; t++ {
			if state[t] == "gate" {
				choices = append(choices, n+t)
			} else if pcIdx[t] < len(progs[t]) {
				choices = append(choices, t)
			}
		}
		if len(choices) == 0 {
			break
		}
		// the clock may advance only while no client stands between computing a relative TTL and the server
		// applying it (parked at SET / SETNX / EXEC), and never up to or past the expiry an operation in
		// progress asks for (the client would then clamp the TTL to 1 ms: outside the model)
		now := int(atomic.LoadInt64(&c.now))
		maxTick := 1 << 30
		for t := 0; t < n; t++ {
			if state[t] == "gate" && (gateAt[t] == "set" || gateAt[t] == "setnx" || gateAt[t] == "exec") {
				maxTick = 0
			}
			if o := cur[t]; o != nil && !rcRedisSrvModel {
				for _, e := range append([]int{o.exp}, o.exps...) {
					if e != 0 && e-now-1 < maxTick {
						maxTick = e - now - 1
					}
				}
			}
		}
		tickOK := func(d int) bool { return d > 0 && d <= maxTick }
		ch := choices[ctx.Rnd.Intn(len(choices))]
		if timed && ctx.Rnd.Chance(1, 6) {
			d := []int{2, 4, 10, 20, 40}[ctx.Rnd.Intn(5)]
			if rcRedisSrvModel {
				d = []int{1, 1, 2, 3, 4, 5, 10, 20, 40}[ctx.Rnd.Intn(9)]
			}
			if tickOK(d) {
				ch = 2*n + d
			}
		}
		// a directed prefix: take the prescribed choice while it is enabled
		if len(sched) > 0 {
			want := sched[0]
			sched = sched[1:]
			for _, x := range choices {
				if x == want {
					ch = want
				}
			}
			if want >= 2*n && tickOK(want-2*n) {
				ch = want
			}
		}
		if ch >= 2*n {
			d := ch - 2*n
			mr.FastForward(time.Duration(d) * time.Millisecond)
			ctx.R.Op(fmt.Sprintf("tick %d", d), fmt.Sprintf("now %d", atomic.AddInt64(&c.now, int64(d))))
			ctx.R.Nontrivial("the clock advanced")
		} else if ch < n {
			t := ch
			o := progs[t][pcIdx[t]]
			pcIdx[t]++
			arg := ""
			text := ""
			// expiries are odd, the clock is always even: no operation ever runs AT an expiry instant (the contract
			// keeps a record through its expiry instant, Redis drops it there: C03's concern, not this one's)
			xs := ""
			if o.ttl != 0 {
				o.exp = now + o.ttl // (a negative ttl: an expiry that is already over)
				if o.exp < 1 {
					o.exp = 1
				}
				xs = fmt.Sprintf(" x%d", o.exp)
			}
			cur[t] = o
			switch o.kind {
			case "create", "put":
				text = fmt.Sprintf("%s %s %s%s", o.kind, o.key, o.val, xs)
			case "get", "delete":
				text = fmt.Sprintf("%s %s", o.kind, o.key)
			case "getmany":
				text = "getmany " + strings.Join(o.keys, ",")
			case "putmany":
				var p []string
				o.exps = nil
				for i, k := range o.keys {
					e := ""
					if i < len(o.ttls) {
						o.exps = append(o.exps, 0)
						if o.ttls[i] != 0 {
							o.exps[i] = now + o.ttls[i]
							if o.exps[i] < 1 {
								o.exps[i] = 1
							}
							e = fmt.Sprintf("@%d", o.exps[i])
						}
					}
					p = append(p, k+"="+o.vals[i]+e)
				}
				text = "putmany " + strings.Join(p, ",")
			case "cas":
				switch o.ver {
				case "cur":
					arg = lastSeen[o.key]
				case "stale":
					arg = prevSeen[o.key]
				}
				if arg == "" {
					arg = "never-issued"
				}
				text = fmt.Sprintf("cas %s %d %s%s", o.key, c.ver(arg), o.val, xs)
			}
			busy := 0
			for u := 0; u < n; u++ {
				if state[u] == "gate" {
					busy++
				}
			}
			if busy > 0 {
				raced = true
			}
			ctx.R.Op(fmt.Sprintf("call %d %s", t, text), "ok")
			invAt[t] = tick()
			startCh[t] <- start{o: o, ver: arg}
			next(t)
		} else {
			t := ch - n
			c.resume[t] <- struct{}{}
			e, ok := wait(t)
			if !ok {
				break
			}
			if e.kind != "after" {
				ctx.R.Quiet("mon C02-scheduler-control", fmt.Sprintf("client %d: expected the reply of its command, got %s %s", t, e.kind, e.label))
				c.failed = true
				break
			}
			ctx.R.Op(fmt.Sprintf("cmd %d", t), e.label)
			next(t)
		}
	}
	// let everything finish
	for guard := 0; guard < 400 && !c.failed; guard++ {
		progress := false
		for t := 0; t < n; t++ {
			if state[t] == "gate" {
				c.resume[t] <- struct{}{}
				e, ok := wait(t)
				if !ok {
					break
				}
				ctx.R.Op(fmt.Sprintf("cmd %d", t), e.label)
				next(t)
				progress = true
			}
		}
		if !progress {
			break
		}
	}
	if c.failed {
		// unblock whoever is parked so that the goroutines can end
		for t := 0; t < n; t++ {
			select {
			case c.resume[t] <- struct{}{}:
			default:
			}
		}
		go func() {
			for range c.events {
			}
		}()
	}
	// the property's own condition on the REAL results, independent of the command-level model: the
	// history (every operation completed) must have a sequential explanation compatible with real time
	allDone := !c.failed
	for t := 0; t < n; t++ {
		if state[t] != "idle" {
			allDone = false
		}
	}
	// (timed cases are left to the command-level replay: the Go-side search knows neither clock nor expiry,
	// and a PutMany with an expiring record is a sequence of Puts, not one atomic write)
	if allDone && !usesTime && len(history) > 0 && len(history) <= 14 && linearize(history) == nil {
		ctx.R.Quiet("mon C02-linearizable", "no sequential order compatible with real time explains this history: "+describeHistory(history))
	}
	if raced {
		ctx.R.Nontrivial("an operation was invoked while another client was in the middle of its commands")
	}
}

func runRedisCmd(ctx *Ctx) {
	r := ctx.Rnd
	cases := 120
	if ctx.Thorough {
		cases = 2500
	}
	keys := []string{"a", "b"}
	for cse := 0; cse < cases; cse++ {
		n := r.Range(2, 4)
		nk := r.Range(1, 2)
		progs := make([][]*rcOp, n)
		val := 0
		nv := func() string { val++; return fmt.Sprintf("v%d", val) }
		for t := 0; t < n; t++ {
			for i := 0; i < r.Range(1, 4); i++ {
				k := keys[r.Intn(nk)]
				switch x := r.Intn(100); {
				case x < 22:
					progs[t] = append(progs[t], &rcOp{kind: "create", key: k, val: nv()})
				case x < 34:
					progs[t] = append(progs[t], &rcOp{kind: "get", key: k})
				case x < 40:
					progs[t] = append(progs[t], &rcOp{kind: "getmany", keys: []string{"a", "b", k}})
				case x < 55:
					progs[t] = append(progs[t], &rcOp{kind: "put", key: k, val: nv()})
				case x < 60:
					v := nv()
					progs[t] = append(progs[t], &rcOp{kind: "putmany", keys: []string{"a", "b"}, vals: []string{v, v}})
				case x < 85:
					progs[t] = append(progs[t], &rcOp{kind: "cas", key: k, val: nv(), ver: []string{"cur", "cur", "cur", "stale"}[r.Intn(4)]})
				default:
					progs[t] = append(progs[t], &rcOp{kind: "delete", key: k})
				}
			}
		}
		var sched []int
		if r.Chance(1, 3) {
			// directed schedules (choice k < n: client k invokes its next operation; n+k: client k's parked command is released)
			put := func() *rcOp { return &rcOp{kind: "put", key: "a", val: nv()} }
			cas := func() *rcOp { return &rcOp{kind: "cas", key: "a", val: nv(), ver: "cur"} }
			del := &rcOp{kind: "delete", key: "a"}
			crt := func() *rcOp { return &rcOp{kind: "create", key: "a", val: nv()} }
			switch r.Intn(6) {
			case 5: // Create A: SETNX finds the key; Delete; A's GET finds nothing; creator B wins; A must now LOSE (ErrExist with B's version)
				progs = [][]*rcOp{{put(), del}, {crt()}, {crt()}}
				sched = []int{0, 3, 1, 4, 0, 3, 4, 2, 5, 4, 4}
			case 0: // Create: SETNX finds the key, the key is deleted, GET finds nothing, the second SETNX wins
				progs = [][]*rcOp{{put(), del}, {crt()}}
				sched = []int{0, 2, 1, 3, 0, 2, 3, 3}
			case 1: // CAS overtaken by a Put between GET and EXEC: starts over, reports ErrConflict
				progs = [][]*rcOp{{put(), cas()}, {put()}}
				sched = []int{0, 2, 0, 2, 2, 1, 3, 2, 2, 2}
			case 2: // … by a Delete: starts over, reports ErrNotExist
				progs = [][]*rcOp{{put(), cas()}, {del}}
				sched = []int{0, 2, 0, 2, 2, 1, 3, 2, 2, 2}
			case 3: // … by Delete + Create (same key, new version): ErrConflict
				progs = [][]*rcOp{{put(), cas()}, {del, crt()}}
				sched = []int{0, 2, 0, 2, 2, 1, 3, 1, 3, 2, 2, 2}
			case 4: // two CAS on the same version race: exactly one wins
				progs = [][]*rcOp{{put(), cas()}, {cas()}}
				sched = []int{0, 2, 0, 1, 2, 3, 2, 3, 2, 3}
			}
			if r.Chance(1, 2) {
				sched = sched[:r.Intn(len(sched)+1)] // random continuation from some point on
			}
		}
		timed := false
		if rcTimedEnabled && len(sched) == 0 && r.Chance(2, 5) {
			// timed case: writes ask for expiries, the scheduler advances the clock between commands
			timed = true
			ttl := func() int {
				if rcRedisSrvModel {
					return []int{0, 0, 0, 1, 2, 3, 4, 7, 15, 31, 101, -1, -3, -20}[r.Intn(14)]
				}
				return []int{0, 0, 3, 7, 15, 31, 101}[r.Intn(7)]
			}
			if rcRedisSrvModel && r.Chance(1, 4) {
				// keys that differ only in leading slashes address ONE record
				for _, pr := range progs {
					for _, o := range pr {
						if o.key == "a" && r.Chance(1, 2) {
							o.key = []string{"/a", "//a"}[r.Intn(2)]
						}
					}
				}
			}
			for _, pr := range progs {
				for _, o := range pr {
					switch o.kind {
					case "create", "put", "cas":
						o.ttl = ttl()
					case "putmany":
						o.ttls = []int{ttl(), ttl()}
						if r.Chance(1, 2) {
							o.vals = []string{o.vals[0], nv()}
						}
					}
				}
			}
			if r.Chance(1, 3) {
				n = 2
				putx := func(t int) *rcOp { return &rcOp{kind: "put", key: "a", val: nv(), ttl: t} }
				get := func() *rcOp { return &rcOp{kind: "get", key: "a"} }
				switch r.Intn(6) {
				case 0: // a record expires between two Gets of another client
					progs = [][]*rcOp{{putx(3)}, {get(), get()}}
					sched = []int{0, 2, 1, 3, 2*n + 4, 1, 3}
				case 1: // Create: SETNX finds the key, the record expires, GET finds nothing, the second SETNX wins
					progs = [][]*rcOp{{putx(3)}, {{kind: "create", key: "a", val: nv(), ttl: 31}}}
					sched = []int{0, 2, 1, 3, 2*n + 4, 3, 3}
				case 2: // CAS: WATCH, the record expires, GET finds nothing: ErrNotExist
					progs = [][]*rcOp{{putx(3), {kind: "cas", key: "a", val: nv(), ver: "cur", ttl: 7}}, {get()}}
					sched = []int{0, 2, 0, 2, 2*n + 4, 2}
				case 3: // PutMany with an expiring record = a sequence of SETs; a Put of the first key lands between them
					progs = [][]*rcOp{{{kind: "putmany", keys: []string{"a", "b"}, vals: []string{nv(), nv()}, ttls: []int{7, 0}}}, {putx(0), get()}}
					sched = []int{0, 2, 1, 3, 2}
				case 4: // … and a CAS watching the second key loses its EXEC to the batch's second SET
					progs = [][]*rcOp{{{kind: "put", key: "b", val: nv()}, {kind: "cas", key: "b", val: nv(), ver: "cur", ttl: 15}},
						{{kind: "putmany", keys: []string{"a", "b"}, vals: []string{nv(), nv()}, ttls: []int{7, 3}}}}
					sched = []int{0, 2, 0, 2, 2, 1, 3, 3, 2, 2, 2}
				case 5: // an expired record is created anew with another expiry; a CAS on the old version loses
					progs = [][]*rcOp{{putx(3), {kind: "create", key: "a", val: nv(), ttl: 15}, get()}, {{kind: "getmany", keys: []string{"a", "b"}}, {kind: "cas", key: "a", val: nv(), ver: "cur"}}}
					sched = []int{0, 2, 1, 3, 2*n + 10, 0, 2, 1, 3, 3}
				}
			}
		}
		if ctx.R.Enough() {
			ctx.R.Comment("several violations recorded already: the remaining cases are skipped")
			break
		}
		runRedisCmdCase(ctx, progs, 60, sched, timed)
	}
}

// ---------------------------------------------------------------------------------------------
// Component "redisttl" (C02, Go-side monitors only): a PutMany whose batch contains an expiring record, with a
// single-key writer of ANOTHER client landing after the k-th Redis command of the batch (every k).  Whatever
// order the two take effect in, a record's value/version and its TTL belong to the SAME write: a record that
// shows the other client's Put (written without expiry) must have no TTL on the server, one that shows the
// batch's write must have one.
func init() { components["redisttl"] = runRedisTTL }

type ttlHook struct {
	after int
	seen  int
	fire  func()
	done  bool
}

func (h *ttlHook) BeforeProcess(ctx context.Context, cmd goredis.Cmder) (context.Context, error) {
	return ctx, nil
}
func (h *ttlHook) AfterProcess(ctx context.Context, cmd goredis.Cmder) error {
	h.tick()
	return nil
}
func (h *ttlHook) BeforeProcessPipeline(ctx context.Context, cmds []goredis.Cmder) (context.Context, error) {
	return ctx, nil
}
func (h *ttlHook) AfterProcessPipeline(ctx context.Context, cmds []goredis.Cmder) error {
	h.tick()
	return nil
}
func (h *ttlHook) tick() {
	h.seen++
	if !h.done && h.seen == h.after {
		h.done = true
		h.fire()
	}
}

// rcStaleFamily: the key holds a record that is PAST the expiry written in it but still present on the server (a
// write whose expiry was already over gets Redis' minimum TTL; clock skew between clients does the same).  Client
// A's Create runs into it; client B's Put (no expiry) lands after A's k-th Redis command (every k).  B's Put is
// the last write in every legal order — if A's Create won, it did so while the key was (by contract) free, i.e.
// before B's Put — so afterwards the key must hold B's record.
func rcStaleFamily(ctx *Ctx) {
	bg := context.Background()
	for after := 1; after <= 4; after++ {
		mr, err := miniredis.Run()
		if err != nil {
			return
		}
		a := kredis.New(&goredis.Options{Addr: mr.Addr()})
		b := kredis.New(&goredis.Options{Addr: mr.Addr()})
		ctx.R.Case("stale", after, 0)
		ctx.R.Nontrivial("a Create meets a record past its written expiry but still on the server, a Put lands inside it")
		past := time.Now().Add(-time.Second)
		b.Put(bg, kvs.Record{Key: "k", Value: []byte("stale"), ExpiresAt: &past})
		var bVer string
		h := &ttlHook{after: after}
		h.fire = func() {
			if r, err := b.Put(bg, kvs.Record{Key: "k", Value: []byte("B")}); err == nil {
				bVer = r.Version
			}
		}
		kredis.VerifAddHook(a, h)
		ctx.R.Enter()
		aVer, aerr := a.Create(bg, kvs.Record{Key: "k", Value: []byte("A")})
		ctx.R.Leave()
		ctx.R.Op(fmt.Sprintf("create-vs-put-on-stale after=%d", after), "ok")
		if bVer != "" {
			cur, gerr := b.Get(bg, "k")
			switch {
			case gerr != nil:
				ctx.R.Quiet("mon C02-linearizable", fmt.Sprintf("client B's Put of key k succeeded inside client A's Create (A: err=%v) and nobody called Delete, yet the key is absent afterwards: %v", aerr, gerr))
			case cur.Version != bVer:
				ctx.R.Quiet("mon C02-linearizable", fmt.Sprintf("client B's Put (version %s) landed after command %d of client A's Create (A: version %q err=%v); it is the last write in every legal order, yet the key now holds value %q version %s: B's successful write was lost", bVer, after, aVer, aerr, cur.Value, cur.Version))
			}
		}
		a.(interface{ Close() error }).Close()
		b.(interface{ Close() error }).Close()
		mr.Close()
	}
}

func runRedisTTL(ctx *Ctx) {
	bg := context.Background()
	rcStaleFamily(ctx)
	for _, other := range []string{"put", "delete-create", "cas"} {
		for after := 1; after <= 4; after++ {
			for _, order := range [][]int{{0, 1}, {1, 0}} {
				mr, err := miniredis.Run()
				if err != nil {
					return
				}
				a := kredis.New(&goredis.Options{Addr: mr.Addr()})
				b := kredis.New(&goredis.Options{Addr: mr.Addr()})
				ctx.R.Case(other, after, order[0])
				ctx.R.Nontrivial("a single-key writer lands inside a PutMany batch with an expiring record")
				first, _ := b.Put(bg, kvs.Record{Key: "k", Value: []byte("old")})
				var otherVer string
				h := &ttlHook{after: after}
				h.fire = func() {
					switch other {
					case "put":
						if r, err := b.Put(bg, kvs.Record{Key: "k", Value: []byte("B")}); err == nil {
							otherVer = r.Version
						}
					case "delete-create":
						b.Delete(bg, "k")
						if v, err := b.Create(bg, kvs.Record{Key: "k", Value: []byte("B")}); err == nil {
							otherVer = v
						}
					case "cas":
						cur, err := b.Get(bg, "k")
						if err == nil {
							if r, err := b.CasByVersion(bg, kvs.Record{Key: "k", Value: []byte("B"), Version: cur.Version}); err == nil {
								otherVer = r.Version
							}
						}
					}
				}
				kredis.VerifAddHook(a, h)
				exp := time.Now().Add(time.Hour)
				recs := []kvs.Record{{Key: "k", Value: []byte("A"), ExpiresAt: &exp}, {Key: "z", Value: []byte("A")}}
				batch := []kvs.Record{recs[order[0]], recs[order[1]]}
				ctx.R.Enter()
				perr := a.PutMany(bg, batch)
				ctx.R.Leave()
				ctx.R.Op(fmt.Sprintf("putmany-vs-%s after=%d", other, after), "ok")
				if perr == nil {
					cur, gerr := b.Get(bg, "k")
					ttl := mr.TTL("/kvs/k")
					switch {
					case gerr != nil:
						ctx.R.Quiet("mon C02-documented-outcome", fmt.Sprintf("after PutMany and a concurrent %s of the same key the record is absent: %v", other, gerr))
					case otherVer != "" && cur.Version == otherVer:
						if ttl != 0 || cur.ExpiresAt != nil {
							ctx.R.Quiet("mon C02-linearizable", fmt.Sprintf("the record shows the other client's %s (version %s, written WITHOUT expiry) but carries a TTL of %v (ExpiresAt %v): the batch's expiry landed on a foreign record — no order of the two writes explains it", other, cur.Version, ttl, cur.ExpiresAt))
						}
					case cur.Version != first.Version:
						if ttl == 0 {
							ctx.R.Quiet("mon C02-linearizable", fmt.Sprintf("the record shows the batch's write (value %q) but has no TTL although it was written with an expiry", cur.Value))
						}
					}
				}
				a.(interface{ Close() error }).Close()
				b.(interface{ Close() error }).Close()
				mr.Close()
			}
		}
	}
}
