package main

import (
	"errors"
	"fmt"
	"sort"
	"strconv"
	"strings"
	"sync"
	"time"

	"github.com/acquirecloud/golibs/container/lru"
)

func init() { components["lruconc"] = runLruConc }

type lcGate struct {
	worker  int
	pk      int
	release chan [2]int // {ok(1)/fail(0), value}
}

type lcWorker struct {
	idx     int
	gid     int64
	start   chan string
	result  chan string
	running bool
	calls   int
	arg     string // the call in progress ("goc <pk>", "rm <pk>", "clr")
	}

type lcCase struct {
	ctx     *Ctx
	cache   *lru.ECache[int, int, int]
	workers []*lcWorker
	mu      sync.Mutex
	secs    []secRec // reuse: gid, site, tbl(= state snapshot)
	flushed int
	gates   []*lcGate // pending create calls
	known   map[*lcGate]bool
	dels    []string
	delsOut int
	nextVal int
	failed  bool
	capacity int
	created  map[string]int // "pk:v" -> count of successful creations
	deleted  map[string]int
	inCreate map[int]int // inner key -> creations in progress (C09 single-flight monitor)
	mod      int
	nontriv  bool
}

func (c *lcCase) km(pk int) int {
	if c.mod == 0 {
		return pk
	}
	return pk % c.mod
}

func (c *lcCase) workerOf(gid int64) *lcWorker {
	for _, w := range c.workers {
		if w.gid == gid {
			return w
		}
	}
	return nil
}

func (c *lcCase) flush() {
	c.mu.Lock()
	recs := append([]secRec{}, c.secs[c.flushed:]...)
	c.flushed = len(c.secs)
	c.mu.Unlock()
	for _, r := range recs {
		w := c.workerOf(r.gid)
		if w == nil {
			continue
		}
		kind := map[string]string{"GetOrCreate#1": "goc1", "GetOrCreate#2": "goc2", "Remove#1": "rm", "Clear#1": "clr"}[r.site]
		if kind == "" {
			c.ctx.R.Quiet("mon C09-known-sections", "unexpected critical section "+r.site)
			c.failed = true
			continue
		}
		c.ctx.R.Op(fmt.Sprintf("sec %d %s", w.idx, kind), "ok")
		c.ctx.R.Op("state "+r.tbl, "ok")
	}
}

func (c *lcCase) flushDels() {
	c.mu.Lock()
	d := append([]string{}, c.dels[c.delsOut:]...)
	c.delsOut = len(c.dels)
	c.mu.Unlock()
	t := "-"
	if len(d) > 0 {
		t = strings.Join(d, ",")
	}
	c.ctx.R.Op("dels "+t, "ok")
}

func (c *lcCase) pendingGates() []*lcGate {
	c.mu.Lock()
	defer c.mu.Unlock()
	return append([]*lcGate{}, c.gates...)
}

// settle: every running worker is at a create gate, blocked on an in-flight channel, or has returned
func (c *lcCase) settle() {
	deadline := time.Now().Add(settleBound)
	for {
		stable := true
		orphan := ""
		var gs map[int64]goState
		for _, w := range c.workers {
			if !w.running {
				continue
			}
			select {
			case r := <-w.result:
				w.running = false
				c.flush()
				c.reportGates()
				c.flushDels()
				c.ctx.R.Op(fmt.Sprintf("ret %d %s", w.idx, r), "ok")
				continue
			default:
			}
			atGate := false
			for _, g := range c.pendingGates() {
				if g.worker == w.idx {
					atGate = true
				}
			}
			if atGate {
				continue
			}
			if gs == nil {
				gs = allGoroutines()
			}
			g := gs[w.gid]
			if !(g.state == "chan receive" && strings.Contains(g.stack, "GetOrCreate")) {
				stable = false
			} else {
				// parked on somebody else's creation: that creation must still be in progress (its creator at the
				// create gate), otherwise nobody is left to release this caller
				var pk int
				if _, err := fmt.Sscanf(w.arg, "goc %d", &pk); err == nil {
					c.mu.Lock()
					inflight := c.inCreate[c.km(pk)]
					c.mu.Unlock()
					if inflight == 0 {
						stable = false
						orphan = fmt.Sprintf("caller %d is parked in GetOrCreate(%d) waiting for another caller's creation, but no creation for that key is in progress any more (it succeeded or failed): nobody will release it", w.idx, pk)
					}
				}
			}
		}
		if stable {
			c.flush()
			c.reportGates()
			return
		}
		if time.Now().After(deadline) {
			if orphan != "" {
				c.ctx.R.Quiet("mon C09-no-stuck-caller", orphan)
			} else {
				c.ctx.R.Quiet("mon C09-no-stuck-caller", "the system did not settle within 10s")
			}
			c.failed = true
			return
		}
		time.Sleep(20 * time.Microsecond)
	}
}

func (c *lcCase) reportGates() {
	// a caller records its critical section BEFORE it reaches the create gate: read the gates first, then
	// flush the sections, then announce the gates
	gs := c.pendingGates()
	c.flush()
	for _, g := range gs {
		if !c.known[g] {
			c.known[g] = true
			c.ctx.R.Op(fmt.Sprintf("begin %d", g.worker), "ok")
		}
	}
}

func runLruConcCase(ctx *Ctx, capacity, mod, nworkers, steps int) {
	c := &lcCase{ctx: ctx, capacity: capacity, mod: mod, known: map[*lcGate]bool{}, nextVal: 100,
		created: map[string]int{}, deleted: map[string]int{}, inCreate: map[int]int{}}
	create := func(pk int) (int, error) {
		g := &lcGate{worker: c.workerOf(goid()).idx, pk: pk, release: make(chan [2]int, 1)}
		c.mu.Lock()
		c.gates = append(c.gates, g)
		c.inCreate[c.km(pk)]++
		if c.inCreate[c.km(pk)] > 1 {
			ctx.R.Quiet("mon C09-single-flight", fmt.Sprintf("%d creations for inner key %d are in progress at the same time", c.inCreate[c.km(pk)], c.km(pk)))
		}
		c.mu.Unlock()
		d := <-g.release
		c.mu.Lock()
		c.inCreate[c.km(pk)]--
		for i, x := range c.gates {
			if x == g {
				c.gates = append(c.gates[:i], c.gates[i+1:]...)
			}
		}
		if d[0] == 1 {
			c.created[fmt.Sprintf("%d:%d", pk, d[1])]++
		}
		c.mu.Unlock()
		if d[0] == 0 {
			return 0, errors.New("create failed")
		}
		return d[1], nil
	}
	onDelete := func(pk, v int) {
		// called under the cache's lock
		c.dels = append(c.dels, fmt.Sprintf("%d:%d", pk, v))
		c.deleted[fmt.Sprintf("%d:%d", pk, v)]++
	}
	var err error
	if mod == 0 {
		c.cache, err = lru.NewECache[int, int, int](capacity, func(pk int) int { return pk }, create, onDelete)
	} else {
		c.cache, err = lru.NewECache[int, int, int](capacity, func(pk int) int { return pk % mod }, create, onDelete)
	}
	if err != nil {
		return
	}
	lru.VerifSectionHook = func(kind, site string, obj any) {
		if kind != "leave" {
			return
		}
		res, infl := lru.VerifStateLocked(c.cache)
		_ = res
		items := lru.VerifItemsLocked(c.cache)
		sort.Ints(infl)
		is := "-"
		if len(items) > 0 {
			is = strings.Join(items, ",")
		}
		fs := "-"
		if len(infl) > 0 {
			p := make([]string, len(infl))
			for i, k := range infl {
				p[i] = strconv.Itoa(k)
			}
			fs = strings.Join(p, ",")
		}
		if n := len(items); n > capacity {
			ctx.R.Quiet("mon C09-size-le-cap", fmt.Sprintf("%d resident values with capacity %d", n, capacity))
		}
		c.mu.Lock()
		c.secs = append(c.secs, secRec{gid: goid(), site: site, tbl: is + " " + fs})
		c.mu.Unlock()
	}
	defer func() { lru.VerifSectionHook = nil }()
	ready := make(chan int64)
	for i := 0; i < nworkers; i++ {
		w := &lcWorker{idx: i, start: make(chan string), result: make(chan string, 1)}
		c.workers = append(c.workers, w)
		go func(w *lcWorker) {
			ready <- goid()
			for op := range w.start {
				f := strings.Fields(op)
				switch f[0] {
				case "goc":
					pk, _ := strconv.Atoi(f[1])
					v, err := c.cache.GetOrCreate(pk)
					if err != nil {
						w.result <- "err"
					} else {
						w.result <- fmt.Sprintf("val %d", v)
					}
				case "rm":
					pk, _ := strconv.Atoi(f[1])
					w.result <- fmt.Sprintf("b %v", c.cache.Remove(pk))
				case "clr":
					w.result <- fmt.Sprintf("num %d", c.cache.Clear())
				}
			}
		}(w)
		w.gid = <-ready
	}
	ctx.R.Case(capacity, mod, nworkers)
	r := ctx.Rnd
	nkeys := r.Range(2, 3)
	act := func() bool {
		type action struct {
			kind string
			w    int
			g    *lcGate
			arg  string
		}
		var as []action
		for _, w := range c.workers {
			if !w.running && w.calls < 4 {
				for k := 1; k <= nkeys; k++ {
					as = append(as, action{kind: "call", w: w.idx, arg: fmt.Sprintf("goc %d", k)})
				}
				as = append(as, action{kind: "call", w: w.idx, arg: fmt.Sprintf("rm %d", r.Range(1, nkeys))})
				if r.Chance(1, 2) {
					as = append(as, action{kind: "call", w: w.idx, arg: "clr"})
				}
			}
		}
		for _, g := range c.pendingGates() {
			as = append(as, action{kind: "rel", g: g, arg: "ok"}, action{kind: "rel", g: g, arg: "ok"}, action{kind: "rel", g: g, arg: "fail"})
		}
		if len(as) == 0 {
			return false
		}
		a := as[r.Intn(len(as))]
		switch a.kind {
		case "call":
			w := c.workers[a.w]
			w.calls++
			w.running = true
			if len(c.pendingGates()) > 0 {
				c.nontriv = true
			}
			ctx.R.Op(fmt.Sprintf("call %d %s", a.w, a.arg), "ok")
			w.arg = a.arg
			w.start <- a.arg
		case "rel":
			if a.arg == "ok" {
				c.nextVal++
				ctx.R.Op(fmt.Sprintf("end %d ok %d", a.g.worker, c.nextVal), "ok")
				a.g.release <- [2]int{1, c.nextVal}
			} else {
				ctx.R.Op(fmt.Sprintf("end %d fail", a.g.worker), "ok")
				a.g.release <- [2]int{0, 0}
			}
			for i := 0; i < 100000; i++ {
				still := false
				for _, g := range c.pendingGates() {
					if g == a.g {
						still = true
					}
				}
				if !still {
					break
				}
				time.Sleep(10 * time.Microsecond)
			}
		}
		c.settle()
		c.flushDels()
		return true
	}
	for i := 0; i < steps && !c.failed; i++ {
		if !act() {
			break
		}
	}
	// drain: release every pending creation, let everybody return, then Clear and balance the books
	for i := 0; i < 200 && !c.failed; i++ {
		gs := c.pendingGates()
		if len(gs) == 0 {
			break
		}
		c.nextVal++
		ctx.R.Op(fmt.Sprintf("end %d ok %d", gs[0].worker, c.nextVal), "ok")
		gs[0].release <- [2]int{1, c.nextVal}
		for j := 0; j < 100000; j++ {
			still := false
			for _, g := range c.pendingGates() {
				if g == gs[0] {
					still = true
				}
			}
			if !still {
				break
			}
			time.Sleep(10 * time.Microsecond)
		}
		c.settle()
		c.flushDels()
	}
	if !c.failed {
		for _, w := range c.workers {
			if !w.running {
				w.running = true
				ctx.R.Op(fmt.Sprintf("call %d clr", w.idx), "ok")
				w.start <- "clr"
				c.settle()
				c.flushDels()
				break
			}
		}
		// C09 accounting monitor on the real callbacks: every value created successfully was deleted exactly once
		c.mu.Lock()
		for k, n := range c.created {
			if c.deleted[k] != n {
				ctx.R.Quiet("mon C09-accounting", fmt.Sprintf("value %s created %d time(s), passed to the delete callback %d time(s) after the final Clear", k, n, c.deleted[k]))
			}
		}
		for k, n := range c.deleted {
			if c.created[k] < n {
				ctx.R.Quiet("mon C09-accounting", fmt.Sprintf("value %s deleted %d time(s) but created %d time(s)", k, n, c.created[k]))
			}
		}
		c.mu.Unlock()
	}
	if c.nontriv {
		ctx.R.Nontrivial("a call was made while another call's creation was in flight")
	}
	for _, w := range c.workers {
		if !w.running {
			close(w.start)
		}
	}
}

func runLruConc(ctx *Ctx) {
	n := 200
	if ctx.Thorough {
		n = 4000
	}
	r := ctx.Rnd
	for c := 0; c < n; c++ {
		if ctx.R.Enough() {
			ctx.R.Comment("several violations recorded already: the remaining cases are skipped")
			break
		}
		runLruConcCase(ctx, r.Range(1, 3), []int{0, 0, 2}[r.Intn(3)], r.Range(2, 4), r.Range(6, 24))
	}
}
