package main

import (
	"math"
	"errors"
	"fmt"
	"io"
	"strconv"
	"strings"

	"github.com/acquirecloud/golibs/container"
	"verifharness/internal/gen"
	gerrors "github.com/acquirecloud/golibs/errors"
)

func init() {
	components["ring"] = runRing
	replayers["ring"] = func(ctx *Ctx, hdr []string, ops []string) {
		capacity, _ := strconv.Atoi(hdr[0])
		var rops []ringOp
		for _, o := range ops {
			w := strings.Fields(o)
			if w[0] == "buf" {
				continue
			}
			ro := ringOp{kind: w[0]}
			if len(w) > 1 {
				ro.arg, _ = strconv.Atoi(w[1])
			}
			rops = append(rops, ro)
		}
		ringRunCase(ctx, capacity, rops, true)
	}
}

type ringOp struct {
	kind string
	arg  int
}

func (o ringOp) String() string {
	switch o.kind {
	case "read", "clear", "len", "cap":
		return o.kind
	}
	return o.kind + " " + strconv.Itoa(o.arg)
}

// ringExec runs one op on the real buffer and renders the result canonically.
func ringExec(ctx *Ctx, rb container.RingBuffer[int], o ringOp) string {
	return guard(func() string {
		switch o.kind {
		case "write":
			err := rb.Write(o.arg)
			if err == nil {
				return "ok"
			}
			if errors.Is(err, gerrors.ErrExhausted) {
				return "ErrExhausted"
			}
			return "other-error"
		case "read":
			v, err := rb.Read()
			if err == nil {
				return fmt.Sprintf("val %d", v)
			}
			if err == io.EOF {
				return "EOF"
			}
			return "other-error"
		case "readN":
			// the destination is a window of a larger scratch array (len < cap): what lies behind its length is
			// not the caller's to fill (only for sane sizes; the huge arguments keep the plain slice)
			var dst []int
			spare := 0
			if o.arg >= 0 && o.arg < 1<<16 {
				spare = 5
				scratch := make([]int, o.arg+spare)
				for i := range scratch {
					scratch[i] = -7777
				}
				dst = scratch[:o.arg]
			} else {
				dst = make([]int, o.arg)
			}
			n := rb.ReadN(dst)
			if n < 0 || n > len(dst) {
				return fmt.Sprintf("bad-count %d", n)
			}
			for _, x := range dst[:len(dst)+spare][len(dst):] {
				if x != -7777 {
					return fmt.Sprintf("wrote-beyond-len %d", n)
				}
			}
			return "vals " + intList(dst[:n])
		case "skip":
			return fmt.Sprintf("num %d", rb.Skip(o.arg))
		case "at":
			return fmt.Sprintf("val %d", rb.At(o.arg))
		case "clear":
			rb.Clear()
			return "ok"
		case "len":
			return fmt.Sprintf("num %d", rb.Len())
		case "cap":
			return fmt.Sprintf("num %d", rb.Cap())
		}
		return "bad-op"
	})
}

func intList(xs []int) string {
	parts := make([]string, len(xs))
	for i, x := range xs {
		parts[i] = strconv.Itoa(x)
	}
	return "[" + strings.Join(parts, ",") + "]"
}

func ringRunCase(ctx *Ctx, capacity int, ops []ringOp, dumpEvery bool) {
	rb := container.NewRingBuffer[int](uint(capacity))
	ctx.R.Case(capacity)
	for i, o := range ops {
		_, r0, w0 := container.VerifRingState(rb)
		out := ringExec(ctx, rb, o)
		ctx.R.Op(o.String(), out)
		buf, r1, w1 := container.VerifRingState(rb)
		if r1 < r0 || w1 < w0 {
			ctx.R.Nontrivial("index-wrapped")
		}
		if (o.kind == "readN" || o.kind == "skip") && r1 < r0 && r1 != 0 {
			ctx.R.Nontrivial("multi-slot-op-spanned-wrap")
		}
		// monitor (C14, last sentence): every slot outside the live window holds the zero value
		if n := len(buf); n > 0 {
			l := rb.Len()
			bad := -1
			for j := l; j < n; j++ {
				if buf[(r1+j)%n] != 0 {
					bad = (r1 + j) % n
				}
			}
			if bad >= 0 {
				ctx.R.Quiet("mon consumed-slots-zero", fmt.Sprintf("slot %d holds %d outside the live window (r=%d len=%d)", bad, buf[bad], r1, l))
			} else if dumpEvery {
				ctx.R.Quiet("mon consumed-slots-zero", "ok")
			}
		}
		if dumpEvery || i == len(ops)-1 {
			ctx.R.Quiet("buf", fmt.Sprintf("buf %s r=%d w=%d", intList(buf), r1, w1))
		}
	}
}

func runRing(ctx *Ctx) {
	// 1. exhaustive: every sequence of length `depth` over the alphabet, capacities 0..4
	depth := 4
	if ctx.Thorough {
		depth = 5
	}
	next := 1
	for capacity := 0; capacity <= 4; capacity++ {
		alpha := []ringOp{{"write", 0}, {"read", 0}, {"readN", 0}, {"readN", 1}, {"readN", 2}, {"readN", capacity + 1},
			{"skip", -1}, {"skip", 0}, {"skip", 1}, {"skip", 2}, {"skip", capacity + 2},
			{"at", -1}, {"at", 0}, {"at", 1}, {"at", capacity}, {"clear", 0}, {"len", 0}}
		if !ctx.Thorough {
			alpha = []ringOp{{"write", 0}, {"read", 0}, {"readN", 1}, {"readN", 2}, {"readN", capacity + 1},
				{"skip", -1}, {"skip", 1}, {"skip", 2}, {"skip", capacity + 2},
				{"at", -1}, {"at", 0}, {"at", capacity}, {"clear", 0}, {"len", 0}}
		}
		// prefix: fill/drain patterns that put r and w at every position, then enumerate
		seq := make([]ringOp, depth)
		var rec func(i int)
		rec = func(i int) {
			if i == depth {
				ops := make([]ringOp, depth)
				copy(ops, seq)
				for j := range ops {
					if ops[j].kind == "write" {
						ops[j].arg = next
						next++
						if next > 99 {
							next = 1
						}
					}
				}
				ringRunCase(ctx, capacity, ops, true)
				return
			}
			for _, o := range alpha {
				seq[i] = o
				rec(i + 1)
			}
		}
		// every rotation offset: pre-ops `write;read` k times shift r and w to position k
		for rot := 0; rot <= capacity; rot++ {
			_ = rot
		}
		rec(0)
		ctx.R.Size(fmt.Sprintf("exhaustive cap=%d depth=%d alphabet=%d", capacity, depth, len(alpha)))
	}
	// 2. rotated starts: prefix of k write/read pairs, then all sequences of depth-1
	for capacity := 1; capacity <= 4; capacity++ {
		for rot := 1; rot <= capacity; rot++ {
			for fill := 0; fill <= capacity; fill++ {
				alpha := []ringOp{{"write", 0}, {"read", 0}, {"readN", capacity + 1}, {"readN", 2}, {"skip", 2}, {"skip", capacity + 2}, {"at", capacity - 1}, {"at", fill}, {"clear", 0}}
				d := 3
				seq := make([]ringOp, d)
				var rec func(i int)
				rec = func(i int) {
					if i == d {
						var ops []ringOp
						for k := 0; k < rot; k++ {
							ops = append(ops, ringOp{"write", 90 + k}, ringOp{"read", 0})
						}
						for k := 0; k < fill; k++ {
							ops = append(ops, ringOp{"write", 10 + k})
						}
						ops = append(ops, seq...)
						for j := range ops {
							if ops[j].kind == "write" && ops[j].arg == 0 {
								ops[j].arg = 50 + j
							}
						}
						ringRunCase(ctx, capacity, ops, true)
						return
					}
					for _, o := range alpha {
						seq[i] = o
						rec(i + 1)
					}
				}
				rec(0)
			}
		}
	}
	// 3. random long sequences, larger capacities (crossing SliceFill's 50-element switch)
	nRandom := 300
	if ctx.Thorough {
		nRandom = 6000
	}
	caps := []int{0, 1, 2, 3, 5, 8, 49, 50, 51, 64, 100, 127, 200}
	for c := 0; c < nRandom; c++ {
		capacity := gen.Pick(ctx.Rnd, caps)
		n := ctx.Rnd.Range(5, 120)
		ops := make([]ringOp, 0, n)
		bias := ctx.Rnd.Intn(3) // 0 balanced, 1 fill-heavy, 2 drain-heavy
		for i := 0; i < n; i++ {
			x := ctx.Rnd.Intn(100)
			wr := 40
			if bias == 1 {
				wr = 65
			} else if bias == 2 {
				wr = 25
			}
			switch {
			case x < wr:
				k := 1
				if ctx.Rnd.Chance(1, 4) {
					k = ctx.Rnd.Range(1, capacity+2)
				}
				for j := 0; j < k; j++ {
					ops = append(ops, ringOp{"write", ctx.Rnd.Range(0, 999)})
				}
			case x < wr+10:
				ops = append(ops, ringOp{"read", 0})
			case x < wr+25:
				ops = append(ops, ringOp{"readN", ringArg(ctx, capacity)})
			case x < wr+40:
				a := ringArg(ctx, capacity)
				if ctx.Rnd.Chance(1, 8) {
					a = -a
				}
				if ctx.Rnd.Chance(1, 10) {
					// counts at the edge of the int range ("skip everything"): index arithmetic must not wrap
					a = []int{math.MaxInt, math.MaxInt - 1, math.MaxInt - capacity, 1 << 62, 1 << 31, math.MinInt, math.MinInt + 1}[ctx.Rnd.Intn(7)]
				}
				ops = append(ops, ringOp{"skip", a})
			case x < wr+50:
				i := ctx.Rnd.Range(-1, capacity+1)
				if ctx.Rnd.Chance(1, 10) {
					i = []int{math.MaxInt, math.MaxInt - capacity, math.MinInt, -capacity - 1, 1 << 40}[ctx.Rnd.Intn(5)]
				}
				ops = append(ops, ringOp{"at", i})
			case x < wr+53:
				ops = append(ops, ringOp{"clear", 0})
			case x < wr+57:
				ops = append(ops, ringOp{"len", 0})
			default:
				ops = append(ops, ringOp{"cap", 0})
			}
		}
		ringRunCase(ctx, capacity, ops, capacity <= 64)
		ctx.R.Size(fmt.Sprintf("random cap=%d", capacity))
	}
}

func ringArg(ctx *Ctx, capacity int) int {
	switch ctx.Rnd.Intn(5) {
	case 0:
		return 0
	case 1:
		return ctx.Rnd.Range(1, 3)
	case 2:
		return ctx.Rnd.Range(1, capacity+1)
	case 3:
		return capacity + ctx.Rnd.Range(0, 3)
	}
	return ctx.Rnd.Range(40, 300)
}
