package main

import (
	"encoding/hex"
	"errors"
	"fmt"
	"os"
	"sort"
	"strconv"
	"strings"
	"unsafe"

	cbytes "github.com/acquirecloud/golibs/container/bytes"
	gerrors "github.com/acquirecloud/golibs/errors"
)

func init() {
	components["blk"] = runBlk
	replayers["blk"] = func(ctx *Ctx, hdr []string, ops []string) {
		bs, _ := strconv.Atoi(hdr[1])
		size, _ := strconv.Atoi(hdr[2])
		var clean []string
		for _, o := range ops {
			if o != "open" && o != "hdr" {
				clean = append(clean, o)
			}
		}
		blkRunCase(ctx, bs, size, hdr[3] == "true", parsePresets(hdr[4]), clean)
	}
}

func parsePresets(s string) map[int]byte {
	m := map[int]byte{}
	if s == "-" || s == "" {
		return m
	}
	for _, p := range strings.Split(s, ",") {
		f := strings.Split(p, ":")
		o, _ := strconv.Atoi(f[0])
		v, _ := strconv.Atoi(f[1])
		m[o] = byte(v)
	}
	return m
}

func fmtPresets(m map[int]byte) string {
	if len(m) == 0 {
		return "-"
	}
	ks := make([]int, 0, len(m))
	for k := range m {
		ks = append(ks, k)
	}
	sort.Ints(ks)
	parts := make([]string, len(ks))
	for i, k := range ks {
		parts[i] = fmt.Sprintf("%d:%d", k, m[k])
	}
	return strings.Join(parts, ",")
}

func blkErr(err error) string {
	switch {
	case errors.Is(err, gerrors.ErrInvalid):
		return "err ErrInvalid"
	case errors.Is(err, gerrors.ErrNotExist):
		return "err ErrNotExist"
	case errors.Is(err, gerrors.ErrExhausted):
		return "err ErrExhausted"
	}
	return "err other:" + err.Error()
}

// probeAllocated opens a fresh allocator on a COPY of the bytes and frees every index: ok <=> allocated.
func probeAllocated(bs int, raw []byte) (map[int]bool, int, error) {
	cp := cbytes.NewInMemBytes(len(raw))
	b0, _ := cp.Buffer(0, len(raw))
	copy(b0, raw)
	b, err := cbytes.NewBlocks(bs, cp, false)
	if err != nil {
		return nil, 0, err
	}
	set := map[int]bool{}
	avail := b.Available()
	for i := 0; i < b.Count(); i++ {
		if b.FreeBlock(i) == nil {
			set[i] = true
		}
	}
	return set, avail, nil
}

func blkRunCase(ctx *Ctx, bs, size int, fit bool, presets map[int]byte, ops []string) {
	page := os.Getpagesize()
	if size > 200000 {
		// too large for the list-based model: Go-side monitors only (lines that the driver skips)
		ctx.R.Case(page, 1, 0, false, "-")
		ctx.R.Comment(fmt.Sprintf("large geometry bs=%d size=%d fit=%v: monitors only", bs, size, fit))
		ctx.R.Branch("large geometry (monitors only)")
		blkQuiet = true
		defer func() { blkQuiet = false }()
	} else {
		ctx.R.Case(page, bs, size, fit, fmtPresets(presets))
	}
	store := cbytes.NewInMemBytes(size)
	var raw []byte
	if size > 0 {
		raw, _ = store.Buffer(0, size)
		for o, v := range presets {
			if o < len(raw) {
				raw[o] = v
			}
		}
	}
	var blocks *cbytes.Blocks
	openOut := guard(func() string {
		b, err := cbytes.NewBlocks(bs, store, fit)
		if err != nil {
			return blkErr(err)
		}
		blocks = b
		return fmt.Sprintf("ok segs=%d avail=%d", b.Segments(), b.Available())
	})
	blkOp(ctx, "open", openOut)
	// C17 monitor: a geometry for which the layout cannot work must be rejected with ErrInvalid
	validGeom := bs > 0 && ((bs < page && bs&(bs-1) == 0) || (bs >= page && bs%page == 0))
	if openOut == "panic" {
		ctx.R.Quiet("mon C17-constructor-no-panic", fmt.Sprintf("NewBlocks(%d, size %d, fit %v) panicked", bs, size, fit))
		return
	}
	if !validGeom && blocks != nil {
		ctx.R.Quiet("mon C17-invalid-geometry-rejected", fmt.Sprintf("NewBlocks(%d, size %d) returned an allocator: segments=%d count=%d", bs, size, blocks.Segments(), blocks.Count()))
		return
	}
	if blocks == nil {
		if validGeom {
			ctx.R.Branch("valid geometry, buffer rejected")
		} else {
			ctx.R.Nontrivial("invalid geometry rejected")
		}
		return
	}
	segSize := (8*bs + 1) * bs
	allocated, _, _ := probeAllocated(bs, raw)
	if len(allocated) > 0 {
		ctx.R.Nontrivial("opened with allocations present")
	}
	ranges := map[int][2]int{} // idx -> data range as observed through Block()
	freedOnce := false
	for _, o := range ops {
		w := strings.Fields(o)
		out := guard(func() string {
			switch w[0] {
			case "arrange":
				idx, err := blocks.ArrangeBlock()
				if err != nil {
					if errors.Is(err, gerrors.ErrExhausted) && len(allocated) != blocks.Count() {
						ctx.R.Quiet("mon C17-exhausted-iff-full", fmt.Sprintf("ErrExhausted with %d of %d blocks allocated", len(allocated), blocks.Count()))
					}
					return blkErr(err)
				}
				if allocated[idx] {
					ctx.R.Quiet("mon C17-no-double-allocation", fmt.Sprintf("index %d handed out while still allocated", idx))
				}
				if idx < 0 || idx >= blocks.Count() {
					ctx.R.Quiet("mon C17-index-in-range", fmt.Sprintf("index %d outside [0,%d)", idx, blocks.Count()))
				}
				if freedOnce {
					ctx.R.Nontrivial("allocation after a free")
				}
				if idx >= 8*bs {
					ctx.R.Nontrivial("segment boundary crossed")
				}
				allocated[idx] = true
				// data range of the block, through the real Block()
				if blk, err := blocks.Block(idx); err == nil && len(blk) > 0 {
					off := int(uintptr(unsafe.Pointer(&blk[0])) - uintptr(unsafe.Pointer(&raw[0])))
					ranges[idx] = [2]int{off, off + len(blk)}
					for j, r := range ranges {
						if j != idx && allocated[j] && off < r[1] && r[0] < off+len(blk) {
							ctx.R.Quiet("mon C17-ranges-disjoint", fmt.Sprintf("blocks %d and %d overlap: [%d,%d) [%d,%d)", idx, j, off, off+len(blk), r[0], r[1]))
						}
					}
					for s := 0; s < blocks.Segments(); s++ {
						if off < s*segSize+bs && s*segSize < off+len(blk) {
							ctx.R.Quiet("mon C17-ranges-disjoint", fmt.Sprintf("block %d [%d,%d) overlaps the header of segment %d", idx, off, off+len(blk), s))
						}
					}
					if off+len(blk) > len(raw) || len(blk) != bs {
						ctx.R.Quiet("mon C17-ranges-disjoint", fmt.Sprintf("block %d range [%d,%d) not a full block inside the buffer", idx, off, off+len(blk)))
					}
					// user data must never disturb the bookkeeping: scribble into the block
					for i := range blk {
						blk[i] = 0xFF
					}
				}
				return fmt.Sprintf("idx %d", idx)
			case "free":
				i, _ := strconv.Atoi(w[1])
				err := blocks.FreeBlock(i)
				if err != nil {
					return blkErr(err)
				}
				delete(allocated, i)
				freedOnce = true
				return "ok"
			case "block":
				i, _ := strconv.Atoi(w[1])
				blk, err := blocks.Block(i)
				if err != nil {
					return blkErr(err)
				}
				off := int(uintptr(unsafe.Pointer(&blk[0])) - uintptr(unsafe.Pointer(&raw[0])))
				return fmt.Sprintf("range %d %d", off, len(blk))
			case "avail":
				return fmt.Sprintf("num %d", blocks.Available())
			case "count":
				return fmt.Sprintf("num %d", blocks.Count())
			case "reopen":
				// a second allocator on a copy of the bytes must see exactly the same allocated set
				set, avail, err := probeAllocated(bs, raw)
				if err != nil {
					ctx.R.Quiet("mon C17-reopen-same-state", "reopen failed: "+err.Error())
					return blkErr(err)
				}
				same := len(set) == len(allocated) && avail == blocks.Available()
				for i := range allocated {
					if !set[i] {
						same = false
					}
				}
				if !same {
					ctx.R.Quiet("mon C17-reopen-same-state", fmt.Sprintf("reopened allocator sees %d allocated / available %d, live one %d / %d", len(set), avail, len(allocated), blocks.Available()))
				}
				if len(allocated) > 0 {
					ctx.R.Nontrivial("reopened with allocations present")
				}
				// continue on a reopened copy
				cp := cbytes.NewInMemBytes(len(raw))
				nb, _ := cp.Buffer(0, len(raw))
				copy(nb, raw)
				b2, err := cbytes.NewBlocks(bs, cp, false)
				if err != nil {
					return blkErr(err)
				}
				blocks, raw, ranges = b2, nb, map[int][2]int{}
				return "ok"
			}
			return "bad-op"
		})
		blkOp(ctx, o, out)
		if out == "panic" {
			ctx.R.Quiet("mon C17-no-panic", "allocator panicked at "+o)
			return
		}
		if blocks.Available() != blocks.Count()-len(allocated) {
			ctx.R.Quiet("mon C17-available-exact", fmt.Sprintf("Available=%d Count=%d allocated=%d", blocks.Available(), blocks.Count(), len(allocated)))
		}
		// headers as seen in the bytes
		var hb []byte
		for s := 0; s < blocks.Segments(); s++ {
			hb = append(hb, raw[s*segSize:s*segSize+bs]...)
		}
		if len(hb) <= 64 && !blkQuiet {
			ctx.R.Quiet("hdr", "hdr "+hex.EncodeToString(hb))
		}
	}
}

var blkQuiet bool

func blkOp(ctx *Ctx, op, out string) {
	if blkQuiet {
		ctx.R.Comment(op + " -> " + out)
		ctx.R.Stats.OpKinds["(large) "+strings.Fields(op)[0]]++
		return
	}
	ctx.R.Op(op, out)
}

func runBlk(ctx *Ctx) {
	r := ctx.Rnd
	page := os.Getpagesize()
	// geometries incl. invalid ones
	for _, bs := range []int{-8, -1, 0, 1, 2, 3, 4, 5, 6, 7, 8, 12, 16, 100, 1024, 2048, 2047, page - 1, page, page + 1, 2 * page, 3*page + 512} {
		for _, size := range []int{0, 1, 9, 20, 34, 40, 1000} {
			for _, fit := range []bool{false, true} {
				blkRunCase(ctx, bs, size, fit, nil, []string{"arrange", "avail", "count"})
			}
		}
		if bs > 0 {
			ss := (8*bs + 1) * bs
			if ss < 1<<26 {
				for _, size := range []int{ss - 1, ss, ss + 1, 2 * ss, 2*ss + 3} {
					for _, fit := range []bool{false, true} {
						blkRunCase(ctx, bs, size, fit, nil, []string{"arrange", "arrange", "free 0", "arrange", "reopen", "avail"})
					}
				}
			}
		}
	}
	// a whole EARLIER segment is freed while a later one still holds allocations, then the store is reopened (every
	// header must be read at open, whatever the earlier ones say): 2..3 segments, every emptied segment, both orders
	for _, bs := range []int{1, 2} {
		per := 8 * bs
		ss := (per + 1) * bs
		for segs := 2; segs <= 3; segs++ {
			for emptied := 0; emptied < segs-1; emptied++ {
				for _, desc := range []bool{false, true} {
					var ops []string
					total := per*(emptied+1) + 1 + (emptied+segs)%3
					for i := 0; i < total; i++ {
						ops = append(ops, "arrange")
					}
					for i := 0; i < per; i++ {
						idx := emptied*per + i
						if desc {
							idx = emptied*per + per - 1 - i
						}
						ops = append(ops, fmt.Sprintf("free %d", idx))
						if i == per-2 || i == per-1 {
							ops = append(ops, "reopen", "avail")
						}
					}
					ops = append(ops, "arrange", "reopen", "avail", "arrange")
					blkRunCase(ctx, bs, segs*ss, true, nil, ops)
				}
			}
		}
	}
	// tiny geometries exhaustively: bs=1 (8 blocks/segment), 1..2 segments, reopen after ops
	depth := 5
	if ctx.Thorough {
		depth = 6
	}
	for _, g := range []struct{ bs, size int }{{1, 9}, {1, 19}, {2, 34}} {
		count := (g.size / ((8*g.bs + 1) * g.bs)) * 8 * g.bs
		alpha := []string{"arrange", "free 0", "free 1", fmt.Sprintf("free %d", count-1), "free 8", "free -1", "block 1", "reopen", "avail"}
		if !ctx.Thorough {
			alpha = []string{"arrange", "free 0", "free 1", fmt.Sprintf("free %d", count-1), "block 1", "reopen"}
		}
		for _, pre := range []map[int]byte{nil, {0: 0xFF}, {0: 0x7F}, {0: 0xFF, 9: 0xFE}} {
			if g.bs != 1 && pre != nil {
				continue
			}
			seq := make([]string, depth)
			var rec func(i int)
			rec = func(i int) {
				if i == depth {
					blkRunCase(ctx, g.bs, g.size, false, pre, append([]string{}, seq...))
					return
				}
				for _, o := range alpha {
					seq[i] = o
					rec(i + 1)
				}
			}
			rec(0)
		}
	}
	// random long runs: fill to exhaustion, free random, refill; several segments; page-size geometry
	n := 60
	if ctx.Thorough {
		n = 600
	}
	for c := 0; c < n; c++ {
		bs := []int{1, 2, 4, 8}[r.Intn(4)]
		segs := r.Range(1, 3)
		ss := (8*bs + 1) * bs
		size := segs*ss + []int{0, 0, 1, ss - 1}[r.Intn(4)]
		count := segs * 8 * bs
		var ops []string
		live := 0
		for i := 0; i < r.Range(20, 300); i++ {
			x := r.Intn(100)
			switch {
			case x < 50 || (live < count && r.Chance(1, 3)):
				ops = append(ops, "arrange")
				live++
			case x < 85:
				ops = append(ops, fmt.Sprintf("free %d", r.Range(-1, count)))
			case x < 90:
				ops = append(ops, fmt.Sprintf("block %d", r.Range(-1, count+1)))
			case x < 95:
				ops = append(ops, "reopen")
			default:
				ops = append(ops, "avail")
			}
		}
		var pre map[int]byte
		if r.Chance(1, 3) {
			pre = map[int]byte{r.Intn(bs): byte(r.U64())}
		}
		blkRunCase(ctx, bs, size, false, pre, ops)
	}
	runBlkSparse(ctx)
	runBlkMM(ctx)
	if ctx.Thorough {
		// one page-size geometry (32769 blocks of 4096 bytes = 128 MiB per segment is too big; use bs=2048: 16385*2048 = 32 MiB)
		var ops []string
		for i := 0; i < 3000; i++ {
			if r.Chance(2, 3) {
				ops = append(ops, "arrange")
			} else {
				ops = append(ops, fmt.Sprintf("free %d", r.Intn(2500)))
			}
		}
		ops = append(ops, "reopen", "avail")
		blkRunCase(ctx, 2048, (8*2048+1)*2048, true, nil, ops)
	}
}
