package main

import (
	"bytes"
	"encoding/hex"
	"fmt"
	"strconv"
	"strings"

	"github.com/acquirecloud/golibs/xbinary"
)

func init() {
	components["xbin"] = runXbin
	replayers["xbin"] = func(ctx *Ctx, hdr []string, ops []string) {
		ctx.R.Case(hdr[0])
		for _, o := range ops {
			xbinExec(ctx, strings.Fields(o))
		}
	}
}

func hx(b []byte) string {
	if len(b) == 0 {
		return "-"
	}
	return hex.EncodeToString(b)
}
func unhx(s string) []byte {
	if s == "-" {
		return []byte{}
	}
	b, _ := hex.DecodeString(s)
	return b
}

type xItem struct {
	kind byte // b h w q u s
	v    uint64
	d    []byte
}

func (it xItem) String() string {
	if it.kind == 's' {
		return "s:" + hx(it.d)
	}
	return fmt.Sprintf("%c:%d", it.kind, it.v)
}
func (it xItem) size() int {
	switch it.kind {
	case 'b':
		return 1
	case 'h':
		return 2
	case 'w':
		return 4
	case 'q':
		return 8
	case 'u':
		return xbinary.WritableUintSize(it.v)
	}
	return xbinary.WritebleBytesSize(it.d)
}
func (it xItem) marshal(buf []byte) (int, error) {
	switch it.kind {
	case 'b':
		return xbinary.MarshalByte(byte(it.v), buf)
	case 'h':
		return xbinary.MarshalUint16(uint16(it.v), buf)
	case 'w':
		return xbinary.MarshalUint32(uint32(it.v), buf)
	case 'q':
		return xbinary.MarshalUint64(it.v, buf)
	case 'u':
		return xbinary.MarshalUint(uint(it.v), buf)
	}
	return xbinary.MarshalBytes(it.d, buf)
}
func xUnmarshal(kind byte, buf []byte) (int, xItem, error) {
	switch kind {
	case 'b':
		n, v, err := xbinary.UnmarshalByte(buf)
		return n, xItem{kind, uint64(v), nil}, err
	case 'h':
		n, v, err := xbinary.UnmarshalUint16(buf)
		return n, xItem{kind, uint64(v), nil}, err
	case 'w':
		n, v, err := xbinary.UnmarshalUint32(buf)
		return n, xItem{kind, uint64(v), nil}, err
	case 'q':
		n, v, err := xbinary.UnmarshalUint64(buf)
		return n, xItem{kind, v, nil}, err
	case 'u':
		n, v, err := xbinary.UnmarshalUint(buf)
		return n, xItem{kind, uint64(v), nil}, err
	}
	n, d, err := xbinary.UnmarshalBytes(buf, false)
	return n, xItem{kind, 0, d}, err
}
func (it xItem) write(ow *xbinary.ObjectsWriter) (int, error) {
	switch it.kind {
	case 'b':
		return ow.WriteByte(byte(it.v))
	case 'h':
		return ow.WriteUint16(uint16(it.v))
	case 'w':
		return ow.WriteUint32(uint32(it.v))
	case 'q':
		return ow.WriteUint64(it.v)
	case 'u':
		return ow.WriteUint(uint(it.v))
	}
	return ow.WriteBytes(it.d)
}
func parseXItem(s string) xItem {
	k := s[0]
	if k == 's' {
		return xItem{k, 0, unhx(s[2:])}
	}
	v, _ := strconv.ParseUint(s[2:], 10, 64)
	return xItem{k, v, nil}
}

// mon writes a monitor line: the property's own condition evaluated on the real code.
func (ctx *Ctx) mon(name string, ok bool, detail string) {
	if ok {
		return // passing monitors are counted, not written (keeps the op file small)
	}
	pendingMon = append(pendingMon, [2]string{"mon " + name, detail})
}

// monitor lines are written after the op line they belong to
var pendingMon [][2]string

func flushMon(ctx *Ctx) {
	for _, m := range pendingMon {
		ctx.R.Quiet(m[0], m[1])
	}
	pendingMon = pendingMon[:0]
}

var xbinMonCount = map[string]int{}

func monCount(name string) { xbinMonCount[name]++ }

// isSubrange: res aliases buf (shares memory) and lies within it
func isSubrange(buf, res []byte) bool {
	if len(res) == 0 {
		return true
	}
	if len(buf) == 0 {
		return false
	}
	for off := 0; off+len(res) <= len(buf); off++ {
		if &buf[off] == &res[0] {
			return true
		}
	}
	return false
}

// xbinNontrivial: the evidence rule — value/length on a 7-bit group boundary +-1, or (decoders)
// an input that is not a valid encoding of the kind.
func xbinNontrivial(w []string) (string, bool) {
	onBoundary := func(v uint64) bool {
		for k := uint(7); k < 64; k += 7 {
			p := uint64(1) << k
			if v == p || v == p-1 || v == p+1 {
				return true
			}
		}
		return v == ^uint64(0)
	}
	switch w[0] {
	case "mu", "sz", "wu":
		v, _ := strconv.ParseUint(w[1], 10, 64)
		return "value on a 7-bit group boundary +-1", onBoundary(v)
	case "mbz", "szb":
		v, _ := strconv.ParseUint(w[1], 10, 64)
		return "length on a 7-bit group boundary +-1", onBoundary(v)
	case "mb", "wb":
		return "length on a 7-bit group boundary +-1", onBoundary(uint64(len(unhx(w[1]))))
	case "ub":
		b := unhx(w[1])
		n, v, err := xbinary.UnmarshalUint(b)
		return "input is not a valid byte-string encoding", err != nil || uint64(v) != uint64(len(b)-n)
	case "uu":
		b := unhx(w[1])
		n, v, err := xbinary.UnmarshalUint(b)
		return "input is not a minimal varint encoding", err != nil || n != len(b) || n != xbinary.WritableUintSize(uint64(v))
	case "uf":
		k, _ := strconv.Atoi(w[1])
		return "input shorter than the fixed width", len(unhx(w[2])) < k
	case "enc", "dec":
		return "concatenation of items", true
	}
	return "", false
}

func xbinExec(ctx *Ctx, w []string) {
	op := strings.Join(w, " ")
	// (the classification below calls the decoders as well: under the same guard / watchdog as the call proper)
	var why string
	var nt bool
	guard(func() string { why, nt = xbinNontrivial(w); return "" })
	if nt {
		dec := w[0] == "ub" || w[0] == "uu" || w[0] == "uf"
		if ctx.Focus == "" || (ctx.Focus == "C16") == dec {
			ctx.R.Nontrivial(why)
		}
	}
	out := guard(func() string {
		switch w[0] {
		case "mu":
			v, _ := strconv.ParseUint(w[1], 10, 64)
			n, _ := strconv.Atoi(w[2])
			buf, intact := xwin(n)
			defer func() { ctx.mon("C15-no-write-past-buffer", intact(), fmt.Sprintf("%s: bytes beyond the destination (length %d, spare capacity behind it) were written", w[0], n)) }()
			k, err := xbinary.MarshalUint(uint(v), buf)
			sz := xbinary.WritableUintSize(v)
			monCount("C15 uint short-buffer-iff")
			ctx.mon("C15-uint-short-buffer-iff", (err != nil) == (n < sz), fmt.Sprintf("v=%d buflen=%d predicted=%d err=%v", v, n, sz, err))
			if err != nil {
				ctx.mon("C15-err-n-zero", k == 0, fmt.Sprintf("MarshalUint err with n=%d", k))
				return "err"
			}
			monCount("C15 uint size=written")
			ctx.mon("C15-uint-size-eq-written", k == sz, fmt.Sprintf("v=%d written=%d predicted=%d", v, k, sz))
			dn, dv, derr := xbinary.UnmarshalUint(append(append([]byte{}, buf[:k]...), 0xAA, 0x01))
			monCount("C15 uint round-trip")
			ctx.mon("C15-uint-roundtrip", derr == nil && dn == k && uint64(dv) == v, fmt.Sprintf("v=%d decoded=(%d,%d,%v) written=%d", v, dn, dv, derr, k))
			return "ok " + hx(buf[:k])
		case "uu":
			b := unhx(w[1])
			n, v, err := xbinary.UnmarshalUint(b)
			monCount("C16 in-bounds")
			if err != nil {
				ctx.mon("C16-err-consumes-zero", n == 0, fmt.Sprintf("UnmarshalUint(%s) err n=%d", w[1], n))
				return fmt.Sprintf("err %d", n)
			}
			ctx.mon("C16-in-bounds", n > 0 && n <= len(b), fmt.Sprintf("UnmarshalUint(%s) n=%d", w[1], n))
			{
				bk := append(make([]byte, 0, len(b)+16), b...)
				copy(bk[len(b):cap(bk)], []byte{0x81, 0x82, 0x83, 0x01, 0x81, 0x82, 0x83, 0x01, 0x81, 0x82, 0x83, 0x01, 0x81, 0x82, 0x83, 0x01})
				vn, vv, verr := xbinary.UnmarshalUint(bk)
				ctx.mon("C16-variants-total", verr == nil && vn == n && vv == v, fmt.Sprintf("UnmarshalUint(%s) on a window into a larger buffer gives (%d,%d,%v), on the exact slice (%d,%d)", w[1], vn, vv, verr, n, v))
			}
			return fmt.Sprintf("ok %d %d", n, v)
		case "sz":
			v, _ := strconv.ParseUint(w[1], 10, 64)
			return fmt.Sprintf("num %d", xbinary.WritableUintSize(v))
		case "mf":
			k, _ := strconv.Atoi(w[1])
			v, _ := strconv.ParseUint(w[2], 10, 64)
			n, _ := strconv.Atoi(w[3])
			it := xItem{map[int]byte{1: 'b', 2: 'h', 4: 'w', 8: 'q'}[k], v, nil}
			buf, intact := xwin(n)
			defer func() { ctx.mon("C15-no-write-past-buffer", intact(), fmt.Sprintf("%s: bytes beyond the destination (length %d, spare capacity behind it) were written", w[0], n)) }()
			wn, err := it.marshal(buf)
			monCount("C15 fixed short-buffer-iff")
			ctx.mon("C15-fixed-short-buffer-iff", (err != nil) == (n < k), fmt.Sprintf("k=%d buflen=%d err=%v", k, n, err))
			if err != nil {
				return "err"
			}
			dn, dit, derr := xUnmarshal(it.kind, append(append([]byte{}, buf[:wn]...), 0x55))
			monCount("C15 fixed round-trip")
			ctx.mon("C15-fixed-roundtrip", wn == k && derr == nil && dn == k && dit.v == v, fmt.Sprintf("k=%d v=%d written=%d decoded=(%d,%d,%v)", k, v, wn, dn, dit.v, derr))
			return "ok " + hx(buf[:wn])
		case "uf":
			k, _ := strconv.Atoi(w[1])
			b := unhx(w[2])
			n, it, err := xUnmarshal(map[int]byte{1: 'b', 2: 'h', 4: 'w', 8: 'q'}[k], b)
			monCount("C16 in-bounds")
			if err != nil {
				ctx.mon("C16-err-consumes-zero", n == 0, fmt.Sprintf("Unmarshal fixed %d (%s) err n=%d", k, w[2], n))
				return fmt.Sprintf("err %d", n)
			}
			ctx.mon("C16-in-bounds", n > 0 && n <= len(b), fmt.Sprintf("Unmarshal fixed %d (%s) n=%d", k, w[2], n))
			return fmt.Sprintf("ok %d %d", n, it.v)
		case "mb", "mbz":
			var d []byte
			if w[0] == "mb" {
				d = unhx(w[1])
			} else {
				l, _ := strconv.Atoi(w[1])
				d = make([]byte, l)
				for i := range d {
					d[i] = byte(ctx.Rnd.U64())
				}
			}
			n, _ := strconv.Atoi(w[2])
			buf, intact := xwin(n)
			defer func() { ctx.mon("C15-no-write-past-buffer", intact(), fmt.Sprintf("%s: bytes beyond the destination (length %d, spare capacity behind it) were written", w[0], n)) }()
			k, err := xbinary.MarshalBytes(d, buf)
			sz := xbinary.WritebleBytesSize(d)
			ssz := xbinary.WritableStringSize(string(d))
			monCount("C15 bytes short-buffer-iff")
			ctx.mon("C15-bytes-short-buffer-iff", (err != nil) == (n < sz) && ssz == sz, fmt.Sprintf("len=%d buflen=%d predicted=%d/%d err=%v", len(d), n, sz, ssz, err))
			if err != nil {
				return "err"
			}
			monCount("C15 bytes size=written")
			ctx.mon("C15-bytes-size-eq-written", k == sz, fmt.Sprintf("len=%d written=%d predicted=%d", len(d), k, sz))
			src := append(append([]byte{}, buf[:k]...), 0x77)
			dn, dd, derr := xbinary.UnmarshalBytes(src, true)
			monCount("C15 bytes round-trip")
			ctx.mon("C15-bytes-roundtrip", derr == nil && dn == k && bytes.Equal(dd, d), fmt.Sprintf("len=%d decoded n=%d err=%v", len(d), dn, derr))
			// newBuf=true: decoded data independent of the source buffer
			for i := range src {
				src[i] ^= 0xFF
			}
			monCount("C15 newBuf independence")
			ctx.mon("C15-newbuf-independent", bytes.Equal(dd, d), "decoded data changed when the source buffer was overwritten")
			sn, ss, serr := xbinary.UnmarshalString(append(append([]byte{}, buf[:k]...), 0x01), true)
			ctx.mon("C15-string-roundtrip", serr == nil && sn == k && ss == string(d), fmt.Sprintf("len=%d string decoded n=%d err=%v", len(d), sn, serr))
			sb, sIntact := xwin(n)
			defer func() { ctx.mon("C15-no-write-past-buffer", sIntact(), fmt.Sprintf("%s (string): bytes beyond the destination (length %d, spare capacity behind it) were written", w[0], n)) }()
			sk, serr2 := xbinary.MarshalString(string(d), sb)
			ctx.mon("C15-string-eq-bytes", serr2 == nil && sk == k && bytes.Equal(sb[:sk], buf[:k]), "MarshalString differs from MarshalBytes")
			if w[0] == "mbz" {
				return fmt.Sprintf("ok len=%d prefix=%s", k, hx(buf[:k-len(d)]))
			}
			return "ok " + hx(buf[:k])
		case "ub":
			b := unhx(w[1])
			n, d, err := xbinary.UnmarshalBytes(b, false)
			monCount("C16 in-bounds")
			// the copying variant and the string variants decode the same bytes: they must be total on the same
			// inputs (also on the ones that are rejected), agree on error / consumed length, and never panic
			// … and the same bytes handed over as a window into a larger buffer (len < cap, foreign bytes behind
			// the end, as with a read buffer or bytes.Buffer.Bytes()): what lies beyond len(buf) is not input
			view := func() []byte {
				bk := make([]byte, len(b)+96)
				for i := range bk {
					bk[i] = 'A' + byte(i%23)
				}
				copy(bk, b)
				return bk[:len(b)]
			}
			for _, variant := range []string{"bytes-copy", "string", "string-copy", "bytes-view", "bytes-copy-view", "string-view"} {
				res := guard(func() string {
					var vn int
					var verr error
					switch variant {
					case "bytes-view", "bytes-copy-view":
						var vd []byte
						vn, vd, verr = xbinary.UnmarshalBytes(view(), variant == "bytes-copy-view")
						if verr == nil && err == nil && !bytes.Equal(vd, d) {
							return "other-bytes"
						}
					case "string-view":
						var vs string
						vn, vs, verr = xbinary.UnmarshalString(view(), false)
						if verr == nil && err == nil && vs != string(d) {
							return "other-bytes"
						}
					case "bytes-copy":
						vn, _, verr = xbinary.UnmarshalBytes(b, true)
					case "string":
						vn, _, verr = xbinary.UnmarshalString(b, false)
					case "string-copy":
						vn, _, verr = xbinary.UnmarshalString(b, true)
					}
					return fmt.Sprintf("%d %v", vn, verr != nil)
				})
				want := fmt.Sprintf("%d %v", n, err != nil)
				ctx.mon("C16-variants-total", res == want, fmt.Sprintf("Unmarshal %s variant on %s: (consumed, failed) = %s, the plain bytes variant gives %s", variant, w[1], res, want))
			}
			if err != nil {
				ctx.mon("C16-err-consumes-zero", n == 0, fmt.Sprintf("UnmarshalBytes(%s) err n=%d", w[1], n))
				return fmt.Sprintf("err %d", n)
			}
			ctx.mon("C16-in-bounds", n >= 0 && n <= len(b) && isSubrange(b, d), fmt.Sprintf("UnmarshalBytes(%s) n=%d len(res)=%d", w[1], n, len(d)))
			n2, d2, err2 := xbinary.UnmarshalBytes(b, true)
			ctx.mon("C16-newbuf-same", err2 == nil && n2 == n && bytes.Equal(d2, d), "newBuf=true result differs")
			n3, s3, err3 := xbinary.UnmarshalString(b, false)
			ctx.mon("C16-string-same", err3 == nil && n3 == n && s3 == string(d), "UnmarshalString result differs")
			return fmt.Sprintf("ok %d %s", n, hx(d))
		case "szb":
			l, _ := strconv.Atoi(w[1])
			return fmt.Sprintf("num %d", xbinary.WritebleBytesSize(make([]byte, l)))
		case "wu", "wf", "wb":
			var it xItem
			switch w[0] {
			case "wu":
				v, _ := strconv.ParseUint(w[1], 10, 64)
				it = xItem{'u', v, nil}
			case "wf":
				k, _ := strconv.Atoi(w[1])
				v, _ := strconv.ParseUint(w[2], 10, 64)
				it = xItem{map[int]byte{1: 'b', 2: 'h', 4: 'w', 8: 'q'}[k], v, nil}
			case "wb":
				it = xItem{'s', 0, unhx(w[1])}
			}
			var bb bytes.Buffer
			ow := &xbinary.ObjectsWriter{Writer: &bb}
			n, err := it.write(ow)
			buf := make([]byte, it.size())
			mn, merr := it.marshal(buf)
			monCount("C15 writer=marshal")
			ctx.mon("C15-writer-eq-marshal", err == nil && merr == nil && n == bb.Len() && n == mn && bytes.Equal(bb.Bytes(), buf[:mn]),
				fmt.Sprintf("%s writer n=%d bytes=%s marshal n=%d err=%v/%v", it, n, hx(bb.Bytes()), mn, err, merr))
			if it.kind == 's' {
				var b2 bytes.Buffer
				ow2 := &xbinary.ObjectsWriter{Writer: &b2}
				ow2.WriteString(string(it.d))
				ctx.mon("C15-writer-string-eq-bytes", bytes.Equal(b2.Bytes(), bb.Bytes()), "WriteString differs from WriteBytes")
			}
			return hx(bb.Bytes())
		case "enc":
			var items []xItem
			total := 0
			for _, s := range strings.Split(w[1], ",") {
				it := parseXItem(s)
				items = append(items, it)
				total += it.size()
			}
			buf := make([]byte, total)
			off := 0
			for _, it := range items {
				n, err := it.marshal(buf[off:])
				if err != nil {
					return "err"
				}
				off += n
			}
			// decode the concatenation back (C15: concatenation of encoded items decodes to the items)
			pos := 0
			ok := off == total
			for _, it := range items {
				n, d, err := xUnmarshal(it.kind, buf[pos:])
				if err != nil || d.String() != it.String() {
					ok = false
					break
				}
				pos += n
			}
			monCount("C15 concat decodes")
			ctx.mon("C15-concat-decodes", ok && pos == total, fmt.Sprintf("items %s: decode stopped at %d of %d", w[1], pos, total))
			// the same items through ONE ObjectsWriter: the stream must be the concatenation of the Marshal outputs
			// (whatever the writer keeps between items — a scratch buffer, a cache — must not leak from one into the next)
			{
				var sb bytes.Buffer
				ow := &xbinary.ObjectsWriter{Writer: &sb}
				wn := 0
				werr := false
				for _, it := range items {
					n, err := it.write(ow)
					wn += n
					werr = werr || err != nil
				}
				monCount("C15 writer stream=marshal")
				ctx.mon("C15-writer-eq-marshal", !werr && wn == off && bytes.Equal(sb.Bytes(), buf[:off]), fmt.Sprintf("items %s written through one ObjectsWriter: %d bytes %s, Marshal gives %d bytes %s", w[1], wn, hx(sb.Bytes()), off, hx(buf[:off])))
			}
			return hx(buf[:off])
		case "dec":
			b := unhx(w[2])
			pos := 0
			var outs []string
			for _, k := range []byte(w[1]) {
				n, it, err := xUnmarshal(k, b[pos:])
				if err != nil {
					return "err"
				}
				pos += n
				outs = append(outs, it.String())
			}
			return strings.Join(outs, ",") + " rest=" + hx(b[pos:])
		}
		return "bad-op"
	})
	ctx.R.Op(op, out)
	if out == "panic" {
		ctx.R.Quiet("mon C16-no-panic "+w[0], "the call panicked: "+op)
	}
	flushMon(ctx)
}

// xwin returns a destination of length n that is a WINDOW into a larger array (spare capacity behind it, filled
// with a sentinel) and a function telling whether the bytes behind the window are still untouched: an encoder that
// measures its destination by capacity writes past the end of a too-short window instead of refusing.
func xwin(n int) ([]byte, func() bool) {
	backing := make([]byte, n+24)
	for i := range backing {
		backing[i] = 0xA5
	}
	for i := 0; i < n; i++ {
		backing[i] = 0
	}
	return backing[:n], func() bool {
		for _, b := range backing[n:] {
			if b != 0xA5 {
				return false
			}
		}
		return true
	}
}

func runXbin(ctx *Ctx) {
	r := ctx.Rnd
	ctx.R.PerOp()
	do := func(f string, a ...any) { xbinExec(ctx, strings.Fields(fmt.Sprintf(f, a...))) }

	// --- C15: varints: exhaustive 16-bit, all group boundaries, all bit lengths, random 64-bit
	ctx.R.Case("uint-exhaustive16")
	lim := uint64(1 << 16)
	for v := uint64(0); v < lim; v++ {
		do("mu %d 10", v)
		if v < 300 || v%257 == 0 {
			do("sz %d", v)
			do("wu %d", v)
		}
	}
	ctx.R.Case("uint-boundaries")
	var bvals []uint64
	for b := 0; b < 64; b++ {
		p := uint64(1) << uint(b)
		bvals = append(bvals, p-1, p, p+1)
	}
	bvals = append(bvals, ^uint64(0), ^uint64(0)-1, 1<<63+5)
	for _, v := range bvals {
		sz := xbinary.WritableUintSize(v)
		for n := 0; n <= sz+1 && n <= 12; n++ {
			do("mu %d %d", v, n)
		}
		do("sz %d", v)
		do("wu %d", v)
	}
	nr := 3000
	if ctx.Thorough {
		nr = 60000
	}
	ctx.R.Case("uint-random64")
	for i := 0; i < nr; i++ {
		v := r.U64() >> uint(r.Intn(64))
		do("mu %d %d", v, r.Range(0, 11))
		do("sz %d", v)
	}
	// --- fixed width
	ctx.R.Case("fixed")
	for v := uint64(0); v < 256; v++ {
		do("mf 1 %d 1", v)
	}
	for _, k := range []int{1, 2, 4, 8} {
		for n := 0; n <= k+1; n++ {
			do("mf %d %d %d", k, r.U64()>>(64-8*uint(k)), n)
		}
		for i := 0; i < 200; i++ {
			v := r.U64() >> (64 - 8*uint(k))
			do("mf %d %d %d", k, v, k+r.Intn(3))
			do("wf %d %d", k, v)
		}
		do("mf %d 0 %d", k, k)
		do("mf %d %d %d", k, ^uint64(0)>>(64-8*uint(k)), k)
	}
	if ctx.Thorough {
		for v := uint64(0); v < 65536; v++ {
			do("mf 2 %d 2", v)
		}
	}
	// --- byte strings around the 1-2-3 byte length-prefix boundaries, every dest length near size
	ctx.R.Case("bytes")
	lens := []int{0, 1, 2, 5, 126, 127, 128, 129, 300, 16382, 16383, 16384, 16385}
	if ctx.Thorough {
		lens = append(lens, 70000, 1<<21-1, 1<<21, 1<<21+1)
	}
	for _, l := range lens {
		d := make([]byte, l)
		for i := range d {
			d[i] = byte(r.U64())
		}
		h := hx(d)
		sz := xbinary.WritebleBytesSize(d)
		for _, n := range []int{0, 1, 2, sz - l, sz - 2, sz - 1, sz, sz + 1, sz + 7} {
			if n >= 0 {
				if l <= 300 {
					do("mb %s %d", h, n)
				} else {
					do("mbz %d %d", l, n)
				}
			}
		}
		do("szb %d", l)
		if l <= 300 {
			do("wb %s", h)
		}
	}
	for l := 0; l <= 40; l++ {
		d := make([]byte, l)
		for i := range d {
			d[i] = byte(r.U64())
		}
		for n := 0; n <= l+3; n++ {
			do("mb %s %d", hx(d), n)
		}
		do("wb %s", hx(d))
	}
	// the stream writer against Marshal for every length up to 300 (quick: every length to 70, then thinned)
	for l := 41; l <= 300; l++ {
		if !ctx.Thorough && l > 70 && l%7 != 0 && (l < 120 || l > 135) && (l < 250 || l > 262) {
			continue
		}
		d := make([]byte, l)
		for i := range d {
			d[i] = byte(r.U64())
		}
		do("wb %s", hx(d))
	}
	// --- concatenations
	ctx.R.Case("concat")
	nc := 300
	if ctx.Thorough {
		nc = 5000
	}
	// directed: a varint (or a byte string of some length) repeated around fixed-width items, on one writer
	for _, items := range []string{"u:5,b:170,u:5", "u:300,h:48879,u:300", "u:5,w:3735928559,u:5,q:1,u:5", "s:6162,b:7,s:6364", "u:128,b:1,u:128", "s:" + strings.Repeat("61", 150) + ",h:48879,s:" + strings.Repeat("62", 150), "u:0,b:0,u:0"} {
		do("enc %s", items)
	}
	for i := 0; i < nc; i++ {
		k := r.Range(1, 8)
		var parts []string
		var kinds []byte
		for j := 0; j < k; j++ {
			kind := "bhwqus"[r.Intn(6)]
			kinds = append(kinds, kind)
			switch kind {
			case 'b':
				parts = append(parts, fmt.Sprintf("b:%d", r.Intn(256)))
			case 'h':
				parts = append(parts, fmt.Sprintf("h:%d", r.Intn(65536)))
			case 'w':
				parts = append(parts, fmt.Sprintf("w:%d", r.U64()>>32))
			case 'q':
				parts = append(parts, fmt.Sprintf("q:%d", r.U64()))
			case 'u':
				if r.Chance(1, 2) {
					parts = append(parts, fmt.Sprintf("u:%d", []int{0, 1, 5, 127, 128, 300}[r.Intn(6)])) // (repeats are likely)
				} else {
					parts = append(parts, fmt.Sprintf("u:%d", r.U64()>>uint(r.Intn(64))))
				}
			case 's':
				l := r.Intn(6)
				if r.Chance(1, 6) {
					l = r.Range(120, 135)
				}
				d := make([]byte, l)
				for x := range d {
					d[x] = byte(r.U64())
				}
				parts = append(parts, "s:"+hx(d))
			}
		}
		items := strings.Join(parts, ",")
		do("enc %s", items)
		// decode what the real code produced, plus trailing junk
		var its []xItem
		total := 0
		for _, p := range parts {
			it := parseXItem(p)
			its = append(its, it)
			total += it.size()
		}
		buf := make([]byte, total)
		off := 0
		for _, it := range its {
			n, _ := it.marshal(buf[off:])
			off += n
		}
		buf = append(buf[:off], byte(r.U64()), byte(r.U64()))
		do("dec %s %s", string(kinds), hx(buf))
		ctx.R.Branch("concat")
	}

	// --- C16: arbitrary bytes
	ctx.R.Case("decode-exhaustive-short")
	do("ub -")
	do("uu -")
	for _, k := range []int{1, 2, 4, 8} {
		do("uf %d -", k)
	}
	for a := 0; a < 256; a++ {
		do("ub %02x", a)
		do("uu %02x", a)
	}
	for a := 0; a < 256; a++ {
		for b := 0; b < 256; b++ {
			if !ctx.Thorough && a < 128 && a > 3 && b%16 != 0 {
				continue
			}
			do("ub %02x%02x", a, b)
			if a >= 128 {
				do("uu %02x%02x", a, b)
			}
		}
	}
	alpha := []byte{0, 1, 2, 3, 127, 128, 129, 255}
	for _, a := range alpha {
		for _, b := range alpha {
			for _, c := range alpha {
				do("ub %02x%02x%02x", a, b, c)
				do("uu %02x%02x%02x", a, b, c)
				if ctx.Thorough {
					for _, d := range alpha {
						do("ub %02x%02x%02x%02x", a, b, c, d)
					}
				}
			}
		}
	}
	ctx.R.Case("decode-adversarial")
	enc := func(v uint64) []byte {
		var b []byte
		for v > 127 {
			b = append(b, byte(v&127)|128)
			v >>= 7
		}
		return append(b, byte(v))
	}
	var specials []uint64
	for _, base := range []uint64{1 << 31, 1 << 32, 1 << 62, 1 << 63, 0} {
		for d := -12; d <= 12; d++ {
			specials = append(specials, base+uint64(d))
		}
	}
	for _, v := range specials {
		p := enc(v)
		for _, tail := range []int{0, 1, 2, 9, 10, 11, 20} {
			b := append(append([]byte{}, p...), bytes.Repeat([]byte{0x41}, tail)...)
			do("ub %s", hx(b))
		}
		do("uu %s", hx(p))
	}
	// over-long varints
	for l := 9; l <= 14; l++ {
		for _, fill := range []byte{0xff, 0x80, 0x81} {
			for _, last := range []byte{0x00, 0x01, 0x02, 0x7f} {
				b := append(bytes.Repeat([]byte{fill}, l), last)
				do("uu %s", hx(b))
				do("ub %s", hx(b))
				do("ub %s", hx(append(b, 1, 2, 3)))
			}
		}
		do("uu %s", hx(bytes.Repeat([]byte{0xff}, l))) // never terminated
		do("ub %s", hx(bytes.Repeat([]byte{0x80}, l)))
	}
	// truncated bodies and mutated valid encodings
	nm := 2000
	if ctx.Thorough {
		nm = 40000
	}
	for i := 0; i < nm; i++ {
		l := r.Intn(12)
		if r.Chance(1, 10) {
			l = r.Range(120, 140)
		}
		d := make([]byte, l)
		for x := range d {
			d[x] = byte(r.U64())
		}
		buf := make([]byte, xbinary.WritebleBytesSize(d))
		xbinary.MarshalBytes(d, buf)
		switch r.Intn(4) {
		case 0:
			buf = buf[:r.Intn(len(buf)+1)]
		case 1:
			if len(buf) > 0 {
				buf[r.Intn(len(buf))] ^= byte(1 << uint(r.Intn(8)))
			}
		case 2:
			if len(buf) > 0 {
				buf[0] = byte(r.U64())
			}
		case 3:
			buf = append(buf, byte(r.U64()))
		}
		do("ub %s", hx(buf))
		k := []int{1, 2, 4, 8}[r.Intn(4)]
		do("uf %d %s", k, hx(buf[:minInt(len(buf), r.Intn(10))]))
	}
	ctx.R.Stats.Extra["monitors_evaluated"] = xbinMonCount
}

func minInt(a, b int) int {
	if a < b {
		return a
	}
	return b
}
