// Command seq: sequential correspondence executors.  `seq <component> -seed N -tier quick|thorough
// -out ops.txt -stats stats.json` runs the REAL golibs code in-process on generated operation
// sequences and writes `op | impl-output` lines for the Lean driver.
package main

import (
	"time"
	"bufio"
	"flag"
	"fmt"
	"os"
	"path/filepath"
	"sort"
	"strings"

	"verifharness/internal/gen"
	"verifharness/internal/rec"
)

type Ctx struct {
	Seed     uint64
	Thorough bool
	R        *rec.Recorder
	Rnd      *gen.Rand
	Corpus   string
	Focus    string // property id whose non-triviality rule is counted (components shared by two properties)
}

var components = map[string]func(*Ctx){}

// replayers re-execute one recorded case (header words, op texts) on the real code.
var replayers = map[string]func(ctx *Ctx, hdr []string, ops []string){}

func main() {
	if len(os.Args) < 2 {
		fmt.Fprintln(os.Stderr, "usage: seq <component> [flags]")
		os.Exit(2)
	}
	comp := os.Args[1]
	fs := flag.NewFlagSet("seq", flag.ExitOnError)
	seed := fs.Uint64("seed", 1, "PRNG seed")
	tier := fs.String("tier", "quick", "quick|thorough")
	out := fs.String("out", "ops.txt", "op lines")
	stats := fs.String("stats", "stats.json", "coverage statistics")
	corpus := fs.String("corpus", "", "corpus directory (minimised past failures; run first)")
	focus := fs.String("focus", "", "property id whose non-triviality rule applies")
	replay := fs.String("replay", "", "re-execute the cases of this file instead of generating")
	fs.Parse(os.Args[2:])
	f, ok := components[comp]
	if !ok {
		fmt.Fprintln(os.Stderr, "unknown component", comp)
		os.Exit(2)
	}
	r, err := rec.New(*out, comp)
	if err != nil {
		fmt.Fprintln(os.Stderr, err)
		os.Exit(2)
	}
	curRec = r
	rec.StartWatchdog(20 * time.Second)
	ctx := &Ctx{Seed: *seed, Thorough: *tier == "thorough", R: r, Rnd: gen.New(*seed), Corpus: *corpus, Focus: *focus}
	if *replay != "" {
		rp, ok := replayers[comp]
		if !ok {
			fmt.Fprintln(os.Stderr, "component has no replayer:", comp)
			os.Exit(2)
		}
		replayFile(ctx, rp, *replay)
	} else {
		runCorpus(ctx, comp)
		f(ctx)
	}
	if err := r.Close(*stats); err != nil {
		fmt.Fprintln(os.Stderr, err)
		os.Exit(2)
	}
}

// guard runs f and reports a panic as the string "panic" (the message is not compared).
func guard(f func() string) (res string) {
	if curRec != nil {
		curRec.Enter()
		defer curRec.Leave()
	}
	defer func() {
		if p := recover(); p != nil {
			res = "panic"
		}
	}()
	return f()
}

// curRec is the recorder of this process (for the hang watchdog)
var curRec *rec.Recorder

func replayFile(ctx *Ctx, rp func(*Ctx, []string, []string), path string) {
	f, err := os.Open(path)
	if err != nil {
		fmt.Fprintln(os.Stderr, err)
		os.Exit(2)
	}
	defer f.Close()
	var hdr []string
	var ops []string
	have := false
	flush := func() {
		if have {
			rp(ctx, hdr, ops)
		}
		ops = nil
	}
	sc := bufio.NewScanner(f)
	sc.Buffer(make([]byte, 1<<20), 1<<26)
	for sc.Scan() {
		line := strings.TrimSpace(sc.Text())
		if line == "" || strings.HasPrefix(line, "#") {
			continue
		}
		if i := strings.Index(line, " | "); i >= 0 {
			line = line[:i]
		}
		w := strings.Fields(line)
		if w[0] == "case" {
			flush()
			hdr = w[2:]
			have = true
			continue
		}
		ops = append(ops, line)
	}
	flush()
}

// runCorpus replays every file of the corpus directory (minimised past failures) first.
func runCorpus(ctx *Ctx, comp string) {
	rp, ok := replayers[comp]
	if !ok || ctx.Corpus == "" {
		return
	}
	files, _ := filepath.Glob(filepath.Join(ctx.Corpus, comp+"-*.txt"))
	sort.Strings(files)
	for _, f := range files {
		replayFile(ctx, rp, f)
	}
	ctx.R.Stats.Extra["corpus_files"] = len(files)
}
