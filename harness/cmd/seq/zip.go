package main

import (
	"syscall"
	"archive/zip"
	"encoding/hex"
	"fmt"
	"os"
	"path/filepath"
	"sort"
	"strings"

	"github.com/acquirecloud/golibs/files"
)

func init() {
	components["zip"] = runZip
	replayers["zip"] = func(ctx *Ctx, hdr []string, ops []string) {
		ctx.R.PerOp()
		ctx.R.Case(hdr[0])
		for _, o := range ops {
			zipExec(ctx, strings.Fields(o))
		}
	}
}

func zh(s string) string {
	if s == "" {
		return "-"
	}
	return hex.EncodeToString([]byte(s))
}
func zu(s string) string {
	if s == "-" {
		return ""
	}
	b, _ := hex.DecodeString(s)
	return string(b)
}

var zipBoxRoot string
var zipBoxN int

// newBox creates a fresh sandbox directory nested three levels below the box root, so that a
// (pre-repair) escape of up to two levels still lands inside the root.
func newBox() string {
	zipBoxN++
	d := filepath.Join(zipBoxRoot, fmt.Sprintf("b%d", zipBoxN), "o2", "o1", "box")
	os.MkdirAll(d, 0o755)
	return d
}

type zfile struct{ path, content string }

func snapshot(root string) (fl []zfile, dl []string) {
	filepath.Walk(root, func(p string, info os.FileInfo, err error) error {
		if err != nil || p == root {
			return nil
		}
		if info.IsDir() {
			dl = append(dl, p)
		} else {
			b, _ := os.ReadFile(p)
			fl = append(fl, zfile{p, string(b)})
		}
		return nil
	})
	return
}

func zipParsePairs(s string) [][2]string {
	if s == "-" {
		return nil
	}
	var r [][2]string
	for _, p := range strings.Split(s, ",") {
		f := strings.Split(p, ":")
		r = append(r, [2]string{zu(f[0]), zu(f[1])})
	}
	return r
}

func zipExec(ctx *Ctx, w []string) {
	op := strings.Join(w, " ")
	var mons [][2]string
	out := guard(func() string {
		switch w[0] {
		case "clean":
			return zh(filepath.Clean(zu(w[1])))
		case "join":
			return zh(filepath.Join(zu(w[1]), zu(w[2])))
		case "unzip":
			dest := zu(w[1])
			top := filepath.Dir(filepath.Dir(filepath.Dir(filepath.Dir(dest)))) // the b<n> directory
			if strings.HasPrefix(top, zipBoxRoot+string(filepath.Separator)) {
				// a fresh sandbox also when the op is re-executed from a replay file
				os.RemoveAll(top)
				os.MkdirAll(filepath.Dir(dest), 0o755)
			}
			zf := filepath.Join(top, "hostile.zip")
			f, _ := os.Create(zf)
			zw := zip.NewWriter(f)
			hostile := false
			for _, e := range zipParsePairs(w[2]) {
				if strings.Contains(e[0], "..") || strings.HasPrefix(e[0], "/") {
					hostile = true
				}
				wr, err := zw.Create(e[0])
				if err == nil {
					wr.Write([]byte(e[1]))
				}
			}
			zw.Close()
			f.Close()
			if hostile {
				ctx.R.Nontrivial("entry name with '..' or leading '/'")
			}
			before, _ := snapshot(top)
			err := files.UnzipToFolder(zf, dest)
			after, dirsAfter := snapshot(top)
			was := map[string]string{}
			for _, x := range before {
				was[x.path] = x.content
			}
			var fl, dl []string
			for _, x := range after {
				if c, ok := was[x.path]; ok && c == x.content {
					continue
				}
				fl = append(fl, zh(x.path)+":"+zh(x.content))
				// C20 monitor on the real file system: nothing is created or modified outside the destination
				if !strings.HasPrefix(x.path, dest+string(filepath.Separator)) {
					mons = append(mons, [2]string{"mon C20-confined", fmt.Sprintf("UnzipToFolder(dest=%s) wrote %s", dest, x.path)})
				}
			}
			for _, d := range dirsAfter {
				if strings.HasPrefix(d, dest+string(filepath.Separator)) {
					dl = append(dl, zh(d))
				} else if d != dest && !strings.HasPrefix(dest, d) {
					mons = append(mons, [2]string{"mon C20-confined", fmt.Sprintf("UnzipToFolder(dest=%s) created directory %s", dest, d)})
				}
			}
			sort.Strings(fl)
			sort.Strings(dl)
			es := "none"
			if err != nil {
				es = "io"
				if strings.Contains(err.Error(), "outside") || strings.Contains(err.Error(), "escape") {
					es = "escapes"
				}
			}
			return "files [" + strings.Join(fl, ",") + "] dirs [" + strings.Join(dl, ",") + "] err=" + es
		case "roundtrip":
			dest := zu(w[1])
			box := filepath.Dir(dest)
			if strings.HasPrefix(box, zipBoxRoot+string(filepath.Separator)) {
				os.RemoveAll(box) // a fresh sandbox also when re-executed from a replay file
			}
			src := filepath.Join(box, "src")
			os.MkdirAll(src, 0o755)
			tree := zipParsePairs(w[4])
			depth := 0
			for ti, t := range tree {
				p := filepath.Join(src, t[0])
				os.MkdirAll(filepath.Dir(p), 0o755)
				if strings.HasSuffix(t[0], ".lnk") {
					// a SYMLINK to a regular file that lives outside the zipped tree (relative link text, shorter than most
					// contents): for the archive it is a file of that name with the target's content
					target := filepath.Join(box, fmt.Sprintf("lt%d", ti))
					os.WriteFile(target, []byte(t[1]), 0o644)
					rel, _ := filepath.Rel(filepath.Dir(p), target)
					if os.Symlink(rel, p) == nil {
						continue
					}
				}
				os.WriteFile(p, []byte(t[1]), 0o644)
				if n := strings.Count(t[0], "/") + 1; n > depth {
					depth = n
				}
			}
			var keep func(string) bool
			switch w[2] {
			case "none":
				keep = func(string) bool { return false }
			case "notskip":
				keep = func(p string) bool { return !strings.HasSuffix(p, ".skip") }
			}
			if depth >= 2 && w[2] == "notskip" {
				ctx.R.Nontrivial("tree depth>=2 with a filter")
			}
			// source directory spelling (w[5]): abs | abs/ | ./rel | rel/ | rel | dot | dot/ | empty (the last three from inside the tree)
			cwd, _ := os.Getwd()
			os.Chdir(box)
			defer os.Chdir(cwd)
			spell := map[string]string{"abs": src, "abs/": src + "/", "./rel": "./src", "rel/": "src/", "rel": "src", "dot": ".", "dot/": "./", "empty": "", "rel/.": "src/.", "up": "../" + filepath.Base(box) + "/src"}[w[5]]
			if w[5] == "dot" || w[5] == "dot/" || w[5] == "empty" {
				os.Chdir(src)
			}
			zf := filepath.Join(box, "a.zip")
			if err := files.ZipFolder(spell, zf, keep, w[3] == "true"); err != nil {
				return "zip-error " + zh(err.Error())
			}
			err := files.UnzipToFolder(zf, dest)
			fl, _ := snapshot(dest)
			var parts []string
			for _, x := range fl {
				parts = append(parts, zh(x.path)+":"+zh(x.content))
			}
			sort.Strings(parts)
			es := "none"
			if err != nil {
				es = "io"
			}
			// C20 monitor: exactly the selected files, with relative path and content
			want := map[string]string{}
			for _, t := range tree {
				sel := (w[2] == "all" || (w[2] == "notskip" && !strings.HasSuffix(t[0], ".skip"))) && (w[3] == "true" || !strings.Contains(t[0], "/"))
				if sel {
					want[filepath.Join(dest, t[0])] = t[1]
				}
			}
			ok := len(fl) == len(want) && err == nil
			for _, x := range fl {
				if c, in := want[x.path]; !in || c != x.content {
					ok = false
				}
			}
			if !ok {
				mons = append(mons, [2]string{"mon C20-roundtrip", fmt.Sprintf("srcDir spelled %q filter=%s recursive=%s: got %d files, want %d (err=%v)", spell, w[2], w[3], len(fl), len(want), err)})
			}
			return "files [" + strings.Join(parts, ",") + "] dirs [] err=" + es
		}
		return "bad-op"
	})
	// the driver's roundtrip op takes 4 arguments (the spelling is a harness-side variation)
	if w[0] == "roundtrip" {
		op = strings.Join(w[:5], " ")
	}
	ctx.R.Op(op, out)
	for _, m := range mons {
		ctx.R.Quiet(m[0], m[1])
	}
}

// zipManyFiles: a tree with far more regular files than the process may hold open at once (the soft limit on open
// descriptors is lowered to 96 for this one round trip): a resource that is released only when the whole
// archive is done runs out half-way, and the destination is missing files.  Judged by the Go-side monitor.
func zipManyFiles(ctx *Ctx) {
	ctx.R.Case("manyfiles")
	var old syscall.Rlimit
	if syscall.Getrlimit(syscall.RLIMIT_NOFILE, &old) != nil {
		ctx.R.Comment("manyfiles: no descriptor limit to lower on this platform")
		return
	}
	low := old
	low.Cur = 96
	if syscall.Setrlimit(syscall.RLIMIT_NOFILE, &low) != nil {
		ctx.R.Comment("manyfiles: the descriptor limit cannot be lowered")
		return
	}
	defer syscall.Setrlimit(syscall.RLIMIT_NOFILE, &old)
	box := newBox()
	src, dest := filepath.Join(box, "src"), filepath.Join(box, "dest")
	want := map[string]string{}
	for i := 0; i < 420; i++ {
		rel := fmt.Sprintf("d%02d/f%03d.txt", i/30, i)
		os.MkdirAll(filepath.Join(src, filepath.Dir(rel)), 0o755)
		os.WriteFile(filepath.Join(src, rel), []byte(rel), 0o644)
		want[filepath.Join(dest, rel)] = rel
	}
	os.MkdirAll(dest, 0o755)
	zf := filepath.Join(box, "many.zip")
	out := guard(func() string {
		if err := files.ZipFolder(src, zf, nil, true); err != nil {
			return "ZipFolder: " + err.Error()
		}
		if err := files.UnzipToFolder(zf, dest); err != nil {
			return "UnzipToFolder: " + err.Error()
		}
		return "ok"
	})
	syscall.Setrlimit(syscall.RLIMIT_NOFILE, &old)
	fl, _ := snapshot(dest)
	good := 0
	for _, x := range fl {
		if c, in := want[x.path]; in && c == x.content {
			good++
		}
	}
	ctx.R.Nontrivial("many files")
	if out != "ok" || good != len(want) || len(fl) != len(want) {
		ctx.R.Quiet("mon C20-roundtrip", fmt.Sprintf("a tree of %d small files, at most 96 descriptors open at a time: %s; %d files came back intact, %d present", len(want), out, good, len(fl)))
	}
	ctx.R.Comment(fmt.Sprintf("manyfiles: %d files round-tripped under a descriptor limit of 96", good))
}

func runZip(ctx *Ctx) {
	ctx.R.PerOp()
	defer zipManyFiles(ctx)
	r := ctx.Rnd
	wd, _ := os.Getwd()
	zipBoxRoot = filepath.Join(wd, "zipbox")
	if filepath.Base(wd) != ".work" {
		zipBoxRoot = filepath.Join("/verif/.work", "zipbox")
	}
	os.RemoveAll(zipBoxRoot)
	defer os.RemoveAll(zipBoxRoot)
	do := func(f string, a ...any) { zipExec(ctx, strings.Fields(fmt.Sprintf(f, a...))) }
	// 1. lexical path functions vs path/filepath
	ctx.R.Case("paths")
	segs := []string{"a", "b", "..", ".", "", "c d", "ü"}
	for i := 0; i < 300; i++ {
		n := r.Range(0, 6)
		p := ""
		for j := 0; j < n; j++ {
			p += "/" + segs[r.Intn(len(segs))]
		}
		if p == "" {
			p = "/"
		}
		do("clean %s", zh(p))
		name := ""
		for j := 0; j < r.Range(0, 4); j++ {
			if j > 0 || r.Chance(1, 4) {
				name += "/"
			}
			name += segs[r.Intn(len(segs))]
		}
		do("join %s %s", zh(filepath.Clean(p)), zh(name))
	}
	// 2. hostile and ordinary archives
	ctx.R.Case("unzip")
	hostile := [][]string{
		{"../escaped.txt"}, {"a/../../escaped2.txt"}, {"/abs.txt"}, {"ok.txt", "../x", "after.txt"},
		{"a", "a/b"}, {"a/b", "a"}, {"d/", "d/f"}, {"./f", "f"}, {"a//b"}, {".."}, {"."}, {"a/.."}, {"x/../../y"},
		{"sub/../ok2.txt"}, {"..a/f"}, {"a/..b"}, {"/../../e"}, {"ü/ñ.txt", "sp ace/f"},
		// siblings of the destination whose names START with the destination's name (string-prefix containment tests pass them)
		{"../dest-backup/config"}, {"../dest2"}, {"../destination/x/y"}, {"a/../../dest.old/f"}, {"../dest/../dest-b/f"}, {"../dest/ok-inside.txt"},
	}
	for _, h := range hostile {
		box := newBox()
		var es []string
		for i, n := range h {
			es = append(es, zh(n)+":"+zh(fmt.Sprintf("c%d", i)+strings.Repeat("x", 9-3*(i%4))))
		}
		do("unzip %s %s", zh(filepath.Join(box, "dest")), strings.Join(es, ","))
	}
	nr := 150
	if ctx.Thorough {
		nr = 2000
	}
	hs := []string{"a", "b", "..", ".", "f.txt", "", "d", "dest", "dest-b", "destx"}
	for i := 0; i < nr; i++ {
		box := newBox()
		var es []string
		for j := 0; j < r.Range(1, 4); j++ {
			n := ""
			ups := 0
			for k := 0; k < r.Range(1, 4); k++ {
				s := hs[r.Intn(len(hs))]
				if s == ".." {
					ups++
					if ups > 2 {
						s = "a"
					}
				}
				if k > 0 || r.Chance(1, 5) {
					n += "/"
				}
				n += s
			}
			if n == "" {
				n = "z"
			}
			es = append(es, zh(n)+":"+zh(fmt.Sprintf("c%d", j)+strings.Repeat("y", 9-3*(j%4))))
		}
		do("unzip %s %s", zh(filepath.Join(box, "dest")), strings.Join(es, ","))
	}
	// 3. round trips: random trees x filter x recursive x source-dir spelling
	ctx.R.Case("roundtrip")
	nt := 60
	if ctx.Thorough {
		nt = 600
	}
	names := []string{"f1", "f2.txt", "x.skip", "sp ace", "dot.d", "ü", "bin", ".env", ".f1", "src", "..f", "f1.", "-x", "a.zip", "hostile.zip", "back\\slash", "r\\2023.txt", "cur.lnk", "log.lnk"}
	for i := 0; i < nt; i++ {
		var tree []string
		used := map[string]bool{}
		dirs := []string{""}
		for j := 0; j < r.Range(0, 8); j++ {
			d := dirs[r.Intn(len(dirs))]
			if r.Chance(1, 3) && strings.Count(d, "/") < 3 {
				nd := d + []string{"d0/", "d1/", "d2/", ".d/", "src/", "x.skip/", "d.skip/"}[r.Intn(7)] // (a DIRECTORY the filter would reject: the filter is for files)
				dirs = append(dirs, nd)
				d = nd
			}
			p := d + names[r.Intn(len(names))]
			bad := used[p]
			for u := range used {
				if strings.HasPrefix(u, p+"/") || strings.HasPrefix(p, u+"/") {
					bad = true
				}
			}
			if bad {
				continue
			}
			used[p] = true
			content := []string{"", "hello", "\x00\x01\xff", "line\nline"}[r.Intn(4)]
			if r.Chance(1, 25) {
				// larger than any copy buffer (32 KiB) and not a multiple of it
				content = strings.Repeat("0123456789abcdef-", 4099)
				if n := []int{0, 32767, 32768, 32769, 65536, 65537}[r.Intn(6)]; n > 0 {
					content = strings.Repeat("x", n-1) + "E" // exactly at / next to the usual copy-buffer sizes
				}
			}
			tree = append(tree, zh(p)+":"+zh(content))
		}
		ts := "-"
		if len(tree) > 0 {
			ts = strings.Join(tree, ",")
		}
		for _, flt := range []string{"all", "notskip", "none"} {
			for _, rec := range []string{"true", "false"} {
				box := newBox()
				spell := []string{"abs", "abs/", "./rel", "rel/", "rel", "dot", "dot/", "empty", "rel/.", "up"}[r.Intn(10)]
				do("roundtrip %s %s %s %s %s", zh(filepath.Join(box, "dest")), flt, rec, ts, spell)
			}
		}
	}
}
