package main

import (
	"syscall"
	"encoding/hex"
	"encoding/json"
	stderrors "errors"
	"fmt"
	"sort"
	"strings"

	gerrors "github.com/acquirecloud/golibs/errors"
	"google.golang.org/grpc/codes"
	"google.golang.org/grpc/status"
)

func init() {
	components["errs"] = runErrs
	replayers["errs"] = func(ctx *Ctx, hdr []string, ops []string) {
		ctx.R.PerOp()
		ctx.R.Case(hdr[0])
		for _, o := range ops {
			errsExec(ctx, strings.Fields(o))
		}
	}
}

var errClasses = map[string]error{
	"ErrExist": gerrors.ErrExist, "ErrNotExist": gerrors.ErrNotExist, "ErrClosed": gerrors.ErrClosed,
	"ErrInvalid": gerrors.ErrInvalid, "ErrNotAuthorized": gerrors.ErrNotAuthorized, "ErrDataLoss": gerrors.ErrDataLoss,
	"ErrCommunication": gerrors.ErrCommunication, "ErrInternal": gerrors.ErrInternal, "ErrConflict": gerrors.ErrConflict,
	"ErrExhausted": gerrors.ErrExhausted, "ErrUnimplemented": gerrors.ErrUnimplemented, "ErrCanceled": gerrors.ErrCanceled,
}

func errClassNames() []string {
	ns := make([]string, 0, len(errClasses))
	for n := range errClasses {
		ns = append(ns, n)
	}
	sort.Strings(ns)
	return ns
}

var grpcCodes = []codes.Code{codes.OK, codes.Canceled, codes.Unknown, codes.InvalidArgument, codes.DeadlineExceeded,
	codes.NotFound, codes.AlreadyExists, codes.PermissionDenied, codes.ResourceExhausted, codes.FailedPrecondition,
	codes.Aborted, codes.OutOfRange, codes.Unimplemented, codes.Internal, codes.Unavailable, codes.DataLoss, codes.Unauthenticated}

func codeByName(n string) codes.Code {
	for _, c := range grpcCodes {
		if c.String() == n {
			return c
		}
	}
	return codes.Unknown
}

func hs(s string) string {
	if s == "" {
		return "-"
	}
	return hex.EncodeToString([]byte(s))
}
func uhs(s string) string {
	if s == "-" {
		return ""
	}
	b, _ := hex.DecodeString(s)
	return string(b)
}

type embedded struct {
	raw string
}

func (e embedded) MarshalJSON() ([]byte, error) { return []byte(e.raw), nil }

// buildErr interprets a recipe; returns the error, the class name of the sentinel at the bottom of
// a pure wrap/embed chain ("" if none) and the embedded JSON ("" if none).
func buildErr(recipe string) (err error, chainClass string, embeddedJSON string) {
	parts := strings.Split(recipe, ";")
	b := strings.Split(parts[0], ".")
	switch b[0] {
	case "C":
		err = errClasses[b[1]]
		chainClass = b[1]
	case "O":
		err = stderrors.New(uhs(b[1]))
	case "S":
		err = status.Error(codeByName(b[1]), uhs(b[2]))
	case "P":
		// a REAL OS error of the class: not the sentinel itself, errors.Is-equal to it through Errno.Is
		errno := map[string]syscall.Errno{"ErrNotExist": syscall.ENOENT, "ErrExist": syscall.EEXIST, "ErrNotAuthorized": syscall.EACCES}[b[1]]
		err = osErrValue{msg: uhs(b[2]), errno: errno}
		chainClass = b[1]
	}
	for _, w := range parts[1:] {
		f := strings.Split(w, ".")
		switch f[0] {
		case "W":
			err = fmt.Errorf(strings.ReplaceAll(uhs(f[1]), "%", "%%")+"%w"+strings.ReplaceAll(uhs(f[2]), "%", "%%"), err)
		case "E":
			embeddedJSON = uhs(f[1])
			err = gerrors.EmbedObject(json.RawMessage(embeddedJSON), err)
		case "ES":
			// the embedded object is a Go STRING (not raw JSON): f[1] is its canonical JSON text
			embeddedJSON = uhs(f[1])
			var str string
			if json.Unmarshal([]byte(embeddedJSON), &str) != nil {
				return nil, "", ""
			}
			err = gerrors.EmbedObject(str, err)
		case "W2":
			// fmt.Errorf with TWO %w verbs: the chain so far on one side, a plain error on the other
			esc := func(x string) string { return strings.ReplaceAll(uhs(x), "%", "%%") }
			side := stderrors.New(uhs(f[5]))
			if f[4] == "L" {
				err = fmt.Errorf(esc(f[1])+"%w"+esc(f[2])+"%w"+esc(f[3]), err, side)
			} else {
				err = fmt.Errorf(esc(f[1])+"%w"+esc(f[2])+"%w"+esc(f[3]), side, err)
			}
		case "J":
			side := stderrors.New(uhs(f[2]))
			if f[1] == "L" {
				err = stderrors.Join(err, side)
			} else {
				err = stderrors.Join(side, err)
			}
		}
	}
	return
}

// osErrValue stands for what os.Open & co. return (*fs.PathError around a syscall.Errno): it has its own text and
// matches the class sentinel only through Errno.Is
type osErrValue struct {
	msg   string
	errno syscall.Errno
}

func (o osErrValue) Error() string        { return o.msg }
func (o osErrValue) Is(target error) bool { return o.errno.Is(target) }

func buildErrSafe(recipe string) (err error, cls string, ej string) {
	defer func() {
		if recover() != nil {
			err = nil
		}
	}()
	return buildErr(recipe)
}

func classNameOf(e error) string {
	if e == nil {
		return "nil"
	}
	for n, c := range errClasses {
		if e == c {
			return n
		}
	}
	return "other"
}

func errsExec(ctx *Ctx, w []string) {
	op := strings.Join(w, " ")
	var mons [][2]string
	mon := func(name string, ok bool, detail string) {
		ctx.R.Stats.Branches["monitor "+name]++
		if !ok {
			mons = append(mons, [2]string{"mon " + name, detail})
		}
	}
	out := guard(func() string {
		switch w[0] {
		case "is", "israw":
			err, _, _ := buildErr(w[1])
			if w[0] == "is" {
				err = gerrors.GRPCWrap(err)
			}
			return fmt.Sprintf("b %v", gerrors.Is(err, errClasses[w[2]]))
		case "code":
			err, cls, _ := buildErr(w[1])
			c := gerrors.GRPCStatusCode(err)
			if cls != "" {
				if want, ok := gerrors.VerifErrorsToCode()[errClasses[cls]]; ok {
					// the whole property for this chain, evaluated directly on the real code
					wr := gerrors.GRPCWrap(err)
					mon("C19-is-after-wrap", gerrors.Is(wr, errClasses[cls]), fmt.Sprintf("Is(GRPCWrap(%s), %s) = false (code %v, table code %v)", w[1], cls, status.Code(wr), want))
					for _, o := range errClassNames() {
						if o != cls {
							mon("C19-no-other-class", !gerrors.Is(wr, errClasses[o]), fmt.Sprintf("Is(GRPCWrap(%s), %s) = true although the class is %s", w[1], o, cls))
						}
					}
					for i := 0; i < 4; i++ { // map iteration order varies between calls
						mon("C19-order-independent", gerrors.GRPCStatusCode(err) == c, "GRPCStatusCode differs between calls on "+w[1])
					}
				}
			}
			return "code " + c.String()
		case "idem":
			err, _, _ := buildErr(w[1])
			w1 := gerrors.GRPCWrap(err)
			w2 := gerrors.GRPCWrap(w1)
			same := w1 == w2 || (status.Code(w1) == status.Code(w2) && w1.Error() == w2.Error())
			mon("C19-wrap-idempotent", same, fmt.Sprintf("GRPCWrap(GRPCWrap(e)) != GRPCWrap(e) for %s: %q vs %q", w[1], w1, w2))
			return fmt.Sprintf("b %v", same)
		case "ext", "extraw":
			err, cls, ej := buildErr(w[1])
			if w[0] == "ext" {
				err = gerrors.GRPCWrap(err)
			}
			var o json.RawMessage
			ok := gerrors.ExtractObject(err, &o)
			if ej != "" && cls != "" {
				mon("C19-extract-after-wrap", ok && string(o) == ej, fmt.Sprintf("embedded %q, extracted ok=%v %q from %s", ej, ok, string(o), w[1]))
			}
			if !ok {
				return "none"
			}
			return "json " + hs(string(o))
		case "markers":
			err, _, _ := buildErr(w[1])
			return fmt.Sprintf("num %d", strings.Count(gerrors.GRPCWrap(err).Error(), gerrors.VerifMarker()))
		case "embed2":
			// a SECOND EmbedObject on an error that already carries one (possibly wrapped again / sent through GRPCWrap
			// in between): the call may refuse (it panics today) — but an error it DOES return must have an
			// extractable object, directly and after GRPCWrap
			err, _, _ := buildErr(w[1])
			if w[2] == "grpc" {
				err = gerrors.GRPCWrap(err)
			}
			var second error
			refused := false
			func() {
				defer func() {
					if recover() != nil {
						refused = true
					}
				}()
				second = gerrors.EmbedObject(json.RawMessage(`{"second":2}`), err)
			}()
			if refused {
				return "refused"
			}
			var o json.RawMessage
			ok1 := gerrors.ExtractObject(second, &o)
			ok2 := gerrors.ExtractObject(gerrors.GRPCWrap(second), &o)
			mon("C19-extract-after-wrap", ok1 && ok2, fmt.Sprintf("EmbedObject accepted an error that already carries an object (%s, via %s) and returned one from which NO object can be extracted (direct=%v after GRPCWrap=%v)", w[1], w[2], ok1, ok2))
			return "refused" // (the model's EmbedObject has the precondition 'no marker yet': anything else is judged by the monitor above)
		case "from":
			c := codeByName(w[1])
			e := gerrors.FromGRPCError(status.Error(c, "some message"))
			n := classNameOf(e)
			mon("C19-codes-total", (c == codes.OK) == (e == nil) && n != "other", fmt.Sprintf("FromGRPCError(code %v) = %v", c, e))
			return n
		}
		return "bad-op"
	})
	ctx.R.Op(op, out)
	for _, m := range mons {
		ctx.R.Quiet(m[0], m[1])
	}
}

// errsBinaryTexts: wrapping texts that are NOT valid UTF-8 (a Latin-1 file name, a raw binary key, a truncated
// multi-byte sequence).  The Lean model's texts are Unicode strings, so this family is judged by the Go-side
// monitors alone: class kept and no other class gained through GRPCWrap, GRPCWrap idempotent, the embedded
// object extractable and unchanged after GRPCWrap, exactly one marker pair in the message.
func errsBinaryTexts(ctx *Ctx) {
	ctx.R.Case("binary-texts")
	texts := []string{"caf\xe9.txt: ", "key \xff\xfe\x00\x01: ", "\xc3", "\xe2\x82 tail", "ok \x80"}
	jsons := []string{"{\"a\":1}", "\"s:t\"", "[1,2,3]"}
	n := 0
	bad := func(name, detail string) { ctx.R.Quiet("mon "+name, detail) }
	for _, cls := range errClassNames() {
		want, mapped := gerrors.VerifErrorsToCode()[errClasses[cls]]
		if !mapped {
			continue
		}
		for depth := 0; depth <= 2; depth++ {
			for embedAt := 0; embedAt <= depth; embedAt++ {
				for ti, t := range texts {
					ej := jsons[(ti+depth+embedAt)%len(jsons)]
					recipe := "C." + cls
					for d := 0; d <= depth; d++ {
						if d == embedAt {
							recipe += ";E." + hs(ej)
						}
						// (at depth 0 the text goes into one wrap around the embedded error)
						if d < depth || depth == 0 {
							recipe += ";W." + hs(t) + "." + hs(texts[(ti+1)%len(texts)])
						}
					}
					out := guard(func() string {
						err, _, _ := buildErr(recipe)
						wr := gerrors.GRPCWrap(err)
						if !gerrors.Is(wr, errClasses[cls]) {
							bad("C19-is-after-wrap", fmt.Sprintf("Is(GRPCWrap(%s), %s) = false (code %v, table code %v; texts not valid UTF-8)", recipe, cls, status.Code(wr), want))
						}
						for _, o := range errClassNames() {
							if o != cls && gerrors.Is(wr, errClasses[o]) {
								bad("C19-no-other-class", fmt.Sprintf("Is(GRPCWrap(%s), %s) = true although the class is %s", recipe, o, cls))
							}
						}
						w2 := gerrors.GRPCWrap(wr)
						if !(wr == w2 || (status.Code(wr) == status.Code(w2) && wr.Error() == w2.Error())) {
							bad("C19-wrap-idempotent", fmt.Sprintf("GRPCWrap(GRPCWrap(e)) != GRPCWrap(e) for %s", recipe))
						}
						var o json.RawMessage
						if ok := gerrors.ExtractObject(wr, &o); !ok || string(o) != ej {
							bad("C19-extract-after-wrap", fmt.Sprintf("embedded %q, extracted ok=%v %q from GRPCWrap(%s): the wrapping texts are not valid UTF-8 (message %q)", ej, ok, string(o), recipe, wr.Error()))
						}
						return "ok"
					})
					if out != "ok" {
						bad("C19-extract-after-wrap", fmt.Sprintf("%s on %s (texts not valid UTF-8)", out, recipe))
					}
					n++
					ctx.R.Nontrivial("binary text")
				}
			}
		}
	}
	ctx.R.Comment(fmt.Sprintf("binary-texts: %d chains judged by the Go-side monitors", n))
}

func runErrs(ctx *Ctx) {
	ctx.R.PerOp()
	defer errsBinaryTexts(ctx)
	r := ctx.Rnd
	names := errClassNames()
	// the class list of the harness must be the class list of the package (distinct sentinels)
	ctx.R.Case("setup")
	seen := map[error]string{}
	for _, n := range names {
		if o, dup := seen[errClasses[n]]; dup {
			ctx.R.Quiet("mon C19-sentinels-distinct", n+" and "+o+" are the same value")
		}
		seen[errClasses[n]] = n
	}
	// texts incl. fmt verbs next to where the embed marker will sit: a message that is ever re-interpreted
	// as a format string garbles the marker or the JSON
	texts := []string{"", "ctx: ", "a:b:c ", "{\"k\":1}", " \x1b", "json", "\x1bjso", "son\x1b", "rpc error: code = NotFound desc = ", "x%dy%w", "üñí", "[1,2]", "100%", "%[", "%!", "%%", "a%2Fb%20c "}
	jsons := []string{"{\"a\":1}", "\"s:t\"", "[1,\"\\u001b\"]", "{\"json\":\"json\"}", "123", "\"disk usage is 100%\"", "\"/bucket/a%2Fb%20c\"", "[1,2,3]", "\"%s%v%[1]d\""}
	do := func(f string, a ...any) { errsExec(ctx, strings.Fields(fmt.Sprintf(f, a...))) }
	ctx.R.Case("codes")
	for _, c := range grpcCodes {
		do("from %s", c.String())
	}
	// chains: class x depth 0..4 x embed position x texts
	maxDepth := 3
	if ctx.Thorough {
		maxDepth = 4
	}
	ctx.R.Case("chains")
	for _, cls := range names {
		for depth := 0; depth <= maxDepth; depth++ {
			for embedAt := -1; embedAt <= depth; embedAt++ {
				reps := 2
				if ctx.Thorough {
					reps = 6
				}
				for rep := 0; rep < reps; rep++ {
					recipe := "C." + cls
					for d := 0; d <= depth; d++ {
						if d == embedAt {
							recipe += ";E." + hs(jsons[r.Intn(len(jsons))])
						}
						if d < depth {
							recipe += ";W." + hs(texts[r.Intn(len(texts))]) + "." + hs(texts[r.Intn(len(texts))])
						}
					}
					// generator rule (assumption of the property): the wrapping texts must not form the
					// complete marker, not even across a concatenation boundary
					if probe, _, ej := buildErrSafe(recipe); probe == nil ||
						strings.Count(probe.Error(), gerrors.VerifMarker()) != map[bool]int{true: 2, false: 0}[ej != ""] {
						ctx.R.Branch("skipped: texts would form the marker")
						continue
					}
					if depth >= 1 || embedAt >= 0 {
						ctx.R.Nontrivial("wrap depth>=1 or embedded object")
					}
					do("code %s", recipe)
					ctx.R.Nontrivial("chain")
					do("idem %s", recipe)
					if embedAt >= 0 {
						ctx.R.Nontrivial("embedded object")
						do("ext %s", recipe)
						ctx.R.Nontrivial("embedded object")
						do("extraw %s", recipe)
						do("markers %s", recipe)
					} else if rep == 0 {
						do("ext %s", recipe)
					}
					if rep == 0 {
						for _, t := range names {
							if depth >= 1 || embedAt >= 0 {
								ctx.R.Nontrivial("class x other class")
							}
							do("is %s %s", recipe, t)
						}
					} else {
						t := names[r.Intn(len(names))]
						ctx.R.Nontrivial("class x other class")
						do("is %s %s", recipe, t)
						do("israw %s %s", recipe, t)
					}
				}
			}
		}
	}
	// long messages: context texts and embedded objects of several kilobytes (a status message is not a
	// place where anything may be cut: the class AND the embedded object travel in it)
	ctx.R.Case("long")
	longT := []string{strings.Repeat("x", 4000) + ": ", strings.Repeat("long context ", 700), strings.Repeat("y", 20000) + " "}
	longJ := []string{"\"" + strings.Repeat("z", 6000) + "\"", "[" + strings.Repeat("1,", 3000) + "1]"}
	for i, cls := range names {
		var recipes []string
		recipes = append(recipes,
			"C."+cls+";E."+hs(jsons[i%len(jsons)])+";W."+hs(longT[i%len(longT)])+".-",
			"C."+cls+";E."+hs(jsons[i%len(jsons)])+";W.-."+hs(longT[(i+1)%len(longT)]),
			"C."+cls+";W."+hs(longT[(i+2)%len(longT)])+".-;E."+hs(jsons[(i+1)%len(jsons)]),
			"C."+cls+";E."+hs(longJ[i%len(longJ)]),
			"C."+cls+";W."+hs("ctx: ")+".-;E."+hs(longJ[(i+1)%len(longJ)])+";W."+hs("outer: ")+".-")
		for _, recipe := range recipes {
			ctx.R.Nontrivial("embedded object")
			do("code %s", recipe)
			do("idem %s", recipe)
			do("ext %s", recipe)
			do("extraw %s", recipe)
			do("markers %s", recipe)
			do("is %s %s", recipe, cls)
			do("is %s %s", recipe, names[(i+1)%len(names)])
		}
	}
	// embedded objects that are Go strings with everything a quoting routine may trip over (control bytes, DEL,
	// quotes, backslashes, non-BMP runes): what lies between the markers must stay JSON
	ctx.R.Case("string-objects")
	strs := []string{"plain", "with \"quotes\" and \\ backslash", "tab\tnewline\n", "esc \x1b[31m red", "nul \x00 byte", "bell \a vt \v", "del \x7f", "emoji \U0001F600 and \U000E0001", "<html>&amp;", "\u2028 line sep"}
	for i, cls := range names {
		for j, str := range strs {
			js, _ := json.Marshal(str)
			for depth := 0; depth <= 2; depth++ {
				recipe := "C." + cls + ";ES." + hs(string(js))
				for d := 0; d < depth; d++ {
					recipe += ";W." + hs(texts[(i+j+d)%4]) + ".-"
				}
				if probe, _, _ := buildErrSafe(recipe); probe == nil || strings.Count(probe.Error(), gerrors.VerifMarker()) != 2 {
					ctx.R.Branch("skipped: texts would form the marker")
					continue
				}
				ctx.R.Nontrivial("embedded object")
				do("ext %s", recipe)
				do("extraw %s", recipe)
				do("code %s", recipe)
				do("is %s %s", recipe, cls)
			}
		}
	}
	// a second EmbedObject on an error that already carries an object
	ctx.R.Case("double-embed")
	for i, cls := range names {
		for depth := 0; depth <= 2; depth++ {
			recipe := "C." + cls + ";E." + hs(jsons[i%len(jsons)])
			for d := 0; d < depth; d++ {
				recipe += ";W." + hs(texts[(i+d)%4]) + ".-"
			}
			for _, via := range []string{"plain", "grpc"} {
				ctx.R.Nontrivial("embedded object")
				do("embed2 %s %s", recipe, via)
			}
		}
	}
	// trees and OS errors: two-%w wrappers and errors.Join with a plain error on the other side, at every depth;
	// bases that are real OS errors of the class (found only by the errors.Is loop, not by the map lookup)
	ctx.R.Case("trees")
	osCls := []string{"ErrNotExist", "ErrExist", "ErrNotAuthorized"}
	for i, cls := range names {
		bases := []string{"C." + cls}
		for _, oc := range osCls {
			if oc == cls {
				bases = append(bases, "P."+cls+"."+hs("open /x/y: no such file or directory"), "P."+cls+"."+hs("stat: "+cls))
			}
		}
		for bi, base := range bases {
			for depth := 0; depth <= 3; depth++ {
				for variant := 0; variant < 4; variant++ {
					recipe := base
					embedAt := (i + depth + variant) % (depth + 2) // sometimes none (== depth+1)
					for d := 0; d <= depth; d++ {
						if d == embedAt {
							recipe += ";E." + hs(jsons[(i+d)%len(jsons)])
						}
						if d < depth {
							tx := texts[(i+3*d+variant)%len(texts)]
							if strings.Contains(tx, "\x1b") || tx == "json" || strings.Contains(tx, "jso") || strings.Contains(tx, "son") {
								tx = "ctx: "
							}
							switch (variant + d + bi) % 4 {
							case 0:
								recipe += ";W2." + hs(tx) + "." + hs(" / ") + ".-." + []string{"L", "R"}[(d+variant)%2] + "." + hs("io: unexpected EOF")
							case 1:
								recipe += ";J." + []string{"L", "R"}[(d+variant)%2] + "." + hs("close: broken pipe")
							case 2:
								recipe += ";W." + hs(tx) + ".-"
							default:
								recipe += ";W2.-." + hs(tx) + "." + hs(" (again)") + "." + []string{"R", "L"}[(d+variant)%2] + "." + hs("second")
							}
						}
					}
					if probe, _, ej := buildErrSafe(recipe); probe == nil ||
						strings.Count(probe.Error(), gerrors.VerifMarker()) != map[bool]int{true: 2, false: 0}[ej != ""] {
						ctx.R.Branch("skipped: texts would form the marker")
						continue
					}
					ctx.R.Nontrivial("tree or OS error")
					do("code %s", recipe)
					do("idem %s", recipe)
					do("is %s %s", recipe, cls)
					do("is %s %s", recipe, names[(i+1+variant)%len(names)])
					do("israw %s %s", recipe, cls)
					if embedAt <= depth {
						do("ext %s", recipe)
						do("markers %s", recipe)
					}
				}
			}
		}
	}
	// non-class bases and status bases (outside the property's hypothesis; model/code agreement only)
	ctx.R.Case("other-bases")
	for _, c := range grpcCodes {
		if c == codes.OK {
			continue
		}
		for _, wrap := range []string{"", ";W." + hs("outer: ") + ".-"} {
			recipe := "S." + c.String() + "." + hs("msg") + wrap
			do("code %s", recipe)
			do("idem %s", recipe)
			for _, t := range names {
				do("is %s %s", recipe, t)
			}
		}
	}
	for _, tx := range texts {
		if tx == "" {
			continue
		}
		recipe := "O." + hs(tx) + ";W." + hs("w: ") + ".-"
		do("code %s", recipe)
		do("idem %s", recipe)
		do("is %s ErrInternal", recipe)
		do("ext %s", recipe)
	}
}
