package main

import (
	"fmt"
	"strconv"
	"strings"

	"github.com/acquirecloud/golibs/container/iterable"
)

func init() {
	components["omap"] = runOMap
	replayers["omap"] = func(ctx *Ctx, hdr []string, ops []string) {
		var clean []string
		for _, o := range ops {
			if o != "chain" {
				clean = append(clean, o)
			}
		}
		omapRunCase(ctx, clean, true)
	}
}

// omapRunCase runs one history on a fresh real Map.  Iterator handles are numbered in order of
// creation (as in the model).
func omapRunCase(ctx *Ctx, ops []string, dump bool) {
	im := iterable.NewMap[int, int]()
	its := map[int]iterable.Iterator[iterable.MapEntry[int, int]]{}
	nextH := 0
	ctx.R.Case("map")
	removedKeys := map[int]bool{}
	for _, o := range ops {
		w := strings.Fields(o)
		arg := func(i int) int { v, _ := strconv.Atoi(w[i]); return v }
		// non-triviality: an iterator is parked on an entry at the moment it is removed, or an
		// iterator is closed on a removed entry
		if w[0] == "remove" || w[0] == "close" {
			nodes, del, _ := iterable.VerifChain(im, 10000)
			if w[0] == "remove" {
				for _, n := range nodes {
					f := strings.Split(n, ":")
					if f[0] == "ok" && f[2] == w[1] && f[1] != "0" {
						ctx.R.Nontrivial("remove of an entry an iterator is parked on")
					}
				}
			} else if del > 0 {
				ctx.R.Branch("close while removed entries are pinned")
				if len(nodes) > 0 && strings.HasPrefix(nodes[0], "deleted") {
					ctx.R.Nontrivial("close with the head entry removed-but-pinned")
				}
			}
		}
		panicked := false
		out := guard(func() string {
			switch w[0] {
			case "add":
				if err := im.Add(arg(1), arg(2)); err != nil {
					return "ErrExists"
				}
				if removedKeys[arg(1)] {
					ctx.R.Branch("re-added key")
				}
				return "ok"
			case "remove":
				im.Remove(arg(1))
				removedKeys[arg(1)] = true
				return "ok"
			case "get":
				v, ok := im.Get(arg(1))
				if !ok {
					return "none"
				}
				return fmt.Sprintf("kv %d %d", arg(1), v)
			case "len":
				return fmt.Sprintf("num %d", im.Len())
			case "first":
				k, ok := im.First()
				if !ok {
					return "none"
				}
				return fmt.Sprintf("key %d", k)
			case "iter":
				its[nextH] = im.Iterator()
				nextH++
				return fmt.Sprintf("h %d", nextH-1)
			case "hasNext":
				it, ok := its[arg(1)]
				if !ok {
					return "badHandle"
				}
				return fmt.Sprintf("b %v", it.HasNext())
			case "next":
				it, ok := its[arg(1)]
				if !ok {
					return "badHandle"
				}
				e, ok := it.Next()
				if !ok {
					return "none"
				}
				return fmt.Sprintf("kv %d %d", e.Key, e.Value)
			case "close":
				it, ok := its[arg(1)]
				if !ok {
					return "badHandle"
				}
				it.Close()
				delete(its, arg(1))
				return "ok"
			}
			return "bad-op"
		})
		if out == "panic" {
			panicked = true
		}
		ctx.R.Op(o, out)
		if panicked {
			ctx.R.Quiet("mon C10-never-panics", "the map panicked at `"+o+"`")
			return // the real object may be corrupt after a panic
		}
		// C11 monitor, evaluated on the real object: linked nodes = Len + 1 + pinned removed entries,
		// pinned <= open iterators
		nodes, del, ok := iterable.VerifChain(im, 20000)
		switch {
		case !ok:
			ctx.R.Quiet("mon C11-retained", "list from head does not terminate (cyclic chain)")
			ctx.R.Quiet("mon C10-chain-acyclic", "after `"+o+"` the entry list reachable from head is cyclic or longer than 20000 nodes")
			return // the real object is corrupt: traversals may not terminate
		case len(nodes) != im.Len()+1+del || del > len(its):
			ctx.R.Quiet("mon C11-retained", fmt.Sprintf("%d nodes linked, Len=%d, removed-but-pinned=%d, open iterators=%d", len(nodes), im.Len(), del, len(its)))
		case len(its) == 0 && len(nodes) != im.Len()+1:
			ctx.R.Quiet("mon C11-retained", fmt.Sprintf("no open iterator but %d nodes linked, Len=%d", len(nodes), im.Len()))
		}
		if dump {
			ctx.R.Quiet("chain", "chain ["+strings.Join(nodes, ",")+"]")
		}
	}
}

func runOMap(ctx *Ctx) {
	// corpus-like fixed histories first (D1 and relatives)
	fixed := [][]string{
		{"add 1 1", "iter", "remove 1", "close 0", "first"},
		{"add 1 1", "iter", "remove 1", "close 0", "add 2 2", "first", "iter", "next 1"},
		{"add 1 1", "add 2 2", "iter", "iter", "remove 1", "close 0", "close 1", "first", "len"},
		{"add 1 1", "add 2 2", "iter", "next 0", "remove 2", "add 3 3", "hasNext 0", "next 0", "next 0", "first", "close 0"},
		{"add 1 1", "iter", "hasNext 0", "remove 1", "next 0", "add 2 5", "next 0", "close 0"},
	}
	for _, f := range fixed {
		omapRunCase(ctx, f, true)
	}
	// exhaustive to a depth bound: keys {1,2}, up to 3 iterators
	depth := 5
	if ctx.Thorough {
		depth = 6
	}
	maxIts := 2
	if ctx.Thorough {
		maxIts = 3
	}
	val := 10
	var seq []string
	var rec func(open []int, created int)
	rec = func(open []int, created int) {
		if len(seq) == depth {
			omapRunCase(ctx, seq, true)
			return
		}
		try := func(op string, open2 []int, created2 int) {
			seq = append(seq, op)
			rec(open2, created2)
			seq = seq[:len(seq)-1]
		}
		for k := 1; k <= 2; k++ {
			val++
			if val > 99 {
				val = 10
			}
			try(fmt.Sprintf("add %d %d", k, val), open, created)
			try(fmt.Sprintf("remove %d", k), open, created)
		}
		if ctx.Thorough {
			try("get 1", open, created)
		}
		try("len", open, created)
		try("first", open, created)
		if created < maxIts {
			try("iter", append(append([]int{}, open...), created), created+1)
		}
		for i, h := range open {
			try(fmt.Sprintf("hasNext %d", h), open, created)
			try(fmt.Sprintf("next %d", h), open, created)
			rest := append(append([]int{}, open[:i]...), open[i+1:]...)
			try(fmt.Sprintf("close %d", h), rest, created)
		}
	}
	rec(nil, 0)
	ctx.R.Size(fmt.Sprintf("exhaustive depth=%d keys=2 iterators<=%d", depth, maxIts))
	// random long histories: 3 keys, up to 8 open iterators, re-added keys
	n := 400
	if ctx.Thorough {
		n = 8000
	}
	r := ctx.Rnd
	for c := 0; c < n; c++ {
		var ops []string
		var open []int
		created := 0
		l := r.Range(10, 150)
		nk := r.Range(2, 4)
		for i := 0; i < l; i++ {
			x := r.Intn(100)
			switch {
			case x < 22:
				ops = append(ops, fmt.Sprintf("add %d %d", r.Range(1, nk), r.Range(1, 999)))
			case x < 42:
				ops = append(ops, fmt.Sprintf("remove %d", r.Range(1, nk)))
			case x < 46:
				ops = append(ops, fmt.Sprintf("get %d", r.Range(1, nk)))
			case x < 50:
				ops = append(ops, "len")
			case x < 56:
				ops = append(ops, "first")
			case x < 66:
				if len(open) < 8 {
					ops = append(ops, "iter")
					open = append(open, created)
					created++
				}
			case x < 76:
				if len(open) > 0 {
					ops = append(ops, fmt.Sprintf("hasNext %d", open[r.Intn(len(open))]))
				}
			case x < 92:
				if len(open) > 0 {
					ops = append(ops, fmt.Sprintf("next %d", open[r.Intn(len(open))]))
				}
			default:
				if len(open) > 0 {
					i := r.Intn(len(open))
					ops = append(ops, fmt.Sprintf("close %d", open[i]))
					open = append(open[:i], open[i+1:]...)
				}
			}
		}
		// end with every iterator closed (C11: then nothing removed may be retained)
		for _, h := range open {
			ops = append(ops, fmt.Sprintf("close %d", h))
		}
		ops = append(ops, "len", "first")
		omapRunCase(ctx, ops, l < 60)
	}
}
