package main

// C17, memory-mapped stores (Go-side monitors only): an allocator on a memory-mapped FILE, closed, the file opened
// again through a NARROWER window (fewer segments) and closed, once more narrow and widened with Grow to the file's
// size and closed, then opened in full (by its size, and with -1):
// the set of allocated blocks and the user data of every segment must be what they were — the allocation state
// lives in the bytes of the file, whatever window somebody looked through in between.

import (
	"fmt"
	"os"
	"path/filepath"

	cbytes "github.com/acquirecloud/golibs/container/bytes"
	"github.com/acquirecloud/golibs/files"
)

func blkMMScenario(ctx *Ctx, bs, segs, narrowSegs, nalloc int, freeEvery int) {
	page := os.Getpagesize()
	ctx.R.Case(page, 1, 0, false, "-") // the degenerate geometry: the driver opens it and leaves it alone (monitors only)
	ctx.R.Comment(fmt.Sprintf("mmfile bs=%d segments=%d narrow=%d alloc=%d", bs, segs, narrowSegs, nalloc))
	ctx.R.Stats.OpKinds["mmfile"]++
	ctx.R.Nontrivial("memory-mapped file reopened through a narrower window")
	dir, err := os.MkdirTemp("", "verif-mm")
	if err != nil {
		return
	}
	defer os.RemoveAll(dir)
	fname := filepath.Join(dir, "store.bin")
	segSize := (8*bs + 1) * bs
	round := func(n int) int64 { return int64((n + files.BlockSize - 1) / files.BlockSize * files.BlockSize) }
	full, narrow := round(segs*segSize), round(narrowSegs*segSize)
	if narrow >= full {
		narrow = full - files.BlockSize
	}
	bad := func(msg string) { ctx.R.Quiet("mon C17-reopen-same-state", fmt.Sprintf("mmfile bs=%d segments=%d: %s", bs, segs, msg)) }
	mm, err := files.NewMMFile(fname, full)
	if err != nil {
		bad("cannot create the file: " + err.Error())
		return
	}
	b, err := cbytes.NewBlocks(bs, mm, false)
	if err != nil {
		bad("cannot open the allocator: " + err.Error())
		mm.Close()
		return
	}
	alloc := map[int]byte{}
	for i := 0; i < nalloc; i++ {
		idx, err := b.ArrangeBlock()
		if err != nil {
			break
		}
		blk, _ := b.Block(idx)
		for j := range blk {
			blk[j] = byte(idx*7 + 1)
		}
		alloc[idx] = byte(idx*7 + 1)
	}
	if freeEvery > 0 {
		for idx := range alloc {
			if idx%freeEvery == 0 {
				if b.FreeBlock(idx) == nil {
					delete(alloc, idx)
				}
			}
		}
	}
	count := b.Count()
	b.Close()
	// a narrower window
	if mn, err := files.NewMMFile(fname, narrow); err == nil {
		if bn, err := cbytes.NewBlocks(bs, mn, false); err == nil {
			if bn.Count() > count {
				bad(fmt.Sprintf("the narrow window shows %d blocks, the full store has %d", bn.Count(), count))
			}
			bn.Close()
			} else {
			mn.Close()
			}
			}
			// … and a narrow window that is WIDENED again with Grow while the file is longer than the window: the bytes the
			// wider window shows are the file's, not fresh ones (checked together with the two reopenings below)
			if mg, err := files.NewMMFile(fname, narrow); err == nil {
			if gerr := mg.Grow(full); gerr != nil {
			bad(fmt.Sprintf("Grow from the narrow window (%d) to the file's size (%d) failed: %v", narrow, full, gerr))
			}
			mg.Close()
			}
	// the full file again: by explicit size and by its own size
	for _, sz := range []int64{full, -1} {
		mf, err := files.NewMMFile(fname, sz)
		if err != nil {
			bad(fmt.Sprintf("cannot reopen the file with size %d: %v", sz, err))
			return
		}
		bf, err := cbytes.NewBlocks(bs, mf, false)
		if err != nil {
			bad(fmt.Sprintf("cannot reopen the allocator (size %d): %v", sz, err))
			mf.Close()
			return
		}
		if bf.Count() != count {
			bad(fmt.Sprintf("reopened (size %d) with %d blocks, there were %d", sz, bf.Count(), count))
		}
		if bf.Available() != bf.Count()-len(alloc) {
			bad(fmt.Sprintf("reopened (size %d): Available=%d, Count=%d, allocated before=%d", sz, bf.Available(), bf.Count(), len(alloc)))
		}
		for idx, pat := range alloc {
			blk, err := bf.Block(idx)
			if err != nil || len(blk) == 0 || blk[0] != pat || blk[len(blk)-1] != pat {
				bad(fmt.Sprintf("reopened (size %d): the data of allocated block %d is not what was written", sz, idx))
				break
			}
		}
		// an index still allocated must not be handed out
		if idx, err := bf.ArrangeBlock(); err == nil {
			if _, was := alloc[idx]; was {
				ctx.R.Quiet("mon C17-no-double-allocation", fmt.Sprintf("mmfile bs=%d segments=%d reopened (size %d): index %d handed out while still allocated", bs, segs, sz, idx))
			}
			bf.FreeBlock(idx)
		}
		bf.Close()
	}
}

func runBlkMM(ctx *Ctx) {
	r := ctx.Rnd
	n := 6
	if ctx.Thorough {
		n = 60
	}
	for i := 0; i < n; i++ {
		bs := []int{16, 32, 64}[r.Intn(3)] // (a segment of bs=8 is 520 bytes: every window would be one 4096-byte page)
		segs := r.Range(2, 4)
		narrow := r.Range(1, segs-1)
		nalloc := 8*bs*(segs-1) + r.Range(1, 8*bs) // reaches the last segment
		blkMMScenario(ctx, bs, segs, narrow, nalloc, []int{0, 3, 5}[r.Intn(3)])
	}
}
