package main

import (
	"net"
	"encoding/hex"
	"context"
	"errors"
	"fmt"
	"sort"
	"strconv"
	"strings"
	"time"

	gerrors "github.com/acquirecloud/golibs/errors"
	"github.com/acquirecloud/golibs/kvs"
	"github.com/acquirecloud/golibs/kvs/inmem"
	kredis "github.com/acquirecloud/golibs/kvs/redis"
	"github.com/alicebob/miniredis/v2"
	goredis "github.com/go-redis/redis/v8"
)

func init() {
	components["kvinmem"] = func(ctx *Ctx) { runKv(ctx, "inmem") }
	components["kvredis"] = func(ctx *Ctx) { runKv(ctx, "redis") }
	rp := func(ctx *Ctx, hdr []string, ops []string) { kvRunCase(ctx, hdr[0], strings.Join(hdr[1:], " "), ops) }
	replayers["kvinmem"] = rp
	replayers["kvredis"] = rp
}

var kvBase = time.Date(2030, 1, 1, 0, 0, 0, 0, time.UTC)

// getHook signals the completion of every GET the client issues (used by the Wait probe).
type getHook struct{ done chan struct{} }

func (h *getHook) BeforeProcess(ctx context.Context, cmd goredis.Cmder) (context.Context, error) {
	return ctx, nil
}
func (h *getHook) AfterProcess(ctx context.Context, cmd goredis.Cmder) error {
	if cmd.Name() == "get" {
		select {
		case h.done <- struct{}{}:
		default:
		}
	}
	return nil
}
func (h *getHook) BeforeProcessPipeline(ctx context.Context, cmds []goredis.Cmder) (context.Context, error) {
	return ctx, nil
}
func (h *getHook) AfterProcessPipeline(ctx context.Context, cmds []goredis.Cmder) error { return nil }

type kvBackend struct {
	hook    *getHook
	st      kvs.Storage
	mr      *miniredis.Miniredis
	now     int
	redis   bool
	seen    []string // version strings in order of first occurrence in outputs
	issued  map[string]bool
	cleanup func()
	pendingMon [][2]string // monitor lines to emit after the current op line
	doneCtx    bool        // the current call gets a context that is already cancelled
	down       bool        // the Redis server was closed: every call must fail
	downUnsure bool        // … but its port could not be kept: the rest of the case is skipped
}

func newKvBackend(kind string) *kvBackend {
	b := &kvBackend{issued: map[string]bool{}}
	clock := func() time.Time { return kvBase.Add(time.Duration(b.now) * time.Millisecond) }
	if kind == "redis" {
		mr, err := miniredis.Run()
		if err != nil {
			panic(err)
		}
		mr.SetTime(kvBase)
		b.mr = mr
		b.redis = true
		b.st = kredis.New(&goredis.Options{Addr: mr.Addr()})
		b.hook = &getHook{done: make(chan struct{}, 1)}
		kredis.VerifAddHook(b.st, b.hook)
		kredis.VerifSetClock(clock)
		b.cleanup = func() { kredis.VerifClose(b.st); mr.Close(); kredis.VerifSetClock(nil) }
	} else {
		b.st = inmem.New()
		inmem.VerifSetClock(clock)
		b.cleanup = func() { inmem.VerifSetClock(nil) }
	}
	return b
}

func (b *kvBackend) advanceTo(t int) {
	if t > b.now {
		if b.mr != nil {
			b.mr.FastForward(time.Duration(t-b.now) * time.Millisecond)
		}
		b.now = t
	}
}

func (b *kvBackend) name(v string) string {
	for i, s := range b.seen {
		if s == v {
			return fmt.Sprintf("v%d", i+1)
		}
	}
	b.seen = append(b.seen, v)
	return fmt.Sprintf("v%d", len(b.seen))
}

func (b *kvBackend) ver(s string) string {
	if strings.HasPrefix(s, "v") {
		n, _ := strconv.Atoi(s[1:])
		if n >= 1 && n <= len(b.seen) {
			return b.seen[n-1]
		}
	}
	if s == "u9" {
		return "" // the EMPTY version string: never issued either
	}
	return "never-issued-" + s
}

// value tokens: "-" empty, "#<hex>" arbitrary bytes (binary, ill-formed UTF-8), "L<n>" a text of n bytes, else the text itself
func kvVal(s string) []byte {
	if s == "-" {
		return nil
	}
	if strings.HasPrefix(s, "#") {
		b, err := hex.DecodeString(s[1:])
		if err == nil {
			return b
		}
	}
	if strings.HasPrefix(s, "L") {
		if n, err := strconv.Atoi(s[1:]); err == nil && n > 0 {
			return []byte(strings.Repeat("v", n))
		}
	}
	return []byte(s)
}
func kvShowVal(v []byte) string {
	if len(v) == 0 {
		return "-"
	}
	if len(v) > 40 && strings.Count(string(v), "v") == len(v) {
		return fmt.Sprintf("L%d", len(v))
	}
	for _, c := range v {
		if c < 0x21 || c > 0x7e || c == ':' || c == ',' || c == '|' || c == '#' {
			return "#" + hex.EncodeToString(v)
		}
	}
	return string(v)
}
func kvExp(s string) *time.Time {
	if s == "-" {
		return nil
	}
	if s == "z" {
		return &time.Time{} // a SET expiry holding the zero time: long past (the model reads it as instant 0; only used when now >= 1)
	}
	ms, _ := strconv.Atoi(s)
	t := kvBase.Add(time.Duration(ms) * time.Millisecond)
	return &t
}
func kvShowExp(t *time.Time) string {
	if t == nil {
		return "-"
	}
	if t.IsZero() {
		return "0"
	}
	return strconv.Itoa(int(t.Sub(kvBase) / time.Millisecond))
}

func kvErr(err error) string {
	switch {
	case errors.Is(err, gerrors.ErrExist):
		return "ErrExist"
	case errors.Is(err, gerrors.ErrNotExist):
		return "ErrNotExist"
	case errors.Is(err, gerrors.ErrConflict):
		return "ErrConflict"
	case errors.Is(err, context.Canceled), errors.Is(err, context.DeadlineExceeded):
		return "ctxErr"
	}
	return "otherErr:" + strings.ReplaceAll(err.Error(), " ", "_")
}

// fresh: C02 monitor on raw strings — a successful write's version was never handed out before
func (b *kvBackend) fresh(ctx *Ctx, op, v string) {
	if b.issued[v] || v == "" {
		ctx.R.Quiet("mon C02-fresh-version", fmt.Sprintf("%s returned version %q which was handed out before (or is empty)", op, v))
	}
	b.issued[v] = true
}

// the token "~" stands for the EMPTY key / pattern (the line protocol is space-separated)
func kvKey(t string) string {
	if t == "~" {
		return ""
	}
	return t
}
func kvShowKey(k string) string {
	if k == "" {
		return "~"
	}
	return k
}

func (b *kvBackend) exec(ctx *Ctx, w0 []string) string {
	c := context.Background()
	if b.doneCtx {
		cc, cancel := context.WithCancel(c)
		cancel()
		c = cc
	}
	w := append([]string{}, w0...)
	switch w[0] {
	case "create", "get", "put", "cas", "delete", "wait", "list":
		w[1] = kvKey(w[1])
	}
	switch w[0] {
	case "down":
		// the server goes away (Redis only): from now on every call must FAIL — an answer that looks like a
		// result ("no such key", an empty listing) would be an invention
		if b.mr != nil {
			// (the freed port must not fall to somebody else's server — another check's miniredis running in parallel
			// takes a free port at random, and the client would happily talk to it: occupy the address with a listener
			// that hangs up on every connection; if somebody was quicker, the rest of the case is not run)
			addr := b.mr.Addr()
			b.mr.Close()
			b.down = true
			if ln, err := net.Listen("tcp", addr); err == nil {
				go func() {
					for {
						cn, err := ln.Accept()
						if err != nil {
							return
						}
						cn.Close()
					}
				}()
				old := b.cleanup
				b.cleanup = func() { ln.Close(); old() }
			} else {
				b.downUnsure = true
			}
		}
		return "ok"
	case "subms":
		us, _ := strconv.Atoi(w[2])
		ctx.R.Nontrivial("sub-millisecond expiry via " + w[1])
		b.pendingMon = append(b.pendingMon, [2]string{"mon C06-never-outlives-expiry", b.subms(w[1], us)})
		return "ok"
	case "create":
		v, err := b.st.Create(c, kvs.Record{Key: w[1], Value: kvVal(w[2]), ExpiresAt: kvExp(w[3])})
		if err == nil {
			b.fresh(ctx, "Create", v)
			return "ok " + b.name(v)
		}
		if errors.Is(err, gerrors.ErrExist) {
			if v == "" {
				return "ErrExist -"
			}
			return "ErrExist " + b.name(v)
		}
		return kvErr(err)
	case "get":
		r, err := b.st.Get(c, w[1])
		if err != nil {
			return kvErr(err)
		}
		if r.Key != w[1] {
			return "rec-with-wrong-key " + r.Key
		}
		return fmt.Sprintf("rec %s %s %s", kvShowVal(r.Value), b.name(r.Version), kvShowExp(r.ExpiresAt))
	case "getmany":
		var keys []string
		if w[1] != "-" {
			keys = strings.Split(w[1], ",")
			for i := range keys {
				keys[i] = kvKey(keys[i])
			}
		}
		rs, err := b.st.GetMany(c, keys...)
		if err != nil {
			return kvErr(err)
		}
		if len(rs) != len(keys) {
			return fmt.Sprintf("recs-wrong-length %d", len(rs))
		}
		parts := make([]string, len(rs))
		for i, r := range rs {
			if r == nil {
				parts[i] = "nil"
			} else {
				parts[i] = fmt.Sprintf("%s:%s:%s", kvShowVal(r.Value), b.name(r.Version), kvShowExp(r.ExpiresAt))
				if r.Key != keys[i] {
					parts[i] += "!key=" + r.Key
				}
			}
		}
		return "recs [" + strings.Join(parts, ",") + "]"
	case "put":
		r, err := b.st.Put(c, kvs.Record{Key: w[1], Value: kvVal(w[2]), ExpiresAt: kvExp(w[3]), Version: "caller-supplied"})
		if err != nil {
			return kvErr(err)
		}
		b.fresh(ctx, "Put", r.Version)
		return "ok " + b.name(r.Version)
	case "putmany":
		var recs []kvs.Record
		if w[1] != "-" {
			for _, p := range strings.Split(w[1], ",") {
				f := strings.Split(p, ":")
				recs = append(recs, kvs.Record{Key: kvKey(f[0]), Value: kvVal(f[1]), ExpiresAt: kvExp(f[2]), Version: "caller-supplied"})
			}
		}
		if err := b.st.PutMany(c, recs); err != nil {
			return kvErr(err)
		}
		return "ok"
	case "cas":
		r, err := b.st.CasByVersion(c, kvs.Record{Key: w[1], Version: b.ver(w[2]), Value: kvVal(w[3]), ExpiresAt: kvExp(w[4])})
		if err != nil {
			return kvErr(err)
		}
		b.fresh(ctx, "CasByVersion", r.Version)
		return "ok " + b.name(r.Version)
	case "delete":
		if err := b.st.Delete(c, w[1]); err != nil {
			return kvErr(err)
		}
		return "ok"
	case "list":
		it, err := b.st.ListKeys(c, w[1])
		if err != nil {
			return kvErr(err)
		}
		var ks []string
		for it.HasNext() {
			k, ok := it.Next()
			if !ok {
				break
			}
			ks = append(ks, kvShowKey(k))
		}
		it.Close()
		sort.Strings(ks)
		return "keys [" + strings.Join(ks, ",") + "]"
	case "wait":
		// one probe: does WaitForVersionChange return, or would it block?
		wc, cancel := context.WithCancel(c)
		defer cancel()
		var err error
		if b.redis {
			// the Redis client polls: it "blocks" iff it goes to sleep after its first GET completed.
			// No wall-clock limit on the GET itself; 5 ms of grace for the comparison after it.
			select {
			case <-b.hook.done:
			default:
			}
			res := make(chan error, 1)
			go func() { res <- b.st.WaitForVersionChange(wc, w[1], b.ver(w[2])) }()
			select {
			case err = <-res:
			case <-b.hook.done:
				select {
				case err = <-res:
				case <-time.After(30 * time.Millisecond):
					cancel()
					err = <-res
				}
			case <-time.After(5 * time.Second):
				cancel()
				err = <-res
			}
		} else {
			cancel() // in-memory: conditions are tested before the context
			err = b.st.WaitForVersionChange(wc, w[1], b.ver(w[2]))
		}
		if err == nil {
			return "nil"
		}
		if kvErr(err) == "ctxErr" {
			return "blocks"
		}
		return kvErr(err)
	}
	return "bad-op"
}

func kvRunCase(ctx *Ctx, kind, tag string, ops []string) {
	b := newKvBackend(kind)
	defer b.cleanup()
	if tag == "" {
		ctx.R.Case(kind)
	} else {
		ctx.R.Case(kind, tag)
	}
	written := map[string]int{} // key -> expiry of the last write (-1 none)
	for _, o := range ops {
		if b.downUnsure {
			ctx.R.Comment("skipped (the closed server's port was taken by another process): " + o)
			continue
		}
		w := strings.Fields(o)
		t, _ := strconv.Atoi(w[0])
		b.advanceTo(t)
		// non-triviality (C03/C06): read after write of the same key, or an op on a key whose expiry has passed
		for _, k := range kvKeysOf(w[1:]) {
			if e, ok := written[k]; ok {
				if e >= 0 && e < b.now {
					ctx.R.Nontrivial("first op on an expired key: " + w[1])
					delete(written, k)
				} else if w[1] == "get" || w[1] == "getmany" || w[1] == "cas" || w[1] == "wait" || w[1] == "create" {
					ctx.R.Nontrivial("read after write of the same key")
				}
			}
		}
		var out string
		if strings.HasPrefix(w[1], "!") {
			// the call is made with a context that is ALREADY DONE.  The contract leaves it open whether an operation
			// looks at its context: it may refuse (the context's error, nothing changed — recorded as `!op`, the
			// model answers ctxErr and keeps its state) or carry on regardless (recorded as the plain op, held to the
			// contract like any other call).  What it may not do is answer something else.
			w2 := append([]string{strings.TrimPrefix(w[1], "!")}, w[2:]...)
			b.doneCtx = true
			out = guard(func() string { return b.exec(ctx, w2) })
			b.doneCtx = false
			if out != "ctxErr" {
				o = w[0] + " " + strings.Join(w2, " ")
				w = append([]string{w[0]}, w2...)
			}
			ctx.R.Nontrivial("context already done")
		} else {
		out = guard(func() string { return b.exec(ctx, w[1:]) })
		}
		if b.down && strings.HasPrefix(out, "otherErr:") {
			out = "otherErr" // (whatever the network error says)
		}
		ctx.R.Op(o, out)
		for _, m := range b.pendingMon {
			ctx.R.Quiet(m[0], m[1])
		}
		b.pendingMon = nil
		if strings.HasPrefix(out, "ok") {
			switch w[1] {
			case "create", "put":
				written[w[2]] = kvExpInt(w[4])
			case "cas":
				written[w[2]] = kvExpInt(w[5])
			case "putmany":
				if w[2] != "-" {
					for _, p := range strings.Split(w[2], ",") {
						f := strings.Split(p, ":")
						written[f[0]] = kvExpInt(f[2])
					}
				}
			case "delete":
				delete(written, w[2])
			}
		}
		if out == "panic" {
			ctx.R.Quiet("mon C03-no-panic", "storage panicked at "+o)
			return
		}
	}
}

// kvSubMs: every writing operation with ExpiresAt = now + {1µs, 400µs, 999µs}; 5 ms later the record must be
// absent for Get and Create must succeed (op `subms <write kind> <µs>`, executed by kvBackend.exec).
func kvSubMs(ctx *Ctx) {
	for _, wr := range []string{"put", "create", "putmany", "cas"} {
		for _, d := range []int{1, 400, 999} {
			kvRunCase(ctx, "redis", "subms", []string{fmt.Sprintf("0 subms %s %d", wr, d)})
		}
	}
}

func (b *kvBackend) subms(wr string, us int) string {
	bg := context.Background()
	d := time.Duration(us) * time.Microsecond
	exp := kvBase.Add(time.Duration(b.now)*time.Millisecond + d)
	var err error
	switch wr {
	case "put":
		_, err = b.st.Put(bg, kvs.Record{Key: "k", Value: []byte("x"), ExpiresAt: &exp})
	case "create":
		_, err = b.st.Create(bg, kvs.Record{Key: "k", Value: []byte("x"), ExpiresAt: &exp})
	case "putmany":
		err = b.st.PutMany(bg, []kvs.Record{{Key: "k", Value: []byte("x"), ExpiresAt: &exp}, {Key: "j", Value: []byte("y")}})
	case "cas":
		var r kvs.Record
		if r, err = b.st.Put(bg, kvs.Record{Key: "k", Value: []byte("x")}); err == nil {
			_, err = b.st.CasByVersion(bg, kvs.Record{Key: "k", Value: []byte("z"), Version: r.Version, ExpiresAt: &exp})
		}
	}
	if err != nil {
		return "the write failed: " + err.Error()
	}
	b.advanceTo(b.now + 5)
	if _, gerr := b.st.Get(bg, "k"); !errors.Is(gerr, gerrors.ErrNotExist) {
		return fmt.Sprintf("5 ms after a %s with ExpiresAt = now+%v the record is still returned by Get (err=%v)", wr, d, gerr)
	}
	if _, cerr := b.st.Create(bg, kvs.Record{Key: "k", Value: []byte("n")}); cerr != nil {
		return fmt.Sprintf("5 ms after a %s with ExpiresAt = now+%v Create on the key fails: %v", wr, d, cerr)
	}
	return "ok"
}

func kvExpInt(s string) int {
	if s == "-" {
		return -1
	}
	v, _ := strconv.Atoi(s)
	return v
}

func kvKeysOf(w []string) []string {
	switch w[0] {
	case "create", "get", "put", "cas", "delete", "wait":
		return []string{w[1]}
	case "getmany":
		if w[1] == "-" {
			return nil
		}
		return strings.Split(w[1], ",")
	}
	return nil
}

// kvGen generates one history.  redisOK: op times even, expiries odd and in the future.
func kvGen(ctx *Ctx, n int, redisOK bool, keys []string) []string {
	r := ctx.Rnd
	vals := []string{"x", "y", "-", "zz"}
	if r.Chance(1, 4) {
		// binary values, ill-formed UTF-8, values around the 127/128-byte mark (a backend's encoding of the record is
		// not text: nothing on the way to the server may treat it as such)
		vals = []string{"x", "#ff", "#c328", "#00", "L127", "L128", "L300", "-", "#e282"}
	}
	pats := []string{"*", "a*", "?", "a?", "b", "*b", "a*b", "??", "zz*", "a", "ab", "zz/1"}
	if len(keys) > 0 && keys[0] == "a/b" {
		pats = []string{"*", "a*", "a/*", "*b", "a/b", "a//b", "a/b/", "a/?/b", "a/b?", "*/"}
	}
	if len(keys) > 0 && keys[0] == "~" {
		pats = []string{"*", "~", "a*", "?", "*a", "**", "a"}
	}
	if len(keys) > 0 && keys[0] == "a*" {
		// escape alphabet: keys that contain wildcard characters / a backslash, patterns with `\x` escapes
		pats = []string{"*", "a*", "a\\*", "a\\?b", "a?b", "a\\\\b", "\\ab", "a\\b", "a\\**", "ab", "a\\*b", "?\\*"}
	}
	now := 0
	nver := 0
	farExp := r.Chance(1, 5)
	exp := func() string {
		if farExp && r.Chance(1, 3) {
			// "never expires": centuries ahead (beyond what a 64-bit nanosecond count since 1970 can hold)
			return []string{"8830000000000", "8000000000000"}[r.Intn(2)]
		}
		switch r.Intn(4) {
		case 0, 1:
			return "-"
		case 2:
			if redisOK {
				return strconv.Itoa(now + 1 + 2*r.Intn(3)) // short, odd
			}
			e := now + r.Range(-2, 4)
			if e < 0 {
				e = 0
			}
			return strconv.Itoa(e)
		}
		if redisOK {
			return strconv.Itoa(now + 1001)
		}
		return strconv.Itoa(now + 1000)
	}
	verArg := func() string {
		if nver > 0 && r.Chance(5, 6) {
			if r.Chance(2, 3) {
				return fmt.Sprintf("v%d", nver) // most likely the current one
			}
			return fmt.Sprintf("v%d", r.Range(1, nver))
		}
		if r.Chance(1, 4) {
			return "u9" // empty version
		}
		return fmt.Sprintf("u%d", r.Intn(3))
	}
	var ops []string
	for i := 0; i < n; i++ {
		if r.Chance(1, 3) {
			if redisOK {
				now += 2 * r.Range(1, 4)
			} else {
				now += r.Range(0, 5)
			}
		}
		k := keys[r.Intn(len(keys))]
		var o string
		switch x := r.Intn(100); {
		case x < 14:
			o = fmt.Sprintf("create %s %s %s", k, vals[r.Intn(len(vals))], exp())
			nver++
		case x < 32:
			o = "get " + k
		case x < 40:
			m := r.Range(0, 3)
			ks := make([]string, m)
			for j := range ks {
				ks[j] = keys[r.Intn(len(keys))]
			}
			if m == 0 {
				o = "getmany -"
			} else {
				o = "getmany " + strings.Join(ks, ",")
			}
		case x < 54:
			o = fmt.Sprintf("put %s %s %s", k, vals[r.Intn(len(vals))], exp())
			nver++
		case x < 62:
			m := r.Range(0, 3)
			ps := make([]string, m)
			withExp := r.Chance(1, 2)
			for j := range ps {
				e := "-"
				if withExp && r.Chance(2, 3) {
					e = exp()
				}
				ps[j] = fmt.Sprintf("%s:%s:%s", keys[r.Intn(len(keys))], vals[r.Intn(len(vals))], e)
			}
			if m == 0 {
				o = "putmany -"
			} else {
				o = "putmany " + strings.Join(ps, ",")
			}
		case x < 76:
			o = fmt.Sprintf("cas %s %s %s %s", k, verArg(), vals[r.Intn(len(vals))], exp())
			nver++
		case x < 86:
			o = "delete " + k
		case x < 93:
			o = "list " + pats[r.Intn(len(pats))]
		default:
			o = fmt.Sprintf("wait %s %s", k, verArg())
		}
		if !strings.HasPrefix(o, "wait ") && r.Chance(1, 12) {
			o = "!" + o // with a context that is already done
		}
		ops = append(ops, fmt.Sprintf("%d %s", now, o))
	}
	return ops
}

func runKv(ctx *Ctx, kind string) {
	keys := []string{"a", "b", "ab", "zz/1"}
	// 1. C06: every op kind as the FIRST one to touch an expired key x {short, long, none} expiry x advance past / not past
	firsts := []string{"get a", "getmany a,b", "cas a v1 y -", "delete a", "create a y -", "list *", "list a*", "wait a v1", "put a y -", "putmany a:y:-"}
	for _, e := range []string{"5", "1001", "-"} {
		for _, adv := range []int{2, 4, 6, 20, 2000} {
			for _, f := range firsts {
				ops := []string{"0 put a x " + e, "0 put b x -", fmt.Sprintf("%d %s", adv, f), fmt.Sprintf("%d get a", adv), fmt.Sprintf("%d list *", adv), fmt.Sprintf("%d getmany a,b", adv)}
				kvRunCase(ctx, kind, "", ops)
				ops2 := []string{"0 create a x " + e, fmt.Sprintf("%d %s", adv, f), fmt.Sprintf("%d create a z 9001", adv+2), fmt.Sprintf("%d get a", adv+4)}
				kvRunCase(ctx, kind, "", ops2)
			}
		}
	}
	// 1b. writes whose expiry is ALREADY past when they are made (an ordinary past instant; the zero time.Time):
	// the record is expired from the start on either backend (Redis keeps it for its 1 ms minimum TTL: the next
	// operation comes 2 ms later), whichever operation looks first
	for _, e := range []string{"z", "3"} {
		for _, w := range []string{"put a x " + e, "create a x " + e, "putmany a:x:" + e + ",b:y:-", "cas a v2 x " + e, "putmany b:y:-,a:x:" + e} {
			for _, f := range firsts {
				ops := []string{"0 put b x -", "0 put a q -"}
				if strings.HasPrefix(w, "create") {
					ops = append(ops, "0 delete a")
				}
				ops = append(ops, "10 "+w, "12 "+f, "12 get a", "12 list *", "12 getmany a,b", "14 create a n -", "14 get a")
				kvRunCase(ctx, kind, "", ops)
			}
		}
	}
	// 2. fixed contract cases
	fixed := [][]string{
		{"0 create a x -", "0 create a y -", "0 get a", "0 cas a v1 z -", "0 cas a v1 w -", "0 cas b v1 w -", "0 delete b", "0 delete a", "0 get a"},
		{"0 getmany -", "0 putmany -", "0 putmany a:x:-,a:y:-,b:z:-", "0 getmany a,a,b,ab", "0 put a q -", "0 getmany a"},
		{"0 put a x -", "0 put a x -", "0 cas a v1 y -", "0 cas a v2 y -", "0 wait a v2", "0 wait a v3", "0 wait b v1", "0 wait a u0"},
		{"0 putmany a:x:-,b:y:-", "0 get a", "0 get b", "0 cas a v1 z -", "0 putmany a:x:7,b:y:-", "0 get a", "8 get a", "8 get b"},
		{"0 put ab x -", "0 put a x -", "0 put b y -", "0 list a*", "0 list ?", "0 list *b", "0 list a?", "0 list zz*", "0 put zz/1 x -", "0 list zz*", "0 list *"},
	}
	for _, f := range fixed {
		kvRunCase(ctx, kind, "", f)
	}
	// 3. exhaustive over a reduced alphabet to depth 4
	alpha := []string{"create a x -", "create a x 3", "get a", "put a y -", "put a y 3", "cas a v1 z -", "cas a v2 z 3", "delete a", "list *", "wait a v1", "getmany a,b", "putmany a:x:-,b:y:3"}
	depth := 3
	if ctx.Thorough {
		depth = 4
	}
	seq := make([]string, depth)
	var rec func(i int)
	rec = func(i int) {
		if i == depth {
			ops := make([]string, 0, depth+1)
			for j, o := range seq {
				// time advances by 2 per op; the last op runs after the short expiry (3) has passed
				t := 0
				if j == depth-1 {
					t = 4
				}
				ops = append(ops, fmt.Sprintf("%d %s", t, o))
			}
			kvRunCase(ctx, kind, "", ops)
			return
		}
		for _, o := range alpha {
			seq[i] = o
			rec(i + 1)
		}
	}
	rec(0)
	// 4. random histories (RedisOK-conforming: valid for both backends)
	n := 400
	if ctx.Thorough {
		n = 5000
	}
	for c := 0; c < n; c++ {
		kvRunCase(ctx, kind, "", kvGen(ctx, ctx.Rnd.Range(5, 60), true, keys))
	}
	// 4c. keys that differ only in slashes / dot segments INSIDE or at the end (they are different keys: nothing
	// may normalise them away)
	pathKeys := []string{"a/b", "a//b", "a/b/", "a/./b"}
	for c := 0; c < n/4; c++ {
		kvRunCase(ctx, kind, "", kvGen(ctx, ctx.Rnd.Range(5, 40), true, pathKeys))
	}
	// 4e. the EMPTY key (token "~") next to ordinary ones: a key like any other for every operation incl. ListKeys
	emptyKeys := []string{"~", "a", "b"}
	for c := 0; c < n/4; c++ {
		var ops []string
		for _, o := range kvGen(ctx, ctx.Rnd.Range(5, 40), true, emptyKeys) {
			// `list ?` with the empty key present is known finding KF-4 of C03 (the glob package's `?` accepts the
			// empty string): asked only where that finding is listed
			if (strings.HasSuffix(o, " list ?") || strings.HasSuffix(o, " !list ?")) && ctx.Focus != "" && ctx.Focus != "C03" {
				continue
			}
			ops = append(ops, o)
		}
		kvRunCase(ctx, kind, "", ops)
	}
	// 4b. keys with wildcard characters / a backslash in them and patterns with escapes (`\*`, `\?`, `\\`, `\a`)
	escKeys := []string{"a*", "a?b", "a\\b", "ab"}
	for c := 0; c < n/4; c++ {
		kvRunCase(ctx, kind, "", kvGen(ctx, ctx.Rnd.Range(5, 40), true, escKeys))
	}
	if kind == "inmem" {
		// unconstrained times/expiries (expiry == now, already expired at write, op at the expiry instant)
		for c := 0; c < n; c++ {
			kvRunCase(ctx, kind, "", kvGen(ctx, ctx.Rnd.Range(5, 60), false, keys))
		}
	}
	if kind == "redis" {
		// sub-millisecond expiries (Go-side monitor only: the model's clock ticks in whole milliseconds).  Redis
		// keeps TTLs in milliseconds and a TTL of 0 means "no TTL": a record written with an expiry less than
		// 1 ms ahead must still be gone once the expiry has passed.
		kvSubMs(ctx)
	}
	// 4d. keys with leading slashes, no two of which differ ONLY in their leading slashes: every operation
	// that names a key (Get and GetMany alike) must address the same record.  ListKeys is left out here: on
	// Redis it reports such keys without their leading slashes (part of known finding KF-2, see "slash" below)
	leadKeys := []string{"/s", "//t", "/cfg/a", "u"}
	for c := 0; c < n/4; c++ {
		var ops []string
		for _, o := range kvGen(ctx, ctx.Rnd.Range(5, 40), true, leadKeys) {
			if f := strings.Fields(o); len(f) > 1 && f[1] != "list" {
				ops = append(ops, o)
			}
		}
		kvRunCase(ctx, kind, "", ops)
	}
	if kind == "redis" {
		// the server goes away in mid-history: every later call fails, none invents an answer
		for c := 0; c < 12; c++ {
			ops := kvGen(ctx, ctx.Rnd.Range(3, 12), true, keys)
			t := strings.Fields(ops[len(ops)-1])[0]
			ops = append(ops, t+" down")
			for _, o := range []string{"get a", "getmany a", "getmany a,b", "create a x -", "put b y -", "putmany a:x:-,b:y:-", "cas a v1 z -", "delete a", "list *", "get zz/1"} {
				if ctx.Rnd.Chance(2, 3) {
					ops = append(ops, t+" "+o)
				}
			}
			kvRunCase(ctx, kind, "down", ops)
		}
	}
	if kind == "redis" && ctx.Focus != "C06" && ctx.Focus != "C02" {
		// keys with a leading '/' that DO alias each other (known finding KF-2: rKey strips leading slashes).  The
		// Redis model carries that normalisation, so the code is still held to it operation by operation: a listed
		// known finding covers only the answers which that model predicts and the contract does not
		for _, ops := range [][]string{
			{"0 put /s x -", "0 get s", "0 get /s", "0 list *"},
			{"0 create s x -", "0 create /s y -", "0 delete //s", "0 get s"},
			{"0 put /s x -", "0 getmany s,/s,//s", "0 put s y -", "0 getmany /s,s", "0 list /*", "0 list s*"},
		} {
			kvRunCase(ctx, kind, "slash", ops)
		}
		aliasKeys := []string{"s", "/s", "//s", "/cfg/a", "cfg/a"}
		for c := 0; c < n/4; c++ {
			kvRunCase(ctx, kind, "slash", kvGen(ctx, ctx.Rnd.Range(5, 40), true, aliasKeys))
		}
	}
}
