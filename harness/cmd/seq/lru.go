package main

import (
	"errors"
	"fmt"
	"strconv"
	"strings"
	"time"

	"github.com/acquirecloud/golibs/container/lru"
)

func init() {
	components["lru"] = runLru
	replayers["lru"] = func(ctx *Ctx, hdr []string, ops []string) {
		capacity, _ := strconv.Atoi(hdr[0])
		mod, _ := strconv.Atoi(hdr[1])
		ttl, _ := strconv.Atoi(hdr[3])
		lruRunCase(ctx, capacity, mod, parseInts(hdr[2]), ttl, ops)
	}
}

var lruBase = time.Date(2030, 1, 1, 0, 0, 0, 0, time.UTC)

type lruCache interface {
	goc(pk int) (int, error)
	rm(pk int) bool
	clear() int
	nodes() (int, int, bool)
	length() int
}

type plainCache struct{ c *lru.ECache[int, int, int] }

func (p plainCache) goc(pk int) (int, error) { return p.c.GetOrCreate(pk) }
func (p plainCache) rm(pk int) bool          { return p.c.Remove(pk) }
func (p plainCache) clear() int              { return p.c.Clear() }
func (p plainCache) nodes() (int, int, bool) { return lru.VerifNodes(p.c) }
func (p plainCache) length() int             { return lru.VerifLen(p.c) }

type expCache struct {
	c *lru.ExpirableCache[int, lru.ExpirableItem[int]]
}

func (p expCache) goc(pk int) (int, error) {
	v, err := p.c.GetOrCreate(pk)
	return v.Value, err
}
func (p expCache) rm(pk int) bool          { return p.c.Remove(pk) }
func (p expCache) clear() int              { return p.c.Clear() }
func (p expCache) nodes() (int, int, bool) { return lru.VerifNodes(p.c.Cache.ECache) }
func (p expCache) length() int             { return lru.VerifLen(p.c.Cache.ECache) }

func lruRunCase(ctx *Ctx, capacity, mod int, fails []int, ttl int, ops []string) {
	failSet := map[int]bool{}
	for _, f := range fails {
		failSet[f] = true
	}
	now := 0
	lru.VerifSetClock(func() time.Time { return lruBase.Add(time.Duration(now) * time.Millisecond) })
	defer lru.VerifSetClock(nil)
	calls := 0
	var events []string
	create := func(pk int) (int, error) {
		n := calls
		calls++
		if failSet[n] {
			events = append(events, fmt.Sprintf("c:%d:fail", pk))
			return 0, errors.New("create failed")
		}
		v := 1000*pk + n
		events = append(events, fmt.Sprintf("c:%d:%d", pk, v))
		return v, nil
	}
	onDelete := func(pk, v int) { events = append(events, fmt.Sprintf("d:%d:%d", pk, v)) }
	var c lruCache
	switch {
	case ttl > 0:
		ec, err := lru.NewExpirableCache[int, lru.ExpirableItem[int]](capacity,
			func(pk int) (lru.ExpirableItem[int], error) {
				v, err := create(pk)
				item := lru.NewCacheItem(v, lruBase.Add(time.Duration(now+ttl)*time.Millisecond))
				// creation takes time: the clock moves while the create function runs (the deadline was fixed
				// at its start); the latency is a function of the case header so that replays reproduce it
				if ttl < 1000000000 { // (not for the "never expires" deadlines below)
					now += []int{0, 0, ttl + 2, 1}[(capacity+ttl+len(fails))%4]
				}
				return item, err
			},
			func(pk int, v lru.ExpirableItem[int]) { onDelete(pk, v.Value) })
		if err != nil {
			return
		}
		c = expCache{ec}
	case mod == 0:
		cc, err := lru.NewCache[int, int](capacity, create, onDelete)
		if err != nil {
			return
		}
		c = plainCache{cc.ECache}
	default:
		ec, err := lru.NewECache[int, int, int](capacity, func(pk int) int { return pk % mod }, create, onDelete)
		if err != nil {
			return
		}
		c = plainCache{ec}
	}
	ctx.R.Case(capacity, mod, fmtInts(fails), ttl)
	for _, o := range ops {
		w := strings.Fields(o)
		events = events[:0]
		before := c.length()
		res := guard(func() string {
			switch w[0] {
			case "goc", "gocx":
				pkS := w[1]
				if w[0] == "gocx" {
					now, _ = strconv.Atoi(w[1])
					pkS = w[2]
				}
				pk, _ := strconv.Atoi(pkS)
				v, err := c.goc(pk)
				if err != nil {
					return "err"
				}
				return fmt.Sprintf("val %d", v)
			case "rm":
				pk, _ := strconv.Atoi(w[1])
				return fmt.Sprintf("b %v", c.rm(pk))
			case "clear":
				return fmt.Sprintf("num %d", c.clear())
			}
			return "bad-op"
		})
		ev := "-"
		if len(events) > 0 {
			ev = strings.Join(events, ",")
		}
		// non-trivial: an eviction, a failed creation, or a hit on a non-MRU key
		for _, e := range events {
			if strings.HasPrefix(e, "d:") && (w[0] == "goc" || w[0] == "gocx") {
				ctx.R.Nontrivial("eviction/expiry replacement")
			}
			if strings.HasSuffix(e, ":fail") {
				ctx.R.Nontrivial("failed creation")
			}
		}
		if (w[0] == "goc") && len(events) == 0 && before > 1 {
			ctx.R.Nontrivial("hit with several residents")
		}
		ctx.R.Op(o, res+" ; "+ev)
		if res == "panic" {
			ctx.R.Quiet("mon C08-no-panic", "cache panicked at "+o)
			return
		}
		// C11 (LRU half), on the real object: linked nodes of the recency list = residents + sentinel
		n, del, ok := c.nodes()
		l := c.length()
		if !ok || n != l+1 || del != 0 || l > capacity {
			ctx.R.Quiet("mon C11-lru-bounded", fmt.Sprintf("recency list links %d nodes (%d removed-but-pinned) for %d residents, capacity %d", n, del, l, capacity))
		}
	}
}

func runLru(ctx *Ctx) {
	r := ctx.Rnd
	// exhaustive: 3 keys, caps 1..3, depth d
	depth := 5
	if ctx.Thorough {
		depth = 6
	}
	alpha := []string{"goc 1", "goc 2", "goc 3", "rm 1", "rm 2", "clear"}
	for capacity := 1; capacity <= 3; capacity++ {
		for _, cfg := range []struct {
			mod   int
			fails []int
		}{{0, nil}, {2, nil}, {0, []int{1, 3}}} {
			if !ctx.Thorough && capacity == 3 && cfg.mod == 2 {
				continue
			}
			seq := make([]string, depth)
			var rec func(i int)
			rec = func(i int) {
				if i == depth {
					lruRunCase(ctx, capacity, cfg.mod, cfg.fails, 0, append([]string{}, seq...))
					return
				}
				for _, o := range alpha {
					seq[i] = o
					rec(i + 1)
				}
			}
			rec(0)
		}
	}
	// long LRU histories mixing Clear/Remove/GetOrCreate (C11: unbounded length), capacities 1..4 and 64
	n := 150
	l := 400
	if ctx.Thorough {
		n, l = 1500, 900
	}
	for c := 0; c < n; c++ {
		capacity := []int{1, 2, 3, 4, 64}[r.Intn(5)]
		mod := []int{0, 0, 3, 5}[r.Intn(4)]
		nk := r.Range(2, capacity+4)
		var fails []int
		for i := 0; i < l; i++ {
			if r.Chance(1, 9) {
				fails = append(fails, i)
			}
		}
		ops := make([]string, 0, l)
		clearP := r.Range(1, 15)
		for i := 0; i < l; i++ {
			x := r.Intn(100)
			switch {
			case x < clearP:
				ops = append(ops, "clear")
			case x < clearP+15:
				ops = append(ops, fmt.Sprintf("rm %d", r.Range(1, nk)))
			default:
				ops = append(ops, fmt.Sprintf("goc %d", r.Range(1, nk)))
			}
		}
		lruRunCase(ctx, capacity, mod, fails, 0, ops)
	}
	// ExpirableCache: expired / fresh items
	ne := 300
	if ctx.Thorough {
		ne = 4000
	}
	for c := 0; c < ne; c++ {
		capacity := r.Range(1, 3)
		ttl := []int{3, 10, 50}[r.Intn(3)]
		if r.Chance(1, 6) {
			// "never expires": a deadline centuries ahead (beyond what fits a 64-bit nanosecond count since 1970)
			ttl = []int{8830000000000, 8000000000000}[r.Intn(2)]
		}
		var fails []int
		for i := 0; i < 40; i++ {
			if r.Chance(1, 10) {
				fails = append(fails, i)
			}
		}
		now := 0
		var ops []string
		for i := 0; i < r.Range(5, 30); i++ {
			now += []int{0, 1, 2, 5, 20, 60}[r.Intn(6)]
			switch x := r.Intn(10); {
			case x < 7:
				ops = append(ops, fmt.Sprintf("gocx %d %d", now, r.Range(1, 3)))
			case x < 9:
				ops = append(ops, fmt.Sprintf("rm %d", r.Range(1, 3)))
			default:
				ops = append(ops, "clear")
			}
		}
		lruRunCase(ctx, capacity, 0, fails, ttl, ops)
	}
}
