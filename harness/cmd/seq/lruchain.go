package main

// Component "lruchain" (property C11, LRU half): histories of GetOrCreate / Remove / Clear on a real
// lru.ECache[int,int,int] with identity key mapping; after EVERY operation the node chain of the cache's
// internal ordered map (state:refCnt:key, sentinel last:refCnt) is emitted and compared by the Lean
// driver `lruover` with the chain of `LruOver.lstep` — the cache expressed as programs over the map's
// node-chain model.  This ties WHICH map calls ecache.go makes, and in which order (incl. closing the
// iterators it opens), to the model the retention theorem C11Lru.lru_bounded is about.

import (
	"errors"
	"fmt"
	"strconv"
	"strings"

	"github.com/acquirecloud/golibs/container/lru"
)

func init() {
	components["lruchain"] = runLruChain
	replayers["lruchain"] = func(ctx *Ctx, hdr []string, ops []string) {
		capacity, _ := strconv.Atoi(hdr[0])
		lruChainCase(ctx, capacity, ops)
	}
}

func lruChainCase(ctx *Ctx, capacity int, ops []string) {
	ctx.R.Case(capacity)
	next := "fail"
	c, err := lru.NewECache[int, int, int](capacity, func(pk int) int { return pk },
		func(pk int) (int, error) {
			if next == "fail" {
				return 0, errors.New("create failed")
			}
			v, _ := strconv.Atoi(next)
			return v, nil
		}, nil)
	if err != nil {
		ctx.R.Quiet("mon C11-lru-constructed", err.Error())
		return
	}
	clears, evictions := 0, 0
	for _, o := range ops {
		w := strings.Fields(o)
		k := 0
		if len(w) > 1 {
			k, _ = strconv.Atoi(w[1])
		}
		before := lru.VerifLen(c)
		out := guard(func() string {
			switch w[0] {
			case "goc":
				next = w[2]
				c.GetOrCreate(k)
			case "rm":
				c.Remove(k)
			case "clear":
				c.Clear()
				if before > 0 {
					clears++
				}
			}
			ns, ok := lru.VerifChain(c)
			if !ok {
				return "chain-does-not-terminate"
			}
			return "chain [" + strings.Join(ns, ",") + "]"
		})
		if w[0] == "goc" && before == capacity && lru.VerifLen(c) == capacity && w[2] != "fail" {
			evictions++
		}
		ctx.R.Op(o, out)
		if out == "panic" || out == "chain-does-not-terminate" {
			ctx.R.Quiet("mon C11-lru-bounded", "the cache "+out+" at "+o)
			return
		}
		// C11 on the real object, independent of the model: linked nodes = residents + 1 <= capacity + 1
		n, del, ok := lru.VerifNodes(c)
		if l := lru.VerifLen(c); !ok || n != l+1 || del != 0 || l > capacity {
			ctx.R.Quiet("mon C11-lru-bounded", fmt.Sprintf("recency list links %d nodes (%d removed-but-pinned) for %d residents, capacity %d", n, del, l, capacity))
		}
	}
	if clears > 0 && evictions > 0 {
		ctx.R.Nontrivial("history with a Clear of a non-empty cache and an eviction")
	}
}

func runLruChain(ctx *Ctx) {
	r := ctx.Rnd
	// exhaustive small histories: capacity 1..2, keys {1,2,3}
	depth := 4
	if ctx.Thorough {
		depth = 6
	}
	for capacity := 1; capacity <= 2; capacity++ {
		var seq []string
		val := 10
		var rec func()
		rec = func() {
			if len(seq) == depth {
				lruChainCase(ctx, capacity, seq)
				return
			}
			for k := 1; k <= 3; k++ {
				val++
				seq = append(seq, fmt.Sprintf("goc %d %d", k, val))
				rec()
				seq = seq[:len(seq)-1]
			}
			for _, o := range []string{"goc 1 fail", "rm 1", "rm 2", "clear"} {
				seq = append(seq, o)
				rec()
				seq = seq[:len(seq)-1]
			}
		}
		rec()
	}
	// random long histories (unbounded length is the point of C11: many Clears, Removes, evictions)
	n := 150
	if ctx.Thorough {
		n = 3000
	}
	for i := 0; i < n; i++ {
		capacity := []int{1, 2, 3, 5, 16}[r.Intn(5)]
		keys := capacity + r.Range(1, 4)
		var ops []string
		val := 100
		for j := 0; j < r.Range(20, 400); j++ {
			switch x := r.Intn(100); {
			case x < 60:
				val++
				ops = append(ops, fmt.Sprintf("goc %d %d", r.Range(1, keys), val))
			case x < 68:
				ops = append(ops, fmt.Sprintf("goc %d fail", r.Range(1, keys)))
			case x < 88:
				ops = append(ops, fmt.Sprintf("rm %d", r.Range(1, keys)))
			default:
				ops = append(ops, "clear")
			}
		}
		lruChainCase(ctx, capacity, ops)
	}
}
