package main

import (
	"errors"
	"fmt"
	"strconv"
	"strings"

	gerrors "github.com/acquirecloud/golibs/errors"
	"github.com/acquirecloud/golibs/container/iterable"
	"verifharness/internal/gen"
)

func init() {
	components["mixer"] = runMixer
	replayers["mixer"] = func(ctx *Ctx, hdr []string, ops []string) {
		if len(hdr) >= 7 {
			mixerRunOne(ctx, hdr[0], parseInts(hdr[1]), parseInts(hdr[2]), hdr[3] == "true", hdr[4] == "true", hdr[5] == "true", hdr[6] == "true", ops)
			return
		}
		mixerRunOne(ctx, hdr[0], parseInts(hdr[1]), parseInts(hdr[2]), hdr[3] == "true", hdr[4] == "true", false, false, ops)
	}
}

func parseInts(s string) []int {
	if s == "-" || s == "" {
		return nil
	}
	var r []int
	for _, p := range strings.Split(s, ",") {
		v, _ := strconv.Atoi(p)
		r = append(r, v)
	}
	return r
}

func fmtInts(xs []int) string {
	if len(xs) == 0 {
		return "-"
	}
	p := make([]string, len(xs))
	for i, x := range xs {
		p[i] = strconv.Itoa(x)
	}
	return strings.Join(p, ",")
}

// noReset hides the Reset method of the wrapped iterator.
type noReset struct{ it iterable.Iterator[int] }

func (n noReset) HasNext() bool     { return n.it.HasNext() }
func (n noReset) Next() (int, bool) { return n.it.Next() }
func (n noReset) Close() error      { return n.it.Close() }

// vanishTail: an input whose LAST element disappears between HasNext() and Next() — the imparity the Iterator
// contract spells out (Map iterators do this): after the wrapped iterator is exhausted HasNext() answers true
// once more and the following Next() returns (zero, false).
type vanishTail struct {
	it   iterable.Iterator[int]
	used bool
}

func (v *vanishTail) HasNext() bool { return v.it.HasNext() || !v.used }
func (v *vanishTail) Next() (int, bool) {
	if v.it.HasNext() {
		return v.it.Next()
	}
	v.used = true
	return 0, false
}
func (v *vanishTail) Close() error { return v.it.Close() }

type vanishTailR struct{ vanishTail }

func (v *vanishTailR) Reset() error {
	v.used = false
	return v.it.(interface{ Reset() error }).Reset()
}

var mixerSel = map[string]iterable.SelectF[int]{
	"lt":    func(a, b int) bool { return a < b },
	"le":    func(a, b int) bool { return a <= b },
	"ge":    func(a, b int) bool { return a >= b },
	"true":  func(a, b int) bool { return true },
	"false": func(a, b int) bool { return false },
	"mod":   func(a, b int) bool { return (a+b)%2 == 0 },
}

// mixerRunCase: the case on plain inputs, then once more on inputs whose last element vanishes between
// HasNext() and Next() (flags g1 g2 in the case header: the model has them too, C18.vanishing_tail_irrelevant)
func mixerRunCase(ctx *Ctx, sel string, l1, l2 []int, r1, r2 bool, ops []string) {
	mixerRunOne(ctx, sel, l1, l2, r1, r2, false, false, ops)
	switch (len(l1) + 2*len(ops)) % 3 {
	case 0:
		mixerRunOne(ctx, sel, l1, l2, r1, r2, true, true, ops)
	case 1:
		mixerRunOne(ctx, sel, l1, l2, r1, r2, true, false, ops)
	default:
		mixerRunOne(ctx, sel, l1, l2, r1, r2, false, true, ops)
	}
}

func mixerRunOne(ctx *Ctx, sel string, l1, l2 []int, r1, r2, g1, g2 bool, ops []string) {
	mkp := func(l []int, r bool) iterable.Iterator[int] {
		cp := append([]int{}, l...)
		if len(l) == 0 && strings.Count(strings.Join(ops, " "), "next")%2 == 0 {
			cp = nil // an empty input is as often a nil slice as an empty one: both are inputs like any other (also for Reset)
		}
		it := iterable.WrapIntSlice(cp)
		if r {
			return it
		}
		return noReset{it}
	}
	mkg := func(l []int, r bool) iterable.Iterator[int] {
		it := iterable.WrapIntSlice(append([]int{}, l...))
		if r {
			return &vanishTailR{vanishTail{it: it}}
		}
		return &vanishTail{it: it}
	}
	first := true
	mk := func(l []int, r bool) iterable.Iterator[int] {
		// (called for input 1, then for input 2 of the case's Init; the warm-up Init below uses mkp directly)
		g := g2
		if first {
			g = g1
		}
		first = false
		if g {
			return mkg(l, r)
		}
		return mkp(l, r)
	}
	var mx iterable.Mixer[int]
	if (len(l1)+2*len(l2)+len(ops))%3 == 0 {
		// the Mixer value is RE-USED: a first, partial use on other inputs (one element buffered, one emitted),
		// then Init with this case's inputs — Init must make it indistinguishable from a fresh one
		// (decided by the case itself so that a replay does the same)
		mx.Init(mixerSel["lt"], mkp([]int{7, 8, 9}, true), mkp([]int{5, 6}, true))
		mx.HasNext()
		mx.Next()
		mx.HasNext()
		ctx.R.Branch("re-initialised mixer")
	}
	mx.Init(mixerSel[sel], mk(l1, r1), mk(l2, r2))
	// shadow run: the same inputs, but their last elements "vanish" (see vanishTail): an input that answers
	// HasNext() = true and then has nothing must count as exhausted, so every call answers the same
	mkv := mkg
	var mv iterable.Mixer[int]
	switch (len(l1) + len(ops)) % 3 {
	case 0:
		mv.Init(mixerSel[sel], mkv(l1, r1), mkv(l2, r2))
	case 1:
		mv.Init(mixerSel[sel], mkv(l1, r1), mkp(l2, r2))
	default:
		mv.Init(mixerSel[sel], mkp(l1, r1), mkv(l2, r2))
	}
	shadow := func(o string) string {
		return guard(func() string {
			switch o {
			case "hasNext":
				return fmt.Sprintf("b %v", mv.HasNext())
			case "next":
				v, ok := mv.Next()
				return fmt.Sprintf("nx %d %v", v, ok)
			case "reset":
				err := mv.Reset()
				switch {
				case err == nil:
					return "rs ok"
				case errors.Is(err, gerrors.ErrDataLoss):
					return "rs dataLoss"
				case errors.Is(err, gerrors.ErrUnimplemented):
					return "rs unimplemented"
				}
				return "rs other"
			}
			return "bad-op"
		})
	}
	if g1 || g2 {
		ctx.R.Case(sel, fmtInts(l1), fmtInts(l2), r1, r2, g1, g2)
		ctx.R.Branch("vanishing-tail inputs")
	} else {
		ctx.R.Case(sel, fmtInts(l1), fmtInts(l2), r1, r2)
	}
	// non-trivial: both inputs non-empty with a tie under the selector, or a Reset in mid-stream
	if len(l1) > 0 && len(l2) > 0 {
		sf := mixerSel[sel]
		for _, a := range l1 {
			for _, b := range l2 {
				if sf(a, b) && sf(b, a) || a == b {
					ctx.R.Nontrivial("tie-under-selector")
				}
			}
		}
	}
	emitted := 0
	for _, o := range ops {
		out := guard(func() string {
			switch o {
			case "hasNext":
				return fmt.Sprintf("b %v", mx.HasNext())
			case "next":
				v, ok := mx.Next()
				if ok {
					emitted++
				}
				return fmt.Sprintf("nx %d %v", v, ok)
			case "reset":
				if emitted > 0 && emitted < len(l1)+len(l2) {
					ctx.R.Nontrivial("reset-mid-stream")
				}
				emitted = 0
				err := mx.Reset()
				switch {
				case err == nil:
					return "rs ok"
				case errors.Is(err, gerrors.ErrDataLoss):
					return "rs dataLoss"
				case errors.Is(err, gerrors.ErrUnimplemented):
					return "rs unimplemented"
				}
				return "rs other"
			}
			return "bad-op"
		})
		ctx.R.Op(o, out)
		if so := shadow(o); !g1 && !g2 && so != out {
			ctx.R.Quiet("mon C18-vanishing-tail-same", fmt.Sprintf("with inputs whose last element vanishes between HasNext and Next, `%s` answers %s instead of %s", o, so, out))
		}
	}
}

func runMixer(ctx *Ctx) {
	sels := []string{"lt", "le", "true", "false", "ge", "mod"}
	// all sequences of length <= maxLen over a 3-value alphabet
	maxLen := 3
	if ctx.Thorough {
		maxLen = 4
	}
	var lists [][]int
	var gl func(cur []int)
	gl = func(cur []int) {
		lists = append(lists, append([]int{}, cur...))
		if len(cur) == maxLen {
			return
		}
		for v := 1; v <= 3; v++ {
			gl(append(cur, v))
		}
	}
	gl(nil)
	// call patterns: drain with hasNext/next mixes
	patterns := [][]string{
		{"next"}, {"hasNext", "next"}, {"hasNext", "hasNext", "next"}, {"next", "hasNext"},
	}
	for _, sel := range sels {
		if !ctx.Thorough && (sel == "ge" || sel == "mod") {
			continue
		}
		for _, l1 := range lists {
			for _, l2 := range lists {
				for pi, p := range patterns {
					if !ctx.Thorough && pi >= 2 && (len(l1)+len(l2))%2 == 0 {
						continue
					}
					var ops []string
					n := len(l1) + len(l2) + 2
					for i := 0; i < n; i++ {
						ops = append(ops, p...)
					}
					mixerRunCase(ctx, sel, l1, l2, true, true, ops)
				}
			}
		}
	}
	ctx.R.Size(fmt.Sprintf("exhaustive lists<=%d over {1,2,3}: %d lists", maxLen, len(lists)))
	// call patterns to a depth bound over {hasNext,next,reset} on small inputs
	depth := 6
	if ctx.Thorough {
		depth = 8
	}
	small := [][2][]int{{{1, 2}, {2, 3}}, {{2}, {1, 2}}, {{}, {1}}, {{1, 1}, {1}}, {{3, 1}, {2}}, {{1, 2}, {}}, {{}, {}}}
	alpha := []string{"hasNext", "next", "reset"}
	for _, pr := range small {
		for _, sel := range []string{"lt", "le"} {
			seq := make([]string, depth)
			var rec func(i int)
			rec = func(i int) {
				if i == depth {
					mixerRunCase(ctx, sel, pr[0], pr[1], true, true, append([]string{}, seq...))
					return
				}
				for _, o := range alpha {
					seq[i] = o
					rec(i + 1)
				}
			}
			rec(0)
		}
	}
	// resettable flags
	for _, r1 := range []bool{true, false} {
		for _, r2 := range []bool{true, false} {
			for _, pre := range []int{0, 1, 2, 3} {
				var ops []string
				for i := 0; i < pre; i++ {
					ops = append(ops, "hasNext", "next")
				}
				ops = append(ops, "reset", "hasNext", "next", "next", "next", "next", "next", "reset", "next")
				mixerRunCase(ctx, "le", []int{1, 3}, []int{2, 3}, r1, r2, ops)
			}
		}
	}
	// random long inputs
	nRandom := 400
	if ctx.Thorough {
		nRandom = 8000
	}
	for c := 0; c < nRandom; c++ {
		mk := func() []int {
			n := ctx.Rnd.Range(0, 40)
			l := make([]int, n)
			v := ctx.Rnd.Range(0, 5)
			sorted := ctx.Rnd.Chance(2, 3)
			for i := range l {
				if sorted {
					v += ctx.Rnd.Range(0, 2)
					l[i] = v
				} else {
					l[i] = ctx.Rnd.Range(0, 9)
				}
			}
			return l
		}
		l1, l2 := mk(), mk()
		var ops []string
		n := len(l1) + len(l2) + 3
		for i := 0; i < n; i++ {
			switch x := ctx.Rnd.Intn(20); {
			case x < 5:
				ops = append(ops, "hasNext")
			case x == 5 && ctx.Rnd.Chance(1, 3):
				ops = append(ops, "reset")
			default:
				ops = append(ops, "next")
			}
		}
		mixerRunCase(ctx, gen.Pick(ctx.Rnd, sels), l1, l2, true, true, ops)
	}
}
