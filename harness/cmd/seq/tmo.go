package main

import (
	"fmt"
	"strconv"
	"strings"
	"time"

	"github.com/acquirecloud/golibs/timeout"
)

func init() {
	components["tmo"] = runTmo
	replayers["tmo"] = func(ctx *Ctx, hdr []string, ops []string) {
		var clean []string
		for _, o := range ops {
			if o != "snap" {
				clean = append(clean, o)
			}
		}
		tmoRunCase(ctx, clean)
	}
}

var tmoBase = time.Date(2030, 1, 1, 0, 0, 0, 0, time.UTC)

func tmoRunCase(ctx *Ctx, ops []string) {
	cc := timeout.VerifNewCC()
	ctx.R.Case("heap")
	type finfo struct {
		fireT  int
		inHeap bool
	}
	var futs []finfo
	started := map[int]bool{}
	for _, o := range ops {
		w := strings.Fields(o)
		before, _ := cc.Snapshot(tmoBase)
		out := guard(func() string {
			switch w[0] {
			case "add":
				t, _ := strconv.Atoi(w[1])
				for _, f := range futs {
					if f.inHeap && f.fireT == t {
						ctx.R.Nontrivial("two equal deadlines coexist")
					}
					if f.inHeap && f.fireT > t {
						ctx.R.Branch("arrival precedes a pending future")
					}
				}
				id := cc.Add(tmoBase.Add(time.Duration(t) * time.Millisecond))
				futs = append(futs, finfo{t, true})
				return fmt.Sprintf("id %d", id)
			case "cancel":
				id, _ := strconv.Atoi(w[1])
				if id >= len(futs) {
					return "undefined"
				}
				// non-trivial: a Cancel hits a non-last heap position
				for pos, e := range before {
					if strings.HasPrefix(e, w[1]+":") && pos != len(before)-1 {
						ctx.R.Nontrivial("cancel at a non-last heap position")
					}
				}
				cc.Cancel(id)
				// C12 monitor on the real heap: exactly this future left, every other one stayed
				after, _ := cc.Snapshot(tmoBase)
				want := map[string]bool{}
				for _, e := range before {
					f := strings.Split(e, ":")
					if f[0] != w[1] {
						want[f[0]+":"+f[2]] = true
					}
				}
				ok := len(after) == len(want)
				for _, e := range after {
					f := strings.Split(e, ":")
					if !want[f[0]+":"+f[2]] {
						ok = false
					}
				}
				if !ok {
					ctx.R.Quiet("mon C12-cancel-removes-exactly", fmt.Sprintf("Cancel(%d): heap before %v after %v", id, before, after))
				}
				futs[id].inHeap = false
				return "ok"
			case "pop":
				id, hasF, ok := cc.Pop()
				if !ok {
					return "empty"
				}
				// root is a minimum among the pending futures
				for j, f := range futs {
					if f.inHeap && f.fireT < futs[id].fireT {
						ctx.R.Quiet("mon C12-root-is-min", fmt.Sprintf("popped future %d (fireT %d) although %d (fireT %d) is pending", id, futs[id].fireT, j, f.fireT))
					}
				}
				if !futs[id].inHeap {
					ctx.R.Quiet("mon C12-cancelled-never-starts", fmt.Sprintf("future %d popped although it was cancelled or already popped", id))
				}
				if started[id] {
					ctx.R.Quiet("mon C12-at-most-once", fmt.Sprintf("future %d popped twice", id))
				}
				started[id] = true
				futs[id].inHeap = false
				return fmt.Sprintf("popped %d %v", id, hasF)
			}
			return "bad-op"
		})
		ctx.R.Op(o, out)
		if out == "panic" {
			ctx.R.Quiet("mon C12-no-panic", "heap operation panicked at "+o)
			return
		}
		hv, idx := cc.Snapshot(tmoBase)
		// idx integrity on the real heap
		for pos, e := range hv {
			f := strings.Split(e, ":")
			if f[1] != strconv.Itoa(pos) {
				ctx.R.Quiet("mon C12-idx-integrity", fmt.Sprintf("heap[%d] holds future %s whose idx is %s", pos, f[0], f[1]))
			}
		}
		parts := make([]string, len(idx))
		for i, x := range idx {
			parts[i] = strconv.Itoa(x)
		}
		ctx.R.Quiet("snap", "snap ["+strings.Join(hv, ",")+"] idx ["+strings.Join(parts, ",")+"]")
	}
}

func runTmo(ctx *Ctx) {
	r := ctx.Rnd
	// exhaustive to a depth bound: fire times from {1,2,3} (ties), cancels of every created future, pops
	depth := 6
	if ctx.Thorough {
		depth = 7
	}
	var seq []string
	var rec func(created int)
	rec = func(created int) {
		if len(seq) == depth {
			tmoRunCase(ctx, seq)
			return
		}
		try := func(op string, c int) {
			seq = append(seq, op)
			rec(c)
			seq = seq[:len(seq)-1]
		}
		for _, t := range []int{1, 2, 3} {
			if !ctx.Thorough && t == 3 && created >= 3 {
				continue
			}
			try(fmt.Sprintf("add %d", t), created+1)
		}
		for id := 0; id < created && id < 4; id++ {
			try(fmt.Sprintf("cancel %d", id), created)
		}
		if created > 0 {
			try("pop", created)
		}
	}
	rec(0)
	// random long: many futures, cancels at front/middle/back, repeated cancels, cancels after pop
	n := 300
	if ctx.Thorough {
		n = 6000
	}
	for c := 0; c < n; c++ {
		var ops []string
		created := 0
		l := r.Range(10, 120)
		spread := []int{3, 10, 1000}[r.Intn(3)]
		for i := 0; i < l; i++ {
			x := r.Intn(100)
			switch {
			case x < 50 || created == 0:
				ops = append(ops, fmt.Sprintf("add %d", r.Range(0, spread)))
				created++
			case x < 80:
				ops = append(ops, fmt.Sprintf("cancel %d", r.Intn(created)))
			default:
				ops = append(ops, "pop")
			}
		}
		tmoRunCase(ctx, ops)
	}
	// bursts: the queue grows well past any small capacity (70..600 pending), drains almost or entirely
	// (by pops and/or cancels), old futures are cancelled AGAIN (after they fired / were cancelled) while new
	// ones occupy the slots, then it grows again — slice growth / shrink paths of the heap's backing array
	nb := 12
	if ctx.Thorough {
		nb = 150
	}
	for c := 0; c < nb; c++ {
		var ops []string
		created := 0
		for round := 0; round < r.Range(1, 3); round++ {
			first := created
			burst := []int{70, 130, 300, 600}[r.Intn(4)]
			if !ctx.Thorough && burst > 300 {
				burst = 300
			}
			for i := 0; i < burst; i++ {
				ops = append(ops, fmt.Sprintf("add %d", r.Range(0, 1000)))
				created++
			}
			drain := burst - r.Range(0, 20)
			for i := 0; i < drain; i++ {
				if r.Chance(1, 5) {
					ops = append(ops, fmt.Sprintf("cancel %d", r.Range(first, created-1)))
				} else {
					ops = append(ops, "pop")
				}
			}
			for i := 0; i < r.Range(5, 40); i++ {
				ops = append(ops, fmt.Sprintf("add %d", r.Range(0, 1000)))
				created++
			}
			// cancel futures of the drained burst once more (fired or already cancelled ones among them)
			for i := 0; i < r.Range(20, 80); i++ {
				ops = append(ops, fmt.Sprintf("cancel %d", r.Range(first, first+burst-1)))
			}
			for i := 0; i < r.Range(0, 30); i++ {
				ops = append(ops, "pop")
			}
		}
		tmoRunCase(ctx, ops)
	}
}
