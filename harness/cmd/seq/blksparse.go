package main

// Large block sizes (>= one page, incl. multiples of the page size that are NOT powers of two) make a segment
// hundreds of megabytes: too big for a real buffer and for the list-based Lean model.  They are exercised on a
// SPARSE buffer (only the neighbourhood of every segment header is backed by memory) with Go-side monitors that
// state C17 directly: every ArrangeBlock returns the LEAST free index, never an index that is allocated, the
// number of available blocks is exact, ErrExhausted exactly when full, and a reopen sees the same set.

import (
	"errors"
	"fmt"
	"os"

	cbytes "github.com/acquirecloud/golibs/container/bytes"
	gerrors "github.com/acquirecloud/golibs/errors"
)

type sparseWin struct {
	start int64
	data  []byte
}

type sparseBuf struct {
	size int64
	wins []sparseWin
}

func (sb *sparseBuf) Close() error             { return nil }
func (sb *sparseBuf) Size() int64              { return sb.size }
func (sb *sparseBuf) Grow(newSize int64) error { return errors.New("sparse buffer cannot grow") }
func (sb *sparseBuf) Buffer(offs int64, size int) ([]byte, error) {
	if offs < 0 || offs >= sb.size {
		return nil, fmt.Errorf("offs=%d out of [0..%d)", offs, sb.size)
	}
	if offs+int64(size) > sb.size {
		size = int(sb.size - offs)
	}
	for _, w := range sb.wins {
		if offs >= w.start && offs+int64(size) <= w.start+int64(len(w.data)) {
			o := int(offs - w.start)
			return w.data[o : o+size : o+size], nil
		}
	}
	return nil, fmt.Errorf("sparse buffer: [%d..%d) is not backed by memory", offs, offs+int64(size))
}

func newSparse(bs, segs int) *sparseBuf {
	segSize := int64(8*bs+1) * int64(bs)
	sb := &sparseBuf{size: segSize * int64(segs)}
	for s := 0; s < segs; s++ {
		start := int64(s)*segSize - 2*int64(bs)
		if start < 0 {
			start = 0
		}
		end := int64(s)*segSize + 3*int64(bs)
		sb.wins = append(sb.wins, sparseWin{start: start, data: make([]byte, end-start)})
	}
	return sb
}

func (sb *sparseBuf) header(bs, seg int) []byte {
	segSize := int64(8*bs+1) * int64(bs)
	b, _ := sb.Buffer(int64(seg)*segSize, bs)
	return b
}

// blkSparseCase: `prefull` full segments first (their headers are preset to all ones), then `n` ArrangeBlock
// calls with occasional Free of an allocated index, a reopen at the end.
func blkSparseCase(ctx *Ctx, bs, segs, prefull, n int, freeEvery int) {
	page := os.Getpagesize()
	ctx.R.Case(page, 1, 0, false, "-")
	ctx.R.Comment(fmt.Sprintf("sparse large geometry bs=%d segs=%d prefull=%d n=%d: monitors only", bs, segs, prefull, n))
	blkQuiet = true
	defer func() { blkQuiet = false }()
	sb := newSparse(bs, segs)
	perSeg := 8 * bs
	for s := 0; s < prefull; s++ {
		h := sb.header(bs, s)
		for i := range h {
			h[i] = 0xFF
		}
	}
	bad := func(name, msg string) { ctx.R.Quiet("mon "+name, fmt.Sprintf("bs=%d segs=%d: %s", bs, segs, msg)) }
	var blocks *cbytes.Blocks
	out := guard(func() string {
		b, err := cbytes.NewBlocks(bs, sb, true)
		if err != nil {
			return "err " + err.Error()
		}
		blocks = b
		return "ok"
	})
	blkOp(ctx, "open", out)
	if blocks == nil {
		bad("C17-constructor-no-panic", "NewBlocks on a valid large geometry failed: "+out)
		return
	}
	ctx.R.Nontrivial(fmt.Sprintf("large block size %d (power of two: %v)", bs, bs&(bs-1) == 0))
	total := segs * perSeg
	alloc := map[int]bool{}
	for i := 0; i < prefull*perSeg; i++ {
		alloc[i] = true
	}
	least := prefull * perSeg // least free index (maintained: frees may lower it)
	if got := blocks.Available(); got != total-len(alloc) {
		bad("C17-available-exact", fmt.Sprintf("after open Available()=%d, free blocks=%d", got, total-len(alloc)))
	}
	failed := false
	for i := 0; i < n && !failed; i++ {
		res := guard(func() string {
			idx, err := blocks.ArrangeBlock()
			if err != nil {
				if errors.Is(err, gerrors.ErrExhausted) {
					return "exhausted"
				}
				return "err " + err.Error()
			}
			return fmt.Sprintf("idx %d", idx)
		})
		for least < total && alloc[least] {
			least++
		}
		var idx int
		switch {
		case res == "exhausted":
			if least < total {
				bad("C17-exhausted-iff-full", fmt.Sprintf("ErrExhausted although block %d is free (allocation #%d)", least, i+1))
				failed = true
			}
		case res == "panic" || res[:3] == "err":
			bad("C17-no-panic", fmt.Sprintf("ArrangeBlock #%d: %s", i+1, res))
			failed = true
		default:
			fmt.Sscanf(res, "idx %d", &idx)
			switch {
			case idx < 0 || idx >= total:
				bad("C17-index-in-range", fmt.Sprintf("ArrangeBlock #%d returned %d, Count is %d", i+1, idx, total))
				failed = true
			case alloc[idx]:
				bad("C17-no-double-allocation", fmt.Sprintf("ArrangeBlock #%d returned %d, which is allocated", i+1, idx))
				failed = true
			case idx != least:
				bad("C17-least-free-index", fmt.Sprintf("ArrangeBlock #%d returned %d, the least free index is %d", i+1, idx, least))
				failed = true
			default:
				alloc[idx] = true
			}
		}
		if !failed && freeEvery > 0 && i%freeEvery == freeEvery-1 {
			// free an allocated block somewhere below the frontier
			f := (i * 7919) % (least + 1)
			if alloc[f] && f >= prefull*perSeg {
				if err := blocks.FreeBlock(f); err != nil {
					bad("C17-no-panic", fmt.Sprintf("FreeBlock(%d) of an allocated block failed: %v", f, err))
					failed = true
				} else {
					delete(alloc, f)
					if f < least {
						least = f
					}
				}
			}
		}
	}
	if !failed {
		if got := blocks.Available(); got != total-len(alloc) {
			bad("C17-available-exact", fmt.Sprintf("Available()=%d, free blocks=%d", got, total-len(alloc)))
		}
		// reopen on the same bytes: same availability, next allocation = least free
		b2, err := cbytes.NewBlocks(bs, sb, true)
		if err != nil {
			bad("C17-reopen-same-state", "reopen failed: "+err.Error())
		} else if b2.Available() != total-len(alloc) {
			bad("C17-reopen-same-state", fmt.Sprintf("reopened allocator Available()=%d, live one has %d free", b2.Available(), total-len(alloc)))
		}
	}
	ctx.R.Comment("sparse case done")
}

func runBlkSparse(ctx *Ctx) {
	page := os.Getpagesize()
	// (block size, segments, full segments at start, allocations, free every k-th)
	cases := [][5]int{
		{page, 2, 0, 33000, 0},      // crosses header byte 4096 → second... (one header block = page bytes)
		{3 * page, 2, 0, 33000, 0},  // not a power of two: search position beyond the first page of the header
		{3 * page, 2, 1, 40, 7},     // first allocations in the SECOND segment
		{2 * page, 3, 2, 200, 5},
		{5 * page, 2, 1, 100, 3},
		{3 * page, 1, 0, 70000, 11}, // frees and re-allocations across the header's pages
	}
	if !ctx.Thorough {
		cases = cases[:5]
	}
	for _, c := range cases {
		blkSparseCase(ctx, c[0], c[1], c[2], c[3], c[4])
	}
}
