package main

// Component "lockapi" (C01 / C04 / C05, public API only, real clock, default lease of 10 s): the search that is
// left when a change of representation somewhere below the lock (the timeout package, the storage) makes the
// instrumented harness uncompilable.  Scenarios, each on the real in-memory storage behind a thin kvs.Storage
// wrapper: (cross) two unrelated locks in one process, an Unlock overlapping a renewal in flight must not touch
// the other lock's lease; (steady) a held lock keeps its record for more than one lease and excludes a second
// provider; (handoff) after Unlock a waiting caller acquires.

import (
	"context"
	"fmt"
	"sync/atomic"
	"time"

	"github.com/acquirecloud/golibs/kvs"
	distlock "github.com/acquirecloud/golibs/kvs/distlock"
	"github.com/acquirecloud/golibs/kvs/inmem"
)

func init() { components["lockapi"] = runLockAPI }

type apiStore struct {
	kvs.Storage
	cas     int32
	holdAt  int32
	reached chan struct{}
	resume  chan struct{}
}

func (s *apiStore) CasByVersion(ctx context.Context, r kvs.Record) (kvs.Record, error) {
	n := atomic.AddInt32(&s.cas, 1)
	if n == s.holdAt && s.resume != nil {
		res, err := s.Storage.CasByVersion(ctx, r) // applied; the answer is held back
		close(s.reached)
		<-s.resume
		return res, err
	}
	return s.Storage.CasByVersion(ctx, r)
}

type apiTryLocker interface {
	TryLock(ctx context.Context) bool
	Unlock()
}

func runLockAPI(ctx *Ctx) {
	const lease = 10 * time.Second // the package's default; there is no public way to change it
	bg := context.Background()
	// --- cross
	ctx.R.Case("cross")
	ctx.R.Nontrivial("cross")
	st := &apiStore{Storage: inmem.New(), holdAt: 1, reached: make(chan struct{}), resume: make(chan struct{})}
	pa := distlock.NewKvsLockProvider(st, "/api/")
	pt := distlock.NewKvsLockProvider(st, "/api/")
	a, b := pa.NewLocker("a"), pa.NewLocker("b")
	third, _ := pt.NewLocker("b").(apiTryLocker)
	bad := ""
	a.Lock()
	select {
	case <-st.reached:
		b.Lock()
		t0 := time.Now()
		a.Unlock()
		close(st.resume)
		for time.Since(t0) < lease+lease/4 && bad == "" {
			if third != nil && third.TryLock(bg) {
				bad = fmt.Sprintf("another provider's Locker acquired lock b %v after B did, while B (alive, storage answering) still held it — an Unlock of the unrelated lock a overlapped one of a's renewals", time.Since(t0).Round(time.Millisecond))
				third.Unlock()
			} else if _, err := st.Get(bg, "/api/b"); err != nil {
				bad = fmt.Sprintf("the record of the held lock b is gone %v after it was acquired (lease %v)", time.Since(t0).Round(time.Millisecond), lease)
			}
			time.Sleep(100 * time.Millisecond)
		}
		b.Unlock()
	case <-time.After(lease):
		bad = "no renewal of a held lock reached the storage within one lease period"
		close(st.resume)
		a.Unlock()
	}
	ctx.R.Op("scenario cross", "ok")
	if bad != "" {
		ctx.R.Quiet("mon C05-lease-kept-while-held", "lockapi cross: "+bad)
		ctx.R.Quiet("mon C01-at-most-one-holder", "lockapi cross: "+bad)
	}
	// --- hand-off after a hold of more than one lease
	ctx.R.Case("steady-handoff")
	ctx.R.Nontrivial("steady")
	st2 := &apiStore{Storage: inmem.New()}
	ph := distlock.NewKvsLockProvider(st2, "/api/")
	pc := distlock.NewKvsLockProvider(st2, "/api/")
	h, c := ph.NewLocker("l"), pc.NewLocker("l")
	h.Lock()
	got := make(chan time.Time, 1)
	go func() { c.Lock(); got <- time.Now() }()
	bad = ""
	select {
	case at := <-got:
		bad = fmt.Sprintf("the contender acquired at %v while the holder (alive, storage answering) still held the lock", at.Format("15:04:05.000"))
	case <-time.After(lease + lease/5):
	}
	tu := time.Now()
	h.Unlock()
	if bad == "" {
		select {
		case <-got:
		case <-time.After(lease):
			ctx.R.Quiet("mon C04-everyone-served", fmt.Sprintf("lockapi handoff: %v after Unlock the waiting caller has not acquired", time.Since(tu).Round(time.Millisecond)))
		}
	}
	ctx.R.Op("scenario steady-handoff", "ok")
	if bad != "" {
		ctx.R.Quiet("mon C05-lease-kept-while-held", "lockapi steady: "+bad)
		ctx.R.Quiet("mon C01-at-most-one-holder", "lockapi steady: "+bad)
	}
}
