// Command api: monitors that use ONLY the public API of acquirecloud/golibs (no build tag, no overlay, no
// package-internal accessor).  It is the part of the search that still builds when a change of a
// representation (a field's type, an unexported helper) makes the instrumented harness uncompilable, and it
// runs next to the instrumented one otherwise.  Output: the usual line protocol, monitors only
// (`mon <name> | ok-or-detail`), read by the driver component `monitors`.
//   api <component> -seed N -tier quick|thorough -out trace.txt -stats stats.json
package main

import (
	"flag"
	"fmt"
	"os"
	"time"

	"verifharness/internal/gen"
	"verifharness/internal/rec"
)

type Ctx struct {
	Seed     uint64
	Thorough bool
	R        *rec.Recorder
	Rnd      *gen.Rand
}

var components = map[string]func(*Ctx){}

func main() {
	if len(os.Args) < 2 {
		fmt.Fprintln(os.Stderr, "usage: api <component> [flags]")
		os.Exit(2)
	}
	comp := os.Args[1]
	fs := flag.NewFlagSet("api", flag.ExitOnError)
	seed := fs.Uint64("seed", 1, "PRNG seed")
	tier := fs.String("tier", "quick", "quick|thorough")
	out := fs.String("out", "trace.txt", "event lines")
	stats := fs.String("stats", "stats.json", "coverage statistics")
	fs.String("focus", "", "unused")
	fs.Parse(os.Args[2:])
	f, ok := components[comp]
	if !ok {
		fmt.Fprintln(os.Stderr, "unknown component", comp)
		os.Exit(2)
	}
	r, err := rec.New(*out, comp)
	if err != nil {
		fmt.Fprintln(os.Stderr, err)
		os.Exit(2)
	}
	rec.StartWatchdog(20 * time.Second)
	f(&Ctx{Seed: *seed, Thorough: *tier == "thorough", R: r, Rnd: gen.New(*seed)})
	if err := r.Close(*stats); err != nil {
		fmt.Fprintln(os.Stderr, err)
		os.Exit(2)
	}
}
