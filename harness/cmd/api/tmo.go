package main

// Component "tmoapi" (C12 / C13, public API only, real clock): Call / Cancel with delays from the whole
// range of time.Duration — zero, negative, a few milliseconds, years, the "never" sentinel
// time.Duration(math.MaxInt64) and its neighbours — and arrivals in any order.  Monitors: a callback never
// starts before its delay has passed (huge delays: not at all while we look), at most once, never after a
// Cancel that returned before it was due, every short delay is served within a generous bound whatever was
// scheduled around it, cancelling (also twice, also after firing) disturbs nobody else.

import (
	"fmt"
	"math"
	"sync"
	"sync/atomic"
	"time"

	"github.com/acquirecloud/golibs/timeout"
)

func init() { components["tmoapi"] = runTmoAPI }

type apiFut struct {
	d        time.Duration
	called   time.Time
	started  int32
	startAt  atomic.Value // time.Time
	fu       timeout.Future
	cancelAt time.Time
	canceled bool
}

func runTmoAPICase(ctx *Ctx, delays []time.Duration, cancel map[int]bool, cancelTwice bool) {
	ctx.R.Case(len(delays))
	futs := make([]*apiFut, len(delays))
	var mu sync.Mutex
	for i, d := range delays {
		f := &apiFut{d: d}
		futs[i] = f
		f.called = time.Now()
		ctx.R.Enter()
		f.fu = timeout.Call(func() {
			f.startAt.Store(time.Now())
			atomic.AddInt32(&f.started, 1)
		}, d)
		ctx.R.Leave()
	}
	_ = &mu
	// Cancel on the package's VoidFuture (what a Future variable is initialised with): touches nobody
	if cancelTwice {
		ctx.R.Enter()
		func() {
			defer func() {
				if p := recover(); p != nil {
					ctx.R.Quiet("mon C12-cancel-removes-exactly", fmt.Sprintf("VoidFuture.Cancel() panicked: %v (delays %v)", p, delays))
				}
			}()
			timeout.VoidFuture.Cancel()
			timeout.VoidFuture.Cancel()
		}()
		ctx.R.Leave()
	}
	// cancel the chosen ones right away (all of them are due later than "now" unless their delay is <= 0)
	for i, f := range futs {
		if cancel[i] {
			ctx.R.Enter()
			f.fu.Cancel()
			if cancelTwice {
				f.fu.Cancel()
			}
			ctx.R.Leave()
			f.cancelAt, f.canceled = time.Now(), true
		}
	}
	// wait until every short, uncancelled delay has been served (bounded)
	short := func(d time.Duration) bool { return d <= 40*time.Millisecond }
	deadline := time.Now().Add(4 * time.Second)
	for time.Now().Before(deadline) {
		all := true
		for _, f := range futs {
			if short(f.d) && !f.canceled && atomic.LoadInt32(&f.started) == 0 {
				all = false
			}
		}
		if all {
			break
		}
		time.Sleep(200 * time.Microsecond)
	}
	time.Sleep(3 * time.Millisecond)
	bad := func(name, detail string) { ctx.R.Quiet("mon "+name, detail) }
	for i, f := range futs {
		n := atomic.LoadInt32(&f.started)
		switch {
		case n > 1:
			bad("C12-at-most-once", fmt.Sprintf("the function scheduled with delay %v (no. %d of %v) was started %d times", f.d, i, delays, n))
		case n == 1:
			at := f.startAt.Load().(time.Time)
			if f.d > 0 && at.Sub(f.called) < f.d {
				bad("C12-never-early", fmt.Sprintf("the function scheduled with delay %v (no. %d of %v) was started %v after the call", f.d, i, delays, at.Sub(f.called)))
			}
			if f.canceled && f.d > 5*time.Millisecond && at.After(f.cancelAt) {
				bad("C12-cancelled-never-starts", fmt.Sprintf("the function scheduled with delay %v (no. %d of %v) was cancelled %v after the call and started afterwards", f.d, i, delays, f.cancelAt.Sub(f.called)))
			}
		case n == 0:
			if short(f.d) && !f.canceled {
				bad("C13-every-live-future-fires", fmt.Sprintf("the function scheduled with delay %v (no. %d of %v) was not started within 4 s", f.d, i, delays))
			}
		}
	}
	// tidy up: cancel what is still pending (twice: must be harmless)
	for _, f := range futs {
		if atomic.LoadInt32(&f.started) == 0 {
			ctx.R.Enter()
			f.fu.Cancel()
			f.fu.Cancel()
			ctx.R.Leave()
		}
	}
	ctx.R.Op(fmt.Sprintf("delays %d", len(delays)), "ok")
}

// runTmoBacklog: `busy` callbacks are inside their bodies when k more functions fall due together; then the busy
// ones return.  Each of the k stays in its body until all k have been started (at most 2 s).  k stays below the
// pool's limit of 10 workers, so all of them must be started promptly: the worker that takes an overdue function
// has to bring in help for the rest of the backlog.
func runTmoBacklog(ctx *Ctx, busy, k int) {
	ctx.R.Case(busy + k)
	gate := make(chan struct{})
	var busyStarted, started int32
	all := make(chan struct{})
	var futs []timeout.Future
	for i := 0; i < busy; i++ {
		ctx.R.Enter()
		futs = append(futs, timeout.Call(func() {
			atomic.AddInt32(&busyStarted, 1)
			select {
			case <-gate:
			case <-time.After(5 * time.Second):
			}
		}, 0))
		ctx.R.Leave()
	}
	for i := 0; i < 4000 && atomic.LoadInt32(&busyStarted) < int32(busy); i++ {
		time.Sleep(500 * time.Microsecond)
	}
	if atomic.LoadInt32(&busyStarted) < int32(busy) {
		ctx.R.Quiet("mon C13-every-live-future-fires", fmt.Sprintf("only %d of %d functions scheduled with delay 0 were started within 2 s", atomic.LoadInt32(&busyStarted), busy))
	}
	for i := 0; i < k; i++ {
		ctx.R.Enter()
		futs = append(futs, timeout.Call(func() {
			if atomic.AddInt32(&started, 1) == int32(k) {
				close(all)
			}
			select {
			case <-all:
			case <-time.After(2 * time.Second):
			}
		}, time.Millisecond))
		ctx.R.Leave()
	}
	// the k functions are overdue now; the busy callbacks return (while a worker sits in a callback nobody serves
	// new arrivals — that much lateness the package allows itself); from here on every callback returns as soon as
	// the pool has started the whole backlog, so the whole backlog must be started promptly
	time.Sleep(4 * time.Millisecond)
	close(gate)
	select {
	case <-all:
	case <-time.After(1500 * time.Millisecond):
		ctx.R.Quiet("mon C13-every-live-future-fires", fmt.Sprintf("%d functions were overdue together when %d busy callback(s) returned (the pool allows 10 workers); each stays in its body only until all %d have been started, yet only %d were started within 1.5 s: a worker that takes an overdue function must bring in help for the rest of the backlog", k, busy, k, atomic.LoadInt32(&started)))
	}
	time.Sleep(5 * time.Millisecond)
	for _, f := range futs {
		ctx.R.Enter()
		f.Cancel()
		ctx.R.Leave()
	}
	ctx.R.Nontrivial("backlog behind busy workers")
	ctx.R.Op(fmt.Sprintf("backlog %d %d", busy, k), "ok")
}

// runTmoCancelRunning: Cancel of a future whose function is RUNNING (it stays in its body until the scenario ends),
// issued from another goroutine; meanwhile somebody else schedules and cancels a function of their own.  Whatever
// that Cancel does — it may well wait for the running function — it must not hold up anybody else: the other
// caller's Call and Cancel return at once.
func runTmoCancelRunning(ctx *Ctx) {
	ctx.R.Case(2)
	gate := make(chan struct{})
	started := make(chan struct{})
	ctx.R.Enter()
	a := timeout.Call(func() {
		close(started)
		select {
		case <-gate:
		case <-time.After(5 * time.Second):
		}
	}, 0)
	ctx.R.Leave()
	select {
	case <-started:
	case <-time.After(2 * time.Second):
		ctx.R.Quiet("mon C13-every-live-future-fires", "a function scheduled with delay 0 was not started within 2 s")
		close(gate)
		return
	}
	cancelled := make(chan struct{})
	go func() { a.Cancel(); close(cancelled) }()
	time.Sleep(2 * time.Millisecond)
	other := make(chan struct{})
	go func() {
		b := timeout.Call(func() {}, time.Hour)
		b.Cancel()
		close(other)
	}()
	select {
	case <-other:
	case <-time.After(1500 * time.Millisecond):
		ctx.R.Quiet("mon C12-cancel-touches-nobody-else", "while one goroutine cancels a future whose function is still running, another caller's Call + Cancel of its own function did not return within 1.5 s: the Cancel holds up the whole dispatcher")
	}
	close(gate)
	select {
	case <-cancelled:
	case <-time.After(2 * time.Second):
		ctx.R.Quiet("mon C12-cancel-touches-nobody-else", "Cancel of a future whose function had been running did not return within 2 s after that function returned")
	}
	ctx.R.Nontrivial("cancel of a running function")
	ctx.R.Op("cancel-running", "ok")
}

func runTmoAPI(ctx *Ctx) {
	r := ctx.Rnd
	runTmoCancelRunning(ctx)
	for _, bk := range [][2]int{{1, 3}, {1, 2}, {2, 2}, {2, 4}, {3, 2}, {1, 6}} {
		runTmoBacklog(ctx, bk[0], bk[1])
	}
	never := time.Duration(math.MaxInt64)
	far := []time.Duration{never, never - 1, never - time.Second, 1 << 62, 100 * 365 * 24 * time.Hour, 24 * time.Hour, time.Hour}
	near := []time.Duration{0, -1, -time.Hour, time.Duration(math.MinInt64), 50 * time.Microsecond, time.Millisecond, 2 * time.Millisecond, 5 * time.Millisecond, 10 * time.Millisecond, 20 * time.Millisecond, 30 * time.Millisecond}
	// directed: each far delay alone with a few near ones around it, in both arrival orders
	for _, fd := range far {
		runTmoAPICase(ctx, []time.Duration{fd, 5 * time.Millisecond, 10 * time.Millisecond, 30 * time.Millisecond}, map[int]bool{}, false)
		runTmoAPICase(ctx, []time.Duration{5 * time.Millisecond, fd, time.Millisecond}, map[int]bool{1: true}, true)
		ctx.R.Nontrivial("far delay next to near ones")
	}
	// directed: out-of-order arrivals (a short delay scheduled while the dispatcher sleeps towards distant ones)
	runTmoAPICase(ctx, []time.Duration{10 * time.Millisecond, 200 * time.Millisecond * 100, 20 * time.Millisecond, 40 * time.Millisecond, 300 * time.Second, 310 * time.Second, 5 * time.Millisecond}, map[int]bool{}, false)
	n := 25
	if ctx.Thorough {
		n = 400
	}
	for c := 0; c < n; c++ {
		k := r.Range(1, 12)
		var ds []time.Duration
		cancel := map[int]bool{}
		for i := 0; i < k; i++ {
			if r.Chance(1, 4) {
				ds = append(ds, far[r.Intn(len(far))])
			} else {
				ds = append(ds, near[r.Intn(len(near))])
			}
			if r.Chance(1, 4) {
				cancel[i] = true
			}
		}
		runTmoAPICase(ctx, ds, cancel, r.Chance(1, 2))
		ctx.R.Nontrivial("mixed delays")
	}
}
